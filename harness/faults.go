package main

// Fault-injecting wrappers around the real bank / erc20 / evm keepers. The settlement keeper is
// rebuilt over them and written over *app.SettlementKeeper (a pointer shared by the module
// manager, the message server, the ante handler and the oracle keeper), so /repo is untouched.

import (
	"context"
	"errors"

	sdk "github.com/cosmos/cosmos-sdk/types"
	"github.com/ethereum/go-ethereum/accounts/abi"
	"github.com/ethereum/go-ethereum/common"
	erc20types "github.com/evmos/evmos/v19/x/erc20/types"
	evmtypes "github.com/evmos/evmos/v19/x/evm/types"

	"github.com/settlus/chain/contracts"
	settlementkeeper "github.com/settlus/chain/x/settlement/keeper"
	settlementtypes "github.com/settlus/chain/x/settlement/types"
)

type FaultPlan struct {
	armed bool
	plan  []bool
	pos   int
	Calls int // back-end calls seen while armed
}

func (f *FaultPlan) Arm(plan []bool) { f.armed = true; f.plan = plan; f.pos = 0; f.Calls = 0 }
func (f *FaultPlan) Disarm()         { f.armed = false }

// next reports whether the coming back-end call must fail
func (f *FaultPlan) next() bool {
	if !f.armed {
		return false
	}
	f.Calls++
	if f.pos < len(f.plan) {
		r := f.plan[f.pos]
		f.pos++
		return r
	}
	f.pos++
	return false
}

var errInjected = errors.New("injected backend fault")

type faultBank struct {
	settlementtypes.BankKeeper
	f *FaultPlan
}

func (b faultBank) SendCoins(ctx sdk.Context, from, to sdk.AccAddress, amt sdk.Coins) error {
	if b.f.armed {
		if b.f.next() {
			return errInjected
		}
	}
	return b.BankKeeper.SendCoins(ctx, from, to, amt)
}

type faultErc20 struct {
	settlementtypes.Erc20Keeper
	f *FaultPlan
}

func (k faultErc20) ConvertERC20(goCtx context.Context, msg *erc20types.MsgConvertERC20) (*erc20types.MsgConvertERC20Response, error) {
	if k.f.armed && k.f.next() {
		return nil, errInjected
	}
	return k.Erc20Keeper.ConvertERC20(goCtx, msg)
}

type faultEvm struct {
	settlementtypes.EvmKeeper
	f *FaultPlan
}

func (k faultEvm) CallEVM(ctx sdk.Context, a abi.ABI, from, contract common.Address, commit bool, method string, args ...interface{}) (*evmtypes.MsgEthereumTxResponse, error) {
	if k.f.armed && method == "mint" && k.f.next() {
		return nil, errInjected
	}
	return k.EvmKeeper.CallEVM(ctx, a, from, contract, commit, method, args...)
}

func InstallFaultKeepers(c *Chain) *FaultPlan {
	f := &FaultPlan{}
	a := c.App
	nk := settlementkeeper.NewKeeper(
		a.AppCodec(),
		a.GetKey(settlementtypes.StoreKey),
		a.GetSubspace(settlementtypes.ModuleName),
		a.AccountKeeper,
		faultBank{a.BankKeeper, f},
		faultErc20{a.Erc20Keeper, f},
		faultEvm{a.EvmKeeper, f},
	)
	*a.SettlementKeeper = *nk
	return f
}

func sbtABI() abi.ABI { return contracts.SBTContract.ABI }
