package main

// Function driver for the oracle round arithmetic and the slash-window gate (C08, C15).

import (
	"encoding/json"
	"flag"
	"fmt"
	"math/big"
	"os"
	"path/filepath"
	"strings"

	sdk "github.com/cosmos/cosmos-sdk/types"
	oracletypes "github.com/settlus/chain/x/oracle/types"
)

type ArithCase struct {
	H       int64  `json:"h"`
	P       uint64 `json:"p"`
	W       uint64 `json:"w"`
	MaxMiss uint64 `json:"max_miss"`
}

func u64z(u uint64) string { return cZ(new(big.Int).SetUint64(u)) }

func runArithCmd(args []string) {
	fs := flag.NewFlagSet("arith", flag.ExitOnError)
	n := fs.Int("n", 500, "cases")
	seed := fs.Uint64("seed", 1, "seed")
	out := fs.String("out", "arith.v", "output")
	dir := fs.String("dir", "", "replay dir")
	name := fs.String("name", "cases", "name")
	replay := fs.String("replay", "", "replay files")
	fs.Parse(args)
	r := NewRng(*seed)
	var cases []ArithCase
	if *replay != "" {
		for _, f := range strings.Split(*replay, ",") {
			b, err := os.ReadFile(f)
			if err == nil {
				var c ArithCase
				if json.Unmarshal(b, &c) == nil {
					cases = append(cases, c)
				}
			}
		}
	}
	bigs := []uint64{1<<62 - 1, 1 << 62, 1<<62 + 1, 1<<63 - 1, 1 << 63, 1<<63 + 1, ^uint64(0), ^uint64(0) - 1, 1 << 61, 4611686018427387903, 4611686018427387904}
	for i := 0; i < *n; i++ {
		var c ArithCase
		c.P = uint64(1 + r.Intn(12))
		if r.Chance(8) {
			c.P = bigs[r.Intn(len(bigs))]
		}
		if r.Chance(3) {
			c.P = 0
		}
		k := uint64(1 + r.Intn(8))
		if c.P > 1<<40 && r.Chance(60) {
			k = 1
		}
		c.W = c.P * k
		if r.Chance(10) {
			c.W = uint64(r.Intn(40))
		}
		if r.Chance(3) {
			c.W = bigs[r.Intn(len(bigs))]
		}
		c.MaxMiss = uint64(r.Intn(6))
		if c.W > 1 && r.Chance(70) {
			c.MaxMiss = 1 + uint64(r.Intn(int(min64(c.W-1, 50))))
		}
		// heights: around window boundaries and round boundaries
		base := int64(0)
		if c.W > 0 && c.W < 1<<40 {
			base = int64(c.W) * int64(r.Intn(5))
		}
		c.H = base + int64(r.Intn(int(min64(4*c.P+3, 60)))) - int64(r.Intn(3))
		if c.H < 0 {
			c.H = 0
		}
		if r.Chance(5) {
			c.H = int64(uint64(1)<<62) + int64(r.Intn(1000))
		}
		cases = append(cases, c)
	}
	resetIntern()
	var sb strings.Builder
	nontrivial := 0
	seen := map[string]bool{}
	var samples []string
	var items []string
	for i, c := range cases {
		if *dir != "" {
			b, _ := json.Marshal(c)
			os.WriteFile(filepath.Join(*dir, fmt.Sprintf("hist_%d.json", i)), b, 0o644)
		}
		vp := "None"
		func() {
			defer func() { recover() }()
			pe, ve := oracletypes.CalculateVotePeriod(c.H, c.P)
			vp = fmt.Sprintf("(Some (%s, %s))", cI(pe), cI(ve))
		}()
		rs := "None"
		func() {
			defer func() { recover() }()
			s := oracletypes.CalculateRoundStartHeight(c.H, c.P)
			rs = fmt.Sprintf("(Some %s)", u64z(s))
		}()
		closing := false
		func() {
			defer func() { recover() }()
			closing = oracletypes.IsSlashWindowClosing(c.H, c.P, c.W)
		}()
		params := oracletypes.Params{VotePeriod: c.P, VoteThreshold: sdk.NewDecWithPrec(5, 1), SlashFraction: sdk.NewDecWithPrec(1, 2), SlashWindow: c.W, MaxMissCountPerSlashWindow: c.MaxMiss}
		valid := params.Validate() == nil
		if valid && closing {
			key := fmt.Sprint(c)
			if !seen[key] {
				seen[key] = true
				nontrivial++
			}
		}
		if len(samples) < 2 && valid {
			b, _ := json.Marshal(c)
			samples = append(samples, string(b))
		}
		items = append(items, fmt.Sprintf("mkAC %s %s %s %s %s %s %s %s", cI(c.H), u64z(c.P), u64z(c.W), u64z(c.MaxMiss), vp, rs, cBool(closing), cBool(valid)))
	}
	sb.WriteString("From Coq Require Import String.\nFrom Settlus Require Import Base.Prelude Base.Hex Oracle.Arith Exec.FuncCheck.\nOpen Scope string_scope. Open Scope Z_scope.\n")
	sb.WriteString(internTables())
	fmt.Fprintf(&sb, "Definition %s : list arith_case := [\n %s].\n", *name, strings.Join(items, ";\n "))
	os.WriteFile(*out, []byte(sb.String()), 0o644)
	st := map[string]interface{}{"cases": len(cases), "nontrivial": nontrivial, "samples": samples}
	b, _ := json.MarshalIndent(st, "", " ")
	os.WriteFile(strings.TrimSuffix(*out, ".v")+".stats.json", b, 0o644)
}

func min64(a, b uint64) uint64 {
	if a < b {
		return a
	}
	return b
}
