package main

// Histories of the settlement + oracle family: JSON-serialisable description, executor on the
// real application, and printer of both the history and the observations as Coq terms.

import (
	"crypto/sha256"
	"encoding/hex"
	"encoding/json"
	"fmt"
	stakingkeeper "github.com/cosmos/cosmos-sdk/x/staking/keeper"
	"math/big"
	"os"
	"sort"
	"strings"

	sdk "github.com/cosmos/cosmos-sdk/types"
	"github.com/cosmos/cosmos-sdk/types/query"
	authtypes "github.com/cosmos/cosmos-sdk/x/auth/types"
	distrtypes "github.com/cosmos/cosmos-sdk/x/distribution/types"
	stakingtypes "github.com/cosmos/cosmos-sdk/x/staking/types"
	"github.com/ethereum/go-ethereum/common"

	tmproto "github.com/cometbft/cometbft/proto/tendermint/types"
	ctypes "github.com/settlus/chain/types"
	"github.com/settlus/chain/x/oracle"
	oraclekeeper "github.com/settlus/chain/x/oracle/keeper"
	oracletypes "github.com/settlus/chain/x/oracle/types"
	"github.com/settlus/chain/x/settlement"
	settlementkeeper "github.com/settlus/chain/x/settlement/keeper"
	settlementtypes "github.com/settlus/chain/x/settlement/types"
)

var _ = query.PageRequest{}
var _ = oraclekeeper.Keeper{}

type VD struct {
	Topic   int      `json:"topic"`
	Entries []string `json:"entries"`
}

type Msg struct {
	Kind        string `json:"kind"` // create_tenant create_tenant_mc add_admin remove_admin update_period deposit record cancel prevote vote consent
	Sender      int    `json:"sender,omitempty"`
	Tid         uint64 `json:"tid,omitempty"`
	Admin       int    `json:"admin,omitempty"`
	Denom       string `json:"denom,omitempty"`
	Amount      string `json:"amount,omitempty"`
	Period      uint64 `json:"period,omitempty"`
	Req         string `json:"req,omitempty"` // raw bytes as latin-1 string (hex in JSON below)
	ReqHex      string `json:"req_hex,omitempty"`
	Chain       string `json:"chain,omitempty"`
	Contract    string `json:"contract,omitempty"`
	MetaHex     string `json:"meta_hex,omitempty"` // record: free-form metadata (any bytes), copied into the event only
	Tok         string `json:"tok,omitempty"`
	Feeder      int    `json:"feeder,omitempty"`
	Val         int    `json:"val,omitempty"`
	Commit      string `json:"commit,omitempty"` // the byte string that is hashed into the prevote
	VD          []VD   `json:"vd,omitempty"`
	Salt        string `json:"salt,omitempty"`
	Round       uint64 `json:"round,omitempty"`
	AdminUpper  bool   `json:"admin_upper,omitempty"` // the admin to add / remove is spelled in upper-case bech32
	SenderUpper bool   `json:"sender_upper,omitempty"`
	ValUpper    bool   `json:"val_upper,omitempty"` // the validator of an oracle message is spelled in upper-case bech32 // the sender is spelled in upper-case bech32 (same account, same signature)
}

type Env struct {
	Kind   string `json:"kind"` // bank_send nft_mint nft_transfer jail unjail
	From   int    `json:"from,omitempty"`
	To     int    `json:"to,omitempty"` // account index, or -1-tid for a treasury
	Denom  string `json:"denom,omitempty"`
	Amount string `json:"amount,omitempty"`
	Token  uint64 `json:"token,omitempty"`
	Val    int    `json:"val,omitempty"`
}

type Event struct {
	Kind   string `json:"kind"` // begin tx otx end
	Envs   []Env  `json:"envs,omitempty"`
	Msgs   []Msg  `json:"msgs,omitempty"`
	Faults []bool `json:"faults,omitempty"`
	// begin events only: transactions that are only SIMULATED (baseapp.Simulate: ante handler and messages run on a
	// branch of the state that is thrown away).  They are never delivered and must change nothing: in the model they
	// do not exist at all, so any trace they leave (in keeper memory, package variables, ...) shows up as a disagreement.
	Sims []SimTx `json:"sims,omitempty"`
}

type SimTx struct {
	Oracle bool  `json:"oracle,omitempty"`
	Msgs   []Msg `json:"msgs"`
}

type GenTenant struct {
	Id     uint64 `json:"id"`
	Admins []int  `json:"admins"`
	Denom  string `json:"denom"`
	Period uint64 `json:"period"`
	Method string `json:"method"`
	// token contract of an imported mintable-contract tenant: a genesis file may hold anything here, also nothing
	Contract string `json:"contract,omitempty"`
}
type GenRecip struct {
	Addr   string `json:"addr"` // hex
	Weight uint32 `json:"weight"`
}
type GenUtxr struct {
	Tid      uint64     `json:"tid"`
	Id       uint64     `json:"id"`
	Req      string     `json:"req"`
	Recips   []GenRecip `json:"recips"`
	Denom    string     `json:"denom"`
	Amount   string     `json:"amount"`
	Chain    string     `json:"chain"`
	Contract string     `json:"contract"`
	Tok      string     `json:"tok"`
	Created  uint64     `json:"created"`
}

type HGenesis struct {
	Powers     []int64     `json:"powers"`
	Probono    []string    `json:"probono"`
	NAccts     int         `json:"naccts"`
	VotePeriod uint64      `json:"vote_period"`
	Threshold  string      `json:"threshold"`
	SlashFrac  string      `json:"slash_fraction"`
	Window     uint64      `json:"window"`
	MaxMiss    uint64      `json:"max_miss"`
	Chains     []string    `json:"chains"` // supported external chain ids
	OracleFee  string      `json:"oracle_fee"`
	Tenants    []GenTenant `json:"tenants,omitempty"`
	Utxrs      []GenUtxr   `json:"utxrs,omitempty"`
	Funds      int64       `json:"funds"`                 // per account, of each tenant denom
	BigFunds   bool        `json:"big_funds,omitempty"`   // 10^30 of each tenant denom instead (deposits above 2^63)
	FastUnbond bool        `json:"fast_unbond,omitempty"` // staking unbonding time of one nanosecond: an emptied validator is removed at the next end-block
	Nft        bool        `json:"nft"`                   // deploy the ERC-721 contract in block 1 (from account NAccts-1)
	Erc20      bool        `json:"erc20,omitempty"`       // deploy an ERC-20 contract in block 1 and register it as a token pair: denomination pairDenom
}

type History struct {
	Genesis HGenesis `json:"genesis"`
	Events  []Event  `json:"events"`
	Focal   uint64   `json:"focal,omitempty"` // isolation profile: the tenant whose view is compared (0 = tenant 1)
}

func (h History) FocalTenant() uint64 {
	if h.Focal == 0 {
		return 1
	}
	return h.Focal
}

func (h History) JSON() string {
	b, _ := json.Marshal(h)
	return string(b)
}

var tenantDenoms = []string{"utok", "utwo"}

// pairDenom stands in histories (and in the model) for the coin denomination of the registered ERC-20 token pair,
// "erc20/<contract address>", which is known only once the contract is deployed. A tenant of this denomination is
// paid out through x/erc20's ConvertERC20: its treasury is the treasury address's TOKEN balance.
const pairDenom = "erc20/pair"

var erc20MinterZ = new(big.Int).Sub(two160, big.NewInt(2)) // where the model takes minted tokens from

func (e *Exec) realDenom(d string) string {
	if d == pairDenom && e.erc20Denom != "" {
		return e.erc20Denom
	}
	return d
}
func (e *Exec) histDenom(d string) string {
	if e.erc20Denom != "" && d == e.erc20Denom {
		return pairDenom
	}
	return d
}

// ---------- execution ----------

type ValSnap struct {
	Addr   *big.Int
	Tokens *big.Int
	Bonded bool
	Jailed bool
	Rate   *big.Int // Dec raw
}

type UtxrSnap struct {
	Tid, Id  uint64
	Req      []byte
	Recips   []GenRecipSnap
	Denom    string
	Amount   *big.Int
	Chain    string
	Contract *big.Int
	Token    *big.Int
	Created  uint64
}
type GenRecipSnap struct {
	Addr   *big.Int
	Weight uint32
}
type TenantSnap struct {
	Id     uint64
	Admins []*big.Int
	Denom  string
	Period uint64
	Method int
}
type RoundSnap struct {
	Present    bool
	Id         uint64
	PrevoteEnd int64
	VoteEnd    int64
	Sources    []string
}
type Snapshot struct {
	Height     int64
	Tenants    []TenantSnap
	Utxrs      []UtxrSnap
	Idx        [][3]string // (tid, reqhex, uid or "none") for every request id ever used: raw index presence
	Lookup     [][3]string // (tid, reqhex, uid or "none") through GetUTXRByRequestId
	Bals       [][3]string // (addr dec, asset, amount)
	Round      RoundSnap
	Prevotes   [][2]string // (val addr dec, hash)
	Votes      []VoteSnap
	Deleg      [][2]string
	Miss       [][2]string
	Vals       []ValSnap
	Pool       [][2]string // denom, amount
	OwedDelta  [][2]string // denom, Dec raw delta of (outstanding + community pool) over this end-block
	OwedVal    [][3]string // validator, denom, Dec raw delta of its outstanding rewards over this end-block
	OwedComm   [][2]string // denom, Dec raw delta of the community pool over this end-block
	BooksMixed bool        // x/staking removed a validator in this end-block: the distribution hook moved its rewards in the same call
	Invariant  string      // first broken crisis invariant, "" if all hold
	AppHash    string
}
type VoteSnap struct {
	Val *big.Int
	VD  []VD
}

type Obs struct {
	Kind   string // begin tx end
	Class  string // ok rejected panic
	Log    string
	Snap   *Snapshot
	EnvCoq []string
	Events []string // typed settlement events in order: "record:t:u" "settled:t:u" "cancel:t:u" "setrecipients:t:u"
	Gas    int64
}

type Exec struct {
	C          *Chain
	H          History
	reqs       map[string]bool // "tid|reqhex"
	reqList    [][2]string
	tracked    map[string]bool
	trackLst   [][2]string // addr dec, asset
	sbt        map[uint64]common.Address
	commits    map[string]string // hash -> commit (hex)
	faulty     *FaultPlan
	nftOwner   Acct
	erc20Addr  common.Address
	erc20Denom string
	nextTok    uint64
	gasPrices  []sdk.DecCoin
	oracleFee  sdk.Dec
	IsoDiff    []int // events of the full history at which tenant 1's view differs from the run without the other tenants
	RT         *RoundtripObs
	HashDiff   []int // events after which a second execution of the same history committed another app hash
}

func addrInt(a []byte) *big.Int { return new(big.Int).SetBytes(a) }

func (h HGenesis) spec() GenesisSpec {
	op := oracletypes.DefaultParams()
	op.VotePeriod = h.VotePeriod
	if h.Threshold != "" {
		op.VoteThreshold = sdk.MustNewDecFromStr(h.Threshold)
	}
	if h.SlashFrac != "" {
		op.SlashFraction = sdk.MustNewDecFromStr(h.SlashFrac)
	}
	op.SlashWindow = h.Window
	op.MaxMissCountPerSlashWindow = h.MaxMiss
	sp := settlementtypes.DefaultParams()
	sp.SupportedChains = nil
	for i, c := range h.Chains {
		sp.SupportedChains = append(sp.SupportedChains, &ctypes.Chain{ChainId: c, ChainName: fmt.Sprintf("chain%d", i), ChainUrl: "http://x"})
	}
	if h.OracleFee != "" {
		sp.OracleFeePercentage = sdk.MustNewDecFromStr(h.OracleFee)
	}
	var vals []ValSpec
	for i, p := range h.Powers {
		pb := ""
		if i < len(h.Probono) {
			pb = h.Probono[i]
		}
		vals = append(vals, ValSpec{Power: p, Probono: pb})
	}
	funds := DefaultFunds()
	if h.Funds > 0 {
		big27, _ := sdk.NewIntFromString("1000000000000000000000000000")
		funds = sdk.NewCoins(sdk.NewCoin("asetl", big27), sdk.NewCoin("uusdc", big27), sdk.NewCoin("setl", big27))
		for _, d := range tenantDenoms {
			amt := sdk.NewInt(h.Funds)
			if h.BigFunds {
				amt, _ = sdk.NewIntFromString("1000000000000000000000000000000")
			}
			funds = funds.Add(sdk.NewCoin(d, amt))
		}
	}
	g := GenesisSpec{Vals: vals, NAccts: h.NAccts, Oracle: op, Settlement: sp, Funds: funds, FastUnbond: h.FastUnbond}
	for _, t := range h.Tenants {
		var admins []string
		for _, a := range t.Admins {
			admins = append(admins, MakeAcct(a).Bech())
		}
		g.Tenants = append(g.Tenants, settlementtypes.Tenant{Id: t.Id, Admins: admins, Denom: t.Denom, PayoutPeriod: t.Period, PayoutMethod: t.Method, ContractAddress: t.Contract})
	}
	for _, u := range h.Utxrs {
		var rs []*settlementtypes.Recipient
		for _, r := range u.Recips {
			rs = append(rs, &settlementtypes.Recipient{Address: ctypes.NormalizeHexAddress(r.Addr), Weight: r.Weight})
		}
		amt, _ := sdk.NewIntFromString(u.Amount)
		g.Utxrs = append(g.Utxrs, settlementtypes.UTXRWithTenantAndId{TenantId: u.Tid, Id: u.Id, Utxr: settlementtypes.UTXR{
			RequestId: u.Req, Recipients: rs, Amount: sdk.Coin{Denom: u.Denom, Amount: amt},
			Nft:       &ctypes.Nft{ChainId: u.Chain, ContractAddr: ctypes.NormalizeHexAddress(u.Contract), TokenId: ctypes.NormalizeHexAddress(u.Tok)},
			CreatedAt: u.Created}})
	}
	return g
}

func NewExec(h History) (*Exec, *PanicInfo) {
	c, pi := NewChain(h.Genesis.spec())
	e := &Exec{C: c, H: h, reqs: map[string]bool{}, tracked: map[string]bool{}, sbt: map[uint64]common.Address{}, commits: map[string]string{}}
	if pi != nil {
		return e, pi
	}
	e.faulty = InstallFaultKeepers(c)
	sp := c.App.SettlementKeeper.GetParams(c.Ctx())
	for _, gp := range sp.GasPrices {
		e.gasPrices = append(e.gasPrices, sdk.NormalizeDecCoin(gp))
	}
	e.oracleFee = sp.OracleFeePercentage
	e.nftOwner = c.Accts[len(c.Accts)-1]
	for _, u := range h.Genesis.Utxrs {
		e.noteReq(u.Tid, []byte(u.Req))
		for _, r := range u.Recips {
			e.track(addrInt(common.HexToAddress(r.Addr).Bytes()), u.Denom)
		}
	}
	for _, t := range h.Genesis.Tenants {
		for _, d := range tenantDenoms {
			e.trackTreasury(t.Id, d)
		}
	}
	for i := range c.Accts {
		for _, d := range tenantDenoms {
			e.track(addrInt(c.Accts[i].Addr), d)
		}
	}
	return e, nil
}

func (e *Exec) noteReq(tid uint64, req []byte) {
	k := fmt.Sprintf("%d|%x", tid, req)
	if !e.reqs[k] {
		e.reqs[k] = true
		e.reqList = append(e.reqList, [2]string{fmt.Sprint(tid), hex.EncodeToString(req)})
	}
}
func (e *Exec) track(addr *big.Int, asset string) {
	k := addr.String() + "|" + asset
	if !e.tracked[k] {
		e.tracked[k] = true
		e.trackLst = append(e.trackLst, [2]string{addr.String(), asset})
	}
}

var two160 = new(big.Int).Lsh(big.NewInt(1), 160)

func treasuryInt(tid uint64) *big.Int {
	return new(big.Int).Add(two160, new(big.Int).SetUint64(tid))
}
func (e *Exec) trackTreasury(tid uint64, denom string) { e.track(treasuryInt(tid), denom) }

func metaString(m Msg) string {
	b, _ := hex.DecodeString(m.MetaHex)
	return string(b)
}

func reqBytes(m Msg) []byte {
	if m.ReqHex != "" {
		b, _ := hex.DecodeString(m.ReqHex)
		return b
	}
	return []byte(m.Req)
}

func (e *Exec) toSdkMsg(m Msg) sdk.Msg {
	c := e.C
	acct := func(i int) Acct {
		if i >= 0 && i < len(c.Accts) {
			return c.Accts[i]
		}
		return MakeAcct(i)
	}
	amt := func() sdk.Int {
		a, ok := sdk.NewIntFromString(m.Amount)
		if !ok {
			return sdk.ZeroInt()
		}
		return a
	}
	snd := func() string {
		if m.SenderUpper {
			return strings.ToUpper(acct(m.Sender).Bech())
		}
		return acct(m.Sender).Bech()
	}
	adm := func() string {
		if m.AdminUpper {
			return strings.ToUpper(acct(m.Admin).Bech())
		}
		return acct(m.Admin).Bech()
	}
	val := func() string {
		if m.ValUpper {
			return strings.ToUpper(acct(m.Val).Val().String())
		}
		return acct(m.Val).Val().String()
	}
	switch m.Kind {
	case "create_tenant":
		return settlementtypes.NewMsgCreateTenant(snd(), e.realDenom(m.Denom), m.Period)
	case "create_tenant_mc":
		return settlementtypes.NewMsgCreateTenantWithMintableContract(acct(m.Sender).Bech(), m.Denom, m.Period, m.Contract)
	case "add_admin":
		return settlementtypes.NewMsgAddTenantAdmin(snd(), m.Tid, adm())
	case "remove_admin":
		return settlementtypes.NewMsgRemoveTenantAdmin(snd(), m.Tid, adm())
	case "update_period":
		return settlementtypes.NewMsgUpdateTenantPayoutPeriod(snd(), m.Tid, m.Period)
	case "deposit":
		return settlementtypes.NewMsgDepositToTreasury(acct(m.Sender).Bech(), m.Tid, sdk.Coin{Denom: e.realDenom(m.Denom), Amount: amt()})
	case "record":
		e.noteReq(m.Tid, reqBytes(m))
		return settlementtypes.NewMsgRecord(acct(m.Sender).Bech(), m.Tid, string(reqBytes(m)), sdk.Coin{Denom: e.realDenom(m.Denom), Amount: amt()}, m.Chain, m.Contract, m.Tok, metaString(m))
	case "cancel":
		e.noteReq(m.Tid, reqBytes(m))
		return settlementtypes.NewMsgCancel(snd(), m.Tid, string(reqBytes(m)))
	case "prevote":
		sum := sha256.Sum256([]byte(m.Commit))
		hash := fmt.Sprintf("%X", sum[:])
		e.commits[hash] = m.Commit
		return oracletypes.NewMsgPrevote(acct(m.Feeder).Bech(), val(), hash, m.Round)
	case "vote":
		var vds []*oracletypes.VoteData
		for _, v := range m.VD {
			vds = append(vds, &oracletypes.VoteData{Topic: oracletypes.OracleTopic(v.Topic), Data: v.Entries})
		}
		return oracletypes.NewMsgVote(acct(m.Feeder).Bech(), val(), vds, m.Salt, m.Round)
	case "consent":
		return oracletypes.NewMsgFeederDelegationConsent(val(), acct(m.Feeder).Bech())
	}
	panic("unknown msg kind " + m.Kind)
}

func settlementFee(msgs []Msg) (sdk.Coins, uint64) {
	gas := uint64(0)
	for _, m := range msgs {
		gas += 10000
		if m.Kind == "create_tenant" || m.Kind == "create_tenant_mc" {
			gas += 1000000000000
		}
	}
	return sdk.NewCoins(sdk.NewCoin("uusdc", sdk.NewIntFromUint64(gas))), gas + 5000000
}

func (e *Exec) applyEnv(v Env) (string, error) {
	c := e.C
	switch v.Kind {
	case "bank_send":
		amt, _ := sdk.NewIntFromString(v.Amount)
		var to sdk.AccAddress
		if v.To < 0 {
			tid := uint64(-1 - v.To)
			to = settlementtypes.GetTenantTreasuryAccount(tid)
			e.trackTreasury(tid, v.Denom)
		} else {
			to = c.Accts[v.To].Addr
		}
		e.track(addrInt(c.Accts[v.From].Addr), v.Denom)
		toZ := ""
		if v.To < 0 {
			toZ = cZ(treasuryInt(uint64(-1 - v.To)))
		} else {
			toZ = e.acctZ(v.To)
			e.track(addrInt(c.Accts[v.To].Addr), v.Denom)
		}
		coq := fmt.Sprintf("ES (EnvBankSend %s %s %s %s)", e.acctZ(v.From), toZ, cStr(v.Denom), cZ(amt.BigInt()))
		if !amt.IsPositive() {
			return coq, nil
		}
		err := c.App.BankKeeper.SendCoins(c.Ctx(), c.Accts[v.From].Addr, to, sdk.NewCoins(sdk.NewCoin(v.Denom, amt)))
		return coq, err
	case "pool_fund":
		// an inflow into the oracle reward pool of arbitrary size, through the call the fee decorator uses
		// (SendCoinsFromAccountToModule; a plain SendCoins would create a base account at the module address)
		amt, _ := sdk.NewIntFromString(v.Amount)
		if !amt.IsPositive() {
			return "", nil
		}
		from := c.Accts[v.From].Addr
		if c.App.BankKeeper.GetBalance(c.Ctx(), from, v.Denom).Amount.LT(amt) {
			return "", nil
		}
		pool := authtypes.NewModuleAddress(oracletypes.ModuleName)
		if err := c.App.BankKeeper.SendCoinsFromAccountToModule(c.Ctx(), from, oracletypes.ModuleName, sdk.NewCoins(sdk.NewCoin(v.Denom, amt))); err != nil {
			return "", err
		}
		// in the model the oracle's pool grows; the sender pays in a base denomination that the settlement model
		// does not hold among its balances (only tenant denominations are compared)
		_ = pool
		return fmt.Sprintf("EO (EnvPoolFund %s %s)", cStr(v.Denom), cZ(amt.BigInt())), nil
	case "erc20_mint":
		// tokens minted to a tenant's treasury (the tenant sells something for tokens); in the model a transfer
		// from an inexhaustible minter account
		amt, _ := sdk.NewIntFromString(v.Amount)
		tid := uint64(-1 - v.To)
		e.trackTreasury(tid, pairDenom)
		coq := fmt.Sprintf("ES (EnvBankSend %s %s %s %s)", cZ(erc20MinterZ), cZ(treasuryInt(tid)), cStr(pairDenom), cZ(amt.BigInt()))
		if !amt.IsPositive() {
			return coq, nil
		}
		to := common.BytesToAddress(settlementtypes.GetTenantTreasuryAccount(tid).Bytes())
		return coq, c.MintERC20(e.nftOwner, e.erc20Addr, to, amt.BigInt())
	case "nft_mint":
		tok := e.nextTok
		if err := c.MintNFT(e.nftOwner, c.NftAddr, c.Accts[v.To].Hex()); err != nil {
			return "", err
		}
		e.nextTok++
		return fmt.Sprintf("ES (EnvNftSet %s %d %s)", cZ(addrInt(c.NftAddr.Bytes())), tok, e.acctZ(v.To)), nil
	case "nft_transfer":
		if err := c.TransferNFT(c.Accts[v.From].Hex(), c.NftAddr, c.Accts[v.To].Hex(), new(big.Int).SetUint64(v.Token)); err != nil {
			return "", err
		}
		return fmt.Sprintf("ES (EnvNftSet %s %d %s)", cZ(addrInt(c.NftAddr.Bytes())), v.Token, e.acctZ(v.To)), nil
	case "undelegate":
		// the operator takes (part of) its self-delegation back through the staking message server
		val, ok := c.App.StakingKeeper.GetValidator(c.Ctx(), c.Accts[v.Val].Val())
		if !ok {
			return "", fmt.Errorf("no validator")
		}
		amt, _ := new(big.Int).SetString(v.Amount, 10)
		if amt == nil || amt.Sign() <= 0 || amt.Cmp(val.Tokens.BigInt()) > 0 {
			amt = val.Tokens.BigInt()
		}
		wasJailed := val.Jailed
		cctx, write := c.Ctx().CacheContext()
		_, err := stakingkeeper.NewMsgServerImpl(c.App.StakingKeeper).Undelegate(cctx, &stakingtypes.MsgUndelegate{
			DelegatorAddress: sdk.AccAddress(c.Accts[v.Val].Addr).String(), ValidatorAddress: c.Accts[v.Val].Val().String(),
			Amount: sdk.NewCoin(c.App.StakingKeeper.BondDenom(c.Ctx()), sdk.NewIntFromBigInt(amt))})
		if err != nil {
			return "", err
		}
		write()
		out := ""
		if after, ok := c.App.StakingKeeper.GetValidator(c.Ctx(), c.Accts[v.Val].Val()); ok {
			out = fmt.Sprintf("EO (EnvSetTokens %s %s)", e.acctZ(v.Val), cZ(after.Tokens.BigInt()))
			if after.Jailed && !wasJailed {
				out += "; " + fmt.Sprintf("EO (EnvJail %s)", e.acctZ(v.Val))
			}
		} else {
			out = fmt.Sprintf("EO (EnvSetTokens %s 0); EO (EnvJail %s)", e.acctZ(v.Val), e.acctZ(v.Val))
		}
		return out, nil
	case "jail", "unjail":
		val, ok := c.App.StakingKeeper.GetValidator(c.Ctx(), c.Accts[v.Val].Val())
		if !ok {
			return "", fmt.Errorf("no validator")
		}
		cons, _ := val.GetConsAddr()
		if v.Kind == "jail" {
			if !val.Jailed {
				c.App.StakingKeeper.Jail(c.Ctx(), cons)
			}
			return fmt.Sprintf("EO (EnvJail %s)", e.acctZ(v.Val)), nil
		}
		if val.Jailed {
			c.App.StakingKeeper.Unjail(c.Ctx(), cons)
		}
		return fmt.Sprintf("EO (EnvUnjail %s)", e.acctZ(v.Val)), nil
	}
	return "", fmt.Errorf("unknown env %s", v.Kind)
}

type Owed struct {
	Tot  map[string]*big.Int            // denom -> outstanding + community pool (Dec raw)
	Val  map[string]map[string]*big.Int // validator (address as decimal) -> denom -> outstanding (Dec raw)
	Comm map[string]*big.Int            // denom -> community pool (Dec raw)
}

func (e *Exec) owedTotals() Owed {
	ctx := e.C.Ctx()
	o := Owed{Tot: map[string]*big.Int{}, Val: map[string]map[string]*big.Int{}, Comm: map[string]*big.Int{}}
	add := func(m map[string]*big.Int, dcs sdk.DecCoins) {
		for _, dc := range dcs {
			if m[dc.Denom] == nil {
				m[dc.Denom] = new(big.Int)
			}
			m[dc.Denom].Add(m[dc.Denom], dc.Amount.BigInt())
		}
	}
	e.C.App.DistrKeeper.IterateValidatorOutstandingRewards(ctx, func(v sdk.ValAddress, r distrtypes.ValidatorOutstandingRewards) bool {
		add(o.Tot, r.Rewards)
		k := addrInt(v).String()
		if o.Val[k] == nil {
			o.Val[k] = map[string]*big.Int{}
		}
		add(o.Val[k], r.Rewards)
		return false
	})
	cp := e.C.App.DistrKeeper.GetFeePool(ctx).CommunityPool
	add(o.Tot, cp)
	add(o.Comm, cp)
	return o
}

func deltaPairs(before, after map[string]*big.Int) [][2]string {
	var out [][2]string
	for d, a := range after {
		b := before[d]
		if b == nil {
			b = new(big.Int)
		}
		delta := new(big.Int).Sub(a, b)
		if delta.Sign() != 0 {
			out = append(out, [2]string{d, delta.String()})
		}
	}
	sort.Slice(out, func(i, j int) bool { return out[i][0] < out[j][0] })
	return out
}

// Run executes the history and returns one observation per event.
func (e *Exec) Run() []Obs {
	var out []Obs
	c := e.C
	dead := false
	for _, ev := range e.H.Events {
		if dead {
			out = append(out, Obs{Kind: ev.Kind, Class: "dead"})
			continue
		}
		switch ev.Kind {
		case "begin":
			if pi := c.Begin(); pi != nil {
				out = append(out, Obs{Kind: "begin", Class: "panic", Log: pi.Msg})
				dead = true
				continue
			}
			if c.Height == 1 && e.H.Genesis.Nft {
				if _, err := c.DeployNFT(e.nftOwner); err != nil {
					panic(fmt.Sprintf("deploy nft: %v", err))
				}
			}
			if c.Height == 1 && e.H.Genesis.Erc20 {
				addr, denom, err := c.DeployAndRegisterERC20(e.nftOwner)
				if err != nil {
					panic(fmt.Sprintf("deploy erc20: %v", err))
				}
				e.erc20Addr, e.erc20Denom = addr, denom
			}
			log := ""
			var applied []string
			for _, v := range ev.Envs {
				coq, err := e.applyEnv(v)
				if err != nil {
					log += v.Kind + ": " + err.Error() + "; "
				}
				if coq != "" {
					applied = append(applied, coq)
				}
			}
			for _, sim := range ev.Sims {
				var msgs []sdk.Msg
				for _, m := range sim.Msgs {
					msgs = append(msgs, e.toSdkMsg(m))
				}
				ts := TxSpec{Msgs: msgs, Gas: 300000}
				if !sim.Oracle {
					ts.Fee, ts.Gas = settlementFee(sim.Msgs)
				}
				if serr := c.Simulate(ts); serr != "" {
					log += "sim: " + serr + "; "
				}
			}
			out = append(out, Obs{Kind: "begin", Class: "ok", Log: log, EnvCoq: applied})
		case "tx", "otx":
			var msgs []sdk.Msg
			for _, m := range ev.Msgs {
				msgs = append(msgs, e.toSdkMsg(m))
			}
			ts := TxSpec{Msgs: msgs, Gas: 300000}
			if ev.Kind == "tx" {
				ts.Fee, ts.Gas = settlementFee(ev.Msgs)
			}
			r := c.Deliver(ts)
			o := Obs{Kind: "tx", Class: r.Class(), Log: r.Log, Gas: r.GasUsed}
			if r.Class() == "panic" && os.Getenv("VERIF_DEBUG") != "" {
				fmt.Fprintf(os.Stderr, "TX-PANIC %s\n", r.Log)
			}
			if r.Class() == "rejected" && os.Getenv("VERIF_DEBUG") == "2" {
				fmt.Fprintf(os.Stderr, "TX-REJECTED event=%d %s\n", len(out), r.Log)
			}
			if r.Class() == "ok" {
				for _, x := range r.Events {
					switch {
					case strings.HasSuffix(x.Type, ".EventRecord"):
						o.Events = append(o.Events, "record:"+unq(attr(x, "tenant"))+":"+unq(attr(x, "utxr_id")))
					case strings.HasSuffix(x.Type, ".EventCancel"):
						o.Events = append(o.Events, "cancel:"+unq(attr(x, "tenant"))+":"+unq(attr(x, "utxr_id")))
					}
				}
			}
			out = append(out, o)
		case "end":
			before := e.owedTotals()
			e.faulty.Arm(ev.Faults)
			res, pi := c.End()
			e.faulty.Disarm()
			if pi != nil {
				out = append(out, Obs{Kind: "end", Class: "panic", Log: pi.Msg})
				dead = true
				continue
			}
			var evs []string
			for _, x := range res.Events {
				switch {
				case strings.HasSuffix(x.Type, "EventSettled"):
					evs = append(evs, "settled:"+unq(attr(x, "tenant"))+":"+unq(attr(x, "utxr_id")))
				case strings.HasSuffix(x.Type, ".EventCancel"):
					evs = append(evs, "cancel:"+unq(attr(x, "tenant"))+":"+unq(attr(x, "utxr_id")))
				case strings.HasSuffix(x.Type, "EventSetRecipients"):
					evs = append(evs, "setrecipients:"+unq(attr(x, "tenant"))+":"+unq(attr(x, "utxr_id")))
				}
			}
			after := e.owedTotals()
			snap := e.snapshot()
			snap.OwedDelta = deltaPairs(before.Tot, after.Tot)
			snap.OwedComm = deltaPairs(before.Comm, after.Comm)
			for k := range before.Val {
				if _, still := after.Val[k]; !still {
					snap.BooksMixed = true
				}
			}
			var vks []string
			for k := range after.Val {
				vks = append(vks, k)
			}
			sort.Strings(vks)
			for _, k := range vks {
				for _, p := range deltaPairs(before.Val[k], after.Val[k]) {
					snap.OwedVal = append(snap.OwedVal, [3]string{k, p[0], p[1]})
				}
			}
			// all registered invariants, evaluated on the state that is about to be committed
			func() {
				defer func() {
					if r := recover(); r != nil {
						snap.Invariant = fmt.Sprint(r)
					}
				}()
				c.App.CrisisKeeper.AssertInvariants(c.Ctx())
			}()
			snap.AppHash = fmt.Sprintf("%x", c.Commit())
			out = append(out, Obs{Kind: "end", Class: "ok", Snap: snap, Events: evs})
		}
	}
	return out
}

// RoundtripObs is what the genesis export / import round trip observed (C17).
type RoundtripObs struct {
	Class      string // ok | panic (InitChain of the fresh application panicked) | rejected (export failed)
	Log        string
	Snap       *Snapshot  // module state of the fresh application right after InitChain
	SameExport bool       // both modules' ExportGenesis JSON identical before and after
	Probes     []ProbeObs // oracle transactions delivered in the first block of the restarted chain
}

type ProbeObs struct {
	Msg   Msg
	Class string
}

func (e *Exec) moduleExports(c *Chain, ctx sdk.Context) (string, string) {
	sg := settlement.ExportGenesis(ctx, c.App.SettlementKeeper)
	og := oracle.ExportGenesis(ctx, *c.App.OracleKeeper)
	cdc := c.App.AppCodec()
	return string(cdc.MustMarshalJSON(sg)), string(cdc.MustMarshalJSON(og))
}

// Roundtrip exports the whole application state of the (committed) chain, initialises a fresh
// application from it at the next height and observes the two modules there.
func (e *Exec) Roundtrip() (ro *RoundtripObs) {
	c := e.C
	ro = &RoundtripObs{}
	defer func() {
		if r := recover(); r != nil {
			ro.Class = "rejected"
			ro.Log = fmt.Sprint("export: ", r)
		}
	}()
	if c.App.StakingKeeper.GetLastTotalPower(c.App.NewContext(true, tmproto.Header{Height: c.App.LastBlockHeight()})).IsZero() {
		// every validator is jailed or has left (the oracle slashed them, they took their stake back): such a chain has
		// halted, and InitChain refuses a genesis without a validator set - there is nothing to round-trip
		return nil
	}
	exp, err := c.App.ExportAppStateAndValidators(false, nil, nil)
	if err != nil {
		ro.Class = "rejected"
		ro.Log = err.Error()
		return ro
	}
	ctx1 := c.App.NewContext(true, tmproto.Header{Height: c.App.LastBlockHeight()})
	s1, o1 := e.moduleExports(c, ctx1)
	var raw map[string]json.RawMessage
	if err := json.Unmarshal(exp.AppState, &raw); err != nil {
		ro.Class = "rejected"
		ro.Log = err.Error()
		return ro
	}
	spec := c.Spec
	spec.RawState = raw
	spec.InitialHeight = exp.Height
	c2, pi := NewChain(spec)
	if pi != nil {
		if os.Getenv("VERIF_DEBUG") != "" {
			fmt.Fprintf(os.Stderr, "STAKING-GENESIS %s\n", string(raw["staking"]))
		}
		ro.Class = "panic"
		ro.Log = pi.Msg
		return ro
	}
	c2.header = tmproto.Header{ChainID: ChainID, Height: exp.Height, Time: c.Time}
	e2 := &Exec{C: c2, H: e.H, reqs: e.reqs, reqList: e.reqList, tracked: e.tracked, trackLst: e.trackLst, sbt: e.sbt, commits: e.commits}
	ro.Snap = e2.snapshot()
	ro.Snap.Height = c.Height
	s2, o2 := e.moduleExports(c2, c2.Ctx())
	ro.SameExport = s1 == s2 && o1 == o2
	if !ro.SameExport {
		ro.Log = "settlement before: " + s1 + "\nsettlement after: " + s2 + "\noracle before: " + o1 + "\noracle after: " + o2
	}
	ro.Class = "ok"
	// the first block of the restarted chain: prevotes of validator 0 for the round of that block, for the round before
	// and for the round after it.  Whatever the alignment of the restart height with the rounds, the chain must treat
	// them like an uninterrupted chain would at that height.
	if len(e.H.Genesis.Powers) > 0 {
		func() {
			defer func() {
				if r := recover(); r != nil {
					ro.Log += fmt.Sprint("restart block: ", r)
				}
			}()
			if pi := c2.Begin(); pi != nil {
				ro.Log += "restart begin: " + pi.Msg
				return
			}
			p := int64(e.H.Genesis.VotePeriod)
			h := c2.Height
			start := h - h%(2*p)
			for _, rid := range []int64{start, start + 2*p, start - 2*p} {
				if rid < 0 {
					continue
				}
				m := Msg{Kind: "prevote", Feeder: 0, Val: 0, Commit: "C0FFEE", Round: uint64(rid)}
				r := c2.Deliver(TxSpec{Msgs: []sdk.Msg{e2.toSdkMsg(m)}, Gas: 300000})
				ro.Probes = append(ro.Probes, ProbeObs{Msg: m, Class: r.Class()})
			}
		}()
	}
	return ro
}

// queryDisagreement: 0 = the query server agrees with the store; 1 paged record list, 2 by-request-id lookup,
// 3 tenant list, 4 single tenant / treasury balance
func (e *Exec) queryDisagreement(ctx sdk.Context, s *Snapshot) (kind int) {
	defer func() {
		if r := recover(); r != nil {
			kind = 9
		}
	}()
	c := e.C
	sk := c.App.SettlementKeeper
	goctx := sdk.WrapSDKContext(ctx)
	// tenants, paged
	var tenants []settlementtypes.TenantWithTreasury
	var key []byte
	for page := 0; page < 1000; page++ {
		res, err := sk.Tenants(goctx, &settlementtypes.QueryTenantsRequest{Pagination: &query.PageRequest{Key: key, Limit: 2}})
		if err != nil {
			return 3
		}
		tenants = append(tenants, res.Tenants...)
		if res.Pagination == nil || len(res.Pagination.NextKey) == 0 {
			break
		}
		key = res.Pagination.NextKey
	}
	stored := sk.GetAllTenants(ctx)
	if len(tenants) != len(stored) {
		return 3
	}
	for i, t := range stored {
		q := tenants[i].Tenant
		if q == nil || q.Id != t.Id || q.Denom != t.Denom || q.PayoutPeriod != t.PayoutPeriod || q.PayoutMethod != t.PayoutMethod ||
			strings.Join(q.Admins, ",") != strings.Join(t.Admins, ",") {
			return 3
		}
		one, err := sk.Tenant(goctx, &settlementtypes.QueryTenantRequest{TenantId: t.Id})
		if err != nil || one.Tenant.Tenant == nil || one.Tenant.Tenant.Id != t.Id || one.Tenant.Treasury == nil ||
			one.Tenant.Treasury.Address != settlementtypes.GetTenantTreasuryAccount(t.Id).String() {
			return 4
		}
		if t.PayoutMethod == settlementtypes.PayoutMethod_Native {
			bal := c.App.BankKeeper.SpendableCoins(ctx, settlementtypes.GetTenantTreasuryAccount(t.Id)).AmountOf(t.Denom)
			if one.Tenant.Treasury.Balance == nil || !one.Tenant.Treasury.Balance.Amount.Equal(bal) || one.Tenant.Treasury.Balance.Denom != t.Denom {
				return 4
			}
		}
		// the tenant's records, paged
		var listed []settlementtypes.UTXR
		key = nil
		for page := 0; page < 100000; page++ {
			res, err := sk.UTXRs(goctx, &settlementtypes.QueryUTXRsRequest{TenantId: t.Id, Pagination: &query.PageRequest{Key: key, Limit: 3}})
			if err != nil {
				return 1
			}
			listed = append(listed, res.Utxrs...)
			if res.Pagination == nil || len(res.Pagination.NextKey) == 0 {
				break
			}
			key = res.Pagination.NextKey
		}
		var own []settlementtypes.UTXR
		for _, u := range sk.GetAllUTXRWithTenantAndID(ctx) {
			if u.TenantId == t.Id {
				own = append(own, u.Utxr)
			}
		}
		if len(listed) != len(own) {
			return 1
		}
		for j := range own {
			if own[j].String() != listed[j].String() {
				return 1
			}
		}
	}
	// by-request-id lookups through the query server
	for _, rq := range e.reqList {
		var tid uint64
		fmt.Sscan(rq[0], &tid)
		req, _ := hex.DecodeString(rq[1])
		direct := sk.GetUTXRByRequestId(ctx, tid, string(req))
		res, err := sk.UTXR(goctx, &settlementtypes.QueryUTXRRRequest{TenantId: tid, RequestId: string(req)})
		if (direct == nil) != (err != nil) {
			return 2
		}
		if direct != nil && direct.String() != res.Utxr.String() {
			return 2
		}
	}
	return 0
}

func oracleQueryDisagreement(c *Chain, ctx sdk.Context, nvals int) (bad bool) {
	defer func() {
		if r := recover(); r != nil {
			bad = true
		}
	}()
	ok := c.App.OracleKeeper
	goctx := sdk.WrapSDKContext(ctx)
	// paged lists (2 per page)
	var pv []*oracletypes.AggregatePrevote
	var key []byte
	for page := 0; page < 10000; page++ {
		res, err := ok.AggregatePrevotes(goctx, &oracletypes.QueryAggregatePrevotesRequest{Pagination: &query.PageRequest{Key: key, Limit: 2}})
		if err != nil {
			return true
		}
		pv = append(pv, res.AggregatePrevotes...)
		if res.Pagination == nil || len(res.Pagination.NextKey) == 0 {
			break
		}
		key = res.Pagination.NextKey
	}
	stored := ok.GetAggregatePrevotes(ctx)
	if len(pv) != len(stored) {
		return true
	}
	for i := range stored {
		if pv[i].String() != stored[i].String() {
			return true
		}
	}
	var vs []*oracletypes.AggregateVote
	key = nil
	for page := 0; page < 10000; page++ {
		res, err := ok.AggregateVotes(goctx, &oracletypes.QueryAggregateVotesRequest{Pagination: &query.PageRequest{Key: key, Limit: 2}})
		if err != nil {
			return true
		}
		vs = append(vs, res.AggregateVotes...)
		if res.Pagination == nil || len(res.Pagination.NextKey) == 0 {
			break
		}
		key = res.Pagination.NextKey
	}
	storedV := ok.GetAggregateVotes(ctx)
	if len(vs) != len(storedV) {
		return true
	}
	for i := range storedV {
		if vs[i].String() != storedV[i].String() {
			return true
		}
	}
	// per validator
	for i := 0; i < nvals; i++ {
		val := c.Accts[i].Val().String()
		p1, err := ok.AggregatePrevote(goctx, &oracletypes.QueryAggregatePrevoteRequest{ValidatorAddress: val})
		d := ok.GetAggregatePrevote(ctx, val)
		if err != nil || (d == nil) != (p1.AggregatePrevote == nil) || (d != nil && d.String() != p1.AggregatePrevote.String()) {
			return true
		}
		v1, err := ok.AggregateVote(goctx, &oracletypes.QueryAggregateVoteRequest{ValidatorAddress: val})
		dv := ok.GetAggregateVote(ctx, val)
		if err != nil || (dv == nil) != (v1.AggregateVote == nil) || (dv != nil && dv.String() != v1.AggregateVote.String()) {
			return true
		}
		m1, err := ok.MissCount(goctx, &oracletypes.QueryMissCountRequest{ValidatorAddress: val})
		if err != nil || m1.MissCount != ok.GetMissCount(ctx, val) {
			return true
		}
		f1, err := ok.FeederDelegation(goctx, &oracletypes.QueryFeederDelegationRequest{ValidatorAddress: val})
		if err != nil || f1.FeederDelegation == nil || f1.FeederDelegation.FeederAddress != ok.GetFeederDelegation(ctx, val).String() {
			return true
		}
	}
	rp, err := ok.RewardPool(goctx, &oracletypes.QueryRewardPoolRequest{})
	if err != nil || !rp.Balance.IsEqual(ok.GetRewardPool(ctx)) {
		return true
	}
	ri := ok.GetCurrentRoundInfo(ctx)
	r1, err := ok.CurrentRoundInfo(goctx, &oracletypes.QueryCurrentRoundInfoRequest{})
	if (ri == nil) != (err != nil) || (ri != nil && ri.String() != r1.RoundInfo.String()) {
		return true
	}
	return false
}

func unq(s string) string { return strings.Trim(s, "\"") }

func methodCode(m string) int {
	switch m {
	case settlementtypes.PayoutMethod_Native:
		return 0
	case settlementtypes.PayoutMethod_MintContract:
		return 1
	}
	return 2
}

func (e *Exec) snapshot() *Snapshot {
	c := e.C
	ctx := c.Ctx()
	s := &Snapshot{Height: c.Height}
	sk := c.App.SettlementKeeper
	for _, t := range sk.GetAllTenants(ctx) {
		ts := TenantSnap{Id: t.Id, Denom: e.histDenom(t.Denom), Period: t.PayoutPeriod, Method: methodCode(t.PayoutMethod)}
		if ts.Method == 1 {
			// a token contract the module did not deploy: reserved address (3) or an address without code (4);
			// an imported tenant may have none at all, the call then goes to the zero address
			ca := common.HexToAddress(t.ContractAddress)
			if reservedAddress(t.ContractAddress) {
				ts.Method = 3
			} else if acc := c.App.EvmKeeper.GetAccountWithoutBalance(ctx, ca); acc == nil || !acc.IsContract() {
				ts.Method = 4
			}
		}
		for _, a := range t.Admins {
			addr, err := sdk.AccAddressFromBech32(a)
			if err != nil {
				ts.Admins = append(ts.Admins, big.NewInt(-1))
			} else {
				ts.Admins = append(ts.Admins, addrInt(addr))
			}
		}
		s.Tenants = append(s.Tenants, ts)
		for _, d := range tenantDenoms {
			e.trackTreasury(t.Id, d)
		}
		if e.erc20Denom != "" {
			e.trackTreasury(t.Id, pairDenom)
		}
		if t.PayoutMethod == settlementtypes.PayoutMethod_MintContract && t.ContractAddress != "" {
			e.sbt[t.Id] = common.HexToAddress(t.ContractAddress)
		}
	}
	for _, u := range sk.GetAllUTXRWithTenantAndID(ctx) {
		us := UtxrSnap{Tid: u.TenantId, Id: u.Id, Req: []byte(u.Utxr.RequestId), Denom: e.histDenom(u.Utxr.Amount.Denom), Amount: u.Utxr.Amount.Amount.BigInt(), Created: u.Utxr.CreatedAt}
		if u.Utxr.Nft != nil {
			us.Chain = u.Utxr.Nft.ChainId
			us.Contract = addrInt(u.Utxr.Nft.ContractAddr.Bytes())
			us.Token = addrInt(u.Utxr.Nft.TokenId.Bytes())
		}
		for _, r := range u.Utxr.Recipients {
			a := addrInt(r.Address.Bytes())
			us.Recips = append(us.Recips, GenRecipSnap{Addr: a, Weight: r.Weight})
			e.track(a, e.histDenom(u.Utxr.Amount.Denom))
			for tid := range e.sbt {
				e.track(a, fmt.Sprintf("sbt:%d", tid))
			}
		}
		s.Utxrs = append(s.Utxrs, us)
	}
	for _, rq := range e.reqList {
		var tid uint64
		fmt.Sscan(rq[0], &tid)
		req, _ := hex.DecodeString(rq[1])
		// raw index presence
		store := ctx.KVStore(c.App.GetKey(settlementtypes.StoreKey))
		bz := store.Get(settlementtypes.UTXRStoreByRequestIdKey(tid, string(req)))
		v := "none"
		if bz != nil {
			v = fmt.Sprint(sdk.BigEndianToUint64(bz))
		}
		s.Idx = append(s.Idx, [3]string{rq[0], rq[1], v})
		lv := "none"
		if u := sk.GetUTXRByRequestId(ctx, tid, string(req)); u != nil {
			lv = fmt.Sprint(sdk.BigEndianToUint64(bz))
		}
		s.Lookup = append(s.Lookup, [3]string{rq[0], rq[1], lv})
	}
	// the gRPC query server (keeper/grpc_query.go) must describe the same records and tenants as the store: paged list
	// (3 per page, following NextKey), by-request-id lookup of every id ever used, tenant list (2 per page) and single
	// tenants.  A disagreement is reported as a lookup of the reserved request id ff ff <kind> that "finds" something:
	// the property checkers read it as "lookup and pending set disagree" (C12 clause 34), the model never has it.
	if qd := e.queryDisagreement(ctx, s); qd != 0 {
		s.Lookup = append(s.Lookup, [3]string{"1", fmt.Sprintf("ffff%02x", qd), "0"})
		if os.Getenv("VERIF_DEBUG") != "" {
			fmt.Fprintf(os.Stderr, "QUERY-DISAGREEMENT kind=%d height=%d\n", qd, c.Height)
		}
	}
	for _, tr := range e.trackLst {
		a, _ := new(big.Int).SetString(tr[0], 10)
		var amt *big.Int
		if strings.HasPrefix(tr[1], "sbt:") {
			var tid uint64
			fmt.Sscanf(tr[1], "sbt:%d", &tid)
			amt = e.sbtBalance(tid, a)
		} else {
			var addr sdk.AccAddress
			if a.Cmp(two160) >= 0 {
				tid := new(big.Int).Sub(a, two160).Uint64()
				addr = settlementtypes.GetTenantTreasuryAccount(tid)
			} else {
				addr = sdk.AccAddress(common.BigToAddress(a).Bytes())
			}
			if tr[1] == pairDenom && a.Cmp(two160) >= 0 {
				// the treasury of a token-pair tenant is its TOKEN balance; recipients are paid in coins
				amt = c.ERC20Balance(e.erc20Addr, common.BytesToAddress(addr.Bytes()))
			} else {
				amt = c.App.BankKeeper.GetBalance(ctx, addr, e.realDenom(tr[1])).Amount.BigInt()
			}
		}
		s.Bals = append(s.Bals, [3]string{tr[0], tr[1], amt.String()})
	}
	// oracle
	ok := c.App.OracleKeeper
	if ri := ok.GetCurrentRoundInfo(ctx); ri != nil {
		s.Round = RoundSnap{Present: true, Id: ri.Id, PrevoteEnd: ri.PrevoteEnd, VoteEnd: ri.VoteEnd}
		for _, od := range ri.OracleData {
			if od.Topic == oracletypes.OracleTopic_OWNERSHIP {
				s.Round.Sources = append(s.Round.Sources, od.Sources...)
			}
		}
	}
	valInt := func(bech string) *big.Int {
		va, err := sdk.ValAddressFromBech32(bech)
		if err != nil {
			return big.NewInt(-1)
		}
		return addrInt(va)
	}
	for _, p := range ok.GetAggregatePrevotes(ctx) {
		s.Prevotes = append(s.Prevotes, [2]string{valInt(p.Voter).String(), p.Hash})
	}
	// the oracle's gRPC query server must show the ballots, counters, delegations, pool and round that are stored; a
	// disagreement appears as a prevote of the (non-existent) validator -7, which no model state has
	if oracleQueryDisagreement(c, ctx, len(e.H.Genesis.Powers)) {
		s.Prevotes = append(s.Prevotes, [2]string{"-7", "QUERY-SERVER-DISAGREES"})
		if os.Getenv("VERIF_DEBUG") != "" {
			fmt.Fprintf(os.Stderr, "ORACLE-QUERY-DISAGREEMENT height=%d\n", c.Height)
		}
	}
	for _, v := range ok.GetAggregateVotes(ctx) {
		vs := VoteSnap{Val: valInt(v.Voter)}
		for _, d := range v.VoteData {
			vs.VD = append(vs.VD, VD{Topic: int(d.Topic), Entries: d.Data})
		}
		s.Votes = append(s.Votes, vs)
	}
	func() {
		defer func() { recover() }()
		store := ctx.KVStore(c.App.GetKey(oracletypes.StoreKey))
		it := sdk.KVStorePrefixIterator(store, oracletypes.FeederDelegationKeyPrefix)
		defer it.Close()
		for ; it.Valid(); it.Next() {
			s.Deleg = append(s.Deleg, [2]string{valInt(string(it.Key()[1:])).String(), addrInt(it.Value()).String()})
		}
	}()
	for _, m := range ok.GetMissCounts(ctx) {
		s.Miss = append(s.Miss, [2]string{valInt(m.ValidatorAddress).String(), fmt.Sprint(m.MissCount)})
	}
	for i := range e.H.Genesis.Powers {
		v, found := c.App.StakingKeeper.GetValidator(ctx, c.Accts[i].Val())
		if !found {
			continue
		}
		s.Vals = append(s.Vals, ValSnap{Addr: addrInt(c.Accts[i].Addr), Tokens: v.Tokens.BigInt(), Bonded: v.Status == stakingtypes.Bonded, Jailed: v.Jailed, Rate: v.GetProbonoRate().BigInt()})
	}
	for _, coin := range c.App.BankKeeper.GetAllBalances(ctx, authtypes.NewModuleAddress(oracletypes.ModuleName)) {
		s.Pool = append(s.Pool, [2]string{coin.Denom, coin.Amount.String()})
	}
	return s
}

func (e *Exec) sbtBalance(tid uint64, a *big.Int) (bal *big.Int) {
	caddr, ok := e.sbt[tid]
	if !ok {
		return new(big.Int)
	}
	if reservedAddress(caddr.Hex()) {
		return new(big.Int) // nothing is ever minted there, and the EVM keeper of the harness must not be asked
	}
	// the observation itself must not bring the run down: a tenant may name any address as its token contract
	defer func() {
		if r := recover(); r != nil {
			bal = big.NewInt(-1)
		}
	}()
	abi := sbtABI()
	res, err := e.C.App.EvmKeeper.CallEVM(e.C.Ctx(), abi, settlementtypes.ModuleAddress, caddr, false, "balanceOf", common.BigToAddress(a))
	if err != nil {
		fmt.Println("SBT-BALANCE-ERROR", err)
		return big.NewInt(-1)
	}
	return new(big.Int).SetBytes(res.Ret)
}

var _ = settlementkeeper.SettlementKeeper{}

// ---------- C13: the same history without the other tenants ----------

// FilterForTenant keeps tenant [tid]'s transactions, every create-tenant transaction (so that ids and
// treasury addresses are the same) and the whole environment except bank sends to other treasuries;
// everything else the other tenants do is removed.
func FilterForTenant(h History, tid uint64) History {
	out := History{Genesis: h.Genesis, Focal: h.Focal}
	for _, ev := range h.Events {
		switch ev.Kind {
		case "tx":
			keep := true
			for _, m := range ev.Msgs {
				if m.Kind != "create_tenant" && m.Kind != "create_tenant_mc" && m.Tid != tid {
					keep = false
				}
			}
			if keep {
				out.Events = append(out.Events, ev)
			}
		case "begin":
			e2 := Event{Kind: "begin"}
			for _, v := range ev.Envs {
				if (v.Kind == "bank_send" || v.Kind == "erc20_mint") && v.To < 0 && uint64(-1-v.To) != tid {
					continue
				}
				e2.Envs = append(e2.Envs, v)
			}
			out.Events = append(out.Events, e2)
		default:
			out.Events = append(out.Events, ev)
		}
	}
	return out
}

func tenantView(s *Snapshot, evs []string, tid uint64) string {
	var parts []string
	for _, t := range s.Tenants {
		if t.Id == tid {
			b, _ := json.Marshal(t)
			parts = append(parts, string(b))
		}
	}
	for _, u := range s.Utxrs {
		if u.Tid == tid {
			b, _ := json.Marshal(u)
			parts = append(parts, string(b))
		}
	}
	tre := treasuryInt(tid).String()
	for _, b := range s.Bals {
		if b[0] == tre {
			parts = append(parts, b[1]+"="+b[2])
		}
	}
	for _, x := range evs {
		p := strings.Split(x, ":")
		if len(p) == 3 && p[1] == fmt.Sprint(tid) {
			parts = append(parts, x)
		}
	}
	return strings.Join(parts, "|")
}

// CompareTenantView aligns the two runs block by block (and tenant [tid]'s transactions in order) and returns
// the event indices of the full history at which something observable about the tenant differs.
func CompareTenantView(h History, obs []Obs, h2 History, obs2 []Obs, tid uint64) []int {
	type item struct {
		idx  int
		view string
	}
	collect := func(h History, obs []Obs) (ends []item, txs []item) {
		for i, ev := range h.Events {
			if i >= len(obs) {
				break
			}
			switch ev.Kind {
			case "end":
				if obs[i].Snap != nil {
					ends = append(ends, item{i, tenantView(obs[i].Snap, obs[i].Events, tid)})
				} else {
					ends = append(ends, item{i, "class:" + obs[i].Class})
				}
			case "tx":
				mine := false
				for _, m := range ev.Msgs {
					if m.Tid == tid && m.Kind != "create_tenant" && m.Kind != "create_tenant_mc" {
						mine = true
					}
				}
				if mine {
					txs = append(txs, item{i, obs[i].Class + ":" + strings.Join(obs[i].Events, ",")})
				}
			}
		}
		return
	}
	e1, t1 := collect(h, obs)
	e2, t2 := collect(h2, obs2)
	var diff []int
	for k := range e1 {
		if k >= len(e2) || e1[k].view != e2[k].view {
			diff = append(diff, e1[k].idx)
		}
	}
	for k := range t1 {
		if k >= len(t2) || t1[k].view != t2[k].view {
			diff = append(diff, t1[k].idx)
		}
	}
	sort.Ints(diff)
	return diff
}
