package main

// Ante driver (C03, C04, C16): transaction SHAPES - message lists, authz exec nesting, grants, explicit
// fee payers - delivered through ABCI to a fresh application in a fixed base state; what was admitted
// and what it did is printed with the shape as a Coq term for Ante/Model.v.

import (
	"crypto/sha256"
	"encoding/json"
	"flag"
	"fmt"
	"os"
	"path/filepath"
	"strings"
	"time"

	codectypes "github.com/cosmos/cosmos-sdk/codec/types"
	"github.com/cosmos/cosmos-sdk/crypto/keys/ed25519"
	sdk "github.com/cosmos/cosmos-sdk/types"
	authtypes "github.com/cosmos/cosmos-sdk/x/auth/types"
	"github.com/cosmos/cosmos-sdk/x/authz"
	"github.com/cosmos/cosmos-sdk/x/feegrant"
	banktypes "github.com/cosmos/cosmos-sdk/x/bank/types"
	stakingtypes "github.com/cosmos/cosmos-sdk/x/staking/types"

	oracletypes "github.com/settlus/chain/x/oracle/types"
	settlementtypes "github.com/settlus/chain/x/settlement/types"
)

// roles: account indices in the base state
const (
	roleOperator = 0 // operator of validator 0
	roleFeeder   = 5 // current feeder of validator 0
	roleFormer   = 6 // former feeder of validator 0
	roleStranger = 7
	roleAdmin    = 8 // admin of tenant 1
	roleAdmin2   = 9 // second admin of tenant 1
)

type AMsg struct {
	Kind    string `json:"kind"` // leaf: send create_validator s0..s7 o0..o2 ; exec ; grant
	Inner   []AMsg `json:"inner,omitempty"`
	GrantOf string `json:"grant_of,omitempty"` // leaf kind whose type URL is granted
}

type AnteCase struct {
	Driver   string   `json:"driver"`
	Actor    int      `json:"actor"`     // signer of every message of the transaction
	FeePayer int      `json:"fee_payer"` // -1: none set (first signer pays)
	Msgs     []AMsg   `json:"msgs"`
	FeeDenom string   `json:"fee_denom"`
	FeeAmt   string   `json:"fee_amount"`
	Gas      uint64   `json:"gas"`
	Fees     [][2]string `json:"fees,omitempty"`       // offered fee coins (denom, amount); overrides fee_denom / fee_amount
	Prices   [][2]string `json:"gas_prices,omitempty"` // settlement gas price parameter (denom, Dec), empty = default
	Q        string      `json:"oracle_fee,omitempty"`
	// fee granter named by the transaction (settlus route only) and the allowance it has given the payer before:
	// "" none, "unlimited", "exact" (spend limit = the fixed fee), "short" (one unit less), "other" (another denomination)
	UseGranter bool   `json:"use_granter,omitempty"`
	Granter    int    `json:"granter,omitempty"`
	Grant      string `json:"grant,omitempty"`
	ExpectFail bool      `json:"expect_fail,omitempty"` // the actor is not an admin: the (admitted) messages fail in their handler
	FirstBlock bool      `json:"first_block,omitempty"` // deliver the transaction in the first block after genesis (no base history)
}

const anteSalt = "ABCD"
const anteEntry = "1/0x00000000000000000000000000000000000000c1/0x1:0x00000000000000000000000000000000000000a1"

func (m AMsg) coq(x *anteExec) string {
	switch m.Kind {
	case "exec":
		var in []string
		for _, i := range m.Inner {
			in = append(in, i.coq(x))
		}
		return fmt.Sprintf("TExec %s %s", x.e.acctZ(x.c.Actor), cList(in))
	case "grant":
		return fmt.Sprintf("TGrant %s (%s)", x.e.acctZ(x.c.Actor), urlCoq(m.GrantOf))
	}
	return "TLeaf (" + x.leafCoq(m.Kind) + ")"
}

func urlCoq(kind string) string {
	switch {
	case kind == "send":
		return "USend"
	case kind == "create_validator":
		return "UCreateValidator"
	case strings.HasPrefix(kind, "s"):
		return "USettle " + kind[1:]
	case strings.HasPrefix(kind, "o"):
		return "UOracle " + kind[1:]
	}
	return "UOther"
}

type anteExec struct {
	e *Exec
	c AnteCase
}

func (x *anteExec) leafCoq(kind string) string {
	a := x.e.acctZ(x.c.Actor)
	v0 := x.e.acctZ(roleOperator)
	switch kind {
	case "send":
		return "LSend " + a
	case "create_validator":
		return "LCreateValidator " + a
	case "s0":
		return fmt.Sprintf("LSettle (MCreateTenant %s %s 7)", a, cStr("utwo"))
	case "s1":
		return fmt.Sprintf("LSettle (MCreateTenantMC %s %s 7 [] 4)", a, cStr("utwo"))
	case "s2":
		return fmt.Sprintf("LSettle (MAddAdmin %s 1 %s)", a, x.e.acctZ(roleStranger))
	case "s3":
		return fmt.Sprintf("LSettle (MRemoveAdmin %s 1 %s)", a, x.e.acctZ(roleAdmin2))
	case "s4":
		return fmt.Sprintf("LSettle (MUpdatePeriod %s 1 9)", a)
	case "s5":
		return fmt.Sprintf("LSettle (MDeposit %s 1 %s 3)", a, cStr("utok"))
	case "s6":
		return fmt.Sprintf("LSettle (MRecord %s 1 %s %s 5 %s %s %s)", a, cStr("rx"), cStr("utok"), cStr("1"), cStr("0x00000000000000000000000000000000000000c1"), cStr("0x2"))
	case "s7":
		return fmt.Sprintf("LSettle (MCancel %s 1 %s)", a, cStr("r0"))
	case "o0":
		return fmt.Sprintf("LOracle (MPrevote %s %s %s 0)", a, v0, cStr("zz"))
	case "o1":
		return fmt.Sprintf("LOracle (MVote %s %s [(1, [%s])] %s 0)", a, v0, cStr(anteEntry), cStr(anteSalt))
	case "o2":
		return fmt.Sprintf("LOracle (MConsent %s %s)", v0, x.e.acctZ(roleStranger))
	}
	panic("leaf kind " + kind)
}

func (x *anteExec) sdkMsg(m AMsg) sdk.Msg {
	c := x.e.C
	actor := c.Accts[x.c.Actor]
	switch m.Kind {
	case "exec":
		var in []sdk.Msg
		for _, i := range m.Inner {
			in = append(in, x.sdkMsg(i))
		}
		e := authz.NewMsgExec(actor.Addr, in)
		return &e
	case "grant":
		ga := authz.NewGenericAuthorization(sdk.MsgTypeURL(x.sdkMsg(AMsg{Kind: m.GrantOf})))
		exp := c.Time.Add(1000 * time.Hour)
		g, err := authz.NewMsgGrant(actor.Addr, c.Accts[roleStranger].Addr, ga, &exp)
		if err != nil {
			panic(err)
		}
		if actor.Addr.Equals(c.Accts[roleStranger].Addr) {
			g, _ = authz.NewMsgGrant(actor.Addr, c.Accts[roleFormer].Addr, ga, &exp)
		}
		return g
	case "send":
		return banktypes.NewMsgSend(actor.Addr, c.Accts[4].Addr, sdk.NewCoins(sdk.NewCoin("utok", sdk.NewInt(1))))
	case "create_validator":
		h := sha256.Sum256([]byte(fmt.Sprintf("verif-newval-%d", x.c.Actor)))
		pk := ed25519.GenPrivKeyFromSecret(h[:]).PubKey()
		pkAny, _ := codectypes.NewAnyWithValue(pk)
		return &stakingtypes.MsgCreateValidator{
			Description:       stakingtypes.Description{Moniker: "new"},
			Commission:        stakingtypes.NewCommissionRates(sdk.NewDecWithPrec(1, 1), sdk.NewDecWithPrec(2, 1), sdk.NewDecWithPrec(1, 2)),
			MinSelfDelegation: sdk.OneInt(),
			DelegatorAddress:  actor.Bech(),
			ValidatorAddress:  actor.Val().String(),
			Pubkey:            pkAny,
			Value:             sdk.NewCoin("asetl", sdk.DefaultPowerReduction),
		}
	case "s0":
		return settlementtypes.NewMsgCreateTenant(actor.Bech(), "utwo", 7)
	case "s1":
		return settlementtypes.NewMsgCreateTenantWithMintableContract(actor.Bech(), "utwo", 7, "")
	case "s2":
		return settlementtypes.NewMsgAddTenantAdmin(actor.Bech(), 1, c.Accts[roleStranger].Bech())
	case "s3":
		return settlementtypes.NewMsgRemoveTenantAdmin(actor.Bech(), 1, c.Accts[roleAdmin2].Bech())
	case "s4":
		return settlementtypes.NewMsgUpdateTenantPayoutPeriod(actor.Bech(), 1, 9)
	case "s5":
		return settlementtypes.NewMsgDepositToTreasury(actor.Bech(), 1, sdk.NewCoin("utok", sdk.NewInt(3)))
	case "s6":
		return settlementtypes.NewMsgRecord(actor.Bech(), 1, "rx", sdk.NewCoin("utok", sdk.NewInt(5)), "1", "0x00000000000000000000000000000000000000c1", "0x2", "")
	case "s7":
		return settlementtypes.NewMsgCancel(actor.Bech(), 1, "r0")
	case "o0":
		sum := sha256.Sum256([]byte("zz"))
		return oracletypes.NewMsgPrevote(actor.Bech(), c.Accts[roleOperator].Val().String(), fmt.Sprintf("%X", sum[:]), 0)
	case "o1":
		return oracletypes.NewMsgVote(actor.Bech(), c.Accts[roleOperator].Val().String(),
			[]*oracletypes.VoteData{{Topic: oracletypes.OracleTopic_OWNERSHIP, Data: []string{anteEntry}}}, anteSalt, 0)
	case "o2":
		return oracletypes.NewMsgFeederDelegationConsent(c.Accts[roleOperator].Val().String(), c.Accts[roleStranger].Bech())
	}
	panic("sdk msg kind " + m.Kind)
}

func hasKind(ms []AMsg, pred func(string) bool) bool {
	for _, m := range ms {
		if m.Kind == "exec" {
			if hasKind(m.Inner, pred) {
				return true
			}
		} else if m.Kind != "grant" && pred(m.Kind) {
			return true
		}
	}
	return false
}

func isS(k string) bool { return strings.HasPrefix(k, "s") && k != "send" }
func isO(k string) bool { return strings.HasPrefix(k, "o") }

var leafPool = []string{"send", "send", "create_validator", "s0", "s1", "s2", "s3", "s4", "s5", "s6", "s7", "o0", "o1", "o2"}

func genAMsgs(r *Rng, depth int, n int) []AMsg {
	var out []AMsg
	for i := 0; i < n; i++ {
		k := r.Intn(100)
		switch {
		case k < 30 && depth < 3:
			out = append(out, AMsg{Kind: "exec", Inner: genAMsgs(r, depth+1, 1+r.Intn(2))})
		case k < 38:
			out = append(out, AMsg{Kind: "grant", GrantOf: leafPool[r.Intn(len(leafPool))]})
		default:
			out = append(out, AMsg{Kind: leafPool[r.Intn(len(leafPool))]})
		}
	}
	return out
}

func nestChain(depth int, leaf string) AMsg {
	m := AMsg{Kind: leaf}
	for i := 0; i < depth; i++ {
		m = AMsg{Kind: "exec", Inner: []AMsg{m}}
	}
	return m
}

// allowance returns the spend limit of the allowance the granter gives the payer before the case (nil: no limit) and
// whether there is an allowance at all. The fixed fee is recomputed here from the parameters of the case.
func (c AnteCase) allowance(e *Exec) (sdk.Coins, bool) {
	if !c.UseGranter || c.Grant == "" {
		return nil, false
	}
	if c.Grant == "unlimited" {
		return nil, true
	}
	denom, req := "", sdk.ZeroInt()
	gas := settlementGas(c.Msgs)
	for _, p := range e.gasPrices {
		r := p.Amount.MulInt(sdk.NewIntFromUint64(gas)).TruncateInt()
		if c.offered().AmountOf(p.Denom).GTE(r) {
			denom, req = p.Denom, r
			break
		}
	}
	other := sdk.NewCoins(sdk.NewCoin("utwo", sdk.NewInt(1000)))
	if denom == "utwo" {
		other = sdk.NewCoins(sdk.NewCoin("utok", sdk.NewInt(1000)))
	}
	switch {
	case denom == "" || c.Grant == "other":
		return other, true
	case c.Grant == "exact" && req.IsPositive():
		return sdk.NewCoins(sdk.NewCoin(denom, req)), true
	case c.Grant == "short" && req.GTE(sdk.NewInt(2)):
		return sdk.NewCoins(sdk.NewCoin(denom, req.SubRaw(1))), true
	}
	return other, true
}

func settlementGas(ms []AMsg) uint64 {
	g := uint64(0)
	for _, m := range ms {
		g += 10000
		if m.Kind == "s0" || m.Kind == "s1" {
			g += 1000000000000
		}
	}
	return g
}

func GenAnteCase(seed uint64, idx int) AnteCase {
	r := NewRng(seed*7919 + uint64(idx))
	c := AnteCase{Driver: "ante", FeePayer: -1, FeeDenom: "asetl", FeeAmt: "0", Gas: 3000000}
	switch k := r.Intn(100); {
	case k < 12: // one restricted leaf alone at the top level
		c.Msgs = []AMsg{{Kind: leafPool[r.Intn(len(leafPool))]}}
	case k < 30: // one leaf at depth 1..6 (and beyond the limit)
		c.Msgs = []AMsg{nestChain(1+r.Intn(7), leafPool[r.Intn(len(leafPool))])}
	case k < 42: // restricted leaf next to a harmless one
		harmless := AMsg{Kind: "send"}
		if r.Chance(50) {
			harmless = nestChain(1+r.Intn(2), "send") // a harmless exec before / after a restricted sibling
		}
		c.Msgs = []AMsg{{Kind: leafPool[2+r.Intn(len(leafPool)-2)]}, harmless}
		if r.Chance(50) {
			c.Msgs[0], c.Msgs[1] = c.Msgs[1], c.Msgs[0]
		}
		if r.Chance(20) {
			c.Msgs = append(c.Msgs, AMsg{Kind: "send"})
		}
	case k < 55: // settlement-only lists
		n := 1 + r.Intn(3)
		for i := 0; i < n; i++ {
			c.Msgs = append(c.Msgs, AMsg{Kind: fmt.Sprintf("s%d", []int{2, 4, 5, 6, 7, 0}[r.Intn(6)])})
		}
	case k < 65: // oracle-only lists
		n := 1
		if r.Chance(30) {
			n = 2
		}
		for i := 0; i < n; i++ {
			c.Msgs = append(c.Msgs, AMsg{Kind: fmt.Sprintf("o%d", r.Intn(3))})
		}
	default:
		c.Msgs = genAMsgs(r, 0, 1+r.Intn(3))
	}
	// duplicates of state-changing settlement kinds would fail in the handler: keep each at most once
	seen := map[string]bool{}
	var dedup func(ms []AMsg) []AMsg
	dedup = func(ms []AMsg) []AMsg {
		var out []AMsg
		for _, m := range ms {
			if m.Kind == "exec" {
				m.Inner = dedup(m.Inner)
				if len(m.Inner) == 0 {
					m.Inner = []AMsg{{Kind: "send"}}
				}
			} else if m.Kind != "grant" && m.Kind != "send" {
				if seen[m.Kind] || (m.Kind == "s7" && seen["s3"] && false) {
					m = AMsg{Kind: "send"}
				}
				seen[m.Kind] = true
			}
			out = append(out, m)
		}
		return out
	}
	c.Msgs = dedup(c.Msgs)
	// vote needs the prevote of the base state: a prevote in the same transaction would replace it
	if seen["o0"] && seen["o1"] {
		var strip func(ms []AMsg) []AMsg
		strip = func(ms []AMsg) []AMsg {
			for i := range ms {
				if ms[i].Kind == "exec" {
					ms[i].Inner = strip(ms[i].Inner)
				} else if ms[i].Kind == "o0" {
					ms[i].Kind = "send"
				}
			}
			return ms
		}
		c.Msgs = strip(c.Msgs)
	}
	hasSettle := hasKind(c.Msgs, isS)
	hasConsent := hasKind(c.Msgs, func(k string) bool { return k == "o2" })
	hasCV := hasKind(c.Msgs, func(k string) bool { return k == "create_validator" })
	// the actor signs every message; choose one for whom every handler would succeed
	switch {
	case hasSettle && hasConsent:
		// no single signer: drop the consent
		var strip func(ms []AMsg) []AMsg
		strip = func(ms []AMsg) []AMsg {
			for i := range ms {
				if ms[i].Kind == "exec" {
					ms[i].Inner = strip(ms[i].Inner)
				} else if ms[i].Kind == "o2" {
					ms[i].Kind = "send"
				}
			}
			return ms
		}
		c.Msgs = strip(c.Msgs)
		c.Actor = roleAdmin
	case hasSettle:
		c.Actor = roleAdmin
	case hasConsent:
		c.Actor = roleOperator
		if hasCV { // the operator already runs a validator
			var strip func(ms []AMsg) []AMsg
			strip = func(ms []AMsg) []AMsg {
				for i := range ms {
					if ms[i].Kind == "exec" {
						ms[i].Inner = strip(ms[i].Inner)
					} else if ms[i].Kind == "create_validator" {
						ms[i].Kind = "send"
					}
				}
				return ms
			}
			c.Msgs = strip(c.Msgs)
		}
	default:
		c.Actor = []int{roleOperator, roleFeeder, roleFormer, roleStranger, roleStranger}[r.Intn(5)]
		if hasCV && c.Actor == roleOperator {
			c.Actor = roleStranger
		}
	}
	// shapes that need nothing from the base state are also delivered in the very first block after genesis
	// (height 1, the block whose header has no last block id yet)
	if !hasKind(c.Msgs, func(k string) bool { return k != "send" && k != "create_validator" && k != "exec" }) && r.Chance(40) {
		c.FirstBlock = true
	}
	// settlement-only transactions are charged the fixed fee; offer it (plus a surplus sometimes)
	allS := len(c.Msgs) > 0
	for _, m := range c.Msgs {
		if !isS(m.Kind) {
			allS = false
		}
	}
	if allS {
		g := settlementGas(c.Msgs)
		c.FeeDenom = "uusdc"
		c.FeeAmt = fmt.Sprint(g)
		if r.Chance(30) {
			c.FeeAmt = fmt.Sprint(g + uint64(r.Intn(100000)))
		}
		if r.Chance(10) {
			c.FeeAmt = fmt.Sprint(g - 1)
		}
		c.Gas = g + uint64(r.Intn(5000000))
	}
	if allS && r.Chance(60) {
		// governance-set parameters: 1-3 configured prices, an oracle share; offered fees around the requirement
		pool := map[string][]string{
			// incl. prices whose product with the per-message gas (10000) has a fraction of a half or more: rounding or
			// truncating per message instead of once per transaction then shows with two messages
			"uusdc": {"1", "0.5", "2.333333333333333333", "0.000000000000000001", "7", "0.00045", "0.666666666666666667", "1.99999", "0"},
			"setl":  {"0.0001", "0.000000000000000001", "0.00000000000001", "0"},
			"utok":  {"3", "0.25", "0.000001", "0.00015", "0.99995", "0"},
		}
		if r.Chance(8) {
			// settlement transactions made free by governance: every configured price is zero
			for d := range pool {
				pool[d] = []string{"0"}
			}
		}
		denoms := []string{"setl", "utok", "uusdc"} // DecCoins are kept sorted by denomination
		for _, d := range denoms {
			if r.Chance(60) {
				c.Prices = append(c.Prices, [2]string{d, pool[d][r.Intn(len(pool[d]))]})
			}
		}
		if len(c.Prices) == 0 {
			c.Prices = [][2]string{{"uusdc", "1"}}
		}
		c.Q = []string{"0", "1", "0.5", "0.000000000000000001", "0.333333333333333333", "0.9", "0.999999999999999999"}[r.Intn(7)]
		g := settlementGas(c.Msgs)
		c.Gas = g + uint64(r.Intn(1000))
		c.Fees = nil
		for _, p := range c.Prices {
			if !r.Chance(65) {
				continue
			}
			denom := p[0]
			price := sdk.MustNewDecFromStr(p[1])
			if denom == "setl" { // the parameter is normalised to the base denomination
				denom = "asetl"
				price = price.MulInt(sdk.DefaultPowerReduction.MulRaw(1000000000000))
			}
			req := price.MulInt(sdk.NewIntFromUint64(g)).TruncateInt()
			off := req
			switch r.Intn(5) {
			case 0:
				off = req.SubRaw(1)
			case 1:
				off = req.AddRaw(1)
			case 2:
				off = req.AddRaw(int64(r.Intn(1000000)))
			}
			if off.IsPositive() {
				c.Fees = append(c.Fees, [2]string{denom, off.String()})
			}
		}
	}
	if allS && r.Chance(25) {
		// charged whether or not the messages succeed: a stranger sends messages only an admin may send
		ok := true
		for _, m := range c.Msgs {
			if m.Kind == "s0" || m.Kind == "s1" || m.Kind == "s5" {
				ok = false
			}
		}
		if ok {
			c.Actor = roleStranger
			c.ExpectFail = true
		}
	}
	// explicit fee payer for single oracle messages: the operator pays for a stranger's message, or the reverse
	if len(c.Msgs) == 1 && isO(c.Msgs[0].Kind) && r.Chance(35) {
		c.FeePayer = []int{roleOperator, roleFeeder, roleFormer, roleStranger}[r.Intn(4)]
	}
	// a fee granter on the settlus route: somebody else's account is to be charged the fixed fee
	if (allS || len(c.Msgs) == 1 && isO(c.Msgs[0].Kind)) && r.Chance(30) {
		c.UseGranter = true
		c.Granter = []int{roleStranger, roleFormer, roleOperator, roleAdmin2, c.Actor}[r.Intn(5)]
		c.Grant = []string{"", "unlimited", "exact", "short", "other", "unlimited", "exact", "short"}[r.Intn(8)]
	}
	return c
}

func (c AnteCase) offered() sdk.Coins {
	var coins sdk.Coins
	if len(c.Fees) > 0 {
		for _, f := range c.Fees {
			a, ok := sdk.NewIntFromString(f[1])
			if ok && a.IsPositive() {
				coins = coins.Add(sdk.NewCoin(f[0], a))
			}
		}
		return coins
	}
	amt, _ := sdk.NewIntFromString(c.FeeAmt)
	if amt.IsPositive() {
		coins = sdk.NewCoins(sdk.NewCoin(c.FeeDenom, amt))
	}
	return coins
}

type AnteObs struct {
	Class           string
	Log             string
	OracleChanged   bool
	SettleChanged   bool
	ValidatorsAdded bool
	PayerDelta      [][2]string // denom, amount: what the ante handler took from the account that has to pay: the fee granter if one is named, else the fee payer (negative)
	PayerDebited    bool        // a fee payer that is not that account was debited by the ante handler
	CollectorDelta  [][2]string // ... and sent to the fee collector
	PoolDelta       [][2]string // ... and to the oracle reward pool
	Burned          string      // what the evmos post handler burnt from the fee collector afterwards
	GasUsed         int64
}

func anteBaseHistory() History {
	g := HGenesis{Powers: []int64{3, 2}, Probono: []string{"", ""}, NAccts: 10, VotePeriod: 4, Threshold: "0.5", SlashFrac: "0.01",
		Window: 8, MaxMiss: 2, Chains: []string{"1"}, Funds: 1000000, BigFunds: true}
	commit := anteSalt + anteEntry
	evs := []Event{
		{Kind: "begin"},
		{Kind: "tx", Msgs: []Msg{{Kind: "create_tenant", Sender: roleAdmin, Denom: "utok", Period: 50}}},
		{Kind: "tx", Msgs: []Msg{{Kind: "add_admin", Sender: roleAdmin, Tid: 1, Admin: roleAdmin2}}},
		{Kind: "tx", Msgs: []Msg{{Kind: "deposit", Sender: roleAdmin, Tid: 1, Denom: "utok", Amount: "100"}}},
		{Kind: "tx", Msgs: []Msg{{Kind: "record", Sender: roleAdmin, Tid: 1, Req: "r0", Denom: "utok", Amount: "7", Chain: "1", Contract: "0x00000000000000000000000000000000000000c1", Tok: "0x1"}}},
		{Kind: "otx", Msgs: []Msg{{Kind: "consent", Val: roleOperator, Feeder: roleFormer}}},
		{Kind: "otx", Msgs: []Msg{{Kind: "consent", Val: roleOperator, Feeder: roleFeeder}}},
		{Kind: "otx", Msgs: []Msg{{Kind: "prevote", Feeder: roleOperator, Val: roleOperator, Commit: commit, Round: 0}}},
		{Kind: "end"},
		{Kind: "begin"},
	}
	return History{Genesis: g, Events: evs}
}

func balMap(c *Chain, addr sdk.AccAddress) map[string]sdk.Int {
	m := map[string]sdk.Int{}
	for _, coin := range c.App.BankKeeper.GetAllBalances(c.Ctx(), addr) {
		m[coin.Denom] = coin.Amount
	}
	return m
}

func balDelta(before, after map[string]sdk.Int) [][2]string {
	var out [][2]string
	for _, d := range []string{"asetl", "uusdc", "setl", "utok", "utwo"} {
		b, ok1 := before[d]
		a, ok2 := after[d]
		if !ok1 {
			b = sdk.ZeroInt()
		}
		if !ok2 {
			a = sdk.ZeroInt()
		}
		if !a.Equal(b) {
			out = append(out, [2]string{d, a.Sub(b).String()})
		}
	}
	return out
}

func oracleDigest(e *Exec) string {
	s := e.snapshot()
	b, _ := json.Marshal([]interface{}{s.Prevotes, s.Votes, s.Deleg})
	return string(b)
}
func settleDigest(e *Exec) string {
	s := e.snapshot()
	b, _ := json.Marshal([]interface{}{s.Tenants, s.Utxrs, s.Idx})
	return string(b)
}

func runAnteCase(c AnteCase) (*Exec, *anteExec, AnteObs, string) {
	h := anteBaseHistory()
	if c.FirstBlock {
		h.Events = []Event{{Kind: "begin"}}
	}
	e, pi := NewExec(h)
	if pi != nil {
		panic("ante base genesis: " + pi.Msg)
	}
	obs := e.Run()
	if len(c.Prices) > 0 || c.Q != "" {
		// parameters as governance would set them, in the begin phase of the block of the case
		ctx := e.C.Ctx()
		sp := e.C.App.SettlementKeeper.GetParams(ctx)
		if len(c.Prices) > 0 {
			var dcs []sdk.DecCoin
			for _, p := range c.Prices {
				dcs = append(dcs, sdk.NewDecCoinFromDec(p[0], sdk.MustNewDecFromStr(p[1])))
			}
			// as a parameter-change proposal writes them: the list as given (sorted by denomination), zero prices kept
			// (sdk.NewDecCoins would drop them)
			sp.GasPrices = sdk.DecCoins(dcs)
		}
		if c.Q != "" {
			sp.OracleFeePercentage = sdk.MustNewDecFromStr(c.Q)
		}
		e.C.App.SettlementKeeper.SetParams(ctx, sp)
		e.gasPrices = nil
		for _, gp := range sp.GasPrices {
			e.gasPrices = append(e.gasPrices, sdk.NormalizeDecCoin(gp))
		}
		e.oracleFee = sp.OracleFeePercentage
	}
	for i, o := range obs {
		if (h.Events[i].Kind == "tx" || h.Events[i].Kind == "otx") && o.Class != "ok" {
			panic(fmt.Sprintf("ante base state: event %d failed: %s", i, o.Log))
		}
	}
	ch := e.C
	x := &anteExec{e: e, c: c}
	var msgs []sdk.Msg
	for _, m := range c.Msgs {
		msgs = append(msgs, x.sdkMsg(m))
	}
	ts := TxSpec{Msgs: msgs, Gas: c.Gas, Fee: c.offered()}
	payer := ch.Accts[c.Actor].Addr
	if c.FeePayer >= 0 {
		ts.FeePayer = ch.Accts[c.FeePayer].Addr
		payer = ts.FeePayer
	}
	charged := payer
	if c.UseGranter {
		gaddr := ch.Accts[c.Granter].Addr
		ts.FeeGranter = gaddr
		charged = gaddr
		if lim, ok := c.allowance(e); ok && !gaddr.Equals(payer) {
			if err := ch.App.FeeGrantKeeper.GrantAllowance(ch.Ctx(), gaddr, payer, &feegrant.BasicAllowance{SpendLimit: lim}); err != nil {
				panic("ante case: grant allowance: " + err.Error())
			}
		}
	}
	// model state before the transaction
	model := x.modelState()
	od, sd := oracleDigest(e), settleDigest(e)
	nv := len(ch.App.StakingKeeper.GetAllValidators(ch.Ctx()))
	pb := balMap(ch, payer)
	cb := balMap(ch, authtypes.NewModuleAddress(authtypes.FeeCollectorName))
	ob := balMap(ch, authtypes.NewModuleAddress(oracletypes.ModuleName))
	r := ch.Deliver(ts)
	o := AnteObs{Class: r.Class(), Log: r.Log, GasUsed: r.GasUsed}
	o.OracleChanged = oracleDigest(e) != od
	o.SettleChanged = settleDigest(e) != sd
	o.ValidatorsAdded = len(ch.App.StakingKeeper.GetAllValidators(ch.Ctx())) != nv
	_, _, _ = pb, cb, ob
	// the transfers of the ante handler, read from the bank events that precede the `tx` fee event
	coll := authtypes.NewModuleAddress(authtypes.FeeCollectorName).String()
	pool := authtypes.NewModuleAddress(oracletypes.ModuleName).String()
	sum := map[string]map[string]sdk.Int{"spent": {}, "coll": {}, "pool": {}}
	add := func(k string, amount string, neg bool) {
		coins, err := sdk.ParseCoinsNormalized(amount)
		if err != nil {
			return
		}
		for _, cn := range coins {
			cur, ok := sum[k][cn.Denom]
			if !ok {
				cur = sdk.ZeroInt()
			}
			if neg {
				sum[k][cn.Denom] = cur.Sub(cn.Amount)
			} else {
				sum[k][cn.Denom] = cur.Add(cn.Amount)
			}
		}
	}
	for _, ev := range r.Events {
		if ev.Type == "tx" {
			break
		}
		switch ev.Type {
		case "coin_spent":
			if attr(ev, "spender") == charged.String() {
				add("spent", attr(ev, "amount"), true)
			} else if attr(ev, "spender") == payer.String() {
				o.PayerDebited = true
			}
		case "coin_received":
			if attr(ev, "receiver") == coll {
				add("coll", attr(ev, "amount"), false)
			}
			if attr(ev, "receiver") == pool {
				add("pool", attr(ev, "amount"), false)
			}
		}
	}
	for _, ev := range r.Events {
		if ev.Type == "burn" {
			o.Burned += attr(ev, "amount") + ";"
		}
	}
	toPairs := func(m map[string]sdk.Int) [][2]string {
		var out [][2]string
		for _, d := range []string{"asetl", "uusdc", "setl", "utok", "utwo"} {
			if v, ok := m[d]; ok && !v.IsZero() {
				out = append(out, [2]string{d, v.String()})
			}
		}
		return out
	}
	o.PayerDelta = toPairs(sum["spent"])
	o.CollectorDelta = toPairs(sum["coll"])
	o.PoolDelta = toPairs(sum["pool"])
	return e, x, o, model
}

// the oracle state the feeder check reads, as a Coq term
func (x *anteExec) modelState() string {
	e := x.e
	s := e.snapshot()
	var vals, dl []string
	for _, v := range s.Vals {
		vals = append(vals, fmt.Sprintf("mkVal %s %s %s %s %s", cZ(v.Addr), cZ(v.Tokens), cBool(v.Bonded), cBool(v.Jailed), cZ(v.Rate)))
	}
	for _, p := range s.Deleg {
		dl = append(dl, fmt.Sprintf("(%s, %s)", cZs(p[0]), cZs(p[1])))
	}
	return fmt.Sprintf("(mkO (mkOP 4 0 0 8 2 false) None [] [] %s [] %s [] [])", cList(dl), cList(vals))
}

func pairsCoq(p [][2]string) string {
	var items []string
	for _, x := range p {
		items = append(items, fmt.Sprintf("(%s, %s)", cStr(x[0]), cAmount(x[1])))
	}
	return cList(items)
}

func runAnteCmd(args []string) {
	fs := flag.NewFlagSet("ante", flag.ExitOnError)
	n := fs.Int("n", 100, "cases")
	seed := fs.Uint64("seed", 1, "seed")
	out := fs.String("out", "ante.v", "output")
	dir := fs.String("dir", "", "replay dir")
	name := fs.String("name", "cases", "name")
	replay := fs.String("replay", "", "replay files")
	fs.Parse(args)
	var cases []AnteCase
	if *replay != "" {
		for _, f := range strings.Split(*replay, ",") {
			b, err := os.ReadFile(f)
			if err == nil {
				var c AnteCase
				if json.Unmarshal(b, &c) == nil {
					cases = append(cases, c)
				}
			}
		}
	}
	for i := 0; i < *n; i++ {
		cases = append(cases, GenAnteCase(*seed, i))
	}
	resetIntern()
	var items []string
	classes := map[string]int{}
	kinds := map[string]int{}
	nontrivial := 0
	seen := map[string]bool{}
	var samples []string
	for i, c := range cases {
		b, _ := json.Marshal(c)
		if *dir != "" {
			os.WriteFile(filepath.Join(*dir, fmt.Sprintf("hist_%d.json", i)), b, 0o644)
		}
		e, x, o, model := runAnteCase(c)
		classes[o.Class]++
		var count func(ms []AMsg)
		count = func(ms []AMsg) {
			for _, m := range ms {
				kinds[m.Kind]++
				count(m.Inner)
			}
		}
		count(c.Msgs)
		if !seen[string(b)] && (hasKind(c.Msgs, isS) || hasKind(c.Msgs, isO) || hasKind(c.Msgs, func(k string) bool { return k == "create_validator" })) {
			seen[string(b)] = true
			nontrivial++
		}
		if len(samples) < 2 && len(c.Msgs) > 1 {
			samples = append(samples, string(b))
		}
		var ms []string
		for _, m := range c.Msgs {
			ms = append(ms, m.coq(x))
		}
		fp := e.acctZ(c.Actor)
		signers := []string{e.acctZ(c.Actor)}
		if c.FeePayer >= 0 {
			fp = e.acctZ(c.FeePayer)
			if c.FeePayer != c.Actor {
				signers = append(signers, fp)
			}
		}
		if hasKind(c.Msgs, func(k string) bool { return k == "o2" }) && c.Actor != roleOperator {
			signers = append(signers, e.acctZ(roleOperator))
		}
		var offs []string
		for _, coin := range c.offered() {
			offs = append(offs, fmt.Sprintf("(%s, %s)", cStr(coin.Denom), cZ(coin.Amount.BigInt())))
		}
		offered := cList(offs)
		var prices []string
		for _, p := range e.gasPrices {
			prices = append(prices, fmt.Sprintf("(%s, %s)", cStr(p.Denom), cZ(p.Amount.BigInt())))
		}
		granter, allowance := "None", "None"
		if c.UseGranter {
			granter = fmt.Sprintf("(Some %s)", e.acctZ(c.Granter))
			if lim, ok := c.allowance(e); ok {
				if lim == nil {
					allowance = "(Some None)"
				} else {
					var ls []string
					for _, coin := range lim {
						ls = append(ls, fmt.Sprintf("(%s, %s)", cStr(coin.Denom), cZ(coin.Amount.BigInt())))
					}
					allowance = fmt.Sprintf("(Some (Some %s))", cList(ls))
				}
			}
		}
		items = append(items, fmt.Sprintf("mkACase %s %d %s %s %s %s (mkFP %s %s) %d %s %s %s %s %s %s %s %s %d %s %s %s",
			model, e.C.Height, cList(ms), fp, cList(signers), offered, cList(prices), cZ(e.oracleFee.BigInt()), c.Gas, cBool(c.ExpectFail),
			classCoq(o.Class), cBool(o.OracleChanged), cBool(o.SettleChanged), cBool(o.ValidatorsAdded),
			pairsCoq(o.PayerDelta), pairsCoq(o.CollectorDelta), pairsCoq(o.PoolDelta), o.GasUsed,
			granter, allowance, cBool(!o.PayerDebited)))
		if o.Class == "panic" {
			fmt.Printf("ANTE-PANIC case=%d %s\n", i, o.Log)
		}
	}
	var sb strings.Builder
	sb.WriteString("From Coq Require Import String.\nFrom Settlus Require Import Base.Prelude Base.Hex Settlement.Model Oracle.Model Chain.Model Ante.Fee Ante.Model Exec.AnteCheck.\nOpen Scope string_scope. Open Scope Z_scope.\n")
	sb.WriteString(internTables())
	fmt.Fprintf(&sb, "Definition %s : list acase := [\n %s].\n", *name, strings.Join(items, ";\n "))
	os.WriteFile(*out, []byte(sb.String()), 0o644)
	st := map[string]interface{}{"cases": len(cases), "nontrivial": nontrivial, "samples": samples, "tx_class": classes, "msg_kinds": kinds}
	b, _ := json.MarshalIndent(st, "", " ")
	os.WriteFile(strings.TrimSuffix(*out, ".v")+".stats.json", b, 0o644)
	fmt.Printf("STATS %v\n", classes)
}
