// racecheck: one writer goroutine (the chain subscriber's fetch loop) and several reader goroutines (the
// feeder loop) on the reference feeder's BlockCache, built with the Go race detector.  Every answer a
// reader gets is also checked against what a cache may answer: a hash that was put for a timestamp not
// below the query, or a miss.  Exit status 0: no race reported, answers plausible.
package main

import (
	"fmt"
	"os"
	"strconv"
	"sync"

	"github.com/settlus/chain/tools/interop-node/subscriber"
)

func main() {
	rounds := 2000
	readers := 4
	if len(os.Args) > 1 {
		rounds, _ = strconv.Atoi(os.Args[1])
	}
	if len(os.Args) > 2 {
		readers, _ = strconv.Atoi(os.Args[2])
	}
	c := subscriber.NewBlockCache(8)
	var wg sync.WaitGroup
	bad := make(chan string, 16)
	wg.Add(1)
	go func() {
		defer wg.Done()
		for i := 1; i <= rounds; i++ {
			c.PutBlockData(fmt.Sprintf("h%d", i), int64(i), uint64(i))
		}
	}()
	for r := 0; r < readers; r++ {
		wg.Add(1)
		go func(r int) {
			defer wg.Done()
			for i := 1; i <= rounds; i++ {
				q := uint64(i)
				h, n := c.GetOldestBlock(q)
				if h == "" && n == 0 {
					continue // miss
				}
				if h != fmt.Sprintf("h%d", n) || uint64(n) < q {
					select {
					case bad <- fmt.Sprintf("reader %d: query %d answered (%s, %d)", r, q, h, n):
					default:
					}
				}
			}
		}(r)
	}
	wg.Wait()
	close(bad)
	n := 0
	for b := range bad {
		fmt.Println("CORRUPT-ANSWER", b)
		n++
	}
	fmt.Printf("RACECHECK rounds=%d readers=%d corrupt=%d\n", rounds, readers, n)
	if n > 0 {
		os.Exit(3)
	}
}
