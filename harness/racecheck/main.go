// racecheck: one writer goroutine (the chain subscriber's fetch loop) and several reader goroutines (the
// feeder loop) on the reference feeder's BlockCache, built with the Go race detector.  Every answer a
// reader gets is also checked against what a cache may answer: a hash that was put for a timestamp not
// below the query, or a miss.  Exit status 0: no race reported, answers plausible.
package main

import (
	"fmt"
	"os"
	"strconv"
	"sync"

	"github.com/cometbft/cometbft/libs/log"

	"github.com/settlus/chain/tools/interop-node/subscriber"
)

func main() {
	rounds := 2000
	readers := 4
	if len(os.Args) > 1 {
		rounds, _ = strconv.Atoi(os.Args[1])
	}
	if len(os.Args) > 2 {
		readers, _ = strconv.Atoi(os.Args[2])
	}
	c := subscriber.NewBlockCache(8)
	var wg sync.WaitGroup
	bad := make(chan string, 16)
	wg.Add(1)
	go func() {
		defer wg.Done()
		for i := 1; i <= rounds; i++ {
			c.PutBlockData(fmt.Sprintf("h%d", i), int64(i), uint64(i))
		}
	}()
	for r := 0; r < readers; r++ {
		wg.Add(1)
		go func(r int) {
			defer wg.Done()
			for i := 1; i <= rounds; i++ {
				q := uint64(i)
				h, n := c.GetOldestBlock(q)
				if h == "" && n == 0 {
					continue // miss
				}
				if h != fmt.Sprintf("h%d", n) || uint64(n) < q {
					select {
					case bad <- fmt.Sprintf("reader %d: query %d answered (%s, %d)", r, q, h, n):
					default:
					}
				}
			}
		}(r)
	}
	// the same through the subscriber: the writer does what fetchLoop does (PutBlockData on the subscriber's own
	// cache, reached through the build-tagged hook), the readers call EthereumSubscriber.GetOldestBlock like the feeder
	// loop, with queries that hit and queries ahead of the newest block (the miss path has code of its own)
	sub, err := subscriber.NewEthereumSubscriber("1", "http://127.0.0.1:1", log.NewNopLogger())
	if err != nil {
		fmt.Println("subscriber:", err)
		os.Exit(2)
	}
	sc := sub.VerifCache()
	wg.Add(1)
	go func() {
		defer wg.Done()
		for i := 1; i <= rounds; i++ {
			sc.PutBlockData(fmt.Sprintf("h%d", i), int64(i), uint64(i))
		}
	}()
	for r := 0; r < readers; r++ {
		wg.Add(1)
		go func(r int) {
			defer wg.Done()
			for i := 1; i <= rounds; i++ {
				q := uint64(i)
				if i%2 == 0 {
					q = uint64(rounds + i) // ahead of everything cached: a miss
				}
				bd, err := sub.GetOldestBlock(q)
				if err != nil {
					continue // miss
				}
				if bd.BlockHash != fmt.Sprintf("h%d", bd.BlockNumber) || uint64(bd.BlockNumber) < q || bd.ChainId != "1" {
					select {
					case bad <- fmt.Sprintf("subscriber reader %d: query %d answered (%s, %d)", r, q, bd.BlockHash, bd.BlockNumber):
					default:
					}
				}
			}
		}(r)
	}
	wg.Wait()
	close(bad)
	n := 0
	for b := range bad {
		fmt.Println("CORRUPT-ANSWER", b)
		n++
	}
	fmt.Printf("RACECHECK rounds=%d readers=%d corrupt=%d\n", rounds, readers, n)
	if n > 0 {
		os.Exit(3)
	}
}
