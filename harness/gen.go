package main

// Seeded generator of structured, mostly-valid histories for the settlement + oracle family.
// One PRNG state (splitmix64) => every history replays exactly from (seed, index).

import (
	"fmt"
	"math/big"
	"strings"

	"encoding/hex"

	ethcommon "github.com/ethereum/go-ethereum/common"
	ethcrypto "github.com/ethereum/go-ethereum/crypto"
)

type Rng struct{ s uint64 }

func NewRng(seed uint64) *Rng { return &Rng{s: seed*0x9E3779B97F4A7C15 + 0x1234567} }
func (r *Rng) U64() uint64 {
	r.s += 0x9E3779B97F4A7C15
	z := r.s
	z = (z ^ (z >> 30)) * 0xBF58476D1CE4E5B9
	z = (z ^ (z >> 27)) * 0x94D049BB133111EB
	return z ^ (z >> 31)
}
func (r *Rng) Intn(n int) int {
	if n <= 0 {
		return 0
	}
	return int(r.U64() % uint64(n))
}
func (r *Rng) Chance(pct int) bool { return r.Intn(100) < pct }
func (r *Rng) Pick(xs []string) string { return xs[r.Intn(len(xs))] }

type Profile struct {
	Name        string
	Blocks      int
	MaxTx       int
	Oracle      bool // validators prevote / vote
	Faults      bool
	Adversarial bool
	Internal    bool // records for NFTs of this chain
	Mint        bool // mint-contract tenants
	Jail        bool
	BigPeriods  bool
	Wrongness   int // % of deliberately wrong oracle answers
	MultiTx     bool
	PeriodMax   int
	VotePeriods []uint64
	Probono     bool
	OracleFee   string
	Isolation   bool // tenant 1 and the other tenants use disjoint accounts and NFTs; a second run without the others (C13)
	Roundtrip   bool // export the final state, import it into a fresh application (C17)
	Replica     bool // execute every history twice and compare the app hashes
	Imported    bool // tenants and records (multi-recipient, weighted) imported through genesis
	Erc20       bool // a registered ERC-20 token pair; most tenants use its denomination and are paid out through ConvertERC20
	Many        bool // imported: one or two tenants with 110-150 pending records between them (long queues, paging limits)
}

type pendRec struct {
	tid                uint64
	req                string
	reqHex             string
	chain, contract    string
	tok                string
	created            int64
	external           bool
	gone               bool
}

type genState struct {
	r        *Rng
	p        Profile
	h        History
	height   int64
	nVals    int
	users    []int // account indices usable as tenant admins / senders
	tenants  []genTenant
	recs     []*pendRec
	reqCtr   int
	commits  map[int]*Msg // validator -> vote message prepared at prevote time
	former   map[int]int  // validator -> the feeder whose delegation it took back
	feeders  map[int]int
	nftNext  uint64
	nftOwner map[uint64]int
	nftAddr  string
	jailed   map[int]bool
	offender   int
	split      bool          // directed history: two camps of equal power reveal different owners
	clean      bool          // directed history: the oracle traffic carries no noise
	leaver     int           // directed: answers like the majority, takes its whole stake back between its reveal and the tally
	revealedAt map[int]int64 // height of a validator's latest reveal
	wrong      map[int]int  // wrong answers a validator has committed to so far
	gone       map[int]bool // validators that withdrew their whole stake
	taken      map[int]int64 // units of power a validator took back
	hugeQueue  bool
	seed       uint64
	idx        int
	bigTenants []uint64
	followUps []Event // emitted right after the next begin-block: the actions that would profit from a shadow write
}

type genTenant struct {
	id     uint64
	admins []int
	denom  string
	period uint64
	mint   bool
}

// addresses a tenant may name as its token contract, or a record as its NFT contract on this chain:
// the nine precompiles of the EVM fork, the extension precompiles the EVM parameters activate by default,
// two extension addresses that are NOT active, and two addresses that hold no code
var foreignContracts = []string{
	"0x0000000000000000000000000000000000000001", "0x0000000000000000000000000000000000000002",
	"0x0000000000000000000000000000000000000004", "0x0000000000000000000000000000000000000005",
	"0x0000000000000000000000000000000000000009", "0x0000000000000000000000000000000000000100",
	"0x0000000000000000000000000000000000000400", "0x0000000000000000000000000000000000000801",
	"0x0000000000000000000000000000000000000804", "0x0000000000000000000000000000000000000800",
	"0x0000000000000000000000000000000000000803", "0x00000000000000000000000000000000000000c1",
	"0x000000000000000000000000000000000000dEaD",
}

// reservedAddress reports whether the EVM treats [hexAddr] as a static precompile under the genesis the harness
// writes (Berlin set + the default active extensions): the history-side classification of a foreign contract,
// taken from the address alone, never from what the implementation did with it
func reservedAddress(hexAddr string) bool {
	a := new(big.Int).SetBytes(ethcommon.HexToAddress(hexAddr).Bytes())
	if !a.IsUint64() {
		return false
	}
	switch v := a.Uint64(); {
	case v >= 1 && v <= 9:
		return true
	case v == 0x100 || v == 0x400 || v == 0x801 || v == 0x802 || v == 0x804:
		return true
	}
	return false
}

var extContracts = []string{
	"0x00000000000000000000000000000000000000c1",
	"0x00000000000000000000000000000000000000C2",
	"00000000000000000000000000000000000000c3",
	"0X00000000000000000000000000000000000000C4", // IsHexAddress accepts the upper-case prefix as well
	"0XaBcDeF0000000000000000000000000000000005",
}
var ownerPool = []string{
	"0x00000000000000000000000000000000000000a1",
	"0x00000000000000000000000000000000000000a2",
	"0xa3",
	"0x0",
	"00000000000000000000000000000000000000A4",
}

func GenHistory(seed uint64, idx int, p Profile) History {
	r := NewRng(seed*1000003 + uint64(idx))
	g := &genState{r: r, p: p, seed: seed, idx: idx, commits: map[int]*Msg{}, former: map[int]int{}, feeders: map[int]int{}, nftOwner: map[uint64]int{}, jailed: map[int]bool{}, gone: map[int]bool{}, taken: map[int]int64{}, wrong: map[int]int{}}
	nv := 3 + r.Intn(3)
	if p.Probono && r.Chance(30) {
		nv = 6 + r.Intn(2) // the chain runs with constant power 1 per validator: shares of 1/6 need six of them
	}
	g.nVals = nv
	gen := HGenesis{NAccts: nv + 5, Funds: 1000000, Nft: p.Internal, OracleFee: p.OracleFee, BigFunds: p.Adversarial && r.Chance(50) || p.Imported && !p.Many && r.Chance(30), Erc20: p.Erc20}
	for i := 0; i < nv; i++ {
		gen.Powers = append(gen.Powers, int64(1+r.Intn(5)))
		pb := ""
		if p.Probono && r.Chance(40) {
			pb = []string{"0.5", "0.3", "1", "0.333333333333333333", "0"}[r.Intn(5)]
		}
		gen.Probono = append(gen.Probono, pb)
	}
	vps := p.VotePeriods
	if len(vps) == 0 {
		vps = []uint64{1, 2, 3}
	}
	gen.VotePeriod = vps[r.Intn(len(vps))]
	gen.Window = gen.VotePeriod * uint64(1+r.Intn(6))
	if gen.Window < 2 {
		gen.Window = 2
	}
	gen.MaxMiss = uint64(1 + r.Intn(2))
	if gen.MaxMiss >= gen.Window {
		gen.MaxMiss = gen.Window - 1
	}
	gen.Threshold = []string{"0.5", "0.5", "0.6", "0.666666666666666667", "1", "0.75"}[r.Intn(6)]
	gen.SlashFrac = []string{"0.01", "0.5", "0.000001", "1"}[r.Intn(4)]
	gen.Chains = [][]string{{"1"}, {"1", "137"}, {"1"}}[r.Intn(3)]
	// with an unbonding time of a nanosecond an emptied validator is REMOVED by the staking end-block one block later
	gen.FastUnbond = p.Jail && r.Chance(40)
	g.offender = -1
	if gen.FastUnbond && r.Chance(40) {
		// directed: one validator answers wrongly in every round, exceeds the tolerated misses, takes its whole stake back
		// one block before a slash window closes and has been removed from staking when the closing tally runs
		g.offender = r.Intn(nv)
		gen.MaxMiss = 1
		gen.Window = gen.VotePeriod * 6
	}
	if p.Replica && g.offender < 0 && r.Chance(30) {
		// directed: the validators split into two camps of EQUAL power that reveal different owners, at a threshold of one
		// half - both owners reach it. Whatever decides between them must not depend on the order of a Go map.
		g.split = true
		g.clean = true
		gen.Threshold = "0.5"
		for i := range gen.Powers {
			gen.Powers[i] = 3
		}
		if nv%2 == 1 {
			gen.Powers[nv-1] = 6 // an odd validator out: it balances two of the others
		}
	}
	g.leaver = -1
	g.revealedAt = map[int]int64{}
	if gen.FastUnbond && g.offender < 0 && r.Chance(45) {
		// directed: a validator reveals the majority answer and has left staking (removed, not just unbonding) when the
		// round is tallied; the vote window is long enough for reveal, undelegation, removal and tally to be four blocks
		g.leaver = r.Intn(nv)
		g.clean = true
		if gen.VotePeriod < 4 {
			gen.VotePeriod = 4
		}
		// the window is a multiple of the vote period (parameter validation)
		gen.Window = gen.VotePeriod * uint64(1+r.Intn(3))
		if gen.MaxMiss >= gen.Window {
			gen.MaxMiss = gen.Window - 1
		}
	}
	g.h.Genesis = gen
	for i := nv; i < nv+4; i++ {
		g.users = append(g.users, i)
	}
	if p.Internal {
		owner := MakeAcct(gen.NAccts - 1)
		g.nftAddr = ethcrypto.CreateAddress(owner.Hex(), 0).Hex()
	}
	if p.Isolation {
		// the tenant under observation is not always the one with the lowest id (store order = id order)
		g.h.Focal = []uint64{1, 1, 2, 2, 2, 3}[r.Intn(6)]
	}
	if p.Imported {
		g.importedGenesis()
	}
	blocks := p.Blocks
	if blocks == 0 {
		blocks = 16
	}
	blocks = blocks/2 + r.Intn(blocks/2+1)
	for b := 0; b < blocks; b++ {
		g.block()
	}
	return g.h
}

// tenants and records that only a genesis import can create: several recipients, explicit
// weights (zero, huge, summing beyond 2^32), null addresses, unknown payout methods
func (g *genState) importedGenesis() {
	r := g.r
	if g.p.Many {
		g.manyGenesis()
		return
	}
	nt := 1 + r.Intn(2)
	weights := []uint32{0, 1, 1, 2, 3, 7, 1 << 31, 1<<32 - 1, 1 << 30}
	for t := 1; t <= nt; t++ {
		adm := g.user()
		method, contract := "native", ""
		if r.Chance(8) {
			method = "weird"
		} else if r.Chance(30) {
			// several weighted recipients paid through a token contract that is not the module's
			method = "mintable_contract"
			contract = append([]string{"", "zz"}, foreignContracts...)[r.Intn(len(foreignContracts)+2)]
			if r.Chance(40) {
				contract = foreignContracts[r.Intn(9)] // one that fails every call
			}
		}
		denom := tenantDenoms[r.Intn(2)]
		period := uint64(1 + r.Intn(6))
		g.h.Genesis.Tenants = append(g.h.Genesis.Tenants, GenTenant{Id: uint64(t), Admins: []int{adm}, Denom: denom, Period: period, Method: method, Contract: contract})
		g.tenants = append(g.tenants, genTenant{id: uint64(t), admins: []int{adm}, denom: denom, period: period})
		nrec := 1 + r.Intn(4)
		id := uint64(r.Intn(3))
		for k := 0; k < nrec; k++ {
			nr := r.Intn(5)
			var recips []GenRecip
			for j := 0; j < nr; j++ {
				addr := ownerPool[r.Intn(len(ownerPool))]
				if r.Chance(30) {
					addr = MakeAcct(g.user()).Hex().Hex()
				}
				recips = append(recips, GenRecip{Addr: addr, Weight: weights[r.Intn(len(weights))]})
			}
			g.reqCtr++
			req := fmt.Sprintf("g%d", g.reqCtr)
			amt := fmt.Sprint(1 + r.Intn(100000))
			if r.Chance(10) {
				amt = "340282366920938463463374607431768211455" // 2^128-1: amount * weight still fits 256 bits
			}
			if g.h.Genesis.BigFunds && r.Chance(50) {
				// whole coins of an 18-decimal denomination: a share that is off in the 18th digit shows in base units
				amt = []string{"10000000000000000000", "3000000000000000007", "1000000000000000000000", "999999999999999999999"}[r.Intn(4)]
				g.bigTenants = append(g.bigTenants, uint64(t))
			}
			created := uint64(r.Intn(3))
			if r.Chance(15) {
				// creation heights above the height the import starts from (an export of a longer chain, an edited genesis)
				created = []uint64{4, 9, 14, 40, 1 << 62, 1 << 63, 1<<64 - 1, 1<<64 - 3}[r.Intn(8)]
			}
			u := GenUtxr{Tid: uint64(t), Id: id, Req: req, Recips: recips, Denom: denom, Amount: amt,
				Chain: g.h.Genesis.Chains[0], Contract: extContracts[r.Intn(len(extContracts))], Tok: []string{"0x1", "0x2", "0x3"}[r.Intn(3)], Created: created}
			g.h.Genesis.Utxrs = append(g.h.Genesis.Utxrs, u)
			g.recs = append(g.recs, &pendRec{tid: uint64(t), req: req, chain: u.Chain, contract: u.Contract, tok: u.Tok, created: int64(u.Created), external: true})
			id += uint64(1 + r.Intn(3))
		}
	}
}

func (g *genState) user() int { return g.users[g.r.Intn(len(g.users))] }

// userFor: under the isolation profile tenant 1 is operated by the first two user accounts and every other
// tenant by the rest, so that nobody who acts for tenant 1 is debited or credited by the others
func (g *genState) userFor(tid uint64) int {
	if !g.p.Isolation {
		return g.user()
	}
	if tid == g.h.FocalTenant() {
		return g.users[g.r.Intn(2)]
	}
	return g.users[2+g.r.Intn(len(g.users)-2)]
}

func (g *genState) amount() string {
	r := g.r
	if g.p.Adversarial && r.Chance(25) {
		return []string{"0", "-5", "9223372036854775808", "115792089237316195423570985008687907853269984665640564039457584007913129639935", "18446744073709551616", "1"}[r.Intn(6)]
	}
	return fmt.Sprint(1 + r.Intn(400))
}

func (g *genState) denomFor(t *genTenant) string {
	if g.p.Adversarial && g.r.Chance(15) {
		return []string{"!!", "", "x", "utok", "a/b", "1abc", strings.Repeat("d", 129), "ibc/ABC"}[g.r.Intn(8)]
	}
	return t.denom
}

func (g *genState) period() uint64 {
	r := g.r
	if g.p.BigPeriods && r.Chance(35) {
		h := uint64(g.height)
		return []uint64{1<<63 - 1, 1 << 63, ^uint64(0), ^uint64(0) - h, ^uint64(0) - h + 1, ^uint64(0) - h - 1, 1<<64 - 1 - 2*h, 1 << 62}[r.Intn(8)]
	}
	pm := g.p.PeriodMax
	if pm == 0 {
		pm = 9
	}
	return uint64(1 + r.Intn(pm))
}

func (g *genState) pickTenant() *genTenant {
	if len(g.tenants) == 0 {
		return nil
	}
	return &g.tenants[g.r.Intn(len(g.tenants))]
}

func (g *genState) senderFor(t *genTenant) int {
	r := g.r
	if len(t.admins) > 0 && !r.Chance(12) {
		return t.admins[r.Intn(len(t.admins))]
	}
	return g.userFor(t.id) // stranger, removed admin or other tenant's admin
}

func (g *genState) settlementMsg() *Msg {
	r := g.r
	t := g.pickTenant()
	k := r.Intn(100)
	if t == nil || k < 8 && len(g.tenants) < 4 {
		denom := tenantDenoms[r.Intn(len(tenantDenoms))]
		if g.p.Erc20 && r.Chance(70) {
			denom = pairDenom
		}
		if g.p.Adversarial && r.Chance(20) {
			denom = []string{"!!", "", "ab", "9x", "u tok"}[r.Intn(5)]
		}
		kind := "create_tenant"
		if g.p.Mint && (r.Chance(35) || g.p.Faults && r.Chance(25)) {
			kind = "create_tenant_mc"
		}
		m := &Msg{Kind: kind, Sender: g.userFor(uint64(len(g.tenants) + 1)), Denom: denom, Period: g.period()}
		if kind == "create_tenant_mc" && (r.Chance(30) || g.p.Faults && r.Chance(45)) {
			// the tenant names its own token contract: any address will do for the module, among them the
			// addresses the EVM reserves (precompiles) and addresses that hold no code
			m.Contract = foreignContracts[r.Intn(len(foreignContracts))]
			if g.p.Faults && r.Chance(50) {
				// a token contract that fails every call is a payout fault that never heals
				m.Contract = foreignContracts[r.Intn(9)]
			}
			m.Period = uint64(1 + r.Intn(3))
			if !g.p.Internal {
				// recipients come from the oracle only: a record must outlive a voting round to have any when it matures
				m.Period += 2 * g.h.Genesis.VotePeriod
			}
			if g.p.Adversarial && r.Chance(10) {
				m.Contract = []string{"0x12", "zz", "0x", "0X0000000000000000000000000000000000000001"}[r.Intn(4)]
			}
		}
		if g.p.Adversarial && r.Chance(5) {
			m.Period = 0
		}
		return m
	}
	if g.p.Adversarial && r.Chance(5) {
		// non-existent tenant
		ft := genTenant{id: uint64(len(g.tenants) + 1 + r.Intn(3)), denom: "utok", admins: nil}
		t = &ft
	}
	switch {
	case k < 50:
		g.reqCtr++
		req := fmt.Sprintf("r%d", g.reqCtr)
		if r.Chance(12) && len(g.recs) > 0 {
			req = g.recs[r.Intn(len(g.recs))].req // duplicate / reused request id
		}
		if r.Chance(6) {
			req = []string{"", "r", "r1", "\x00\x01", "r1\x00", "a/b:c"}[r.Intn(6)]
		}
		if r.Chance(7) {
			// long structured ids that agree on their first 64 / 128 / 255 bytes and differ after them
			head := "settlus/marketplace-kr/creator-payout/2024-09/order-000000000000" // 64 bytes
			k := r.Intn(4)
			head = strings.Repeat(head, []int{1, 1, 2, 4}[k])[:[]int{64, 64, 128, 255}[k]]
			req = head + []string{"17/item-1", "18/item-1", "17/item-2", "", "1"}[r.Intn(5)]
		}
		m := &Msg{Kind: "record", Sender: g.senderFor(t), Tid: t.id, Req: req, Denom: g.denomFor(t), Amount: g.amount()}
		reqHex := ""
		if g.p.Adversarial && r.Chance(5) {
			// request ids that are not UTF-8 (a protobuf string field holds any bytes on the wire)
			reqHex = hex.EncodeToString([]byte(req)) + []string{"ff", "c328", "fffe00", "eda080"}[r.Intn(4)]
			m.ReqHex = reqHex
		}
		if g.p.Adversarial && r.Chance(12) {
			// metadata is free-form: only the event carries it
			m.MetaHex = []string{"ff", "c328", hex.EncodeToString([]byte(`{"a":"\u0000","b":[1,2]}`)), strings.Repeat("61", 20000), "00"}[r.Intn(5)]
		}
		if g.p.Internal && r.Chance(50) {
			m.Chain = ChainID
			m.Contract = g.nftAddr
			tok := uint64(r.Intn(int(g.nftNext) + 2))
			m.Tok = fmt.Sprintf("0x%x", tok)
			if r.Chance(10) {
				m.Tok = "0x" + strings.Repeat("0", r.Intn(4)) + fmt.Sprintf("%X", tok)
			}
			if r.Chance(8) {
				// a token id beyond 160 bits whose low 160 bits name a minted token: another token, owned by nobody
				m.Tok = "0x" + []string{"1", "ff", "8000000000000000000000"}[r.Intn(3)] + fmt.Sprintf("%040x", tok)
			}
		} else {
			m.Chain = g.h.Genesis.Chains[r.Intn(len(g.h.Genesis.Chains))]
			if r.Chance(6) {
				m.Chain = []string{"2", "", ChainID, "1 "}[r.Intn(4)]
			}
			m.Contract = extContracts[r.Intn(len(extContracts))]
			m.Tok = []string{"0x1", "0x2", "0x01", "0xff", "0x3"}[r.Intn(5)]
			if g.p.Isolation {
				m.Tok = fmt.Sprintf("0x%x", 256*t.id+uint64(r.Intn(4)))
			}
			if g.p.Adversarial && r.Chance(15) {
				m.Tok = []string{"0x", "1", "0xzz", "0x+f", "0x-1", "0x10000000000000000000000000000000000000000", "", "0X1"}[r.Intn(8)]
			}
			if g.p.Adversarial && r.Chance(8) {
				m.Contract = []string{"0x0000000000000000000000000000000000000000", "0x12", "zz", ""}[r.Intn(4)]
			}
			if len(g.h.Genesis.Chains) > 1 && r.Chance(40) {
				// the same contract address and token id on ANOTHER supported chain: a different NFT
				for _, pr := range g.recs {
					if pr.external && !pr.gone && pr.chain != m.Chain && pr.chain != ChainID {
						m.Contract, m.Tok = pr.contract, pr.tok
						break
					}
				}
			}
		}
		if m.Chain == ChainID && (g.p.Adversarial || g.p.Mint) && r.Chance(12) {
			// an NFT "contract" on this chain that is an address the EVM reserves, or one without code
			m.Contract = foreignContracts[r.Intn(len(foreignContracts))]
		}
		g.recs = append(g.recs, &pendRec{tid: t.id, req: req, reqHex: reqHex, chain: m.Chain, contract: m.Contract, tok: m.Tok, created: g.height, external: m.Chain != ChainID})
		return m
	case k < 62:
		req, reqHex := "nope", ""
		if len(g.recs) > 0 && !r.Chance(10) {
			pr := g.recs[r.Intn(len(g.recs))]
			req, reqHex = pr.req, pr.reqHex
			if !r.Chance(15) {
				for i := range g.tenants {
					if g.tenants[i].id == pr.tid {
						t = &g.tenants[i]
					}
				}
			}
		}
		return &Msg{Kind: "cancel", Sender: g.senderFor(t), Tid: t.id, Req: req, ReqHex: reqHex}
	case k < 78:
		if t.denom == pairDenom {
			// coins deposited to a token-pair tenant are not what its payouts spend (they convert the TOKEN balance):
			// such treasuries are funded by token mints (environment), coin deposits are not exercised
			return nil
		}
		m := &Msg{Kind: "deposit", Sender: g.userFor(t.id), Tid: t.id, Denom: g.denomFor(t), Amount: fmt.Sprint(1 + r.Intn(1500))}
		if r.Chance(5) {
			m.Amount = "2000000" // more than the account holds
		}
		if g.p.Adversarial && r.Chance(20) {
			m.Amount = g.amount()
		}
		if g.h.Genesis.BigFunds && r.Chance(30) {
			m.Amount = []string{"9223372036854775807", "9223372036854775808", "18446744073709551616", "340282366920938463463374607431768211456"}[r.Intn(4)]
		}
		return m
	case k < 85:
		return &Msg{Kind: "update_period", Sender: g.senderFor(t), Tid: t.id, Period: g.period(), SenderUpper: r.Chance(6)}
	case k < 93:
		m := &Msg{Kind: "add_admin", Sender: g.senderFor(t), Tid: t.id, Admin: g.userFor(t.id)}
		if len(t.admins) > 0 && r.Chance(25) {
			m.Admin = t.admins[r.Intn(len(t.admins))] // somebody who is an admin already ...
			m.AdminUpper = r.Chance(60)               // ... possibly under another spelling of the same address
		}
		m.SenderUpper = r.Chance(6)
		return m
	default:
		adm := g.userFor(t.id)
		if len(t.admins) > 0 && r.Chance(70) {
			adm = t.admins[r.Intn(len(t.admins))]
		}
		return &Msg{Kind: "remove_admin", Sender: g.senderFor(t), Tid: t.id, Admin: adm, AdminUpper: r.Chance(10), SenderUpper: r.Chance(6)}
	}
}

// long queues: 110-150 single-recipient records of small amounts, all created before the import height, short periods;
// the treasuries are topped up in steps so that a payout in the middle of a queue fails for lack of funds
func (g *genState) manyGenesis() {
	r := g.r
	nt := 1 + r.Intn(2)
	total := 110 + r.Intn(41)
	huge := (g.seed+uint64(g.idx))%3 == 0 // a fixed third of the histories, whatever the random draws
	if huge {
		// one tenant with more payable records than any per-block budget a maintainer might think of (256), a second
		// one with a handful: all funded at once
		nt, total = 2, 265+r.Intn(40)
	}
	g.hugeQueue = huge
	for t := 1; t <= nt; t++ {
		adm := g.user()
		denom := tenantDenoms[r.Intn(2)]
		period := uint64(1 + r.Intn(3))
		g.h.Genesis.Tenants = append(g.h.Genesis.Tenants, GenTenant{Id: uint64(t), Admins: []int{adm}, Denom: denom, Period: period, Method: "native"})
		g.tenants = append(g.tenants, genTenant{id: uint64(t), admins: []int{adm}, denom: denom, period: period})
		n := total / nt
		if huge && t == 1 {
			n = total - 3
		} else if nt == 2 && t == 1 {
			n = 52 + r.Intn(total-104+1) // both queues longer than 50
		} else if nt == 2 {
			n = total - (len(g.h.Genesis.Utxrs))
		}
		id := uint64(r.Intn(2))
		for k := 0; k < n; k++ {
			g.reqCtr++
			req := fmt.Sprintf("g%d", g.reqCtr)
			amt := fmt.Sprint(1 + r.Intn(20))
			if r.Chance(3) && !huge {
				amt = fmt.Sprint(500 + r.Intn(1000)) // the one the treasury will be short of
			}
			recips := []GenRecip{{Addr: MakeAcct(g.user()).Hex().Hex(), Weight: 1}}
			u := GenUtxr{Tid: uint64(t), Id: id, Req: req, Recips: recips, Denom: denom, Amount: amt,
				Chain: g.h.Genesis.Chains[0], Contract: extContracts[r.Intn(len(extContracts))], Tok: []string{"0x1", "0x2", "0x3"}[r.Intn(3)], Created: uint64(r.Intn(2))}
			g.h.Genesis.Utxrs = append(g.h.Genesis.Utxrs, u)
			g.recs = append(g.recs, &pendRec{tid: uint64(t), req: req, chain: u.Chain, contract: u.Contract, tok: u.Tok, created: int64(u.Created), external: true})
			id++
		}
	}
}

// a tenant-changing message by a real admin that is going to be rolled back or only simulated, and (queued for the
// same or the next block) the action that would profit from it if it left a trace
func (g *genState) shadowWrite() []Msg {
	r := g.r
	t := g.pickTenant()
	adm := g.userFor(t.id)
	if len(t.admins) > 0 {
		adm = t.admins[r.Intn(len(t.admins))]
	}
	switch r.Intn(3) {
	case 0:
		x := g.stranger()
		g.followUps = append(g.followUps, Event{Kind: "tx", Msgs: []Msg{{Kind: "update_period", Sender: x, Tid: t.id, Period: 1}}})
		return []Msg{{Kind: "add_admin", Sender: adm, Tid: t.id, Admin: x}}
	case 1:
		if len(t.admins) > 1 {
			b := t.admins[(r.Intn(len(t.admins)))]
			if b != adm {
				g.followUps = append(g.followUps, Event{Kind: "tx", Msgs: []Msg{{Kind: "update_period", Sender: b, Tid: t.id, Period: t.period}}})
				return []Msg{{Kind: "remove_admin", Sender: adm, Tid: t.id, Admin: b}}
			}
		}
		fallthrough
	default:
		return []Msg{{Kind: "update_period", Sender: adm, Tid: t.id, Period: 1}}
	}
}

// closeWithin reports whether a slash window closes in one of the next n blocks (the first tally at or after a
// multiple of the window)
func (g *genState) closeWithin(n int64) bool {
	p := int64(g.h.Genesis.VotePeriod)
	w := int64(g.h.Genesis.Window)
	for h := g.height; h <= g.height+n; h++ {
		if h%(2*p) == 2*p-1 && h >= w && h%w < 2*p {
			return true
		}
	}
	return false
}

func (g *genState) stranger() int {
	return g.users[len(g.users)-1-g.r.Intn(2)]
}

// optimistic tracking (assumes success when the sender is an admin); only steers generation
func (g *genState) track(m *Msg) {
	switch m.Kind {
	case "create_tenant", "create_tenant_mc":
		if m.Period != 0 && len(m.Denom) >= 3 && m.Denom != "!!" && m.Denom != "u tok" && m.Denom[0] != '9' {
			g.tenants = append(g.tenants, genTenant{id: uint64(len(g.tenants) + 1), admins: []int{m.Sender}, denom: m.Denom, period: m.Period, mint: m.Kind == "create_tenant_mc"})
		}
	case "add_admin":
		for i := range g.tenants {
			t := &g.tenants[i]
			if t.id == m.Tid && containsInt(t.admins, m.Sender) && !containsInt(t.admins, m.Admin) {
				t.admins = append(t.admins, m.Admin)
			}
		}
	case "remove_admin":
		for i := range g.tenants {
			t := &g.tenants[i]
			if t.id == m.Tid && containsInt(t.admins, m.Sender) && containsInt(t.admins, m.Admin) && len(t.admins) > 1 {
				var na []int
				for _, a := range t.admins {
					if a != m.Admin {
						na = append(na, a)
					}
				}
				t.admins = na
			}
		}
	}
}

func containsInt(l []int, x int) bool {
	for _, y := range l {
		if y == x {
			return true
		}
	}
	return false
}

func (g *genState) roundOf(h int64) (id uint64, prevoteEnd, voteEnd int64) {
	p := int64(g.h.Genesis.VotePeriod)
	s := h - h%(2*p)
	return uint64(s), s + p - 1, s + 2*p - 1
}

func (g *genState) entry(pr *pendRec, owner string) string {
	return fmt.Sprintf("%s/%s/%s:%s", pr.chain, pr.contract, pr.tok, owner)
}

func (g *genState) oracleMsgs() []Event {
	r := g.r
	var out []Event
	id, pe, ve := g.roundOf(g.height)
	// in a directed history every validator answers in every block it may, correctly and under its own name: the
	// random draws are made all the same (one stream per history), their noise is dropped
	noise := func(pct int) bool { c := r.Chance(pct); return c && !g.clean }
	for v := 0; v < g.nVals; v++ {
		if !r.Chance(75) && !g.clean {
			continue
		}
		feeder := v
		if f, ok := g.feeders[v]; ok && r.Chance(70) {
			feeder = f
		}
		if noise(4) {
			feeder = g.user() // stranger
		}
		if noise(4) {
			f := g.user()
			out = append(out, Event{Kind: "otx", Msgs: []Msg{{Kind: "consent", Val: v, Feeder: f, ValUpper: r.Chance(15)}}})
			g.feeders[v] = f
			continue
		}
		if f, ok := g.feeders[v]; ok && noise(6) {
			// take the delegation back: the operator names its own account; the former feeder keeps trying
			out = append(out, Event{Kind: "otx", Msgs: []Msg{{Kind: "consent", Val: v, Feeder: v, ValUpper: r.Chance(15)}}})
			delete(g.feeders, v)
			g.former[v] = f
			continue
		}
		if f, ok := g.former[v]; ok && noise(35) {
			feeder = f
		}
		if g.height <= pe || noise(5) {
			if _, done := g.commits[v]; done && !r.Chance(10) {
				continue
			}
			// build the vote now, commit to it
			var entries []string
			for _, pr := range g.recs {
				if !pr.external || pr.gone || pr.created >= int64(id) && !r.Chance(10) {
					continue
				}
				owner := ownerPool[0]
				if g.split {
					// camp A: the validators that make up half of the power (the first ones; with an odd count the last one
					// carries double power and belongs to camp B together with one of the others)
					half := g.nVals / 2
					campB := v >= half
					if g.nVals%2 == 1 {
						campB = v == g.nVals-1 || v < (g.nVals-3)/2
					}
					if campB {
						owner = ownerPool[1]
					}
				} else if (noise(g.p.Wrongness) && v != g.leaver) || v == g.offender {
					owner = ownerPool[1+r.Intn(len(ownerPool)-1)]
					if v != g.offender && r.Chance(20) {
						owner = ownerPool[0]
					}
					if owner != ownerPool[0] {
						g.wrong[v]++
					}
				}
				entries = append(entries, g.entry(pr, owner))
				if r.Chance(8) {
					entries = append(entries, g.entry(pr, owner)) // repeated entry
				}
			}
			if g.p.Adversarial && r.Chance(15) {
				entries = append(entries, []string{"1/0x1/0x2", "1/0x1:0x2", "nonsense", "2/0xc1/0x1:0xa1", "1/0xc1/0x1:0xa1:0xa2", ":", "//:"}[r.Intn(7)])
			}
			var vd []VD
			if len(entries) > 0 && r.Chance(15) {
				// the same topic in several items of one vote, entries repeated across the items
				cut := r.Intn(len(entries) + 1)
				vd = append(vd, VD{Topic: 1, Entries: entries[:cut]})
				rest := append([]string{}, entries[cut:]...)
				for _, e := range entries[:cut] {
					if r.Chance(50) {
						rest = append(rest, e)
					}
				}
				vd = append(vd, VD{Topic: 1, Entries: rest})
				if r.Chance(30) {
					vd = append(vd, VD{Topic: 1, Entries: entries})
				}
			} else if len(entries) > 0 || r.Chance(50) {
				vd = append(vd, VD{Topic: 1, Entries: entries})
			}
			if g.p.Adversarial && r.Chance(10) {
				vd = append([]VD{{Topic: 0, Entries: []string{[]string{"1/0x1/0x2", "x", "1/0xc1/0x1:0xa1"}[r.Intn(3)]}}}, vd...)
			}
			if g.p.Adversarial && r.Chance(4) {
				vd = append(vd, VD{Topic: 7, Entries: []string{"x"}})
			}
			salt := fmt.Sprintf("%04X", r.Intn(65536))
			vote := &Msg{Kind: "vote", Feeder: feeder, Val: v, VD: vd, Salt: salt, Round: id}
			commit := salt
			for _, d := range vd {
				commit += strings.Join(d.Entries, "")
			}
			rid := id
			if noise(4) {
				rid = id + uint64(2*g.h.Genesis.VotePeriod)
			}
			out = append(out, Event{Kind: "otx", Msgs: []Msg{{Kind: "prevote", Feeder: feeder, Val: v, Commit: commit, Round: rid, ValUpper: r.Chance(5)}}})
			g.commits[v] = vote
		} else if g.height <= ve {
			vote, ok := g.commits[v]
			if !ok {
				if r.Chance(10) {
					out = append(out, Event{Kind: "otx", Msgs: []Msg{{Kind: "vote", Feeder: feeder, Val: v, Salt: "00", Round: id}}})
				}
				continue
			}
			m := *vote
			m.Feeder = feeder
			m.ValUpper = r.Chance(12)
			if noise(5) {
				m.Salt = m.Salt + "x" // does not open the commitment
			}
			if noise(3) {
				m.Round = id + 1
			}
			out = append(out, Event{Kind: "otx", Msgs: []Msg{m}})
			g.revealedAt[v] = g.height
			// the reveal is sometimes sent again (at once or in a later block of the window): a prevote opens once,
			// under whatever spelling of the validator address the reveal used
			if m.ValUpper && r.Chance(50) {
				m2 := m
				m2.ValUpper = r.Chance(50)
				out = append(out, Event{Kind: "otx", Msgs: []Msg{m2}})
			}
			if !r.Chance(10) && !(m.ValUpper && r.Chance(50)) {
				delete(g.commits, v)
			}
		}
	}
	return out
}

func (g *genState) block() {
	r := g.r
	g.height++
	_, _, ve := g.roundOf(g.height)
	var envs []Env
	if g.p.Imported && g.height == 1 {
		for _, t := range g.tenants {
			if r.Chance(80) {
				envs = append(envs, Env{Kind: "bank_send", From: g.user(), To: -1 - int(t.id), Denom: t.denom, Amount: fmt.Sprint(1 + r.Intn(300000))})
			}
		}
		for _, tid := range g.bigTenants {
			for _, t := range g.tenants {
				if t.id == tid && r.Chance(80) {
					envs = append(envs, Env{Kind: "bank_send", From: g.user(), To: -1 - int(t.id), Denom: t.denom, Amount: "5000000000000000000000"})
				}
			}
		}
	}
	if g.p.Many && g.hugeQueue && g.height == 1 {
		for _, t := range g.tenants {
			envs = append(envs, Env{Kind: "bank_send", From: g.user(), To: -1 - int(t.id), Denom: t.denom, Amount: "20000"})
		}
	}
	if g.p.Many && !g.hugeQueue && g.height <= 6 {
		// funds arrive in steps: a few hundred units per block and tenant, never enough for the expensive record at once
		for _, t := range g.tenants {
			if r.Chance(75) {
				envs = append(envs, Env{Kind: "bank_send", From: g.user(), To: -1 - int(t.id), Denom: t.denom, Amount: fmt.Sprint(50 + r.Intn(400))})
			}
		}
	}
	if g.p.Probono && r.Chance(12) {
		// the reward pool is also fed from outside the fee path: small amounts, amounts not divisible by the power
		// sum, and amounts of whole coins (10^18 base units and above, where an 18-digit share error becomes visible)
		amt := []string{"1", "7", "1000003", "6000000000000000000", "3000000000000000007", "123456789012345678901234", "999999999999999999"}[r.Intn(7)]
		envs = append(envs, Env{Kind: "pool_fund", From: g.user(), Denom: []string{"asetl", "uusdc", "setl"}[r.Intn(3)], Amount: amt})
	}
	if g.p.Erc20 && len(g.tenants) > 0 && r.Chance(35) {
		t := g.pickTenant()
		if t.denom == pairDenom {
			envs = append(envs, Env{Kind: "erc20_mint", To: -1 - int(t.id), Amount: fmt.Sprint(1 + r.Intn(700))})
		}
	}
	if r.Chance(15) && len(g.tenants) > 0 {
		t := g.pickTenant()
		if t.denom != pairDenom { // coins sent to a token-pair treasury are not what it pays out: not exercised
			envs = append(envs, Env{Kind: "bank_send", From: g.userFor(t.id), To: -1 - int(t.id), Denom: t.denom, Amount: fmt.Sprint(1 + r.Intn(300))})
		}
	}
	if g.p.Internal {
		if g.nftNext < 4 && r.Chance(40) {
			to := g.user()
			envs = append(envs, Env{Kind: "nft_mint", To: to})
			g.nftOwner[g.nftNext] = to
			g.nftNext++
		}
		if g.nftNext > 0 && r.Chance(20) {
			tok := uint64(r.Intn(int(g.nftNext)))
			to := g.user()
			envs = append(envs, Env{Kind: "nft_transfer", From: g.nftOwner[tok], To: to, Token: tok})
			g.nftOwner[tok] = to
		}
	}
	if g.leaver >= 0 && !g.gone[g.leaver] {
		_, lpe, lve := g.roundOf(g.height)
		if at, ok := g.revealedAt[g.leaver]; ok && at > lpe && at < g.height && g.height+1 < lve && g.height > 2*int64(g.h.Genesis.VotePeriod) {
			if g.height == at+1 {
				// something to share out, so that the tally that follows has rewards to book
				envs = append(envs, Env{Kind: "pool_fund", From: g.user(), Denom: "uusdc", Amount: "1000003"})
			}
			envs = append(envs, Env{Kind: "undelegate", Val: g.leaver, Amount: "0"})
			g.gone[g.leaver] = true
			g.jailed[g.leaver] = true
		}
	}
	if g.offender >= 0 && !g.gone[g.offender] && g.height > int64(g.h.Genesis.Window) && g.closeWithin(1) && !g.closeWithin(0) {
		envs = append(envs, Env{Kind: "undelegate", Val: g.offender, Amount: "0"})
		g.gone[g.offender] = true
		g.jailed[g.offender] = true
	}
	if g.p.Jail && r.Chance(8) {
		// a validator takes its stake back: all of it (it leaves the bonded set and is removed from staking once the
		// unbonding has matured) or a part
		v := r.Intn(g.nVals)
		if r.Chance(70) {
			// preferably a validator that has answered wrongly (its miss counter is running): does the counter, and the
			// closing of the window, cope with a validator that has left?
			for i := 0; i < g.nVals; i++ {
				if g.wrong[i] > g.wrong[v] && !g.gone[i] {
					v = i
				}
			}
		}
		active := 0
		for i := 0; i < g.nVals; i++ {
			if !g.jailed[i] && !g.gone[i] {
				active++
			}
		}
		if !g.gone[v] && active > 3 {
			if r.Chance(60) {
				envs = append(envs, Env{Kind: "undelegate", Val: v, Amount: "0"}) // 0 = everything
				g.gone[v] = true
				g.jailed[v] = true
			} else if g.h.Genesis.Powers[v]-g.taken[v] >= 2 && !g.closeWithin(3) {
				// x/staking slashes unbonding entries younger than the infraction height (h-2) in place of validator tokens:
				// the model's "tokens -= min(tokens, trunc(power * 10^6 * fraction))" is staking's rule only when no such
				// entry exists, so partial undelegations keep clear of the next closing of a slash window
				envs = append(envs, Env{Kind: "undelegate", Val: v, Amount: "1000000"}) // one unit of power
				g.taken[v]++
			}
		}
	}
	if g.p.Jail && r.Chance(8) {
		v := r.Intn(g.nVals)
		if g.gone[v] {
			v = (v + 1) % g.nVals
		}
		nj := 0
		for _, j := range g.jailed {
			if j {
				nj++
			}
		}
		if g.jailed[v] {
			envs = append(envs, Env{Kind: "unjail", Val: v})
			g.jailed[v] = false
		} else if nj < g.nVals-2 {
			envs = append(envs, Env{Kind: "jail", Val: v})
			g.jailed[v] = true
		}
	}
	var sims []SimTx
	if len(g.tenants) > 0 && !g.p.Isolation && r.Chance(10) {
		sims = append(sims, SimTx{Msgs: g.shadowWrite()})
	}
	if g.p.Oracle && g.nVals > 0 && r.Chance(6) {
		// a consent that is only simulated must not make its feeder a feeder
		v := r.Intn(g.nVals)
		x := g.stranger()
		if f, ok := g.feeders[v]; !(ok && f == x) && x != v {
			sims = append(sims, SimTx{Oracle: true, Msgs: []Msg{{Kind: "consent", Val: v, Feeder: x}}})
			rid, _, _ := g.roundOf(g.height)
			g.followUps = append(g.followUps, Event{Kind: "otx", Msgs: []Msg{{Kind: "prevote", Feeder: x, Val: v, Commit: "5A5A", Round: rid}}})
		}
	}
	g.h.Events = append(g.h.Events, Event{Kind: "begin", Envs: envs, Sims: sims})
	if len(g.tenants) > 0 && !g.p.Isolation && r.Chance(8) {
		// a transaction whose first message would change a tenant and whose last message fails: all of it is rolled back
		ms := g.shadowWrite()
		ms = append(ms, Msg{Kind: "cancel", Sender: ms[0].Sender, Tid: ms[0].Tid, Req: "no-such-request"})
		g.h.Events = append(g.h.Events, Event{Kind: "tx", Msgs: ms})
	}
	g.h.Events = append(g.h.Events, g.followUps...)
	g.followUps = nil
	ntx := r.Intn(g.p.MaxTx + 1)
	for i := 0; i < ntx; i++ {
		n := 1
		if g.p.MultiTx && r.Chance(20) {
			n = 2 + r.Intn(2)
		}
		var msgs []Msg
		sender := -1
		for j := 0; j < n; j++ {
			m := g.settlementMsg()
			if m == nil {
				continue
			}
			if n > 1 {
				// one signer per multi-message transaction
				if sender < 0 {
					sender = m.Sender
				}
				m.Sender = sender
			}
			g.track(m)
			msgs = append(msgs, *m)
		}
		if len(msgs) > 0 {
			g.h.Events = append(g.h.Events, Event{Kind: "tx", Msgs: msgs})
		}
	}
	if g.p.Oracle {
		g.h.Events = append(g.h.Events, g.oracleMsgs()...)
	}
	var faults []bool
	if g.p.Faults && r.Chance(30) {
		n := 1 + r.Intn(5)
		for i := 0; i < n; i++ {
			faults = append(faults, r.Chance(40))
		}
	} else if g.p.Faults && g.p.Imported && r.Chance(40) {
		// a payout that fails after some of its transfers went through: k successful back-end calls, then a failure
		for i, k := 0, 1+r.Intn(3); i < k; i++ {
			faults = append(faults, false)
		}
		faults = append(faults, true)
	}
	g.h.Events = append(g.h.Events, Event{Kind: "end", Faults: faults})
	if g.height == ve {
		g.commits = map[int]*Msg{}
	}
}

var _ = big.NewInt
