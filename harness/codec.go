package main

// Function drivers for the codec family:
//   openings (C18): two openings of a commitment - digest, validation, the feeder's hash, and (for some)
//                   acceptance of both by the real message server through ABCI
//   tokenid  (C19): what MsgRecord.ValidateBasic accepts and what Record stores for a token id
//   entries  (C20): the reference feeder's entry formatter against the chain's parser
//   cache    (C20): the feeder's block cache against a sorted-list specification

import (
	"context"
	"crypto/sha256"
	"encoding/json"
	"flag"
	"fmt"
	"math/big"
	"os"
	"path/filepath"
	"strings"

	sdk "github.com/cosmos/cosmos-sdk/types"
	"github.com/ethereum/go-ethereum/common"

	"github.com/settlus/chain/tools/interop-node/feeder"
	"github.com/settlus/chain/tools/interop-node/subscriber"
	ftypes "github.com/settlus/chain/tools/interop-node/types"
	ctypes "github.com/settlus/chain/types"
	oracletypes "github.com/settlus/chain/x/oracle/types"
	settlementtypes "github.com/settlus/chain/x/settlement/types"
)

type codecFlags struct {
	n      *int
	seed   *uint64
	out    *string
	dir    *string
	name   *string
	replay *string
}

func codecFlagSet(cmd string, args []string) codecFlags {
	fs := flag.NewFlagSet(cmd, flag.ExitOnError)
	f := codecFlags{fs.Int("n", 200, "cases"), fs.Uint64("seed", 1, "seed"), fs.String("out", cmd+".v", "output"),
		fs.String("dir", "", "replay dir"), fs.String("name", "cases", "name"), fs.String("replay", "", "replay files")}
	fs.Parse(args)
	return f
}

func writeCodec(f codecFlags, header string, typ string, items []string, stats map[string]interface{}) {
	var sb strings.Builder
	sb.WriteString("From Coq Require Import String.\nFrom Settlus Require Import Base.Prelude Base.Hex Settlement.Model Oracle.Model Feeder.Model Exec.FuncCheck Exec.CodecCheck.\nOpen Scope string_scope. Open Scope Z_scope.\n")
	sb.WriteString(internTables())
	fmt.Fprintf(&sb, "Definition %s : list %s := [\n %s].\n", *f.name, typ, strings.Join(items, ";\n "))
	os.WriteFile(*f.out, []byte(sb.String()), 0o644)
	b, _ := json.MarshalIndent(stats, "", " ")
	os.WriteFile(strings.TrimSuffix(*f.out, ".v")+".stats.json", b, 0o644)
}

func saveCase(dir string, i int, c interface{}) {
	if dir != "" {
		b, _ := json.Marshal(c)
		os.WriteFile(filepath.Join(dir, fmt.Sprintf("hist_%d.json", i)), b, 0o644)
	}
}

func loadReplay(replay string, mk func([]byte) bool) {
	if replay == "" {
		return
	}
	for _, f := range strings.Split(replay, ",") {
		if b, err := os.ReadFile(f); err == nil {
			mk(b)
		}
	}
}

// ---------- C18 ----------
type Opening struct {
	Salt string `json:"salt"`
	VD   []VD   `json:"vd"`
}
type OpenCase struct {
	Driver string   `json:"driver"`
	Chains []string `json:"chains"`
	A, B   Opening
	ABCI   bool `json:"abci"`
}

var goodContracts = []string{"0xc1", "0x00000000000000000000000000000000000000c2"}

func genEntry(r *Rng, chains []string) string {
	owner := []string{"0xa1", "0x00000000000000000000000000000000000000a2", "a3", "0x0"}[r.Intn(4)]
	return fmt.Sprintf("%s/%s/0x%x:%s", chains[r.Intn(len(chains))], goodContracts[r.Intn(2)], 1+r.Intn(5), owner)
}

func toVoteData(vd []VD) []*oracletypes.VoteData {
	var out []*oracletypes.VoteData
	for _, v := range vd {
		out = append(out, &oracletypes.VoteData{Topic: oracletypes.OracleTopic(v.Topic), Data: v.Entries})
	}
	return out
}

func concatOpening(o Opening) string {
	s := o.Salt
	for _, v := range o.VD {
		s += strings.Join(v.Entries, "")
	}
	return s
}

func GenOpenCase(seed uint64, idx int) OpenCase {
	r := NewRng(seed*104729 + uint64(idx))
	chains := [][]string{{"1"}, {"1", "137"}, {"1", "11155111"}, {"1", "11"}}[r.Intn(4)]
	c := OpenCase{Driver: "openings", Chains: chains}
	n := 1 + r.Intn(3)
	var entries []string
	for i := 0; i < n; i++ {
		entries = append(entries, genEntry(r, chains))
	}
	salt := fmt.Sprintf("%04X", r.Intn(65536))
	c.A = Opening{Salt: salt, VD: []VD{{Topic: 1, Entries: entries}}}
	whole := concatOpening(c.A)
	switch k := r.Intn(100); {
	case k < 12: // identical opening
		c.B = c.A
	case k < 30: // the deprecated topic hides the tail of the committed bytes
		cut := r.Intn(len(entries))
		c.B = Opening{Salt: salt, VD: []VD{{Topic: 1, Entries: entries[:cut]}, {Topic: 0, Entries: entries[cut:]}}}
		if cut == 0 {
			c.B.VD = c.B.VD[1:]
		}
	case k < 42: // regrouped into several vote-data items
		c.B = Opening{Salt: salt}
		for _, e := range entries {
			c.B.VD = append(c.B.VD, VD{Topic: 1, Entries: []string{e}})
		}
	case k < 56: // the salt boundary moved into the first entry
		cut := len(salt) + 1 + r.Intn(3)
		if cut > len(whole) {
			cut = len(whole)
		}
		rest := whole[cut:]
		// re-cut the remaining bytes at the original entry boundaries where possible
		c.B = Opening{Salt: whole[:cut], VD: []VD{{Topic: 1, Entries: []string{rest}}}}
		if len(entries) > 1 {
			first := entries[0][cut-len(salt):]
			c.B.VD = []VD{{Topic: 1, Entries: append([]string{first}, entries[1:]...)}}
		}
	case k < 66: // salt shortened, its tail pushed into a deprecated-topic item
		c.B = Opening{Salt: salt[:2], VD: []VD{{Topic: 0, Entries: []string{salt[2:]}}, {Topic: 1, Entries: entries}}}
	case k < 80: // different content: another owner in one entry
		e2 := append([]string{}, entries...)
		i := r.Intn(len(e2))
		e2[i] = e2[i] + "f"
		c.B = Opening{Salt: salt, VD: []VD{{Topic: 1, Entries: e2}}}
	case k < 85: // different salt
		c.B = Opening{Salt: salt + "0", VD: c.A.VD}
	case k < 93: // further items of the same topic before / after the committed one (different committed bytes)
		extra := VD{Topic: 1, Entries: []string{genEntry(r, chains)}}
		if r.Chance(60) {
			c.B = Opening{Salt: salt, VD: []VD{extra, {Topic: 1, Entries: entries}}}
		} else {
			c.B = Opening{Salt: salt, VD: []VD{{Topic: 1, Entries: entries}, extra}}
		}
	default: // entry dropped / order swapped
		e2 := append([]string{}, entries...)
		if len(e2) > 1 {
			e2[0], e2[1] = e2[1], e2[0]
		} else {
			e2 = append(e2, genEntry(r, chains))
		}
		c.B = Opening{Salt: salt, VD: []VD{{Topic: 1, Entries: e2}}}
	}
	if r.Chance(4) {
		// long openings: a salt of 4 KiB .. 19 KB (the salt is an unconstrained string) or hundreds of entries, the two
		// openings differing only far behind the start - every committed byte must be bound, however long the reveal
		if r.Chance(50) {
			n := []int{4096, 16383, 16384, 16390, 19000}[r.Intn(5)] // coqc parses list literals of up to ~20000 elements on its default stack
			long := strings.Repeat("5A", n/2+4)
			c.A = Opening{Salt: long + "0", VD: []VD{{Topic: 1, Entries: entries}}}
			c.B = Opening{Salt: long + "1", VD: []VD{{Topic: 1, Entries: entries}}}
		} else {
			var many []string
			for i := 0; i < 150+r.Intn(200); i++ {
				many = append(many, genEntry(r, chains))
			}
			m2 := append([]string{}, many...)
			m2[len(m2)-1] = m2[len(m2)-1] + "f"
			c.A = Opening{Salt: salt, VD: []VD{{Topic: 1, Entries: many}}}
			c.B = Opening{Salt: salt, VD: []VD{{Topic: 1, Entries: m2}}}
		}
	}
	c.ABCI = r.Chance(12)
	return c
}

func openingCoq(o Opening) string { return cStr(o.Salt) + " " + cVD(o.VD) }

// abciBothAccepted: one validator prevotes the digest and reveals A; prevotes the same digest again and reveals B
func abciBothAccepted(c OpenCase) bool {
	h := History{Genesis: HGenesis{Powers: []int64{3, 2}, Probono: []string{"", ""}, NAccts: 4, VotePeriod: 4, Threshold: "0.5", SlashFrac: "0.01",
		Window: 8, MaxMiss: 2, Chains: c.Chains, Funds: 1000}}
	h.Events = []Event{
		{Kind: "begin"},
		{Kind: "otx", Msgs: []Msg{{Kind: "prevote", Feeder: 0, Val: 0, Commit: concatOpening(c.A), Round: 0}}},
		{Kind: "otx", Msgs: []Msg{{Kind: "vote", Feeder: 0, Val: 0, VD: c.A.VD, Salt: c.A.Salt, Round: 0}}},
		{Kind: "otx", Msgs: []Msg{{Kind: "prevote", Feeder: 0, Val: 0, Commit: concatOpening(c.A), Round: 0}}},
		{Kind: "otx", Msgs: []Msg{{Kind: "vote", Feeder: 0, Val: 0, VD: c.B.VD, Salt: c.B.Salt, Round: 0}}},
	}
	e, pi := NewExec(h)
	if pi != nil {
		panic(pi.Msg)
	}
	obs := e.Run()
	return obs[2].Class == "ok" && obs[4].Class == "ok"
}

func runOpeningsCmd(args []string) {
	f := codecFlagSet("openings", args)
	var cases []OpenCase
	loadReplay(*f.replay, func(b []byte) bool {
		var c OpenCase
		if json.Unmarshal(b, &c) == nil {
			cases = append(cases, c)
		}
		return true
	})
	for i := 0; i < *f.n; i++ {
		cases = append(cases, GenOpenCase(*f.seed, i))
	}
	resetIntern()
	var items []string
	kinds := map[string]int{}
	nontrivial := 0
	var samples []string
	for i, c := range cases {
		saveCase(*f.dir, i, c)
		vdA, vdB := toVoteData(c.A.VD), toVoteData(c.B.VD)
		hA, _ := oracletypes.GetAggregateVoteHash(vdA, c.A.Salt)
		hB, _ := oracletypes.GetAggregateVoteHash(vdB, c.B.Salt)
		v1 := oracletypes.ValidateVoteData(vdA, c.Chains)
		v2 := oracletypes.ValidateVoteData(vdB, c.Chains)
		fA := feeder.GeneratePrevoteHash(ftypes.VoteDataArr(vdA), c.A.Salt)
		fB := feeder.GeneratePrevoteHash(ftypes.VoteDataArr(vdB), c.B.Salt)
		sumA := sha256.Sum256([]byte(concatOpening(c.A)))
		agrees := fA == hA && fB == hB && hA == fmt.Sprintf("%X", sumA[:])
		both := "None"
		if c.ABCI {
			both = "(Some " + cBool(abciBothAccepted(c)) + ")"
		}
		same := hA == hB
		differ := c.A.Salt != c.B.Salt || fmt.Sprint(c.A.VD) != fmt.Sprint(c.B.VD)
		switch {
		case !differ:
			kinds["identical"]++
		case same && v1 && v2:
			kinds["second_opening_accepted"]++
			nontrivial++
		case same:
			kinds["same_digest_invalid"]++
		default:
			kinds["different_digest"]++
		}
		if len(samples) < 2 && differ {
			b, _ := json.Marshal(c)
			samples = append(samples, string(b))
		}
		var chains []string
		for _, ch := range c.Chains {
			chains = append(chains, cStr(ch))
		}
		items = append(items, fmt.Sprintf("mkOC %s %s %s %s %s %s %s %s", cList(chains), openingCoq(c.A), openingCoq(c.B), cBool(same), cBool(v1), cBool(v2), cBool(agrees), both))
	}
	writeCodec(f, "", "ocase", items, map[string]interface{}{"cases": len(cases), "nontrivial": nontrivial, "samples": samples, "kinds": kinds})
}

// ---------- C19 ----------
type TokCase struct {
	Driver string `json:"driver"`
	T1     string `json:"t1"`
	T2     string `json:"t2"`
}

func genTokenId(r *Rng) string {
	switch r.Intn(14) {
	case 0:
		return fmt.Sprintf("0x%x", r.Intn(300))
	case 1:
		return fmt.Sprintf("0x%s%x", strings.Repeat("0", r.Intn(5)), r.Intn(70000))
	case 2:
		return fmt.Sprintf("0x%X", r.U64())
	case 3: // exactly 2^160 + small: collapses with the small one
		return "0x1" + fmt.Sprintf("%040x", r.Intn(20))
	case 4: // a 256-bit id
		return "0x" + fmt.Sprintf("%016x%016x%016x%016x", r.U64(), r.U64(), r.U64(), r.U64())
	case 5:
		return fmt.Sprintf("0x+%x", r.Intn(20))
	case 6:
		return fmt.Sprintf("0x-%x", r.Intn(20))
	case 7:
		return []string{"0x", "1", "0xzz", "", "0X1", "0x 1", "x1", "0x+", "0x-"}[r.Intn(9)]
	case 8:
		return fmt.Sprintf("0x%040x", r.Intn(20))
	case 9: // 2^160 - 1 and neighbours
		v := new(big.Int).Lsh(big.NewInt(1), 160)
		v.Add(v, big.NewInt(int64(r.Intn(3)-1)))
		return "0x" + v.Text(16)
	case 10:
		return fmt.Sprintf("0x%x", r.Intn(20))
	case 11:
		return "0x" + strings.ToUpper(fmt.Sprintf("%x", r.Intn(5000)))
	case 12: // multiples of 2^160 added to a small number
		v := new(big.Int).Lsh(big.NewInt(int64(1+r.Intn(1000))), 160)
		v.Add(v, big.NewInt(int64(r.Intn(20))))
		return "0x" + v.Text(16)
	}
	return fmt.Sprintf("0x%x", r.Intn(20))
}

func tokenObs(t string) (valid bool, stored *big.Int, value string) {
	acct := MakeAcct(8)
	msg := settlementtypes.NewMsgRecord(acct.Bech(), 1, "r", sdk.NewCoin("utok", sdk.NewInt(1)), "1", "0x00000000000000000000000000000000000000c1", t, "")
	valid = msg.ValidateBasic() == nil
	stored = new(big.Int).SetBytes(ctypes.NormalizeHexAddress(t).Bytes())
	value = "None"
	if len(t) > 2 && strings.HasPrefix(t, "0x") {
		if v, ok := new(big.Int).SetString(t[2:], 16); ok {
			value = "(Some " + cZ(v) + ")"
		}
	}
	return
}

func runTokenCmd(args []string) {
	f := codecFlagSet("tokenid", args)
	var cases []TokCase
	loadReplay(*f.replay, func(b []byte) bool {
		var c TokCase
		if json.Unmarshal(b, &c) == nil {
			cases = append(cases, c)
		}
		return true
	})
	r := NewRng(*f.seed*31337 + 5)
	for i := 0; i < *f.n; i++ {
		cases = append(cases, TokCase{Driver: "tokenid", T1: genTokenId(r), T2: genTokenId(r)})
	}
	resetIntern()
	var items []string
	nontrivial := 0
	valids := 0
	seen := map[string]bool{}
	var samples []string
	for i, c := range cases {
		saveCase(*f.dir, i, c)
		v1, s1, x1 := tokenObs(c.T1)
		v2, s2, x2 := tokenObs(c.T2)
		if v1 {
			valids++
		}
		if v1 && v2 && !seen[c.T1+"|"+c.T2] {
			seen[c.T1+"|"+c.T2] = true
			nontrivial++
		}
		if len(samples) < 3 && v1 && v2 {
			b, _ := json.Marshal(c)
			samples = append(samples, string(b))
		}
		items = append(items, fmt.Sprintf("mkTC %s %s %s %s %s %s %s %s", cStr(c.T1), cStr(c.T2), cBool(v1), cBool(v2), cZ(s1), cZ(s2), x1, x2))
	}
	writeCodec(f, "", "tcase", items, map[string]interface{}{"cases": len(cases), "nontrivial": nontrivial, "samples": samples, "first_id_accepted": valids})
}

// ---------- C20: entries ----------
type fakeSub struct {
	id    string
	owner string
}

func (s fakeSub) Id() string                { return s.id }
func (s fakeSub) Start(ctx context.Context) {}
func (s fakeSub) Stop()                     {}
func (s fakeSub) GetOldestBlock(ts uint64) (oracletypes.BlockData, error) {
	return oracletypes.BlockData{ChainId: s.id, BlockNumber: 1, BlockHash: "0x01"}, nil
}
func (s fakeSub) OwnerOf(ctx context.Context, nftAddressHex string, tokenIdHex string, blockHash string) (string, error) {
	return s.owner, nil
}

var _ subscriber.Subscriber = fakeSub{}

type EntryCase struct {
	Driver string   `json:"driver"`
	Chains []string `json:"chains"`
	Chain  string   `json:"chain"`
	Contr  string   `json:"contract"`
	Tok    string   `json:"token"`
	Owner  string   `json:"owner"`
}

func GenEntryCase(seed uint64, idx int) EntryCase {
	r := NewRng(seed*65537 + uint64(idx))
	c := EntryCase{Driver: "entries", Chains: [][]string{{"1"}, {"1", "137"}, {"1", "a:b"}, {"1", "x/y"}}[r.Intn(4)]}
	c.Chain = c.Chains[r.Intn(len(c.Chains))]
	if r.Chance(5) {
		c.Chain = "2"
	}
	c.Contr = []string{"0xc1", "0x00000000000000000000000000000000000000C2", "c3"}[r.Intn(3)]
	c.Tok = genTokenId(r)
	if r.Chance(60) {
		c.Tok = fmt.Sprintf("0x%x", r.Intn(100))
	}
	switch r.Intn(10) {
	case 0:
		c.Owner = "0x00"
	case 1:
		c.Owner = "0x0000000000000000000000000000000000000000000000000000000000000000"
	case 2:
		c.Owner = "0x000000000000000000000000" + fmt.Sprintf("%040x", r.U64())
	case 3:
		c.Owner = fmt.Sprintf("%040X", r.U64())
	case 4:
		c.Owner = fmt.Sprintf("0x%x", r.U64())
	case 5:
		c.Owner = "0x0" + fmt.Sprintf("%x", r.Intn(4096))
	case 6:
		c.Owner = fmt.Sprintf("0x%016x%016x%016x", r.U64(), r.U64(), r.U64())
	case 7:
		c.Owner = []string{"", "0x", "zz", "0xg1", "0x1:2"}[r.Intn(5)]
	default:
		c.Owner = fmt.Sprintf("0x%040x", r.U64())
	}
	return c
}

func runEntriesCmd(args []string) {
	f := codecFlagSet("entries", args)
	var cases []EntryCase
	loadReplay(*f.replay, func(b []byte) bool {
		var c EntryCase
		if json.Unmarshal(b, &c) == nil {
			cases = append(cases, c)
		}
		return true
	})
	for i := 0; i < *f.n; i++ {
		cases = append(cases, GenEntryCase(*f.seed, i))
	}
	resetIntern()
	var items []string
	nontrivial := 0
	rejected := 0
	var samples []string
	for i, c := range cases {
		saveCase(*f.dir, i, c)
		// the source string as the chain publishes it for a pending record
		nft := ctypes.Nft{ChainId: c.Chain, ContractAddr: ctypes.NormalizeHexAddress(c.Contr), TokenId: ctypes.NormalizeHexAddress(c.Tok)}
		src := nft.FormatString()
		fd := feeder.NewVerifFeeder([]subscriber.Subscriber{fakeSub{id: c.Chain, owner: c.Owner}})
		formatted := ""
		if out, err := fd.VerifGatherNftOwnerDataString([]string{src}, 1); err == nil && len(out) == 1 {
			formatted = out[0]
		} else {
			formatted = "<error>"
		}
		parsed := "None"
		func() {
			defer func() {
				if r := recover(); r != nil {
					parsed = "None"
				}
			}()
			pn, po, err := oracletypes.StringToOwnershipData(formatted)
			if err == nil {
				parsed = fmt.Sprintf("(Some (%s, %s, %s, %s))", cStr(pn.ChainId), cZ(addrInt(pn.ContractAddr.Bytes())), cZ(addrInt(pn.TokenId.Bytes())), cZ(addrInt(common.HexToAddress(string(po)).Bytes())))
			}
		}()
		valid := false
		func() {
			defer func() { recover() }()
			valid = oracletypes.ValidateVoteData([]*oracletypes.VoteData{{Topic: oracletypes.OracleTopic_OWNERSHIP, Data: []string{formatted}}}, c.Chains)
		}()
		if valid {
			nontrivial++
		} else {
			rejected++
		}
		if len(samples) < 2 {
			b, _ := json.Marshal(c)
			samples = append(samples, string(b))
		}
		var chains []string
		for _, ch := range c.Chains {
			chains = append(chains, cStr(ch))
		}
		sp := settlementtypes.DefaultParams()
		sp.SupportedChains = nil
		for k, ch := range c.Chains {
			sp.SupportedChains = append(sp.SupportedChains, &ctypes.Chain{ChainId: ch, ChainName: fmt.Sprintf("chain%d", k), ChainUrl: "http://x"})
		}
		configOk := sp.Validate() == nil
		nftCoq := fmt.Sprintf("(%s, %s, %s)", cStr(c.Chain), cZ(addrInt(nft.ContractAddr.Bytes())), cZ(addrInt(nft.TokenId.Bytes())))
		items = append(items, fmt.Sprintf("mkEC %s %s %s %s %s %s %s %s", cList(chains), cBool(configOk), nftCoq, cStr(src), cStr(c.Owner), cStr(formatted), parsed, cBool(valid)))
	}
	writeCodec(f, "", "ecase", items, map[string]interface{}{"cases": len(cases), "nontrivial": nontrivial, "samples": samples, "rejected_by_chain": rejected})
}

// ---------- C20: cache ----------
type CacheOp struct {
	Put  bool   `json:"put"`
	Ts   uint64 `json:"ts"`
	Hash string `json:"hash,omitempty"`
	Num  int64  `json:"num,omitempty"`
}
type CacheCase struct {
	Driver string    `json:"driver"`
	Cap    int       `json:"cap"`
	Ops    []CacheOp `json:"ops"`
}

func GenCacheCase(seed uint64, idx int) CacheCase {
	r := NewRng(seed*15485863 + uint64(idx))
	c := CacheCase{Driver: "cache", Cap: 1 + r.Intn(5)}
	n := 4 + r.Intn(20)
	span := uint64(3 + r.Intn(12))
	for i := 0; i < n; i++ {
		ts := uint64(10) + uint64(r.Intn(int(span)))
		if r.Chance(5) {
			ts = []uint64{0, 1, ^uint64(0), 1 << 63}[r.Intn(4)]
		}
		if r.Chance(55) {
			c.Ops = append(c.Ops, CacheOp{Put: true, Ts: ts, Hash: fmt.Sprintf("h%d", i), Num: int64(i)})
		} else {
			c.Ops = append(c.Ops, CacheOp{Ts: ts})
		}
	}
	return c
}

func runCacheCmd(args []string) {
	f := codecFlagSet("cache", args)
	var cases []CacheCase
	loadReplay(*f.replay, func(b []byte) bool {
		var c CacheCase
		if json.Unmarshal(b, &c) == nil {
			cases = append(cases, c)
		}
		return true
	})
	for i := 0; i < *f.n; i++ {
		cases = append(cases, GenCacheCase(*f.seed, i))
	}
	resetIntern()
	var items []string
	nontrivial := 0
	var samples []string
	for i, c := range cases {
		saveCase(*f.dir, i, c)
		bc := subscriber.NewBlockCache(c.Cap)
		var ops, answers []string
		evicting := false
		puts := map[uint64]bool{}
		for _, op := range c.Ops {
			if op.Put {
				bc.PutBlockData(op.Hash, op.Num, op.Ts)
				puts[op.Ts] = true
				if len(puts) > c.Cap {
					evicting = true
				}
				ops = append(ops, fmt.Sprintf("CPut %s %s %d", u64z(op.Ts), cStr(op.Hash), op.Num))
			} else {
				h, n := bc.GetOldestBlock(op.Ts)
				ops = append(ops, fmt.Sprintf("CGet %s", u64z(op.Ts)))
				answers = append(answers, fmt.Sprintf("(%s, %d)", cStr(h), n))
			}
		}
		if evicting {
			nontrivial++
		}
		if len(samples) < 2 && evicting {
			b, _ := json.Marshal(c)
			samples = append(samples, string(b))
		}
		items = append(items, fmt.Sprintf("mkKC %d %s %s", c.Cap, cList(ops), cList(answers)))
	}
	writeCodec(f, "", "kcase", items, map[string]interface{}{"cases": len(cases), "nontrivial": nontrivial, "samples": samples})
}
