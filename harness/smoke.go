package main

import (
	"fmt"
	"time"

	sdk "github.com/cosmos/cosmos-sdk/types"
	oracletypes "github.com/settlus/chain/x/oracle/types"
	settlementtypes "github.com/settlus/chain/x/settlement/types"
)

func smoke() {
	t0 := time.Now()
	op := oracletypes.DefaultParams()
	op.VotePeriod = 2
	op.SlashWindow = 8
	op.MaxMissCountPerSlashWindow = 1
	spec := GenesisSpec{
		Vals:       []ValSpec{{Power: 3}, {Power: 2}, {Power: 1, Probono: "0.5"}},
		NAccts:     6,
		Oracle:     op,
		Settlement: settlementtypes.DefaultParams(),
	}
	c, pi := NewChain(spec)
	fmt.Println("init", pi, time.Since(t0))
	for h := 0; h < 5; h++ {
		if pi := c.Begin(); pi != nil {
			fmt.Println("begin panic", pi)
			return
		}
		if h == 0 {
			m := settlementtypes.NewMsgCreateTenant(c.Accts[3].Bech(), "utok", 3)
			r := c.Deliver(TxSpec{Msgs: []sdk.Msg{m}, Fee: sdk.NewCoins(sdk.NewCoin("uusdc", sdk.NewInt(3000000000000))), Gas: 200000})
			fmt.Println("create tenant:", r.Class(), r.Code, r.Log, r.GasUsed)
		}
		_, pi := c.End()
		fmt.Println("end", c.Height, pi)
		fmt.Printf("apphash %x\n", c.Commit())
	}
	fmt.Println("total", time.Since(t0))
}
