package main

// ABCI driver: builds a genesis by hand, drives the real SettlusApp through
// InitChain / BeginBlock / DeliverTx / EndBlock / Commit on an in-memory DB.
// Every ABCI call is wrapped in recover: a panic is an observation.

import (
	evmoscontracts "github.com/evmos/evmos/v19/contracts"
	"crypto/sha256"
	"encoding/json"
	"fmt"
	"math/big"
	"time"

	dbm "github.com/cometbft/cometbft-db"
	abci "github.com/cometbft/cometbft/abci/types"
	"github.com/cometbft/cometbft/libs/log"
	tmproto "github.com/cometbft/cometbft/proto/tendermint/types"
	"github.com/cosmos/cosmos-sdk/baseapp"
	"github.com/cosmos/cosmos-sdk/client"
	clienttx "github.com/cosmos/cosmos-sdk/client/tx"
	codectypes "github.com/cosmos/cosmos-sdk/codec/types"
	"github.com/cosmos/cosmos-sdk/crypto/keys/ed25519"
	cryptotypes "github.com/cosmos/cosmos-sdk/crypto/types"
	simtestutil "github.com/cosmos/cosmos-sdk/testutil/sims"
	sdk "github.com/cosmos/cosmos-sdk/types"
	"github.com/cosmos/cosmos-sdk/types/tx/signing"
	authsigning "github.com/cosmos/cosmos-sdk/x/auth/signing"
	authtypes "github.com/cosmos/cosmos-sdk/x/auth/types"
	banktypes "github.com/cosmos/cosmos-sdk/x/bank/types"
	crisistypes "github.com/cosmos/cosmos-sdk/x/crisis/types"
	govtypesv1 "github.com/cosmos/cosmos-sdk/x/gov/types/v1"
	minttypes "github.com/cosmos/cosmos-sdk/x/mint/types"
	stakingtypes "github.com/cosmos/cosmos-sdk/x/staking/types"
	"github.com/ethereum/go-ethereum/common"
	ethcrypto "github.com/ethereum/go-ethereum/crypto"
	"github.com/evmos/evmos/v19/crypto/ethsecp256k1"
	"github.com/evmos/evmos/v19/encoding"
	evmtypes "github.com/evmos/evmos/v19/x/evm/types"
	feemarkettypes "github.com/evmos/evmos/v19/x/feemarket/types"
	inflationtypes "github.com/evmos/evmos/v19/x/inflation/v1/types"

	"github.com/settlus/chain/app"
	"github.com/settlus/chain/cmd/settlusd/config"
	"github.com/settlus/chain/contracts"
	"github.com/settlus/chain/utils"
	oracletypes "github.com/settlus/chain/x/oracle/types"
	settlementtypes "github.com/settlus/chain/x/settlement/types"
)

const ChainID = utils.MainnetChainID

func init() {
	cfg := sdk.GetConfig()
	config.SetBech32Prefixes(cfg)
	config.SetBip44CoinType(cfg)
	config.RegisterDenom()
	feemarkettypes.DefaultMinGasPrice = sdk.ZeroDec()
}

type Acct struct {
	Priv cryptotypes.PrivKey
	Addr sdk.AccAddress
}

func (a Acct) Bech() string        { return a.Addr.String() }
func (a Acct) Val() sdk.ValAddress { return sdk.ValAddress(a.Addr) }
func (a Acct) Hex() common.Address { return common.BytesToAddress(a.Addr) }

// deterministic account table: replay files stay valid across runs
func MakeAcct(i int) Acct {
	h := sha256.Sum256([]byte(fmt.Sprintf("verif-acct-%d", i)))
	priv := &ethsecp256k1.PrivKey{Key: h[:]}
	return Acct{Priv: priv, Addr: sdk.AccAddress(priv.PubKey().Address())}
}

type ValSpec struct {
	Power   int64  // consensus power (tokens = power * 10^18)
	Probono string // "" = not pro-bono, else commission rate as decimal string
	Jailed  bool
	Status  stakingtypes.BondStatus // 0 => Bonded
}

type GenesisSpec struct {
	Vals       []ValSpec
	NAccts     int // accounts 0..NAccts-1; validators' operators are accounts 0..len(Vals)-1
	Oracle     oracletypes.Params
	OracleGen  *oracletypes.GenesisState // if set, overrides Oracle params holder (params copied in)
	Settlement settlementtypes.Params
	Tenants    []settlementtypes.Tenant
	Utxrs      []settlementtypes.UTXRWithTenantAndId
	Funds      sdk.Coins // per account
	FastUnbond bool
	MaxGas     int64     // consensus max gas; 0 => -1
	RawState   map[string]json.RawMessage // when set, used instead of building (export/import)
	InitialHeight int64                   // 0 => 1
}

type Chain struct {
	blocks  int // blocks begun since InitChain
	App     *app.SettlusApp
	Spec    GenesisSpec
	Height  int64
	Time    time.Time
	Accts   []Acct
	TxCfg   client.TxConfig
	ConsKey []cryptotypes.PubKey
	header  tmproto.Header
	NftAddr common.Address
}

type PanicInfo struct {
	Where string
	Msg   string
}

func consKey(i int) cryptotypes.PrivKey {
	h := sha256.Sum256([]byte(fmt.Sprintf("verif-cons-%d", i)))
	return ed25519.GenPrivKeyFromSecret(h[:])
}

func DefaultFunds() sdk.Coins {
	big27, _ := sdk.NewIntFromString("1000000000000000000000000000")
	return sdk.NewCoins(
		sdk.NewCoin("asetl", big27),
		sdk.NewCoin("uusdc", big27),
		sdk.NewCoin("utok", big27),
		sdk.NewCoin("setl", big27),
	)
}

func NewApp() *app.SettlusApp {
	db := dbm.NewMemDB()
	return app.NewSettlus(
		log.NewNopLogger(), db, nil, true, map[int64]bool{},
		app.DefaultNodeHome, 0,
		encoding.MakeConfig(app.ModuleBasics),
		simtestutil.NewAppOptionsWithFlagHome(app.DefaultNodeHome),
		baseapp.SetChainID(ChainID),
	)
}

// NewChain builds the genesis and runs InitChain. Returns panic info if InitChain panicked.
func NewChain(spec GenesisSpec) (c *Chain, pi *PanicInfo) {
	a := NewApp()
	c = &Chain{App: a, Spec: spec, TxCfg: encoding.MakeConfig(app.ModuleBasics).TxConfig}
	c.Time = time.Unix(1700000000, 0).UTC()
	if spec.NAccts < len(spec.Vals) {
		spec.NAccts = len(spec.Vals)
	}
	for i := 0; i < spec.NAccts; i++ {
		c.Accts = append(c.Accts, MakeAcct(i))
	}
	var stateBytes []byte
	var err error
	if spec.RawState != nil {
		stateBytes, err = json.Marshal(spec.RawState)
		if err != nil {
			panic(err)
		}
	} else {
		gs := c.buildGenesis(spec)
		stateBytes, err = json.Marshal(gs)
		if err != nil {
			panic(err)
		}
	}
	maxGas := spec.MaxGas
	if maxGas == 0 {
		maxGas = -1
	}
	initialHeight := spec.InitialHeight
	if initialHeight == 0 {
		initialHeight = 1
	}
	cp := *app.DefaultConsensusParams
	blk := *cp.Block
	blk.MaxGas = maxGas
	cp.Block = &blk
	func() {
		defer func() {
			if r := recover(); r != nil {
				pi = &PanicInfo{Where: "InitChain", Msg: fmt.Sprint(r)}
			}
		}()
		a.InitChain(abci.RequestInitChain{
			ChainId:         ChainID,
			Validators:      []abci.ValidatorUpdate{},
			ConsensusParams: &cp,
			AppStateBytes:   stateBytes,
			Time:            c.Time,
			InitialHeight:   initialHeight,
		})
	}()
	c.Height = initialHeight - 1
	return c, pi
}

func (c *Chain) buildGenesis(spec GenesisSpec) map[string]json.RawMessage {
	a := c.App
	cdc := a.AppCodec()
	gs := app.NewDefaultGenesisState()

	funds := spec.Funds
	if funds == nil {
		funds = DefaultFunds()
	}
	var genAccs []authtypes.GenesisAccount
	var balances []banktypes.Balance
	total := sdk.NewCoins()
	for i, ac := range c.Accts {
		genAccs = append(genAccs, authtypes.NewBaseAccount(ac.Addr, nil, uint64(i), 0))
		balances = append(balances, banktypes.Balance{Address: ac.Bech(), Coins: funds})
		total = total.Add(funds...)
	}
	authGen := authtypes.NewGenesisState(authtypes.DefaultParams(), genAccs)
	gs[authtypes.ModuleName] = cdc.MustMarshalJSON(authGen)

	var validators []stakingtypes.Validator
	var delegations []stakingtypes.Delegation
	bonded := sdk.ZeroInt()
	notBonded := sdk.ZeroInt()
	for i, vs := range spec.Vals {
		pk := consKey(i).PubKey()
		c.ConsKey = append(c.ConsKey, pk)
		pkAny, _ := codectypes.NewAnyWithValue(pk)
		tokens := sdk.DefaultPowerReduction.MulRaw(vs.Power)
		rate := sdk.ZeroDec()
		probono := false
		if vs.Probono != "" {
			rate = sdk.MustNewDecFromStr(vs.Probono)
			probono = true
		}
		status := vs.Status
		if status == 0 {
			status = stakingtypes.Bonded
		}
		v := stakingtypes.Validator{
			OperatorAddress:   c.Accts[i].Val().String(),
			ConsensusPubkey:   pkAny,
			Jailed:            vs.Jailed,
			Status:            status,
			Tokens:            tokens,
			DelegatorShares:   sdk.NewDecFromInt(tokens),
			Description:       stakingtypes.Description{Moniker: fmt.Sprintf("v%d", i)},
			UnbondingTime:     time.Unix(0, 0).UTC(),
			Commission:        stakingtypes.NewCommission(rate, sdk.OneDec(), sdk.OneDec()),
			MinSelfDelegation: sdk.ZeroInt(),
			Probono:           probono,
		}
		validators = append(validators, v)
		delegations = append(delegations, stakingtypes.NewDelegation(c.Accts[i].Addr, c.Accts[i].Val(), sdk.NewDecFromInt(tokens)))
		if status == stakingtypes.Bonded {
			bonded = bonded.Add(tokens)
		} else {
			notBonded = notBonded.Add(tokens)
		}
	}
	sp := stakingtypes.DefaultParams()
	sp.BondDenom = config.BaseDenom
	sp.MinCommissionRate = sdk.ZeroDec()
	if spec.FastUnbond {
		sp.UnbondingTime = time.Nanosecond
	}
	gs[stakingtypes.ModuleName] = cdc.MustMarshalJSON(stakingtypes.NewGenesisState(sp, validators, delegations))
	if bonded.IsPositive() {
		coins := sdk.NewCoins(sdk.NewCoin(config.BaseDenom, bonded))
		balances = append(balances, banktypes.Balance{Address: authtypes.NewModuleAddress(stakingtypes.BondedPoolName).String(), Coins: coins})
		total = total.Add(coins...)
	}
	if notBonded.IsPositive() {
		coins := sdk.NewCoins(sdk.NewCoin(config.BaseDenom, notBonded))
		balances = append(balances, banktypes.Balance{Address: authtypes.NewModuleAddress(stakingtypes.NotBondedPoolName).String(), Coins: coins})
		total = total.Add(coins...)
	}
	bankGen := banktypes.NewGenesisState(banktypes.DefaultGenesisState().Params, balances, total, []banktypes.Metadata{}, []banktypes.SendEnabled{})
	gs[banktypes.ModuleName] = cdc.MustMarshalJSON(bankGen)

	evmGen := evmtypes.DefaultGenesisState()
	evmGen.Params.EvmDenom = config.BaseDenom
	gs[evmtypes.ModuleName] = cdc.MustMarshalJSON(evmGen)

	fmGen := feemarkettypes.DefaultGenesisState()
	fmGen.Params.NoBaseFee = true
	fmGen.Params.MinGasPrice = sdk.ZeroDec()
	fmGen.Params.BaseFee = sdk.ZeroInt()
	gs[feemarkettypes.ModuleName] = cdc.MustMarshalJSON(fmGen)

	infGen := inflationtypes.DefaultGenesisState()
	infGen.Params.EnableInflation = false
	infGen.Params.MintDenom = config.BaseDenom
	gs[inflationtypes.ModuleName] = cdc.MustMarshalJSON(infGen)

	mintGen := minttypes.DefaultGenesisState()
	mintGen.Params.MintDenom = config.BaseDenom
	gs[minttypes.ModuleName] = cdc.MustMarshalJSON(mintGen)

	crisisGen := crisistypes.DefaultGenesisState()
	crisisGen.ConstantFee = sdk.NewCoin(config.BaseDenom, sdk.NewInt(1000))
	gs[crisistypes.ModuleName] = cdc.MustMarshalJSON(crisisGen)

	govGen := govtypesv1.DefaultGenesisState()
	govGen.Params.MinDeposit = sdk.NewCoins(sdk.NewCoin(config.BaseDenom, sdk.NewInt(1)))
	gs["gov"] = cdc.MustMarshalJSON(govGen)

	og := oracletypes.DefaultGenesis()
	if spec.OracleGen != nil {
		og = spec.OracleGen
	} else {
		og.Params = spec.Oracle
	}
	gs[oracletypes.ModuleName] = cdc.MustMarshalJSON(og)

	sg := settlementtypes.DefaultGenesis()
	sg.Params = spec.Settlement
	sg.Tenants = spec.Tenants
	sg.Utxrs = spec.Utxrs
	gs[settlementtypes.ModuleName] = cdc.MustMarshalJSON(sg)

	out := map[string]json.RawMessage{}
	for k, v := range gs {
		out[k] = v
	}
	return out
}

// ---- block lifecycle ----

func (c *Chain) Begin() (pi *PanicInfo) {
	c.Height++
	c.Time = c.Time.Add(5 * time.Second)
	var proposer []byte
	if len(c.ConsKey) > 0 {
		proposer = c.ConsKey[0].Address()
		// as on a real network the proposer is a validator of the current set: the EVM resolves it through staking and
		// fails to load its configuration for a validator that has been removed
		if c.blocks > 0 {
			func() {
				defer func() { recover() }()
				ctx := c.App.NewContext(true, tmproto.Header{Height: c.App.LastBlockHeight()})
				for _, k := range c.ConsKey {
					if v, ok := c.App.StakingKeeper.GetValidatorByConsAddr(ctx, sdk.ConsAddress(k.Address())); ok && v.IsBonded() {
						proposer = k.Address()
						return
					}
				}
			}()
		}
	}
	c.header = tmproto.Header{
		ChainID:         ChainID,
		Height:          c.Height,
		Time:            c.Time,
		ProposerAddress: proposer,
		AppHash:         c.App.LastCommitID().Hash,
	}
	if c.blocks > 0 {
		// as on a real network: every block but the first one after genesis names its predecessor
		prev := sha256.Sum256([]byte(fmt.Sprintf("block %d %x", c.Height-1, c.App.LastCommitID().Hash)))
		c.header.LastBlockId = tmproto.BlockID{Hash: prev[:]}
	}
	c.blocks++
	defer func() {
		if r := recover(); r != nil {
			pi = &PanicInfo{Where: "BeginBlock", Msg: fmt.Sprint(r)}
		}
	}()
	c.App.BeginBlock(abci.RequestBeginBlock{Header: c.header})
	return nil
}

// Ctx returns a context over the deliver state (writes persist at Commit).
func (c *Chain) Ctx() sdk.Context {
	return c.App.BaseApp.NewContext(false, c.header)
}

func (c *Chain) End() (res abci.ResponseEndBlock, pi *PanicInfo) {
	defer func() {
		if r := recover(); r != nil {
			pi = &PanicInfo{Where: "EndBlock", Msg: fmt.Sprint(r)}
		}
	}()
	res = c.App.EndBlock(abci.RequestEndBlock{Height: c.Height})
	return res, nil
}

func (c *Chain) Commit() []byte {
	c.App.Commit()
	return c.App.LastCommitID().Hash
}

// ---- transactions ----

type TxSpec struct {
	Msgs       []sdk.Msg
	Fee        sdk.Coins
	Gas        uint64
	FeePayer   sdk.AccAddress // optional
	FeeGranter sdk.AccAddress // optional
	Memo       string
}

func (c *Chain) keyFor(addr sdk.AccAddress) cryptotypes.PrivKey {
	for _, a := range c.Accts {
		if a.Addr.Equals(addr) {
			return a.Priv
		}
	}
	return nil
}

// BuildTx signs with the keys of all required signers (all must be harness accounts).
func (c *Chain) BuildTx(ts TxSpec) ([]byte, error) {
	b := c.TxCfg.NewTxBuilder()
	if err := b.SetMsgs(ts.Msgs...); err != nil {
		return nil, err
	}
	b.SetFeeAmount(ts.Fee)
	b.SetGasLimit(ts.Gas)
	b.SetMemo(ts.Memo)
	if ts.FeePayer != nil {
		b.SetFeePayer(ts.FeePayer)
	}
	if ts.FeeGranter != nil {
		b.SetFeeGranter(ts.FeeGranter)
	}
	signers := b.GetTx().GetSigners()
	ctx := c.Ctx()
	mode := signing.SignMode_SIGN_MODE_DIRECT
	var sigs []signing.SignatureV2
	type sinfo struct {
		priv cryptotypes.PrivKey
		num  uint64
		seq  uint64
	}
	var infos []sinfo
	for _, s := range signers {
		priv := c.keyFor(s)
		if priv == nil {
			return nil, fmt.Errorf("no key for signer %s", s)
		}
		acc := c.App.AccountKeeper.GetAccount(ctx, s)
		if acc == nil {
			return nil, fmt.Errorf("no account for signer %s", s)
		}
		infos = append(infos, sinfo{priv, acc.GetAccountNumber(), acc.GetSequence()})
		sigs = append(sigs, signing.SignatureV2{
			PubKey:   priv.PubKey(),
			Data:     &signing.SingleSignatureData{SignMode: mode},
			Sequence: acc.GetSequence(),
		})
	}
	if err := b.SetSignatures(sigs...); err != nil {
		return nil, err
	}
	sigs = sigs[:0]
	for _, in := range infos {
		sd := authsigning.SignerData{ChainID: ChainID, AccountNumber: in.num, Sequence: in.seq}
		sig, err := clienttx.SignWithPrivKey(mode, sd, b, in.priv, c.TxCfg, in.seq)
		if err != nil {
			return nil, err
		}
		sigs = append(sigs, sig)
	}
	if err := b.SetSignatures(sigs...); err != nil {
		return nil, err
	}
	return c.TxCfg.TxEncoder()(b.GetTx())
}

type TxResult struct {
	Code      uint32
	Codespace string
	Log       string
	GasUsed   int64
	Events    []abci.Event
	Panic     *PanicInfo // a panic that escaped DeliverTx (should be impossible; baseapp recovers)
	BuildErr  string
}

func (r TxResult) Class() string {
	if r.Panic != nil {
		return "panic"
	}
	if r.Code == 0 && r.BuildErr == "" {
		return "ok"
	}
	if r.Codespace == "undefined" && r.Code == 111222 {
		return "panic"
	}
	return "rejected"
}

func (c *Chain) Deliver(ts TxSpec) (res TxResult) {
	bz, err := c.BuildTx(ts)
	if err != nil {
		return TxResult{Code: 1, Codespace: "harness", BuildErr: err.Error(), Log: err.Error()}
	}
	defer func() {
		if r := recover(); r != nil {
			res.Panic = &PanicInfo{Where: "DeliverTx", Msg: fmt.Sprint(r)}
		}
	}()
	r := c.App.DeliverTx(abci.RequestDeliverTx{Tx: bz})
	return TxResult{Code: r.Code, Codespace: r.Codespace, Log: r.Log, GasUsed: r.GasUsed, Events: r.Events}
}

// ---- helpers over state ----

// Simulate runs the transaction through baseapp.Simulate (ante handler and messages on a discarded branch).
// The returned text is informational; a simulated transaction must leave no trace whatever it returns.
func (c *Chain) Simulate(ts TxSpec) (out string) {
	bz, err := c.BuildTx(ts)
	if err != nil {
		return "build: " + err.Error()
	}
	defer func() {
		if r := recover(); r != nil {
			out = "panic: " + fmt.Sprint(r)
		}
	}()
	if _, _, err := c.App.Simulate(bz); err != nil {
		return "rejected"
	}
	return ""
}

func (c *Chain) Bal(addr sdk.AccAddress, denom string) *big.Int {
	return c.App.BankKeeper.GetBalance(c.Ctx(), addr, denom).Amount.BigInt()
}

func (c *Chain) Fund(addr sdk.AccAddress, coins sdk.Coins) error {
	ctx := c.Ctx()
	if err := c.App.BankKeeper.MintCoins(ctx, minttypes.ModuleName, coins); err != nil {
		return err
	}
	return c.App.BankKeeper.SendCoinsFromModuleToAccount(ctx, minttypes.ModuleName, addr, coins)
}

// DeployNFT deploys the repo's ERC721 contract from account `from` (begin phase).
func (c *Chain) DeployNFT(from Acct) (common.Address, error) {
	ctx := c.Ctx()
	ctor, err := contracts.ERC721Contract.ABI.Pack("", "NFT", "NFT")
	if err != nil {
		return common.Address{}, err
	}
	data := append(append([]byte{}, contracts.ERC721Contract.Bin...), ctor...)
	nonce := c.App.EvmKeeper.GetNonce(ctx, from.Hex())
	if _, err := c.App.EvmKeeper.CallEVMWithData(ctx, from.Hex(), nil, data, true); err != nil {
		return common.Address{}, err
	}
	addr := ethcrypto.CreateAddress(from.Hex(), nonce)
	c.NftAddr = addr
	return addr, nil
}

// DeployAndRegisterERC20 deploys evmos' ERC20MinterBurnerDecimals contract (the deployer holds the minter role) and
// registers it as a token pair the way the governance proposal does (x/erc20 keeper RegisterERC20)
func (c *Chain) DeployAndRegisterERC20(from Acct) (common.Address, string, error) {
	ctx := c.Ctx()
	abi := evmoscontracts.ERC20MinterBurnerDecimalsContract.ABI
	ctor, err := abi.Pack("", "Pair Token", "PAIR", uint8(6))
	if err != nil {
		return common.Address{}, "", err
	}
	data := append(append([]byte{}, evmoscontracts.ERC20MinterBurnerDecimalsContract.Bin...), ctor...)
	nonce := c.App.EvmKeeper.GetNonce(ctx, from.Hex())
	if _, err := c.App.EvmKeeper.CallEVMWithData(ctx, from.Hex(), nil, data, true); err != nil {
		return common.Address{}, "", err
	}
	addr := ethcrypto.CreateAddress(from.Hex(), nonce)
	pair, err := c.App.Erc20Keeper.RegisterERC20(ctx, addr)
	if err != nil {
		return common.Address{}, "", err
	}
	return addr, pair.Denom, nil
}

func (c *Chain) MintERC20(minter Acct, contract common.Address, to common.Address, amount *big.Int) error {
	_, err := c.App.EvmKeeper.CallEVM(c.Ctx(), evmoscontracts.ERC20MinterBurnerDecimalsContract.ABI, minter.Hex(), contract, true, "mint", to, amount)
	return err
}

func (c *Chain) ERC20Balance(contract common.Address, who common.Address) *big.Int {
	b := c.App.Erc20Keeper.BalanceOf(c.Ctx(), evmoscontracts.ERC20MinterBurnerDecimalsContract.ABI, contract, who)
	if b == nil {
		return big.NewInt(0)
	}
	return b
}

func (c *Chain) MintNFT(from Acct, contract common.Address, to common.Address) error {
	_, err := c.App.EvmKeeper.CallEVM(c.Ctx(), contracts.ERC721Contract.ABI, from.Hex(), contract, true, "safeMint", to)
	return err
}

func (c *Chain) TransferNFT(owner common.Address, contract common.Address, to common.Address, tokenId *big.Int) error {
	_, err := c.App.EvmKeeper.CallEVM(c.Ctx(), contracts.ERC721Contract.ABI, owner, contract, true, "transferFrom", owner, to, tokenId)
	return err
}

func eventsOfType(evs []abci.Event, suffix string) []abci.Event {
	var out []abci.Event
	for _, e := range evs {
		if len(e.Type) >= len(suffix) && e.Type[len(e.Type)-len(suffix):] == suffix {
			out = append(out, e)
		}
	}
	return out
}

func attr(e abci.Event, key string) string {
	for _, a := range e.Attributes {
		if a.Key == key {
			return a.Value
		}
	}
	return ""
}
