package main

import (
	"encoding/json"
	"flag"
	"fmt"
	"os"
	"path/filepath"
	"strings"
)

var profiles = map[string]Profile{
	"settlement": {Name: "settlement", Blocks: 24, MaxTx: 4, Oracle: true, Wrongness: 15, MultiTx: true, Internal: true},
	"oracle":     {Name: "oracle", Blocks: 30, MaxTx: 2, Oracle: true, Wrongness: 35, Jail: true, Probono: true, OracleFee: "0.5"},
	"faults":     {Name: "faults", Blocks: 24, MaxTx: 4, Oracle: true, Wrongness: 5, Faults: true, Mint: true, PeriodMax: 4},
	"adversarial": {Name: "adversarial", Blocks: 20, MaxTx: 4, Oracle: true, Wrongness: 20, Adversarial: true, BigPeriods: true, Internal: true, Mint: true},
	"imported":   {Name: "imported", Blocks: 16, MaxTx: 3, Oracle: true, Wrongness: 10, Faults: true, Imported: true, PeriodMax: 8, VotePeriods: []uint64{1, 1, 2}},
	"replica":    {Name: "replica", Blocks: 24, MaxTx: 4, Oracle: true, Wrongness: 25, Jail: true, Probono: true, OracleFee: "0.5", Replica: true, MultiTx: true, PeriodMax: 12},
	"roundtrip":  {Name: "roundtrip", Blocks: 20, MaxTx: 4, Oracle: true, Wrongness: 20, Jail: true, MultiTx: true, Roundtrip: true, PeriodMax: 14, Mint: true},
	"isolation":  {Name: "isolation", Blocks: 24, MaxTx: 5, Oracle: true, Wrongness: 10, Isolation: true, PeriodMax: 10, Faults: false},
	"erc20":      {Name: "erc20", Blocks: 24, MaxTx: 4, Oracle: true, Wrongness: 10, Erc20: true, Internal: true, PeriodMax: 6, MultiTx: true},
	"many":       {Name: "many", Blocks: 16, MaxTx: 1, Oracle: false, Imported: true, Many: true, PeriodMax: 3, VotePeriods: []uint64{2, 3}},
	"manyrt":     {Name: "manyrt", Blocks: 8, MaxTx: 1, Oracle: false, Imported: true, Many: true, Roundtrip: true, PeriodMax: 3, VotePeriods: []uint64{2, 3}},
	"periods":    {Name: "periods", Blocks: 20, MaxTx: 4, Oracle: true, Wrongness: 5, BigPeriods: true, Internal: true},
}

type Stats struct {
	Histories   int            `json:"histories"`
	Events      int            `json:"events"`
	ByKind      map[string]int `json:"by_kind"`
	TxClass     map[string]int `json:"tx_class"`
	MsgKindOk   map[string]int `json:"msg_kind_ok"`
	MsgKindRej  map[string]int `json:"msg_kind_rejected"`
	EndPanics   int            `json:"end_panics"`
	InitPanics  int            `json:"init_panics"`
	Settled     int            `json:"settled_events"`
	Dropped     int            `json:"dropped_or_cancelled_events"`
	Filled      int            `json:"setrecipients_events"`
	Nontrivial  int            `json:"nontrivial"`
	InvariantBroken int        `json:"invariant_broken"`
	IsolationPairs int         `json:"histories_rerun_without_other_tenants"`
	Roundtrips  int            `json:"export_import_round_trips"`
	Replicas    int            `json:"histories_executed_twice"`
	HashDiffs   int            `json:"app_hash_differences"`
	Samples     []string       `json:"samples"`
}

func runChainCmd(args []string) {
	fs := flag.NewFlagSet("chain", flag.ExitOnError)
	n := fs.Int("n", 50, "histories")
	seed := fs.Uint64("seed", 1, "seed")
	prof := fs.String("profile", "settlement", "profile")
	out := fs.String("out", "cases.v", "output .v file")
	dir := fs.String("dir", "", "directory for history json files")
	replay := fs.String("replay", "", "comma separated history json files to run first")
	name := fs.String("name", "cases", "Coq definition prefix")
	fs.Parse(args)
	p, ok := profiles[*prof]
	if !ok {
		fmt.Println("unknown profile")
		os.Exit(2)
	}
	var hs []History
	var names []string
	if *replay != "" {
		for _, f := range strings.Split(*replay, ",") {
			b, err := os.ReadFile(f)
			if err != nil {
				fmt.Println("cannot read", f, err)
				os.Exit(2)
			}
			var h History
			if err := json.Unmarshal(b, &h); err != nil {
				fmt.Println("bad json", f, err)
				os.Exit(2)
			}
			hs = append(hs, h)
			names = append(names, f)
		}
	}
	for i := 0; i < *n; i++ {
		hs = append(hs, GenHistory(*seed, i, p))
		names = append(names, fmt.Sprintf("gen:%s:%d:%d", *prof, *seed, i))
	}
	st := Stats{ByKind: map[string]int{}, TxClass: map[string]int{}, MsgKindOk: map[string]int{}, MsgKindRej: map[string]int{}}
	var sb, hdr strings.Builder
	resetIntern()
	hdr.WriteString("From Coq Require Import String.\nFrom Settlus Require Import Base.Prelude Base.Hex Settlement.Model Oracle.Model Chain.Model Exec.Run Exec.Checkers.\nOpen Scope string_scope. Open Scope Z_scope.\n")
	var caseNames []string
	seen := map[string]bool{}
	for i, h := range hs {
		e, pi := NewExec(h)
		st.Histories++
		if *dir != "" {
			os.WriteFile(filepath.Join(*dir, fmt.Sprintf("hist_%d.json", i)), []byte(h.JSON()), 0o644)
		}
		if pi != nil {
			st.InitPanics++
			fmt.Printf("INIT-PANIC case=%d %s\n", i, pi.Msg)
			continue
		}
		obs := e.Run()
		if p.Replica {
			if e2, pi2 := NewExec(h); pi2 == nil {
				obs2 := e2.Run()
				for k := range obs {
					if obs[k].Snap != nil && k < len(obs2) && obs2[k].Snap != nil && obs[k].Snap.AppHash != obs2[k].Snap.AppHash {
						e.HashDiff = append(e.HashDiff, k)
						st.HashDiffs++
						fmt.Printf("HASHDIFF case=%d event=%d %s %s\n", i, k, obs[k].Snap.AppHash, obs2[k].Snap.AppHash)
					}
				}
				st.Replicas++
			}
		}
		if p.Isolation {
			h2 := FilterForTenant(h, h.FocalTenant())
			if e2, pi2 := NewExec(h2); pi2 == nil {
				obs2 := e2.Run()
				e.IsoDiff = CompareTenantView(h, obs, h2, obs2, h.FocalTenant())
				st.IsolationPairs++
				if len(e.IsoDiff) > 0 {
					fmt.Printf("ISOLATION case=%d events=%v\n", i, e.IsoDiff)
				}
				if *dir != "" {
					os.WriteFile(filepath.Join(*dir, fmt.Sprintf("hist_%d_without_others.json", i)), []byte(h2.JSON()), 0o644)
				}
			}
		}
		if p.Roundtrip && len(obs) > 0 && obs[len(obs)-1].Class == "ok" && obs[len(obs)-1].Kind == "end" {
			e.RT = e.Roundtrip()
			if e.RT != nil {
				st.Roundtrips++
			}
			if e.RT != nil && (e.RT.Class != "ok" || !e.RT.SameExport) {
				fmt.Printf("ROUNDTRIP case=%d class=%s same_export=%v %s\n", i, e.RT.Class, e.RT.SameExport, e.RT.Log)
			}
		}
		nontrivial := false
		for k, ev := range h.Events {
			st.Events++
			st.ByKind[ev.Kind]++
			o := obs[k]
			if ev.Kind == "tx" || ev.Kind == "otx" {
				st.TxClass[o.Class]++
				for _, m := range ev.Msgs {
					if o.Class == "ok" {
						st.MsgKindOk[m.Kind]++
					} else {
						st.MsgKindRej[m.Kind]++
					}
				}
			}
			if ev.Kind == "end" {
				if o.Class == "panic" {
					st.EndPanics++
					fmt.Printf("END-PANIC case=%d event=%d %s\n", i, k, o.Log)
				}
				for _, x := range o.Events {
					switch {
					case strings.HasPrefix(x, "settled"):
						st.Settled++
						nontrivial = true
					case strings.HasPrefix(x, "cancel"):
						st.Dropped++
					case strings.HasPrefix(x, "setrecipients"):
						st.Filled++
						nontrivial = true
					}
				}
				if o.Snap != nil && o.Snap.Invariant != "" {
					st.InvariantBroken++
					fmt.Printf("INVARIANT case=%d event=%d %s\n", i, k, o.Snap.Invariant)
				}
			}
		}
		js := h.JSON()
		if nontrivial && !seen[js] {
			seen[js] = true
			st.Nontrivial++
		}
		if len(st.Samples) < 2 && nontrivial {
			st.Samples = append(st.Samples, js)
		}
		cn := fmt.Sprintf("%s_%d", *name, i)
		caseNames = append(caseNames, cn)
		fmt.Fprintf(&sb, "(* %s *)\nDefinition %s : case :=\n  %s.\n", names[i], cn, e.CaseCoq(obs))
	}
	fmt.Fprintf(&sb, "Definition %s : list case := [%s].\n", *name, strings.Join(caseNames, "; "))
	if err := os.WriteFile(*out, []byte(hdr.String()+internTables()+sb.String()), 0o644); err != nil {
		fmt.Println(err)
		os.Exit(2)
	}
	b, _ := json.MarshalIndent(st, "", " ")
	os.WriteFile(strings.TrimSuffix(*out, ".v")+".stats.json", b, 0o644)
	fmt.Printf("STATS %s\n", string(mustJSON(st.TxClass)))
}

func mustJSON(v interface{}) []byte { b, _ := json.Marshal(v); return b }

func main() {
	if len(os.Args) < 2 {
		fmt.Println("usage: harness <cmd> ...")
		os.Exit(2)
	}
	switch os.Args[1] {
	case "smoke":
		smoke()
	case "arith":
		runArithCmd(os.Args[2:])
	case "chain":
		runChainCmd(os.Args[2:])
	case "ante":
		runAnteCmd(os.Args[2:])
	case "openings":
		runOpeningsCmd(os.Args[2:])
	case "tokenid":
		runTokenCmd(os.Args[2:])
	case "entries":
		runEntriesCmd(os.Args[2:])
	case "cache":
		runCacheCmd(os.Args[2:])
	case "inventory":
		runInventoryCmd(os.Args[2:])
	default:
		fmt.Println("unknown command", os.Args[1])
		os.Exit(2)
	}
}
