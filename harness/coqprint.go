package main

import (
	"fmt"
	"math/big"
	"sort"
	"strings"

	sdk "github.com/cosmos/cosmos-sdk/types"
	"github.com/ethereum/go-ethereum/common"
)

// interning tables: big literals are elaborated once per file (Coq needs milliseconds for each
// 160-bit numeral or long string literal)
var internStrs = map[string]int{}
var internStrList []string
var internNums = map[string]int{}
var internNumList []string

func resetIntern() {
	internStrs = map[string]int{}
	internStrList = nil
	internNums = map[string]int{}
	internNumList = nil
}

func internTables() string {
	var sb strings.Builder
	sb.WriteString("Definition strs : list bytes := [")
	for i, s := range internStrList {
		if i > 0 {
			sb.WriteString(";\n ")
		}
		sb.WriteString(cBytesLit([]byte(s)))
	}
	sb.WriteString("].\nDefinition nums : list Z := [")
	for i, s := range internNumList {
		if i > 0 {
			sb.WriteString(";\n ")
		}
		sb.WriteString(s)
	}
	sb.WriteString("].\nDefinition S (k : Z) : bytes := nth (Z.to_nat k) strs [].\nDefinition N (k : Z) : Z := nth (Z.to_nat k) nums 0.\n")
	return sb.String()
}

func cBytes(b []byte) string {
	if len(b) <= 3 {
		return cBytesLit(b)
	}
	k, ok := internStrs[string(b)]
	if !ok {
		k = len(internStrList)
		internStrs[string(b)] = k
		internStrList = append(internStrList, string(b))
	}
	return fmt.Sprintf("(S %d)", k)
}

func cBytesLit(b []byte) string {
	if len(b) == 0 {
		return "[]"
	}
	printable := true
	for _, x := range b {
		if x < 32 || x > 126 || x == '"' {
			printable = false
			break
		}
	}
	if printable {
		return "(bs \"" + string(b) + "\")"
	}
	return fmt.Sprintf("(hx \"%x\")", b)
}

func cBytesList(b []byte) string {
	var sb strings.Builder
	sb.WriteString("[")
	for i, x := range b {
		if i > 0 {
			sb.WriteString(";")
		}
		fmt.Fprintf(&sb, "%d", x)
	}
	sb.WriteString("]")
	return sb.String()
}
func cStr(s string) string { return cBytes([]byte(s)) }
func cZ(b *big.Int) string {
	if b.Sign() < 0 {
		return "(" + b.String() + ")"
	}
	if b.BitLen() > 62 {
		str := b.String()
		k, ok := internNums[str]
		if !ok {
			k = len(internNumList)
			internNums[str] = k
			internNumList = append(internNumList, str)
		}
		return fmt.Sprintf("(N %d)", k)
	}
	return b.String()
}
func cZs(s string) string {
	b, ok := new(big.Int).SetString(s, 10)
	if !ok {
		return s
	}
	return cZ(b)
}
func cU(u uint64) string { return fmt.Sprint(u) }
func cI(i int64) string {
	if i < 0 {
		return fmt.Sprintf("(%d)", i)
	}
	return fmt.Sprint(i)
}
func cBool(b bool) string {
	if b {
		return "true"
	}
	return "false"
}
func cList(items []string) string { return "[" + strings.Join(items, "; ") + "]" }
func cAmount(s string) string {
	b, ok := new(big.Int).SetString(s, 10)
	if !ok {
		return "0"
	}
	return cZ(b)
}

func (e *Exec) acctZ(i int) string {
	if i >= 0 && i < len(e.C.Accts) {
		return cZ(addrInt(e.C.Accts[i].Addr))
	}
	return cZ(addrInt(MakeAcct(i).Addr))
}

func cVD(vd []VD) string {
	var items []string
	for _, v := range vd {
		var es []string
		for _, s := range v.Entries {
			es = append(es, cStr(s))
		}
		items = append(items, fmt.Sprintf("(%d, %s)", v.Topic, cList(es)))
	}
	return cList(items)
}

func (e *Exec) cMsg(m Msg) string {
	switch m.Kind {
	case "create_tenant":
		return fmt.Sprintf("MCreateTenant %s %s %s", e.acctZ(m.Sender), cStr(m.Denom), cU(m.Period))
	case "create_tenant_mc":
		// the class of a foreign token contract comes from its address alone (see reservedAddress)
		cls := 4
		if reservedAddress(m.Contract) {
			cls = 3
		}
		return fmt.Sprintf("MCreateTenantMC %s %s %s %s %d", e.acctZ(m.Sender), cStr(m.Denom), cU(m.Period), cStr(m.Contract), cls)
	case "add_admin":
		return fmt.Sprintf("MAddAdmin %s %s %s", e.acctZ(m.Sender), cU(m.Tid), e.acctZ(m.Admin))
	case "remove_admin":
		return fmt.Sprintf("MRemoveAdmin %s %s %s", e.acctZ(m.Sender), cU(m.Tid), e.acctZ(m.Admin))
	case "update_period":
		return fmt.Sprintf("MUpdatePeriod %s %s %s", e.acctZ(m.Sender), cU(m.Tid), cU(m.Period))
	case "deposit":
		return fmt.Sprintf("MDeposit %s %s %s %s", e.acctZ(m.Sender), cU(m.Tid), cStr(m.Denom), cAmount(m.Amount))
	case "record":
		return fmt.Sprintf("MRecord %s %s %s %s %s %s %s %s", e.acctZ(m.Sender), cU(m.Tid), cBytes(reqBytes(m)), cStr(m.Denom), cAmount(m.Amount), cStr(m.Chain), cStr(m.Contract), cStr(m.Tok))
	case "cancel":
		return fmt.Sprintf("MCancel %s %s %s", e.acctZ(m.Sender), cU(m.Tid), cBytes(reqBytes(m)))
	case "prevote":
		return fmt.Sprintf("MPrevote %s %s %s %s", e.acctZ(m.Feeder), e.acctZ(m.Val), cStr(m.Commit), cU(m.Round))
	case "vote":
		return fmt.Sprintf("MVote %s %s %s %s %s", e.acctZ(m.Feeder), e.acctZ(m.Val), cVD(m.VD), cStr(m.Salt), cU(m.Round))
	case "consent":
		return fmt.Sprintf("MConsent %s %s", e.acctZ(m.Val), e.acctZ(m.Feeder))
	}
	panic("cMsg " + m.Kind)
}

// applied environment changes, rendered for the model
type AppliedEnv struct{ Coq string }

func assetBytes(a string) string {
	if strings.HasPrefix(a, "sbt:") {
		return "(sbt_asset " + a[4:] + ")"
	}
	return cStr(a)
}

func (s *Snapshot) coq(e *Exec) string {
	var ts, us, idx, bals []string
	for _, t := range s.Tenants {
		var ad []string
		for _, a := range t.Admins {
			ad = append(ad, cZ(a))
		}
		ts = append(ts, fmt.Sprintf("mkTenant %d %s %s %s %d", t.Id, cList(ad), cStr(t.Denom), cU(t.Period), t.Method))
	}
	for _, u := range s.Utxrs {
		var rs []string
		for _, r := range u.Recips {
			rs = append(rs, fmt.Sprintf("mkRecip %s %d", cZ(r.Addr), r.Weight))
		}
		us = append(us, fmt.Sprintf("(%d, %d, mkUtxr %s %s %s %s (mkNft %s %s %s) %d)", u.Tid, u.Id, cBytes(u.Req), cList(rs), cStr(u.Denom), cZ(u.Amount), cStr(u.Chain), cZ(u.Contract), cZ(u.Token), u.Created))
	}
	for _, x := range s.Idx {
		if x[2] != "none" {
			b := hexDecode(x[1])
			idx = append(idx, fmt.Sprintf("(%s, %s, %s)", x[0], cBytes(b), x[2]))
		}
	}
	for _, b := range s.Bals {
		bals = append(bals, fmt.Sprintf("(%s, %s, %s)", cZs(b[0]), assetBytes(b[1]), cZs(b[2])))
	}
	sstate := fmt.Sprintf("(mkS %s %s %s [] %s [] [] [])", cList(ts), cList(us), cList(idx), cList(bals))

	round := "None"
	if s.Round.Present {
		var src []string
		for _, x := range s.Round.Sources {
			src = append(src, cStr(x))
		}
		round = fmt.Sprintf("(Some (%d, %s, %s, %s))", s.Round.Id, cI(s.Round.PrevoteEnd), cI(s.Round.VoteEnd), cList(src))
	}
	var pv, vs, dl, ms, vals, pool, owed []string
	sortPairs := func(p [][2]string) {
		sort.Slice(p, func(i, j int) bool {
			a, _ := new(big.Int).SetString(p[i][0], 10)
			b, _ := new(big.Int).SetString(p[j][0], 10)
			if a == nil || b == nil {
				return p[i][0] < p[j][0]
			}
			return a.Cmp(b) < 0
		})
	}
	sortPairs(s.Prevotes)
	sortPairs(s.Deleg)
	sortPairs(s.Miss)
	for _, p := range s.Prevotes {
		commit, ok := e.commits[p[1]]
		if !ok {
			commit = p[1]
		}
		pv = append(pv, fmt.Sprintf("(%s, %s)", cZs(p[0]), cStr(commit)))
	}
	sort.Slice(s.Votes, func(i, j int) bool { return s.Votes[i].Val.Cmp(s.Votes[j].Val) < 0 })
	for _, v := range s.Votes {
		vs = append(vs, fmt.Sprintf("(%s, %s)", cZ(v.Val), cVD(v.VD)))
	}
	for _, p := range s.Deleg {
		dl = append(dl, fmt.Sprintf("(%s, %s)", cZs(p[0]), cZs(p[1])))
	}
	for _, p := range s.Miss {
		ms = append(ms, fmt.Sprintf("(%s, %s)", cZs(p[0]), cZs(p[1])))
	}
	for _, v := range s.Vals {
		vals = append(vals, fmt.Sprintf("mkVal %s %s %s %s %s", cZ(v.Addr), cZ(v.Tokens), cBool(v.Bonded), cBool(v.Jailed), cZ(v.Rate)))
	}
	for _, p := range s.Pool {
		pool = append(pool, fmt.Sprintf("(%s, %s)", cStr(p[0]), cZs(p[1])))
	}
	for _, p := range s.OwedDelta {
		owed = append(owed, fmt.Sprintf("(%s, %s)", cStr(p[0]), cAmount(p[1])))
	}
	var owedVal, owedComm []string
	for _, p := range s.OwedVal {
		owedVal = append(owedVal, fmt.Sprintf("(%s, %s, %s)", cZs(p[0]), cStr(p[1]), cAmount(p[2])))
	}
	for _, p := range s.OwedComm {
		owedComm = append(owedComm, fmt.Sprintf("(%s, %s)", cStr(p[0]), cAmount(p[1])))
	}
	var lk []string
	for _, x := range s.Lookup {
		v := "None"
		if x[2] != "none" {
			v = "(Some " + x[2] + ")"
		}
		lk = append(lk, fmt.Sprintf("(%s, %s, %s)", x[0], cBytes(hexDecode(x[1])), v))
	}
	return fmt.Sprintf("(mkSnap %d %s %s %s %s %s %s %s %s %s %s %s %s %s %s)", s.Height, sstate, round, cList(pv), cList(vs), cList(dl), cList(ms), cList(vals), cList(pool), cList(owed), cList(owedVal), cList(owedComm), cList(lk), cBool(s.Invariant == ""), cBool(!s.BooksMixed))
}

func hexDecode(s string) []byte {
	b := make([]byte, len(s)/2)
	for i := 0; i+1 < len(s); i += 2 {
		fmt.Sscanf(s[i:i+2], "%02x", &b[i/2])
	}
	return b
}

func classCoq(c string) string {
	switch c {
	case "ok":
		return "COk"
	case "rejected":
		return "CRejected"
	}
	return "CPanic"
}

// initial model state from the genesis description
func (e *Exec) initCoq() string {
	g := e.H.Genesis
	var ts, us, idx, last, bals, vals []string
	lastId := map[uint64]uint64{}
	hasLast := map[uint64]bool{}
	for _, t := range g.Tenants {
		var ad []string
		for _, a := range t.Admins {
			ad = append(ad, e.acctZ(a))
		}
		mc := methodCode(t.Method)
		if mc == 1 {
			// imported mintable-contract tenants never own a contract the module deployed
			mc = 4
			if reservedAddress(t.Contract) {
				mc = 3
			}
		}
		ts = append(ts, fmt.Sprintf("mkTenant %d %s %s %s %d", t.Id, cList(ad), cStr(t.Denom), cU(t.Period), mc))
	}
	for _, u := range g.Utxrs {
		var rs []string
		for _, r := range u.Recips {
			rs = append(rs, fmt.Sprintf("mkRecip %s %d", cZ(addrInt(common.HexToAddress(r.Addr).Bytes())), r.Weight))
		}
		us = append(us, fmt.Sprintf("(%d, %d, mkUtxr %s %s %s %s (mkNft %s %s %s) %d)", u.Tid, u.Id, cStr(u.Req), cList(rs), cStr(u.Denom), cAmount(u.Amount), cStr(u.Chain),
			cZ(addrInt(common.HexToAddress(u.Contract).Bytes())), cZ(addrInt(common.HexToAddress(u.Tok).Bytes())), u.Created))
		idx = append(idx, fmt.Sprintf("(%d, %s, %d)", u.Tid, cStr(u.Req), u.Id))
		if !hasLast[u.Tid] || u.Id > lastId[u.Tid] {
			lastId[u.Tid] = u.Id
			hasLast[u.Tid] = true
		}
	}
	var tids []uint64
	for t := range lastId {
		tids = append(tids, t)
	}
	sort.Slice(tids, func(i, j int) bool { return tids[i] < tids[j] })
	for _, t := range tids {
		last = append(last, fmt.Sprintf("(%d, %d)", t, lastId[t]))
	}
	funds := g.spec().Funds
	for i := range e.C.Accts {
		for _, d := range tenantDenoms {
			bals = append(bals, fmt.Sprintf("(%s, %s, %s)", e.acctZ(i), cStr(d), cZ(funds.AmountOf(d).BigInt())))
		}
	}
	if g.Erc20 {
		bals = append(bals, fmt.Sprintf("(%s, %s, %s)", cZ(erc20MinterZ), cStr(pairDenom), "1000000000000000000000000000000000000000000000000000000000000"))
	}
	var chains []string
	for _, c := range g.Chains {
		chains = append(chains, cStr(c))
	}
	sstate := fmt.Sprintf("(mkS %s %s %s %s %s [] %s %s)", cList(ts), cList(us), cList(idx), cList(last), cList(bals), cStr(ChainID), cList(chains))
	for i, p := range g.Powers {
		rate := "0"
		if i < len(g.Probono) && g.Probono[i] != "" {
			rate = sdk.MustNewDecFromStr(g.Probono[i]).BigInt().String()
		}
		tokens := new(big.Int).Mul(big.NewInt(p), sdk.DefaultPowerReduction.BigInt())
		vals = append(vals, fmt.Sprintf("mkVal %s %s true false %s", e.acctZ(i), cZ(tokens), cZs(rate)))
	}
	thr := "0.5"
	if g.Threshold != "" {
		thr = g.Threshold
	}
	sf := "0.01"
	if g.SlashFrac != "" {
		sf = g.SlashFrac
	}
	params := fmt.Sprintf("(mkOP %d %s %s %d %d %s)", g.VotePeriod, cZ(sdk.MustNewDecFromStr(thr).BigInt()), cZ(sdk.MustNewDecFromStr(sf).BigInt()), g.Window, g.MaxMiss, cBool(sdk.ConstantReward))
	var prices []string
	for _, n := range e.gasPrices {
		prices = append(prices, fmt.Sprintf("(%s, %s)", cStr(n.Denom), cZ(n.Amount.BigInt())))
	}
	fp := fmt.Sprintf("(mkFP %s %s)", cList(prices), cZ(e.oracleFee.BigInt()))
	return fmt.Sprintf("(mkC 0 %s (init_ostate %s %s []) %s)", sstate, params, cList(vals), fp)
}

// CaseCoq renders (initial state, events with the applied environment, observations) as a Coq term.
func (e *Exec) CaseCoq(obs []Obs) string {
	var evs, os []string
	for i, ev := range e.H.Events {
		o := obs[i]
		if o.Class == "dead" {
			break
		}
		switch ev.Kind {
		case "begin":
			evs = append(evs, "EvBegin "+cList(o.EnvCoq))
			os = append(os, "IBegin")
		case "tx":
			var ms []string
			for _, m := range ev.Msgs {
				ms = append(ms, e.cMsg(m))
			}
			fee, _ := settlementFee(ev.Msgs)
			var fs []string
			for _, c := range fee {
				fs = append(fs, fmt.Sprintf("(%s, %s)", cStr(c.Denom), cZ(c.Amount.BigInt())))
			}
			evs = append(evs, "EvTx "+cList(fs)+" "+cList(ms))
			os = append(os, "ITx "+classCoq(o.Class)+" "+cEvents(o.Events, false))
		case "otx":
			evs = append(evs, "EvOTx ("+e.cMsg(ev.Msgs[0])+")")
			os = append(os, "ITx "+classCoq(o.Class)+" []")
		case "end":
			var fs []string
			for _, f := range ev.Faults {
				fs = append(fs, cBool(f))
			}
			evs = append(evs, "EvEnd "+cList(fs))
			if o.Snap != nil {
				os = append(os, "IEnd "+classCoq(o.Class)+" "+cEvents(o.Events, true)+" (Some "+o.Snap.coq(e)+")")
			} else {
				os = append(os, "IEnd "+classCoq(o.Class)+" [] None")
			}
		}
		if o.Class == "panic" && (ev.Kind == "begin" || ev.Kind == "end") {
			break
		}
	}
	var hd []string
	for _, k := range e.HashDiff {
		hd = append(hd, fmt.Sprint(k))
	}
	rt := "None"
	if e.RT != nil {
		sn := "None"
		if e.RT.Snap != nil {
			sn = "(Some " + e.RT.Snap.coq(e) + ")"
		}
		rt = fmt.Sprintf("(Some (%s, %s, %s))", classCoq(e.RT.Class), sn, cBool(e.RT.SameExport))
	}
	var iso []string
	for _, k := range e.IsoDiff {
		iso = append(iso, fmt.Sprint(k))
	}
	var probes []string
	if e.RT != nil {
		for _, pr := range e.RT.Probes {
			probes = append(probes, fmt.Sprintf("(%s, %s)", e.cMsg(pr.Msg), classCoq(pr.Class)))
		}
	}
	return "mkCase " + e.initCoq() + "\n  " + cList(evs) + "\n  " + cList(os) + "\n  " + cList(hd) + "\n  " + rt + "\n  " + cList(iso) + "\n  " + cList(probes)
}

// typed events as (kind, tenant, record id); see Exec/Run.v
func cEvents(evs []string, endBlock bool) string {
	var items []string
	for _, x := range evs {
		p := strings.Split(x, ":")
		if len(p) != 3 {
			continue
		}
		k := 0
		switch p[0] {
		case "record":
			k = 1
		case "cancel":
			k = 2
			if endBlock {
				k = 4
			}
		case "settled":
			k = 3
		case "setrecipients":
			k = 5
		}
		items = append(items, fmt.Sprintf("(%d, %s, %s)", k, p[1], p[2]))
	}
	return cList(items)
}
