package main

// Source inventory (DESIGN.md section 1): every potential panic site and every range over a map in
// the consensus code the properties anchor, read from the CURRENT source with go/parser and printed
// as a Coq list of strings.  The model carries a table (Inventory/Table.v) that must account for
// every entry; a new site therefore breaks an obligation even if no generated history reaches it.
// Entries carry file, function and expression text but no line numbers, so moving code around
// inside a function is not an alarm.

import (
	"bytes"
	"flag"
	"fmt"
	"go/ast"
	"go/parser"
	"go/printer"
	"go/token"
	"os"
	"path/filepath"
	"sort"
	"strconv"
	"strings"
)

var inventoryDirs = []string{
	"x/settlement", "x/settlement/keeper", "x/settlement/types",
	"x/oracle", "x/oracle/keeper", "x/oracle/types", "x/oracle/voteprocessor",
	"app/ante", "app/post", "types",
}

func exprText(fset *token.FileSet, n ast.Node) string {
	var b bytes.Buffer
	printer.Fprint(&b, fset, n)
	s := strings.Join(strings.Fields(b.String()), " ")
	if len(s) > 90 {
		s = s[:90]
	}
	return s
}

// shapeText prints an expression with the names of local variables, parameters and receivers replaced by "_":
// package-qualified names, field and method names, called functions and literals are kept.  Renaming a variable or
// moving the code into a helper of the same file does not change the shape; a new site changes the count of its shape.
func shapeText(fset *token.FileSet, n ast.Node, pkgs map[string]bool) string {
	var rec func(e ast.Expr) ast.Expr
	recList := func(l []ast.Expr) []ast.Expr {
		var o []ast.Expr
		for _, x := range l {
			o = append(o, rec(x))
		}
		return o
	}
	// the thing that is indexed or sliced: a field of a local value (msg.TokenIdHex) is the same operand as the
	// parameter of a helper it was handed to (s): both print as "_"
	var operand func(e ast.Expr) ast.Expr
	operand = func(e ast.Expr) ast.Expr {
		for {
			s, ok := e.(*ast.SelectorExpr)
			if !ok {
				return e
			}
			if id, isId := s.X.(*ast.Ident); isId && id.Name == "_" {
				return id
			}
			if _, nested := s.X.(*ast.SelectorExpr); !nested {
				return e
			}
			inner := operand(s.X)
			if id, isId := inner.(*ast.Ident); isId && id.Name == "_" {
				return id
			}
			return e
		}
	}
	rec = func(e ast.Expr) ast.Expr {
		switch x := e.(type) {
		case nil:
			return nil
		case *ast.Ident:
			if pkgs[x.Name] || x.Name == "nil" || x.Name == "true" || x.Name == "false" {
				return x
			}
			return &ast.Ident{Name: "_"}
		case *ast.SelectorExpr:
			return &ast.SelectorExpr{X: rec(x.X), Sel: x.Sel}
		case *ast.CallExpr:
			fun := x.Fun
			if _, isId := fun.(*ast.Ident); !isId { // a plain function name is kept
				fun = rec(fun)
			}
			return &ast.CallExpr{Fun: fun, Args: recList(x.Args), Ellipsis: x.Ellipsis}
		case *ast.IndexExpr:
			return &ast.IndexExpr{X: operand(rec(x.X)), Index: rec(x.Index)}
		case *ast.SliceExpr:
			return &ast.SliceExpr{X: operand(rec(x.X)), Low: rec(x.Low), High: rec(x.High), Max: rec(x.Max), Slice3: x.Slice3}
		case *ast.BinaryExpr:
			return &ast.BinaryExpr{X: rec(x.X), Op: x.Op, Y: rec(x.Y)}
		case *ast.UnaryExpr:
			return &ast.UnaryExpr{Op: x.Op, X: rec(x.X)}
		case *ast.StarExpr:
			return &ast.StarExpr{X: rec(x.X)}
		case *ast.ParenExpr:
			return &ast.ParenExpr{X: rec(x.X)}
		case *ast.TypeAssertExpr:
			return &ast.TypeAssertExpr{X: rec(x.X), Type: x.Type}
		case *ast.CompositeLit:
			return &ast.CompositeLit{Type: x.Type}
		case *ast.KeyValueExpr:
			return &ast.KeyValueExpr{Key: x.Key, Value: rec(x.Value)}
		}
		return e
	}
	if e, ok := n.(ast.Expr); ok {
		return strings.ReplaceAll(exprText(fset, rec(e)), "_. ", "_.")
	}
	return exprText(fset, n)
}

// collectsAndSorts recognises a range over a map whose body only appends (possibly under a call-free condition) the
// key or value to ONE slice, and a later statement of the same function that sorts that slice (sort.Strings / Ints /
// Slice / SliceStable / Sort, slices.Sort*).
func collectsAndSorts(fset *token.FileSet, r *ast.RangeStmt, fn *ast.BlockStmt) bool {
	target := ""
	ok := true
	var check func(stmts []ast.Stmt)
	check = func(stmts []ast.Stmt) {
		for _, st := range stmts {
			switch y := st.(type) {
			case *ast.AssignStmt:
				if len(y.Lhs) != 1 || len(y.Rhs) != 1 {
					ok = false
					return
				}
				call, isCall := y.Rhs[0].(*ast.CallExpr)
				id, isId := y.Lhs[0].(*ast.Ident)
				if !isCall || !isId || exprText(fset, call.Fun) != "append" || len(call.Args) < 2 || exprText(fset, call.Args[0]) != id.Name {
					ok = false
					return
				}
				for _, a := range call.Args[1:] {
					hasCall := false
					ast.Inspect(a, func(n ast.Node) bool {
						if _, c := n.(*ast.CallExpr); c {
							hasCall = true
						}
						return true
					})
					if hasCall {
						ok = false
						return
					}
				}
				if target != "" && target != id.Name {
					ok = false
					return
				}
				target = id.Name
			case *ast.IfStmt:
				hasCall := false
				ast.Inspect(y.Cond, func(n ast.Node) bool {
					if _, c := n.(*ast.CallExpr); c {
						hasCall = true
					}
					return true
				})
				if hasCall || y.Init != nil || y.Else != nil {
					ok = false
					return
				}
				check(y.Body.List)
			default:
				ok = false
				return
			}
		}
	}
	check(r.Body.List)
	if !ok || target == "" {
		return false
	}
	sorted := false
	ast.Inspect(fn, func(n ast.Node) bool {
		call, isCall := n.(*ast.CallExpr)
		if !isCall || call.Pos() < r.End() || len(call.Args) == 0 {
			return true
		}
		f := exprText(fset, call.Fun)
		if (strings.HasPrefix(f, "sort.") || strings.HasPrefix(f, "slices.Sort")) && exprText(fset, call.Args[0]) == target {
			sorted = true
		}
		return true
	})
	return sorted
}

// boundedIndex: the index expression x = S[i] lies in the body of a loop that keeps i within [0, len(S))
// lengthGuarded reports whether the index expression s[k] (k an integer literal) or the slice expression s[e:] at [pos]
// is protected by a test of len(s) earlier in the function: a guard `if len(s) < e || ... { return / continue / panic }`
// (or <=, != n, == 0) that ends before the use, in a block that encloses it, or an enclosing `if len(s) > e && ...`
// whose body holds the use - with s not assigned in between. [need] is the least length the use requires: an integer,
// or, for s[e:], the text of e.
func lengthGuarded(fset *token.FileSet, fn *ast.BlockStmt, operandX ast.Expr, pos, end token.Pos, needInt int, needTxt string) bool {
	st := exprText(fset, operandX)
	lenOf := "len(" + st + ")"
	intOf := func(e ast.Expr) (int, bool) {
		if l, ok := e.(*ast.BasicLit); ok && l.Kind == token.INT {
			n, err := strconv.Atoi(l.Value)
			return n, err == nil
		}
		return 0, false
	}
	// does "NOT (len(s) op y)" (negated = true) or "len(s) op y" (negated = false) give len(s) >= need ?
	implies := func(op token.Token, y ast.Expr, negated bool) bool {
		if negated {
			switch op {
			case token.LSS:
				op = token.GEQ
			case token.LEQ:
				op = token.GTR
			case token.NEQ:
				op = token.EQL
			case token.EQL:
				op = token.NEQ
			default:
				return false
			}
		}
		n, isInt := intOf(y)
		yt := exprText(fset, y)
		switch op {
		case token.GEQ:
			return needTxt != "" && yt == needTxt || needTxt == "" && isInt && n >= needInt
		case token.GTR:
			return needTxt != "" && yt == needTxt || needTxt == "" && isInt && n+1 >= needInt
		case token.EQL:
			return needTxt == "" && isInt && n >= needInt
		case token.NEQ:
			return needTxt == "" && isInt && n == 0 && needInt <= 1
		}
		return false
	}
	split := func(e ast.Expr, op token.Token) []ast.Expr {
		var out []ast.Expr
		var rec func(e ast.Expr)
		rec = func(e ast.Expr) {
			if p, ok := e.(*ast.ParenExpr); ok {
				rec(p.X)
				return
			}
			if b, ok := e.(*ast.BinaryExpr); ok && b.Op == op {
				rec(b.X)
				rec(b.Y)
				return
			}
			out = append(out, e)
		}
		rec(e)
		return out
	}
	lenTest := func(e ast.Expr, negated bool) bool {
		b, ok := e.(*ast.BinaryExpr)
		return ok && exprText(fset, b.X) == lenOf && implies(b.Op, b.Y, negated)
	}
	terminates := func(b *ast.BlockStmt) bool {
		if b == nil || len(b.List) == 0 {
			return false
		}
		switch l := b.List[len(b.List)-1].(type) {
		case *ast.ReturnStmt:
			return true
		case *ast.BranchStmt:
			return l.Tok == token.CONTINUE || l.Tok == token.BREAK
		case *ast.ExprStmt:
			if c, ok := l.X.(*ast.CallExpr); ok {
				if id, ok := c.Fun.(*ast.Ident); ok && id.Name == "panic" {
					return true
				}
			}
		}
		return false
	}
	reassigned := func(from, to token.Pos) bool {
		found := false
		ast.Inspect(fn, func(n ast.Node) bool {
			if as, ok := n.(*ast.AssignStmt); ok && as.Pos() > from && as.Pos() < to {
				for _, l := range as.Lhs {
					if exprText(fset, l) == st {
						found = true
					}
				}
			}
			return true
		})
		return found
	}
	safe := false
	var visit func(b *ast.BlockStmt)
	visit = func(b *ast.BlockStmt) {
		if b == nil || !(b.Pos() <= pos && end <= b.End()) {
			return
		}
		for _, stmt := range b.List {
			if is, ok := stmt.(*ast.IfStmt); ok {
				if is.End() <= pos && is.Else == nil && terminates(is.Body) {
					for _, d := range split(is.Cond, token.LOR) {
						if lenTest(d, true) && !reassigned(is.End(), pos) {
							safe = true
						}
					}
				}
				if is.Body.Pos() <= pos && end <= is.Body.End() {
					for _, cj := range split(is.Cond, token.LAND) {
						if lenTest(cj, false) && !reassigned(is.Body.Pos(), pos) {
							safe = true
						}
					}
				}
			}
			// descend into whatever statement encloses the use
			ast.Inspect(stmt, func(n ast.Node) bool {
				if inner, ok := n.(*ast.BlockStmt); ok && inner != b && inner.Pos() <= pos && end <= inner.End() {
					visit(inner)
					return false
				}
				return true
			})
		}
	}
	visit(fn)
	// the same condition, to the left of a short-circuit operator: len(s) > 2 && s[:2] == ..,  len(s) < 3 || s[2] == ..
	ast.Inspect(fn, func(n ast.Node) bool {
		b, ok := n.(*ast.BinaryExpr)
		if !ok || (b.Op != token.LAND && b.Op != token.LOR) || !(b.Y.Pos() <= pos && end <= b.Y.End()) {
			return true
		}
		for _, c := range split(b.X, b.Op) {
			if lenTest(c, b.Op == token.LOR) {
				safe = true
			}
		}
		return true
	})
	return safe
}

func boundedIndex(fset *token.FileSet, fn *ast.BlockStmt, x *ast.IndexExpr) bool {
	iv, ok := x.Index.(*ast.Ident)
	if !ok {
		return false
	}
	st := exprText(fset, x.X)
	safe := false
	assigned := func(body *ast.BlockStmt) bool {
		found := false
		ast.Inspect(body, func(n ast.Node) bool {
			switch y := n.(type) {
			case *ast.AssignStmt:
				for _, l := range y.Lhs {
					if id, ok := l.(*ast.Ident); ok && id.Name == iv.Name {
						found = true
					}
				}
			case *ast.IncDecStmt:
				if id, ok := y.X.(*ast.Ident); ok && id.Name == iv.Name {
					found = true
				}
			}
			return true
		})
		return found
	}
	ast.Inspect(fn, func(n ast.Node) bool {
		switch y := n.(type) {
		case *ast.ForStmt:
			if y.Body.Pos() <= x.Pos() && x.End() <= y.Body.End() && y.Cond != nil {
				if be, ok := y.Cond.(*ast.BinaryExpr); ok && be.Op == token.LSS {
					if id, ok := be.X.(*ast.Ident); ok && id.Name == iv.Name && exprText(fset, be.Y) == "len("+st+")" && !assigned(y.Body) {
						if as, ok := y.Init.(*ast.AssignStmt); ok && len(as.Rhs) == 1 {
							if lit, ok := as.Rhs[0].(*ast.BasicLit); ok && lit.Kind == token.INT {
								safe = true // starts at a non-negative literal
							}
						}
					}
				}
			}
		case *ast.RangeStmt:
			if y.Body.Pos() <= x.Pos() && x.End() <= y.Body.End() {
				if id, ok := y.Key.(*ast.Ident); ok && id.Name == iv.Name && exprText(fset, y.X) == st && !assigned(y.Body) {
					safe = true
				}
			}
		}
		return true
	})
	return safe
}

var panicSelectors = map[string]bool{
	"Int64": true, "Uint64": true, "NewCoins": true, "NewCoin": true, "NewInt64Coin": true,
	"NewDecCoins": true, "NewDecCoin": true, "MustNewDecFromStr": true, "MustUnmarshal": true, "MustMarshal": true,
	"MustBech32ifyAddressBytes": true, "MustAccAddressFromBech32": true, "MustMarshalJSON": true, "MustUnmarshalJSON": true,
	"MustSortJSON": true, "MustUnmarshalLengthPrefixed": true, "MustMarshalLengthPrefixed": true,
	// the EVM panics on a callee address it treats as a precompile without holding an instance for it (F25)
	"CallEVM": true, "CallEVMWithData": true,
}

// telemetryClockReads returns the positions of the time.Now() calls of [body] whose value can only reach the metrics
// sink: the call is an argument of a telemetry.* call, or it initialises a variable every use of which is such an
// argument. Nothing of it can be written to state or decide a branch.
func telemetryClockReads(body *ast.BlockStmt) map[token.Pos]bool {
	res := map[token.Pos]bool{}
	isNow := func(e ast.Expr) (*ast.CallExpr, bool) {
		c, ok := e.(*ast.CallExpr)
		if !ok {
			return nil, false
		}
		s, ok := c.Fun.(*ast.SelectorExpr)
		if !ok || s.Sel.Name != "Now" {
			return nil, false
		}
		id, ok := s.X.(*ast.Ident)
		return c, ok && id.Name == "time"
	}
	isTelemetry := func(c *ast.CallExpr) bool {
		s, ok := c.Fun.(*ast.SelectorExpr)
		if !ok {
			return false
		}
		id, ok := s.X.(*ast.Ident)
		return ok && id.Name == "telemetry"
	}
	// identifiers used as a direct argument of a telemetry call
	inTelemetry := map[token.Pos]bool{}
	ast.Inspect(body, func(n ast.Node) bool {
		if c, ok := n.(*ast.CallExpr); ok && isTelemetry(c) {
			for _, a := range c.Args {
				if nc, ok := isNow(a); ok {
					res[nc.Pos()] = true
				}
				if id, ok := a.(*ast.Ident); ok {
					inTelemetry[id.Pos()] = true
				}
			}
		}
		return true
	})
	ast.Inspect(body, func(n ast.Node) bool {
		as, ok := n.(*ast.AssignStmt)
		if !ok || as.Tok != token.DEFINE || len(as.Lhs) != 1 || len(as.Rhs) != 1 {
			return true
		}
		v, ok := as.Lhs[0].(*ast.Ident)
		nc, isnow := isNow(as.Rhs[0])
		if !ok || !isnow || v.Name == "_" {
			return true
		}
		only := true
		ast.Inspect(body, func(m ast.Node) bool {
			if id, ok := m.(*ast.Ident); ok && id.Name == v.Name && id.Pos() != v.Pos() && !inTelemetry[id.Pos()] {
				only = false
			}
			return true
		})
		if only {
			res[nc.Pos()] = true
		}
		return true
	})
	return res
}

func isMapType(e ast.Expr) bool {
	_, ok := e.(*ast.MapType)
	return ok
}

func runInventoryCmd(args []string) {
	fs := flag.NewFlagSet("inventory", flag.ExitOnError)
	repo := fs.String("repo", "/repo", "repository root")
	out := fs.String("out", "Sites.v", "output .v file")
	fs.Parse(args)
	var panicSites, mapRanges, clockSites, stateSites []string
	sortedRanges := 0
	// first pass: functions whose first result is a map, struct fields of map type
	mapFuncs := map[string]bool{}
	mapFields := map[string]bool{}
	funcDecls := map[string]*ast.FuncDecl{} // dir + "." + name -> declaration (helpers called from a loop body)
	// struct types with a method that takes a Context: keepers, message servers, decorators, modules, processors - the
	// objects that live as long as the process.  Plain value types (no such method) hold no state between calls.
	longLived := map[string]bool{"app/ante.HandlerOptions": true}
	for _, d := range inventoryDirs {
		files, _ := filepath.Glob(filepath.Join(*repo, d, "*.go"))
		for _, f := range files {
			if strings.HasSuffix(f, "_test.go") {
				continue
			}
			fset := token.NewFileSet()
			af, err := parser.ParseFile(fset, f, nil, 0)
			if err != nil {
				continue
			}
			ast.Inspect(af, func(n ast.Node) bool {
				switch x := n.(type) {
				case *ast.FuncDecl:
					if x.Type.Results != nil && len(x.Type.Results.List) > 0 && isMapType(x.Type.Results.List[0].Type) {
						mapFuncs[x.Name.Name] = true
					}
					if x.Body != nil {
						funcDecls[d+"."+x.Name.Name] = x
					}
					if x.Recv != nil && len(x.Recv.List) == 1 && x.Type.Params != nil {
						for _, pf := range x.Type.Params.List {
							if strings.Contains(exprText(fset, pf.Type), "Context") {
								rt := x.Recv.List[0].Type
								if st, ok := rt.(*ast.StarExpr); ok {
									rt = st.X
								}
								switch g := rt.(type) {
								case *ast.IndexListExpr:
									rt = g.X
								case *ast.IndexExpr:
									rt = g.X
								}
								if id, ok := rt.(*ast.Ident); ok {
									longLived[d+"."+id.Name] = true
								}
							}
						}
					}
				case *ast.StructType:
					for _, fl := range x.Fields.List {
						if isMapType(fl.Type) {
							for _, n := range fl.Names {
								mapFields[n.Name] = true
							}
						}
					}
				}
				return true
			})
		}
	}
	for _, d := range inventoryDirs {
		files, _ := filepath.Glob(filepath.Join(*repo, d, "*.go"))
		sort.Strings(files)
		for _, f := range files {
			base := filepath.Base(f)
			if strings.HasSuffix(base, "_test.go") || strings.HasSuffix(base, ".pb.go") || strings.HasSuffix(base, ".pb.gw.go") ||
				strings.HasPrefix(base, "codec") || strings.HasPrefix(base, "verif_") {
				continue
			}
			fset := token.NewFileSet()
			af, err := parser.ParseFile(fset, f, nil, 0)
			if err != nil {
				fmt.Println("parse error", f, err)
				os.Exit(2)
			}
			rel := d + "/" + base
			pkgs := map[string]bool{}
			for _, im := range af.Imports {
				path := strings.Trim(im.Path.Value, "\"")
				name := path[strings.LastIndex(path, "/")+1:]
				if im.Name != nil {
					name = im.Name.Name
				}
				pkgs[name] = true
			}
			// process-local state: every field of every struct type and every package-level variable.  Consensus state
			// has to live in the store (it is what a rejected or simulated transaction rolls back and what other nodes
			// see); anything a keeper, decorator or package can remember outside it must be accounted for.
			for _, decl := range af.Decls {
				gd, ok := decl.(*ast.GenDecl)
				if !ok {
					continue
				}
				for _, sp := range gd.Specs {
					switch x := sp.(type) {
					case *ast.TypeSpec:
						if st, ok := x.Type.(*ast.StructType); ok && longLived[d+"."+x.Name.Name] {
							for _, fl := range st.Fields.List {
								names := []string{"(embedded)"}
								if len(fl.Names) > 0 {
									names = nil
									for _, n := range fl.Names {
										names = append(names, n.Name)
									}
								}
								for _, n := range names {
									// identified by the field's type: renaming a field is not new state, one more field of a type is (counted)
									_ = n
									stateSites = append(stateSites, fmt.Sprintf("%s|%s|field|%s", rel, x.Name.Name, exprText(fset, fl.Type)))
								}
							}
						}
					case *ast.ValueSpec:
						if gd.Tok == token.VAR {
							for i, n := range x.Names {
								txt := ""
								if x.Type != nil {
									txt = exprText(fset, x.Type)
								} else if i < len(x.Values) {
									txt = "= " + exprText(fset, x.Values[i])
								}
								stateSites = append(stateSites, fmt.Sprintf("%s|-|var|%s %s", rel, n.Name, txt))
							}
						}
					}
				}
			}
			for _, decl := range af.Decls {
				fd, ok := decl.(*ast.FuncDecl)
				if !ok || fd.Body == nil {
					continue
				}
				fn := fd.Name.Name
				if fd.Recv != nil && len(fd.Recv.List) > 0 {
					fn = exprText(fset, fd.Recv.List[0].Type) + "." + fn
				}
				// local variables declared as maps (make(map..), map literals, var x map..)
				mapVars := map[string]bool{}
				ast.Inspect(fd.Body, func(n ast.Node) bool {
					switch x := n.(type) {
					case *ast.AssignStmt:
						for i, rhs := range x.Rhs {
							isMap := false
							switch r := rhs.(type) {
							case *ast.CallExpr:
								if id, ok := r.Fun.(*ast.Ident); ok && id.Name == "make" && len(r.Args) > 0 && isMapType(r.Args[0]) {
									isMap = true
								}
								if id, ok := r.Fun.(*ast.Ident); ok && mapFuncs[id.Name] {
									isMap = true
								}
								if se, ok := r.Fun.(*ast.SelectorExpr); ok && mapFuncs[se.Sel.Name] {
									isMap = true
								}
							case *ast.CompositeLit:
								if r.Type != nil && isMapType(r.Type) {
									isMap = true
								}
							}
							if isMap && i < len(x.Lhs) {
								if id, ok := x.Lhs[i].(*ast.Ident); ok {
									mapVars[id.Name] = true
								}
							}
						}
					case *ast.DeclStmt:
						if gd, ok := x.Decl.(*ast.GenDecl); ok {
							for _, sp := range gd.Specs {
								if vs, ok := sp.(*ast.ValueSpec); ok && vs.Type != nil && isMapType(vs.Type) {
									for _, n := range vs.Names {
										mapVars[n.Name] = true
									}
								}
							}
						}
					}
					return true
				})
				// parameters of map type
				if fd.Type.Params != nil {
					for _, p := range fd.Type.Params.List {
						if isMapType(p.Type) {
							for _, n := range p.Names {
								mapVars[n.Name] = true
							}
						}
					}
				}
				add := func(list *[]string, kind string, n ast.Node) {
					*list = append(*list, fmt.Sprintf("%s|%s|%s|%s", rel, fn, kind, shapeText(fset, n, pkgs)))
					if os.Getenv("VERIF_INV_DEBUG") != "" {
						fmt.Printf("MAP\t%s|%s|%s|%s\t%s|%s|%s|%s\n", rel, fn, kind, exprText(fset, n), rel, fn, kind, shapeText(fset, n, pkgs))
					}
				}
				metricsOnly := telemetryClockReads(fd.Body)
				// v, ok := x.(T) reports a mismatch in ok and cannot panic
				commaOk := map[token.Pos]bool{}
				ast.Inspect(fd.Body, func(n ast.Node) bool {
					switch y := n.(type) {
					case *ast.AssignStmt:
						if len(y.Lhs) == 2 && len(y.Rhs) == 1 {
							if ta, ok := y.Rhs[0].(*ast.TypeAssertExpr); ok {
								commaOk[ta.Pos()] = true
							}
						}
					case *ast.ValueSpec:
						if len(y.Names) == 2 && len(y.Values) == 1 {
							if ta, ok := y.Values[0].(*ast.TypeAssertExpr); ok {
								commaOk[ta.Pos()] = true
							}
						}
					}
					return true
				})
				ast.Inspect(fd.Body, func(n ast.Node) bool {
					switch x := n.(type) {
					case *ast.CallExpr:
						switch f := x.Fun.(type) {
						case *ast.Ident:
							if f.Name == "panic" {
								// identified by the statement alone: rewording the message is not a new panic, one more panic in the
								// package is (counted)
								panicSites = append(panicSites, fmt.Sprintf("%s|%s|panic|panic", rel, fn))
							}
						case *ast.SelectorExpr:
							if panicSelectors[f.Sel.Name] || strings.HasPrefix(f.Sel.Name, "Must") {
								// identified by the callee (receiver erased), not by the shape of the arguments
								panicSites = append(panicSites, fmt.Sprintf("%s|%s|call:%s|%s", rel, fn, f.Sel.Name, f.Sel.Name))
							}
							if id, ok := f.X.(*ast.Ident); ok {
								if id.Name == "time" && (f.Sel.Name == "Now" || f.Sel.Name == "Since") && !metricsOnly[x.Pos()] {
									add(&clockSites, "clock", x)
								}
								if id.Name == "rand" {
									add(&clockSites, "rand", x)
								}
							}
						}
					case *ast.IndexExpr:
						// indexing a map variable cannot panic; everything else can
						if id, ok := x.X.(*ast.Ident); ok && mapVars[id.Name] {
							return true
						}
						// s[i] inside `for i := ...; i < len(s); i++` or `for i := range s`, with i not assigned in the body,
						// is in range by construction
						if boundedIndex(fset, fd.Body, x) {
							return true
						}
						// s[k] behind a test of len(s) that covers k
						if lit, ok := x.Index.(*ast.BasicLit); ok && lit.Kind == token.INT {
							if k, err := strconv.Atoi(lit.Value); err == nil && lengthGuarded(fset, fd.Body, x.X, x.Pos(), x.End(), k+1, "") {
								return true
							}
						}
						add(&panicSites, "index", x)
					case *ast.SliceExpr:
						if x.Low == nil && x.High == nil && x.Max == nil {
							return true // s[:] cannot be out of range
						}
						// s[:e] behind a test of len(s): the same rule (len(s) >= e is what both need)
						if x.Low == nil && x.High != nil && x.Max == nil {
							if lit, ok := x.High.(*ast.BasicLit); ok && lit.Kind == token.INT {
								if k, err := strconv.Atoi(lit.Value); err == nil && lengthGuarded(fset, fd.Body, x.X, x.Pos(), x.End(), k, "") {
									return true
								}
							} else if lengthGuarded(fset, fd.Body, x.X, x.Pos(), x.End(), 0, exprText(fset, x.High)) {
								return true
							}
						}
						// s[e:] behind a test of len(s) against the same e
						if x.Low != nil && x.High == nil && x.Max == nil {
							if lit, ok := x.Low.(*ast.BasicLit); ok && lit.Kind == token.INT {
								if k, err := strconv.Atoi(lit.Value); err == nil && lengthGuarded(fset, fd.Body, x.X, x.Pos(), x.End(), k, "") {
									return true
								}
							} else if lengthGuarded(fset, fd.Body, x.X, x.Pos(), x.End(), 0, exprText(fset, x.Low)) {
								return true
							}
						}
						add(&panicSites, "slice", x)
					case *ast.BinaryExpr:
						if x.Op == token.QUO || x.Op == token.REM {
							if _, lit := x.Y.(*ast.BasicLit); !lit {
								// a division is identified by its operator only: hoisting the divisor into a variable or renaming
								// operands is not a new site, one more division in the file is (sites are counted)
								panicSites = append(panicSites, fmt.Sprintf("%s|%s|div|%s", rel, fn, x.Op.String()))
							}
						}
					case *ast.TypeAssertExpr:
						// x.(type), the guard of a type switch, selects a case and cannot panic
						if x.Type != nil && !commaOk[x.Pos()] {
							add(&panicSites, "assert", x)
						}
					case *ast.RangeStmt:
						isMap := false
						switch r := x.X.(type) {
						case *ast.Ident:
							isMap = mapVars[r.Name]
						case *ast.SelectorExpr:
							isMap = mapFields[r.Sel.Name]
						case *ast.CallExpr:
							if id, ok := r.Fun.(*ast.Ident); ok {
								isMap = mapFuncs[id.Name]
							}
							if se, ok := r.Fun.(*ast.SelectorExpr); ok {
								isMap = mapFuncs[se.Sel.Name]
							}
						case *ast.CompositeLit:
							isMap = r.Type != nil && isMapType(r.Type)
						}
						if isMap && collectsAndSorts(fset, x, fd.Body) {
							// `for k := range m { [if pure-cond] keys = append(keys, k) }` followed by sort.*(keys): the loop
							// computes a set of keys and the order is fixed afterwards - order independent by construction
							sortedRanges++
							isMap = false
						}
						if isMap {
							// fingerprint of the body: statements that leave the loop early (their effect depends on which
							// entries came first) and the calls made through a keeper / store (effects that have to commute)
							exits := 0
							calls := map[string]bool{}
							var scan func(body ast.Node, depth int)
							scan = func(body ast.Node, depth int) {
								ast.Inspect(body, func(m ast.Node) bool {
									switch y := m.(type) {
									case *ast.FuncLit:
										return false
									case *ast.ReturnStmt:
										if depth == 0 {
											exits++
										}
									case *ast.BranchStmt:
										if depth == 0 && (y.Tok == token.BREAK || y.Tok == token.GOTO) {
											exits++
										}
									case *ast.CallExpr:
										// a helper of the same package (function or method): its effects are the loop's effects
										hn := ""
										if id, ok := y.Fun.(*ast.Ident); ok {
											hn = id.Name
										} else if se, ok := y.Fun.(*ast.SelectorExpr); ok {
											if id, ok := se.X.(*ast.Ident); ok && !pkgs[id.Name] {
												hn = se.Sel.Name
											}
										}
										if fd2, ok := funcDecls[d+"."+hn]; ok && depth < 2 && hn != "" {
											scan(fd2.Body, depth+1)
										}
										// calls through a keeper / store / processor value (not package functions, not conversions)
										if se, ok := y.Fun.(*ast.SelectorExpr); ok {
											root := se.X
											for {
												if in, ok := root.(*ast.SelectorExpr); ok {
													root = in.X
												} else if c2, ok := root.(*ast.CallExpr); ok {
													root = c2.Fun
												} else {
													break
												}
											}
											if id, ok := root.(*ast.Ident); ok && !pkgs[id.Name] {
												for _, verb := range []string{"Set", "Delete", "Remove", "Allocate", "Send", "Slash", "Jail", "Unjail", "Mint", "Burn",
													"Create", "Update", "Write", "Transfer", "Distribute", "Fund", "Call", "Convert", "Deduct", "Emit", "Store", "Put"} {
													if strings.HasPrefix(se.Sel.Name, verb) {
														calls[se.Sel.Name] = true
													}
												}
											}
										}
									}
									return true
								})
							}
							scan(x.Body, 0)
							// plain assignments (=) to variables that live outside the loop body: what such a variable holds after the
							// loop may depend on the order of the entries (a running maximum decides ties by order); sums (+=),
							// appends and stores into map / slice elements are not counted
							declared := map[string]bool{}
							ast.Inspect(x.Body, func(m ast.Node) bool {
								switch y := m.(type) {
								case *ast.AssignStmt:
									if y.Tok == token.DEFINE {
										for _, l := range y.Lhs {
											if id, ok := l.(*ast.Ident); ok {
												declared[id.Name] = true
											}
										}
									}
								case *ast.ValueSpec:
									for _, n := range y.Names {
										declared[n.Name] = true
									}
								case *ast.RangeStmt:
									for _, e := range []ast.Expr{y.Key, y.Value} {
										if id, ok := e.(*ast.Ident); ok && y.Tok == token.DEFINE {
											declared[id.Name] = true
										}
									}
								}
								return true
							})
							assigns := 0
							ast.Inspect(x.Body, func(m ast.Node) bool {
								if _, ok := m.(*ast.FuncLit); ok {
									return false
								}
								if as, ok := m.(*ast.AssignStmt); ok && as.Tok == token.ASSIGN {
									for i, l := range as.Lhs {
										id, ok := l.(*ast.Ident)
										if !ok || id.Name == "_" || declared[id.Name] {
											continue
										}
										// x = append(x, ...) accumulates
										if i < len(as.Rhs) && len(as.Lhs) == len(as.Rhs) {
											if c, ok := as.Rhs[i].(*ast.CallExpr); ok {
												if f, ok := c.Fun.(*ast.Ident); ok && f.Name == "append" && len(c.Args) > 0 && exprText(fset, c.Args[0]) == id.Name {
													continue
												}
											}
										}
										assigns++
									}
								}
								return true
							})
							var cl []string
							for c := range calls {
								cl = append(cl, c)
							}
							sort.Strings(cl)
							mapRanges = append(mapRanges, fmt.Sprintf("%s|%s|range|%s exits=%d calls=%s assigns=%d", rel, fn, shapeText(fset, x.X, pkgs), exits, strings.Join(cl, ","), assigns))
						}
					}
					return true
				})
			}
		}
	}
	var sb strings.Builder
	sb.WriteString("(* generated from the source on every run by `harness inventory`; do not edit *)\nFrom Coq Require Import String List.\nImport ListNotations.\nOpen Scope string_scope.\n")
	emit := func(name string, l []string) {
		fmt.Fprintf(&sb, "Definition %s : list string := [\n", name)
		sort.Strings(l) // duplicates are kept: sites are counted per shape
		for i, s := range l {
			if i > 0 {
				sb.WriteString(";\n")
			}
			sb.WriteString("  \"" + strings.ReplaceAll(s, "\"", "'") + "\"")
		}
		sb.WriteString("].\n")
	}
	emit("panic_sites", panicSites)
	emit("map_ranges", mapRanges)
	emit("clock_sites", clockSites)
	emit("state_sites", stateSites)
	if err := os.WriteFile(*out, []byte(sb.String()), 0o644); err != nil {
		fmt.Println(err)
		os.Exit(2)
	}
	fmt.Printf("INVENTORY panic_sites=%d map_ranges=%d clock_sites=%d state_sites=%d map_ranges_collect_then_sort=%d\n", len(panicSites), len(mapRanges), len(clockSites), len(stateSites), sortedRanges)
}
