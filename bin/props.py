# per-property configuration of bin/check

TRUSTED_BASE = [
    "Coq 8.16.1 kernel incl. vm_compute (no native_compute); full .vo build",
    "no axioms: Print Assumptions of every property theorem must be 'Closed under the global context'; no extraction, no Extract directive",
    "coqchk -o (thorough tier) re-checks the compiled property file and its closure; the axioms it lists belong to standard-library files that Psatz loads (Coq.Logic.FunctionalExtensionality.functional_extensionality_dep, Coq.Reals.ClassicalDedekindReals.sig_not_dec / sig_forall_dec) and are used by no theorem of the development",
    "translator /verif/translator (go2coq: go/parser front end, targets and atoms of targets.go, the semantics it gives the Go subset) and the hand-written instantiation of atoms in coq/obligations/Tie*.v; a target that can no longer be translated is reported as TIE-LOST and its theorems are dropped for the run (the correspondence run remains the tie for it)",
    "correspondence harness (Go): history generator, ABCI driver on the real SettlusApp, fault-injecting keeper wrappers, snapshot projection, Coq term printer; bin/check (python)",
    "modelled, not verified: Cosmos-SDK baseapp (tx atomicity, panic recovery), signature verification, x/bank, x/staking, x/distribution, EVM / ERC-721 / SBT contracts, protobuf codecs, IAVL hashing, SHA-256, bech32, EIP-55",
]
ALLOWED_AXIOMS = set()

CHAIN_RULE = ("seeded structured histories (create tenant / record / cancel / deposit / admin and period changes, "
              "validators' prevotes and votes, env: bank sends, NFT mints and transfers, jailing, fault plans) run through "
              "ABCI on the real app; distinct_nontrivial counts distinct histories in which at least one record was paid or filled")

def chain(tag, profile, quick, thorough, checker, **kw):
    d = dict(tag=tag, cmd=['chain', '-profile', profile], quick=quick, thorough=thorough,
             mismatch_fn='all_mismatches', checker_fn=checker)
    d.update(kw)
    return d

ANTE_RULE = ("seeded transaction shapes on a fresh application in a fixed base state (validator 0 with a current and a former feeder, tenant 1 with two admins, "
             "a pending record, an open prevote): single messages, lists mixing restricted and harmless messages, authz exec nesting to depth 7, grants of restricted types, "
             "explicit fee payers; actors: operator, feeder, former feeder, stranger, tenant admin; every message is built so that its handler would succeed; "
             "non-trivial: the shape contains a settlement, oracle or create-validator message")
ANTE_ASSUME = ["signature verification, sequence numbers and the remaining SDK/evmos decorators are trusted; the generator keeps them satisfied",
               "x/authz dispatch executes every inner message of an accepted MsgExec (all-or-nothing): code 0 means every leaf took effect",
               "the base state is fixed; the delegation history is one former and one current feeder"]

def func(tag, cmd, quick, thorough, mismatch, checker, **kw):
    d = dict(tag=tag, cmd=[cmd], quick=quick, thorough=thorough, mismatch_fn=mismatch, checker_fn=checker,
             shards_quick=2, shards_thorough=8, kind='func')
    d.update(kw)
    return d

SETTLE_ASSUME = ["x/bank: a send fails iff the sender's balance is insufficient and has no other effect; treasury accounts have no key",
                 "baseapp: messages of a transaction run on a branch that is written only if all succeed",
                 "a token contract the module did not deploy (a tenant may name any address): what a call to it does is an input of the history - class 3 'every call fails' for the addresses the EVM reserves (precompiles and default-active extensions), class 4 'succeeds and moves nothing the module sees' for addresses without code; the harness takes the class from the address alone",
                 "ERC-721 ownerOf / SBT mint modelled as abstract ledgers; ERC-20 conversion payouts (erc20 profile: a registered token pair, treasuries funded by token mints) modelled as a ledger whose treasury side is the token balance and whose recipient side is the coin balance; coin deposits into a token-pair treasury and conversion failures other than a short token balance are not exercised"]

PROPS = {
    'C01': dict(
        theorems=['C01_exactly_once', 'C01_resolved_after_recorded', 'C01_split_each', 'C01_split_total', 'C01_paid_is_split',
                  'C01_treasury_debit_native', 'C01_treasury_untouched_mint'],
        runs=[chain('settle', 'settlement', 40, 1200, 'check_C01'),
              chain('imported', 'imported', 40, 1200, 'check_C01'),
              chain('faults', 'faults', 24, 800, 'check_C01'),
              chain('erc20', 'erc20', 24, 800, 'check_C01'),
              chain('many', 'many', 4, 120, 'check_C01', shards_quick=4)],
        fields=[3, 5, 15, 16, 20, 21],
        rule=CHAIN_RULE, assumptions=SETTLE_ASSUME),
    'C02': dict(
        theorems=['C02_maturity_test', 'C02_not_early', 'C02_cancel_pending', 'C02_cancelled_never_paid',
                  'C02_cancel_not_pending', 'C02_paid_not_pending'],
        runs=[chain('periods', 'periods', 48, 1600, 'check_C02'),
              chain('settle', 'settlement', 40, 1200, 'check_C02'),
              chain('imported', 'imported', 40, 1200, 'check_C02')],
        fields=[2, 3, 4, 15, 16, 20, 21],
        rule=CHAIN_RULE + "; the periods profile draws payout periods from {1..9, 2^62, 2^63-1, 2^63, 2^64-1-h, 2^64-h, 2^64-h+1, 2^64-1}; the imported profile imports records whose creation height is below, at, above the current height or near 2^63 / 2^64",
        assumptions=SETTLE_ASSUME),
    'C09': dict(
        theorems=['C09_only_admins', 'C09_cancel_exactly', 'C09_add_admin_exactly', 'C09_remove_admin_exactly',
                  'C09_update_period_exactly', 'C09_admin_lists', 'C09_rejected_changes_nothing'],
        runs=[chain('settle', 'settlement', 48, 1600, 'check_C09'),
              chain('adv', 'adversarial', 32, 1000, 'check_C09')],
        fields=[2, 3, 5, 15, 20],
        rule=CHAIN_RULE + "; senders are current admins, removed admins, other tenants' admins and strangers",
        assumptions=SETTLE_ASSUME),
    'C11': dict(
        theorems=['C11_prefix', 'C11_queue_order', 'C11_failure_defers', 'C11_failing_contract_defers', 'C11_foreign_contract_moves_nothing', 'C11_block_completes', 'C11_recovers'],
        runs=[chain('faults', 'faults', 48, 1600, 'check_C11'),
              chain('imported', 'imported', 40, 1200, 'check_C11'),
              chain('erc20', 'erc20', 32, 1000, 'check_C11'),
              chain('many', 'many', 6, 200, 'check_C11', shards_quick=6)],
        fields=[3, 5, 16, 21],
        rule=CHAIN_RULE + "; fault plans fail the k-th payout back-end call (bank send / SBT mint) of an end-block; the erc20 profile pays token-pair tenants through x/erc20 ConvertERC20 with treasuries that run short of tokens and are topped up by mints",
        assumptions=SETTLE_ASSUME),
    'C12': dict(
        theorems=['C12_duplicate_rejected', 'C12_lookup_exact', 'C12_one_per_request', 'C12_invariant_reachable',
                  'C12_ids_increase', 'C12_reqid_key_injective', 'C12_utxr_key_injective'],
        runs=[chain('settle', 'settlement', 48, 1600, 'check_C12'),
              chain('adv', 'adversarial', 32, 1000, 'check_C12')],
        fields=[3, 4, 14, 15, 20],
        rule=CHAIN_RULE + "; request ids include the empty string, prefixes of each other, NUL bytes and ids shared between tenants",
        assumptions=SETTLE_ASSUME),
    'C03': dict(
        theorems=['C03_only_operator_or_feeder', 'C03_oracle_message_alone', 'C03_only_named_validator'],
        runs=[func('ante', 'ante', 240, 6000, 'ante_mismatches', 'ante_check_C03', fields=[1, 2], shards_quick=8, shards_thorough=16),
              chain('oracle', 'oracle', 40, 1200, 'check_C03_chain')],
        fields=[7, 8, 9, 20],
        rule=ANTE_RULE, assumptions=ANTE_ASSUME),
    'C04': dict(
        theorems=['C04_no_validator_creation', 'C04_settlement_only_fixed_fee', 'C04_no_restricted_grant'],
        runs=[func('ante', 'ante', 240, 6000, 'ante_mismatches', 'ante_check_C04', fields=[1, 2], shards_quick=8, shards_thorough=16)],
        fields=[1, 2],
        rule=ANTE_RULE, assumptions=ANTE_ASSUME),
    'C05': dict(
        theorems=['C05_accept_iff', 'C05_repetition_irrelevant', 'C05_only_active_count', 'C05_inactive_no_voice', 'C05_fill', 'C05_fill_rec'],
        runs=[chain('oracle', 'oracle', 56, 2000, 'check_C05'),
              chain('settle', 'settlement', 32, 1000, 'check_C05')],
        fields=[3, 8, 11, 16],
        rule=CHAIN_RULE + "; 3-5 validators with powers 1-5, thresholds 0.5 .. 1, votes with wrong owners (35%), repeated entries, strangers, jailed validators",
        assumptions=["x/staking: bonded status follows jailing at the staking end-block, which runs before the oracle's; consensus power = tokens / 10^6 (ConstantReward: 1 per validator with positive power)"]),
    'C06': dict(
        theorems=['C06_records_stay_safe', 'C06_genesis_safe', 'C06_payout_cannot_panic', 'C06_handlers_total', 'C06_oracle_handlers_total',
                  'C06_entry_parser_total', 'C06_entry_parser_is_model', 'C06_round_arithmetic_total', 'C06_step_never_panics'],
        runs=[func('arith', 'arith', 1000, 20000, 'arith_mismatches', 'arith_check', fields=[1, 2, 4]),
              chain('adv', 'adversarial', 64, 2400, 'check_C06'),
              chain('periods', 'periods', 24, 800, 'check_C06'),
              chain('faults', 'faults', 24, 800, 'check_C06'),
              # validators that are jailed, take their stake back and are removed from staking while their miss counters run
              chain('oracle', 'oracle', 32, 1000, 'check_C06')],
        fields=[20, 21],
        inventory=[('panic_sites', 'panic_table')],
        rule=CHAIN_RULE + "; adversarial stream: negative / zero / 2^63 / 2^64 / 2^256-1 amounts, malformed and unregistered denominations, malformed token ids and contract addresses, vote entries without ':' or '/', deprecated and unknown topics, periods near 2^64; every history runs on through maturity, tally and slash window",
        assumptions=["a call into the EVM is assumed to return (with or without an error) once the settlement module has wrapped it (callContract recovers a panic of the call, F25): what the EVM does at an address is not modelled, its class (fails / succeeds without visible effect) is an input of the history",
                     "panic sites are those of the generated inventory of x/settlement, x/oracle, app/ante, app/post, types (go/parser; every site must be accounted for in Inventory/Table.v); a panic deep inside a dependency is caught only dynamically",
                     "genesis-imported records are configuration: the theorem assumes the imported records satisfy rec_safe (the empty genesis does)"]),
    'C07': dict(
        theorems=['C07_miss_order_free', 'C07_reward_order_free', 'C07_tally_order_free', 'C07_missers_order_free', 'C07_step_is_a_function'],
        runs=[chain('replica', 'replica', 40, 1200, 'check_C07'),
              chain('settle', 'settlement', 16, 400, 'check_C07')],
        fields=[3, 6, 10, 12, 13, 16, 17, 18],
        inventory=[('map_ranges', 'range_table'), ('clock_sites', 'clock_table')],
        rule=CHAIN_RULE + "; every history of the replica profile is executed twice on fresh application instances (Go randomises map iteration per loop) and the app hash is compared after every commit; histories hold several pending external NFTs, 3-5 voting validators and several miss counters",
        assumptions=["goroutine timing and allocation addresses cannot be expressed in the model: for that clause the two executions are evidence, not proof",
                     "map iteration sites are those of the generated inventory (go/parser heuristics: make(map), map literals, map-typed parameters / fields / function results); every site must be accounted for in Inventory/Table.v"]),
    'C08': dict(
        theorems=['C08_round_arithmetic', 'C08_tally_once_per_round', 'C08_round_info_current', 'C08_prevote_iff', 'C08_prevote_effect',
                  'C08_vote_iff', 'C08_vote_effect', 'C08_no_tally_elsewhere', 'C08_nothing_left_behind', 'C08_replayed_vote_rejected', 'C08_restart_round'],
        runs=[func('arith', 'arith', 2000, 40000, 'arith_mismatches', 'arith_check', fields=[1, 2, 4]),
              chain('oracle', 'oracle', 56, 2000, 'check_C08'),
              chain('adv', 'adversarial', 24, 800, 'check_C08'),
              # a chain restarted from an export at any alignment with the rounds must publish the round of its first block
              chain('roundtrip', 'roundtrip', 32, 1000, 'check_C08', fields=[1, 2, 6, 7, 8, 9, 16, 20, 21, 36, 37, 38, 39])],
        fields=[1, 2, 6, 7, 8, 9, 16, 20, 21],
        rule="(p, W, maxmiss, h) tuples biased to round boundaries and 2^62..2^64; " + CHAIN_RULE + "; prevotes / votes at every offset of a round, wrong round ids, re-prevotes, votes that do not open the commitment, replays",
        assumptions=["signature verification and the feeder check of the ante handler are modelled as ValidateFeeder(sender, validator)"]),
    'C10': dict(
        theorems=['C10_internal', 'C10_external', 'C10_other_chain_rejected', 'C10_tx_entries', 'C10_end_block_entries',
                  'C10_never_overwritten', 'C10_env_keeps_records', 'C10_published_sources', 'C10_sources_are_unfilled_old_records'],
        runs=[chain('settle', 'settlement', 48, 1600, 'check_C10'),
              chain('oracle', 'oracle', 40, 1400, 'check_C10')],
        fields=[3, 6, 15, 16, 20],
        rule=CHAIN_RULE + "; NFTs of this chain are minted and transferred between record and payout; records are created at every offset of a round",
        assumptions=SETTLE_ASSUME),
    'C13': dict(
        theorems=['C13_other_transactions_invisible', 'C13_own_message_depends_on_own_view', 'C13_end_block', 'C13_isolation'],
        runs=[chain('iso', 'isolation', 48, 1600, 'check_C13'),
              chain('faults', 'faults', 16, 400, 'check_C11'),
              chain('many', 'many', 6, 160, 'check_C11', shards_quick=6)],
        fields=[2, 3, 4, 5, 15, 16, 20, 21],
        rule=CHAIN_RULE + "; isolation profile: 2-4 tenants with disjoint operators and NFTs; every history is executed a second time with the other tenants' transactions (and the bank sends to their treasuries) removed, and tenant 1's tenant record, pending records, treasury balances, typed events and transaction results are compared block by block",
        assumptions=SETTLE_ASSUME + ["C13_isolation quantifies over pairs of histories with: no injected back-end faults (the fault plan of the model is positional across tenants), NFT transfers as the only environment events, tenant t's transactions one message each, recipients that are 20-byte addresses, and a depositor's wallet covering its deposit equally in both runs; back-end faults hitting other tenants are covered by the correspondence runs and by C11"]),
    'C14': dict(
        theorems=['C14_conserved', 'C14_never_more_than_pool', 'C14_share', 'C14_credit_lines', 'C14_contribution_exact', 'C14_reward_frame'],
        runs=[chain('oracle', 'oracle', 64, 2400, 'check_C14'),
              chain('settle', 'settlement', 24, 800, 'check_C14')],
        fields=[12, 13, 17, 18],
        rule=CHAIN_RULE + "; settlement fees feed the reward pool (oracle share 0.5), pro-bono rates 0, 0.3, 0.5, 0.333.., 1; every registered crisis invariant is evaluated on the real app after every block",
        assumptions=["x/distribution AllocateTokensToValidator credits exactly the DecCoins it is given; the SDK modules' own invariants are observed (crisis AssertInvariants after every block), not proved"]),
    'C16': dict(
        theorems=['C16_gas_cost', 'C16_required_fee', 'C16_first_covered', 'C16_surplus_irrelevant', 'C16_only_kinds_matter',
                  'C16_split', 'C16_charged_regardless', 'C16_uncovered_rejected', 'C16_granter_consents'],
        runs=[func('ante', 'ante', 320, 8000, 'ante_mismatches', 'ante_check_C16', fields=[1, 6, 8], shards_quick=8, shards_thorough=16),
              chain('settle', 'settlement', 24, 800, 'no_check')],
        fields=[12, 20],
        rule=ANTE_RULE + "; pure settlement transactions additionally vary the governance parameters (1-3 gas prices incl. 10^-18 and non-terminating decimals, oracle share 0 .. 1), the offered fee (requirement -1 / 0 / +1 / +surplus per denomination, several denominations), the gas limit, and whether the messages succeed; the three transfers of the ante handler are read from the bank events of the transaction",
        assumptions=ANTE_ASSUME + ["x/feegrant: a BasicAllowance admits a fee iff it has no spend limit or the limit covers the fee coin-wise (trusted, modelled as such); the fee decorator asks it for the fee that is charged, oracle transactions never ask",
                                   "the evmos post handler burns min(offered fee, fee-collector balance) after every Cosmos transaction: the collector's share of a settlement fee is credited and then burnt; the split is therefore observed on the transfers (bank events), not on the collector's end balance",
                                   "block gas limit -1 (as the suite runs); with a finite limit baseapp skips transactions once the block gas meter is exhausted"]),
    'C17': dict(
        theorems=['C17_settlement_roundtrip', 'C17_oracle_roundtrip', 'C17_roundtrip_after_any_history', 'C17_genesis_hypotheses'],
        runs=[chain('roundtrip', 'roundtrip', 48, 1600, 'check_C17'),
              chain('manyrt', 'manyrt', 4, 120, 'check_C17', shards_quick=4)],
        fields=[32, 33, 34, 36, 37, 38, 39, 40, 44, 30],
        rule=CHAIN_RULE + "; after the last block the application state is exported (ExportAppStateAndValidators), a fresh application is initialised from the export at the next height, and the two modules are observed there",
        assumptions=["the other modules' genesis round trip (auth, bank, staking, evm, ...) is trusted; the export is taken at a block boundary"]),
    'C18': dict(
        theorems=['C18_binding_refuted', 'C18_cuts_determine_opening', 'C18_partial'],
        runs=[func('open', 'openings', 400, 20000, 'open_mismatches', 'open_check', fields=[1, 2, 3, 4], shards_quick=4, shards_thorough=16)],
        fields=[1, 2, 3, 4],
        rule="pairs of openings (salt, vote data) of one commitment: identical, re-cut with the deprecated topic, regrouped into several items, salt boundary moved, and openings with different content (another owner, another salt, entries dropped / swapped); digest, validation and the feeder's hash from the exported Go functions; every eighth pair is also revealed through ABCI (prevote, vote A, prevote, vote B); non-trivial: a second, different opening is accepted",
        assumptions=["SHA-256 is collision-free on the inputs used (equal digests <=> equal committed bytes is what the correspondence checks)",
                     "KNOWN FINDING F19: the property is false of the code; openings of the SAME committed bytes are reported as KNOWN-FINDING, openings of DIFFERENT bytes as a violation"]),
    'C19': dict(
        theorems=['C19_small_ids_faithful', 'C19_small_ids_injective', 'C19_refuted', 'C19_contract_faithful', 'C19_contract_injective', 'C19_contract_published'],
        runs=[func('tok', 'tokenid', 2000, 100000, 'tok_mismatches', 'tok_check', fields=[1, 2, 3], shards_quick=4, shards_thorough=16),
              chain('adv', 'adversarial', 16, 400, 'check_C19'),
              chain('settle', 'settlement', 64, 1200, 'check_C19')],
        fields=[3, 6, 20],
        rule="pairs of token-id strings: small, leading zeros, mixed case, 64-bit, 2^160-1 / 2^160 / 2^160+1, multiples of 2^160 plus a small number, 256-bit, signed (0x+f, 0x-1), malformed; MsgRecord.ValidateBasic verdict, the stored identity (NormalizeHexAddress) and the denoted number (big.Int) from the real functions; chain histories (contract addresses spelled with 0x, 0X, without prefix, mixed case) compare the stored / published NFT with the model and check every accepted record message against the NFT pending at the end of its block; non-trivial: both ids accepted",
        assumptions=["KNOWN FINDING F20: the property is false of the code for token ids >= 2^160 or with a sign; collapses involving such an id are reported as KNOWN-FINDING, a collapse or misrecording of ids below 2^160 as a violation"]),
    'C20': dict(
        theorems=['C20_same_committed_bytes', 'C20_entry_roundtrip', 'C20_cache_refines_spec', 'C20_retains_highest', 'C20_lookup'],
        runs=[func('open', 'openings', 200, 8000, 'open_mismatches', 'nocheck', fields=[3], shards_quick=2, shards_thorough=8),
              func('entries', 'entries', 800, 40000, 'entry_mismatches', 'entry_check', fields=[1, 2], shards_quick=4, shards_thorough=16),
              func('cache', 'cache', 600, 30000, 'cache_mismatches', 'cache_check', fields=[1], shards_quick=4, shards_thorough=16),
              dict(tag='race', kind='race', quick=(3000, 4, 2), thorough=(20000, 6, 10))],
        fields=[1, 2, 3],
        rule="entries: sources the chain publishes (Nft.FormatString) for supported chain ids x owner answers (0x00, 32-byte padded, unpadded, upper case, no prefix, malformed) through the feeder's real formatter (build-tagged export) and the chain's real parser; cache: op sequences of puts (equal, out-of-order, extreme timestamps, beyond capacity 1-5) and queries on the real BlockCache; race: one writer and several readers under the Go race detector; non-trivial: entry accepted by the chain / cache sequence that evicts",
        assumptions=["data-race freedom is a property of the Go memory model: observed with the race detector on writer/reader runs, not proved; with every operation under the cache's lock an execution is some sequence of operations, and the refinement theorem covers every sequence",
                     "SHA-256 not modelled: both Go implementations are compared with each other and with sha256(salt ++ entries)",
                     "the chain's FormatString renders EIP-55 mixed case; the model renders lower case (the parser is case-insensitive)"]),
    'C15': dict(
        theorems=['C15_close_iff', 'C15_gate_as_coded', 'C15_every_window_closed', 'C15_first_tally', 'C15_nobody_else',
                  'C15_effect', 'C15_miss_only', 'C15_old_gate_never_closes'],
        runs=[func('arith', 'arith', 2000, 40000, 'arith_mismatches', 'arith_check', fields=[1, 2, 3, 4]),
              chain('oracle', 'oracle', 48, 1600, 'check_C15')],
        fields=[1, 6, 10, 11, 20, 21],
        rule="(p, W, maxmiss, h) tuples biased to window / round boundaries and 2^62..2^64 (non-trivial: accepted parameters at a closing height); " + CHAIN_RULE,
        assumptions=["x/staking Slash/Jail modelled: tokens -= min(tokens, trunc(power*10^6*fraction)); bonded status follows jailing at the staking end-block",
                     "the checker on implementation traces uses the previous block's counters as a lower bound of the misses at the close"],
    ),
}

PROOF_NOTE = ("Theorems are about the Gallina model; the model is tied to /repo by the correspondence run of this check "
              "(same histories on the real app and on the model, compared on this property's observables). Trusted: Coq kernel "
              "+ vm_compute, the Go harness and printer, the SDK/EVM parts listed in DESIGN.md section 9.")

C17_LEVEL = dict(text="Unbounded theorems: for every state reachable by any history of the composed chain (via the refinement of the chain to the settlement machine and the sortedness invariant of the oracle lists) the export imports without failure and reproduces tenants, every pending record (id, request id, amount, recipients, NFT, creation height, order), the request-id index, parameters, ballots, feeder delegations and miss counters; exporting again yields the same document. Correspondence: after ABCI histories the full application state is exported, a fresh application is initialised from it at the next height, and both modules' state and second export are compared with the original and with the model's import.",
                 note=PROOF_NOTE, technique="Coq proof: round-trip theorem from the reachable-state invariants (refinement CM -> SM) + real export/InitChain round trips compared with the model")

SETTLE_TECH = "Coq proof: invariant by induction over histories of the generalised settlement machine (arbitrary oracle fills and fault plans) + differential correspondence via vm_compute on ABCI histories"

ANTE_TECH = "Coq proof: structural induction over nested message trees with the authz limiter's nesting counter modelled as coded + differential correspondence on transaction shapes through ABCI"

LEVELS = {
    'C13': dict(text="Unbounded relational theorems: (1) a successful transaction of other tenants leaves tenant t's view (tenant record, pending records, index, id counter, treasury, token supply) unchanged; (2) t's own message has the same verdict and effect in any two states that agree on t's view; (3) the end-block pays / drops / defers t's records identically in two such states whatever other tenants exist and can pay (fold over arbitrary tenant lists, payout congruence); (4) C13_isolation: for every pair (history, history without the other tenants' transactions) t's state after every prefix and the log of its records with heights are equal. Correspondence: every history of the isolation profile is re-executed on the real app without the other tenants and tenant 1's observables are compared.",
                note=PROOF_NOTE, technique="Coq proof: simulation between two runs of the settlement machine (non-interference: frame + congruence lemmas) + paired executions on the real app"),
    'C18': dict(text="The property is FALSE of the code (known finding F19) and that is what is proved: C18_binding_refuted exhibits two accepted openings of one commitment (the deprecated topic hides part of the committed bytes), further families are given as examples, and every witness is replayed on the real message server. Proved residual guarantee, unbounded: the committed bytes together with the cut positions determine the opening; with a collision-free digest equal digests and equal cuts mean equal openings. The check reports openings of the same committed bytes as KNOWN-FINDING and any accepted opening of different bytes as a violation.",
                note=PROOF_NOTE, technique="Coq proof of the refutation and of the residual binding theorem + differential correspondence on pairs of openings (exported Go functions and ABCI)"),
    'C19': dict(text="The property is FALSE of the code (known finding F20): proved refutation with witnesses (2^160 and 0; signed ids). Proved, unbounded: every plain token id below 2^160 (any casing, leading zeros) is accepted and stored as exactly the number it denotes, hence two such ids collapse only if equal - via a theorem that go-ethereum's lenient hex decoder computes the hex number on well-formed input; every accepted spelling of a contract address (0x / 0X / no prefix, any casing) is stored as the number its 40 digits denote and the published form denotes it again. The check reports collapses involving an id >= 2^160 or a signed id as KNOWN-FINDING and any other collapse / misrecording as a violation.",
                note=PROOF_NOTE, technique="Coq proof (hex decoding as a number) + differential correspondence on token-id pairs"),
    'C20': dict(text="Unbounded theorems: feeder and chain hash the same byte string; for every publishable NFT and every hex owner answer the formatted entry parses on the chain to the same NFT and the owner's last 20 bytes (needs: decoder = hex number, trimming keeps the number, rendered addresses parse back); the tree-with-eviction cache answers every operation sequence like the specification that remembers all puts and answers from the cap highest timestamps; retained set and lookup characterised. Data-race freedom is observed with the Go race detector (partial). Correspondence through the build-tagged export of the feeder's formatter.",
                note=PROOF_NOTE, technique="Coq proof: refinement of the cache to its specification, hex/format round trip + differential correspondence + Go race detector runs"),
    'C16': dict(text="Unbounded theorems: fixed gas cost formula; requirement = floor(price x gas) for every price and gas; the charge is exactly the requirement of the FIRST configured denomination the offered fee covers; it is independent of any surplus offered and of everything but the message kinds; collector floor(f(1-q)) and pool floor(fq) sum to f or f-1 for every q in [0,1]; the pool share is credited whether the messages succeed, fail or panic; an uncovered transaction changes nothing; a fee granter other than the payer is charged only if its allowance covers the fixed fee. Correspondence: parameterised fee cases through ABCI with the three transfers read from the transaction's bank events (the debited account is the fee granter when one is named: allowances without limit, of exactly the fee, one unit short, in another denomination, none), plus the reward pool in chain histories.",
                note=PROOF_NOTE, technique="Coq proof (Dec arithmetic, nia) + differential correspondence on parameterised settlement transactions through ABCI"),
    'C03': dict(text="Unbounded theorems over ALL transaction shapes (any message list, authz exec nested to any depth, grants, any signer / fee payer): every oracle message an admitted transaction executes is covered by the signature of the validator's operator or current feeder; an admitted transaction that executes an oracle message consists of exactly that message; handlers change only the named validator's ballot. Correspondence: ~240 shapes per run delivered through ABCI, admitted <-> code 0 compared with the model, effects on ballots observed.",
                note=PROOF_NOTE, technique=ANTE_TECH),
    'C04': dict(text="Unbounded theorems over ALL transaction shapes: after genesis no admitted transaction executes a create-validator message; a settlement message is executed only as a top-level message of a pure settlement transaction that offers the fixed fee; no authz grant of a restricted type is admitted. Proved against the limiter's recursive check with its running nesting counter as coded. Correspondence on shapes through ABCI incl. nesting up to and beyond the limit.",
                note=PROOF_NOTE, technique=ANTE_TECH),
    'C17': C17_LEVEL,
    'C01': dict(text="Unbounded theorems over all histories of the settlement machine with arbitrary oracle input and fault plans: every record id is recorded once and resolved at most once, only after it was recorded; pending = recorded minus resolved; paid amounts are the floor split and sum to at most the amount; native treasuries are debited by exactly the paid total. Correspondence: ABCI histories (incl. genesis-imported multi-recipient records and back-end faults) compared with the model on records, index, balances and typed events; the implementation's own events and balances are checked against the property.",
                note=PROOF_NOTE, technique=SETTLE_TECH),
    'C02': dict(text="Unbounded theorems: the uint64 maturity test equals created+period <= height in Z for every period in [1,2^64); no GPaid before maturity in any history; cancel of a pending record succeeds and removes it, a cancelled id is never paid, a cancel for a request id that is not pending is rejected. Correspondence on ABCI histories with boundary periods and cancels racing the paying block.",
                note=PROOF_NOTE, technique=SETTLE_TECH),
    'C09': dict(text="Unbounded theorems: privileged messages succeed only for current admins, with exact acceptance conditions per kind; admin lists are duplicate-free and non-empty in every reachable state; a rejected transaction is a no-op on the settlement state. Correspondence on ABCI histories with admin churn and strangers / removed admins as senders.",
                note=PROOF_NOTE, technique=SETTLE_TECH),
    'C11': dict(text="Unbounded theorems for every fault plan: each end-block resolves a prefix of the tenant's queue in id order, the record it stops at is immature or its payout failed, the failed payout leaves the state untouched (also when the tenant's own token contract fails every call: deferred for ever, never reported paid), the block completes, and the head record is paid in full once funds suffice and no fault is injected. Correspondence with fault-injecting bank/EVM keepers on the real app.",
                note=PROOF_NOTE, technique=SETTLE_TECH),
    'C12': dict(text="Unbounded theorems: index and record store are in bijection in every reachable state (lookup exact, one pending record per request id, duplicates rejected), ids per tenant strictly increase along any history, and the byte-level store keys are injective for arbitrary request-id strings. Correspondence on ABCI histories incl. by-request-id queries for every id ever used.",
                note=PROOF_NOTE, technique=SETTLE_TECH),
    'C05': dict(text="Unbounded theorems on the tally model: an owner is accepted for an NFT iff the DISTINCT bonded, unjailed validators that revealed it hold at least threshold x total power (ceil) and no other revealed owner does; the decision depends only on the set of revealed triples (repetition irrelevant); inactive validators have weight 0; the fill changes exactly the records without recipients created before the cut-off. Proved by refinement of the coded grouping/summing to a sum over validators. Correspondence on ABCI rounds with unequal powers, threshold boundaries, repeated and conflicting entries.",
                note=PROOF_NOTE, technique="Coq proof: refinement of the coded tally to its specification (sum over distinct validators) + differential correspondence via vm_compute"),
    'C06': dict(text="Unbounded theorems: every record that enters the store through a transaction keeps a valid coin and at most one unit-weight recipient in every history (arbitrary oracle fills, faults), hence no coin construction or 256-bit product of the payout loop can panic; every handler of the model is total; the vote-entry parser with Go index expressions made explicit never indexes out of range; round arithmetic never divides by zero for accepted vote periods; the composed step never reports a panic. The panic-site inventory of the current source is regenerated on every run and must be fully accounted for by the model's table. Correspondence + panic observation on adversarial ABCI histories.",
                note=PROOF_NOTE, technique="Coq proof: safety invariant over all histories + explicit-panic model of the parser + generated panic-site inventory obligation + adversarial differential runs"),
    'C07': dict(text="The model step is a function; for each place where the code ranges over a Go map (generated inventory of the current source, fully accounted for) an unbounded theorem shows the computed result is the same for every permutation of the iterated collection: miss counting, reward sums, the tally decision (depends only on the validator set and the set of revealed triples) and the set of missers. The list that IS written to state (NFTs to verify) is a function of the store in store order. Every history is executed twice on the real app and the app hashes compared after every commit (evidence for the scheduling / address clause).",
                note=PROOF_NOTE, technique="Coq proof: permutation invariance of every map-iteration site + generated map-range/clock inventory obligation + two executions per history on the real app"),
    'C08': dict(text="Unbounded theorems: uint64/int64 round arithmetic for every accepted vote period; in every block-structured history the stored round info is the round of the executing height; exact acceptance conditions of prevote and vote; the tally gate opens once per round, at its last block; no ballot survives a tally; a replayed vote is rejected. Correspondence on ABCI histories with messages at every window offset.",
                note=PROOF_NOTE, technique="Coq proof: invariant over block-structured histories of the composed chain model + lia/nia arithmetic + differential correspondence"),
    'C10': dict(text="Unbounded theorems: recipients of a new record are exactly the on-chain owner (this chain), empty (supported external chain) or the record is rejected; transactions and environment never modify an existing record; an end-block changes a pending record only at a tally, only if it had no recipients and was created before the tallied round, only to the owner accepted for its NFT; set recipients are never overwritten; the published source list is exactly the unfilled records older than the cut-off. Correspondence on ABCI histories; the implementation's answers are also read against the property alone: fills at tallies (clauses 61-64) and, for NFTs on this chain, recipient = owner of the token the MESSAGE names (all 256 bits) when the block began, refusal when nobody owns it (clauses 65-66).",
                note=PROOF_NOTE, technique="Coq proof: frame lemmas over the composed chain model + differential correspondence"),
    'C14': dict(text="Unbounded theorems: per denomination pool x 10^18 + credited is invariant under the reward step (what leaves the pool is what is credited); shares are non-negative and sum to at most the pool; each share is floor(pool*floor(10^18 w/W)/10^18), within one unit + pool/10^18 of proportional; credit lines give validator part + pro-bono contribution = integer share. All registered crisis invariants are evaluated on the real app after every block of every history (observed, not proved).",
                note=PROOF_NOTE, technique="Coq proof (Dec arithmetic over Z, nia) + differential correspondence incl. per-validator outstanding rewards and community pool deltas"),
    'C15': dict(text="Unbounded theorems on the oracle model (all vote periods, windows, heights, validator tables, miss maps): the close routine runs iff a window boundary lies since the previous tally; every window is closed at the first tally at/after its end; nobody is slashed/jailed otherwise; effect of a close; who is charged a miss. Correspondence: exported Go functions on boundary grids + full ABCI histories with misses and jailing.",
                note=PROOF_NOTE, technique="Coq proof (lia/nia over Z with explicit uint64/int64 wrap) + differential correspondence via vm_compute"),
}

NOT_APPLICABLE = {}

TIES = {'C01': ['TieSettle'], 'C02': ['TieSettle', 'TieSettleMsg'], 'C03': ['TieOracleMsg', 'TieAnte'], 'C04': ['TieAnte'], 'C05': ['TieOracleEnd'], 'C06': ['TieOracleArith', 'TieSettle'], 'C08': ['TieOracleArith', 'TieOracleMsg', 'TieOracleEnd'], 'C09': ['TieSettleMsg'], 'C10': ['TieSettle', 'TieOracleArith', 'TieSettleMsg'], 'C11': ['TieSettle'], 'C12': ['TieSettleMsg'], 'C13': ['TieSettle', 'TieSettleMsg'], 'C14': ['TieOracleEnd'], 'C15': ['TieOracleArith', 'TieOracleEnd'], 'C16': ['TieFee']}
for _k in ('C01', 'C02', 'C08', 'C14', 'C15', 'C16'):
    TIES[_k] = TIES[_k] + ['TieSource' + _k]
for _k in ('C01', 'C02', 'C09', 'C12', 'C17', 'C08', 'C10'):
    TIES[_k] = TIES.get(_k, []) + ['TieStore']
for _k in ('C12', 'C13', 'C17', 'C08'):
    TIES[_k] = TIES.get(_k, []) + ['TieKeys']
for _k in ('C06', 'C09', 'C19'):
    TIES[_k] = TIES.get(_k, []) + ['TieSettleBasic']
for _k, _v in TIES.items():
    PROPS[_k]["ties"] = _v

# state kept outside the multistore (struct fields, package variables) must be accounted for: the theorems rest on
# "a transaction that is rejected or only simulated leaves no trace" and "every node computes from the store alone"
for _k in ('C01', 'C02', 'C03', 'C05', 'C08', 'C09', 'C10', 'C11', 'C12', 'C13', 'C06', 'C07'):
    PROPS[_k].setdefault('inventory', [])
    PROPS[_k]['inventory'] = list(PROPS[_k]['inventory']) + [('state_sites', 'state_table')]
