# per-property configuration of bin/check

TRUSTED_BASE = [
    "Coq 8.16.1 kernel incl. vm_compute (no native_compute); full .vo build",
    "no axioms: Print Assumptions of every property theorem must be 'Closed under the global context'",
    "correspondence harness (Go): history generator, ABCI driver on the real SettlusApp, fault-injecting keeper wrappers, snapshot projection, Coq term printer; bin/check (python)",
    "modelled, not verified: Cosmos-SDK baseapp (tx atomicity, panic recovery), signature verification, x/bank, x/staking, x/distribution, EVM / ERC-721 / SBT contracts, protobuf codecs, IAVL hashing, SHA-256, bech32, EIP-55",
]
ALLOWED_AXIOMS = set()

CHAIN_RULE = ("seeded structured histories (create tenant / record / cancel / deposit / admin and period changes, "
              "validators' prevotes and votes, env: bank sends, NFT mints and transfers, jailing, fault plans) run through "
              "ABCI on the real app; distinct_nontrivial counts distinct histories in which at least one record was paid or filled")

def chain(tag, profile, quick, thorough, checker, **kw):
    d = dict(tag=tag, cmd=['chain', '-profile', profile], quick=quick, thorough=thorough,
             mismatch_fn='all_mismatches', checker_fn=checker)
    d.update(kw)
    return d

def func(tag, cmd, quick, thorough, mismatch, checker, **kw):
    d = dict(tag=tag, cmd=[cmd], quick=quick, thorough=thorough, mismatch_fn=mismatch, checker_fn=checker,
             shards_quick=2, shards_thorough=8)
    d.update(kw)
    return d

PROPS = {
    'C15': dict(
        theorems=['C15_close_iff', 'C15_every_window_closed', 'C15_first_tally', 'C15_nobody_else',
                  'C15_effect', 'C15_miss_only', 'C15_old_gate_never_closes'],
        runs=[func('arith', 'arith', 2000, 40000, 'arith_mismatches', 'arith_check'),
              chain('oracle', 'oracle', 48, 1600, 'check_C15')],
        fields=[1, 6, 10, 11, 20, 21],
        rule="(p, W, maxmiss, h) tuples biased to window / round boundaries and 2^62..2^64 (non-trivial: accepted parameters at a closing height); " + CHAIN_RULE,
        assumptions=["x/staking Slash/Jail modelled: tokens -= min(tokens, trunc(power*10^6*fraction)); bonded status follows jailing at the staking end-block",
                     "the checker on implementation traces uses the previous block's counters as a lower bound of the misses at the close"],
    ),
}

PROOF_NOTE = ("Theorems are about the Gallina model; the model is tied to /repo by the correspondence run of this check "
              "(same histories on the real app and on the model, compared on this property's observables). Trusted: Coq kernel "
              "+ vm_compute, the Go harness and printer, the SDK/EVM parts listed in DESIGN.md section 9.")

LEVELS = {
    'C15': dict(text="Unbounded theorems on the oracle model (all vote periods, windows, heights, validator tables, miss maps): the close routine runs iff a window boundary lies since the previous tally; every window is closed at the first tally at/after its end; nobody is slashed/jailed otherwise; effect of a close; who is charged a miss. Correspondence: exported Go functions on boundary grids + full ABCI histories with misses and jailing.",
                note=PROOF_NOTE, technique="Coq proof (lia/nia over Z with explicit uint64/int64 wrap) + differential correspondence via vm_compute"),
}

NOT_APPLICABLE = {p: "work in progress in this session: model exists, check not yet registered" for p in
                  ['C01','C02','C03','C04','C05','C06','C07','C08','C09','C10','C11','C12','C13','C14','C16','C17','C18','C19','C20']}
