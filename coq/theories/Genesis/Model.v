(* Genesis export / import of x/settlement and x/oracle (genesis.go of both modules, keeper.ImportUTXR,
   keeper.GetFeederDelegations), on the repaired tree. *)
From Settlus Require Import Base.Prelude Base.Hex Base.Dec Oracle.Arith Settlement.Model Oracle.Model Chain.Model.

(* ---------- settlement ---------- *)
Record sgenesis := mkSG { sg_tenants : list tenant; sg_utxrs : list (Z * Z * utxr) }.

(* ExportGenesis: GetAllTenants, GetAllUTXRWithTenantAndID - both in store order *)
Definition export_s (s : sstate) : sgenesis := mkSG (s_tenants s) (s_utxrs s).

(* keeper.ImportUTXR: the record is stored under its exported id; an error makes InitGenesis panic *)
Definition import_utxr (acc : outcome sstate) (x : Z * Z * utxr) : outcome sstate :=
  match acc with
  | Ok s =>
      let '(tid, uid, u) := x in
      match idx_get (s_idx s) tid (u_req u) with
      | Some _ => Panic
      | None =>
          match utxr_get (s_utxrs s) tid uid with
          | Some _ => Panic
          | None =>
              let s1 := set_utxrs s (utxr_ins (s_utxrs s) tid uid u) in
              let s2 := set_idx s1 ((tid, u_req u, uid) :: s_idx s1) in
              Ok (match zlookup tid (s_last s2) with
                  | Some l => if l <? uid then set_last s2 (zinsert tid uid (s_last s2)) else s2
                  | None => set_last s2 (zinsert tid uid (s_last s2))
                  end)
          end
      end
  | r => r
  end.

(* a fresh application: no tenants, no records; bank / EVM state is imported by their own modules *)
Definition blank (s : sstate) : sstate := mkS [] [] [] [] (s_bal s) (s_owners s) (s_chain s) (s_supported s).

(* InitGenesis: records first, then tenants (SetTenant per tenant: store order = id order) *)
Definition import_s (s0 : sstate) (g : sgenesis) : outcome sstate :=
  match fold_left import_utxr (sg_utxrs g) (Ok s0) with
  | Ok s => Ok (set_tenants s (sg_tenants g))
  | r => r
  end.

(* ---------- oracle ---------- *)
Record ogenesis := mkOG {
  og_params : oparams; og_votes : list (Z * votedata); og_prevotes : list (Z * bytes);
  og_miss : list (Z * Z); og_deleg : list (Z * Z) }.

Definition export_o (o : ostate) : ogenesis :=
  mkOG (o_params o) (o_votes o) (o_prevotes o) (o_miss o) (o_deleg o).

Definition zfill {A} (l : list (Z * A)) : list (Z * A) := fold_left (fun acc kv => zinsert (fst kv) (snd kv) acc) l [].

(* InitGenesis at initial height h+1: every list is written entry by entry into the store; the round
   info of the first block is stored (repair of F14) *)
Definition import_o (g : ogenesis) (vals : list validator) (pool cred : list (bytes * Z)) (s : sstate) (h : Z) : ostate :=
  let o1 := mkO (og_params g) None (zfill (og_prevotes g)) (zfill (og_votes g)) (zfill (og_deleg g)) (zfill (og_miss g))
                vals pool cred in
  set_round o1 (Some (next_round o1 s h)).

(* ---------- the whole chain: export at height h, InitChain of a fresh application at height h+1 ---------- *)
Definition reimport (c : cstate) : outcome cstate :=
  match import_s (blank (c_s c)) (export_s (c_s c)) with
  | Ok s' => Ok (mkC (c_h c) s' (import_o (export_o (c_o c)) (o_vals (c_o c)) (o_pool (c_o c)) (o_credited (c_o c)) s' (c_h c)) (c_fp c))
  | Rejected => Rejected
  | Panic => Panic
  end.
