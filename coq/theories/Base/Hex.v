(* Byte-string functions of Go / go-ethereum that the chain uses on user-supplied text. *)
From Settlus Require Import Base.Prelude.

Definition two160 : Z := 2 ^ 160.

(* ASCII codes *)
Definition c_0 := 48. Definition c_9 := 57.
Definition c_a := 97. Definition c_f := 102.
Definition c_A := 65. Definition c_F := 70.
Definition c_x := 120. Definition c_X := 88.
Definition c_colon := 58. Definition c_slash := 47.

Definition hexval (c : Z) : option Z :=
  if (c_0 <=? c) && (c <=? c_9) then Some (c - c_0)
  else if (c_a <=? c) && (c <=? c_f) then Some (c - c_a + 10)
  else if (c_A <=? c) && (c <=? c_F) then Some (c - c_A + 10)
  else None.

Definition is_hex_char (c : Z) : bool := match hexval c with Some _ => true | None => false end.

(* encoding/hex.DecodeString with the error ignored: the longest prefix of whole valid pairs *)
Fixpoint hex_decode_prefix (s : bytes) : bytes :=
  match s with
  | p :: q :: s' =>
      match hexval p, hexval q with
      | Some a, Some b => (a * 16 + b) :: hex_decode_prefix s'
      | _, _ => []
      end
  | _ => []
  end.

Definition has0x (s : bytes) : bool :=
  match s with
  | a :: b :: _ => (a =? c_0) && ((b =? c_x) || (b =? c_X))
  | _ => false
  end.

Definition drop2 (s : bytes) : bytes := match s with _ :: _ :: s' => s' | _ => s end.

Definition lenZ {A} (l : list A) : Z := Z.of_nat (length l).

(* common.FromHex *)
Definition from_hex (s : bytes) : bytes :=
  let s1 := if has0x s then drop2 s else s in
  let s2 := if Z.odd (lenZ s1) then c_0 :: s1 else s1 in
  hex_decode_prefix s2.

(* big-endian value of a byte string *)
Definition be_value (b : bytes) : Z := fold_left (fun acc x => acc * 256 + x) b 0.

(* common.HexToAddress(s) as a number < 2^160 (last 20 bytes) *)
Definition hex_to_address (s : bytes) : Z := be_value (from_hex s) mod two160.
(* common.HexToHash(s).Big() : last 32 bytes *)
Definition hex_to_hash (s : bytes) : Z := be_value (from_hex s) mod two256.

(* common.IsHexAddress *)
Definition is_hex_address (s : bytes) : bool :=
  let s1 := if has0x s then drop2 s else s in
  (lenZ s1 =? 40) && forallb is_hex_char s1.

(* strings.Split(s, sep) for a one-byte separator: never empty *)
Fixpoint split_on (sep : Z) (s : bytes) : list bytes :=
  match s with
  | [] => [[]]
  | c :: s' =>
      if c =? sep then [] :: split_on sep s'
      else match split_on sep s' with
           | [] => [[c]]   (* unreachable *)
           | w :: ws => (c :: w) :: ws
           end
  end.

Lemma split_on_nonempty sep s : split_on sep s <> [].
Proof.
  induction s as [|c s IH]; simpl; [discriminate|].
  destruct (c =? sep); [discriminate|]. destruct (split_on sep s); discriminate.
Qed.

Fixpoint join_with (sep : Z) (l : list bytes) : bytes :=
  match l with
  | [] => []
  | [w] => w
  | w :: l' => w ++ sep :: join_with sep l'
  end.

Definition no_byte (sep : Z) (s : bytes) : Prop := ~ In sep s.

Lemma split_on_no_sep sep s : no_byte sep s -> split_on sep s = [s].
Proof.
  induction s as [|c s IH]; simpl; intros H; [reflexivity|].
  destruct (c =? sep) eqn:E.
  - exfalso. apply H. left. lia.
  - rewrite IH; [reflexivity|]. intro Hin. apply H. right. exact Hin.
Qed.

Lemma split_on_app sep a b : no_byte sep a ->
  split_on sep (a ++ sep :: b) = a :: split_on sep b.
Proof.
  induction a as [|c a IH]; simpl; intros H.
  - rewrite Z.eqb_refl. reflexivity.
  - destruct (c =? sep) eqn:E.
    + exfalso. apply H. left. lia.
    + rewrite IH; [reflexivity|]. intro Hin. apply H. right. exact Hin.
Qed.

(* strings.TrimLeft(s, "0") *)
Fixpoint trim_left_zeros (s : bytes) : bytes :=
  match s with
  | c :: s' => if c =? c_0 then trim_left_zeros s' else s
  | [] => []
  end.

(* strings.TrimPrefix(s, "0x") : exact lower-case prefix only *)
Definition trim_prefix_0x (s : bytes) : bytes :=
  match s with
  | a :: b :: s' => if (a =? c_0) && (b =? c_x) then s' else s
  | _ => s
  end.

(* lower-case canonical rendering of an address / number as 0x + n hex digits *)
Definition hexdigit (v : Z) : Z := if v <? 10 then c_0 + v else c_a + (v - 10).
Fixpoint hex_digits (n : nat) (v : Z) : bytes :=
  match n with
  | O => []
  | S n' => hex_digits n' (v / 16) ++ [hexdigit (v mod 16)]
  end.
Definition addr_hex (v : Z) : bytes := c_0 :: c_x :: hex_digits 40 v.

(* literals used by the harness when it prints histories *)
From Coq Require Import String Ascii.
Fixpoint bs (s : string) : bytes :=
  match s with
  | EmptyString => []
  | String a s' => Z.of_N (N_of_ascii a) :: bs s'
  end.
Definition hx (s : string) : bytes := hex_decode_prefix (bs s).
