(* Prelude: numbers, bytes, list utilities shared by the whole development. *)
From Coq Require Export ZArith List Bool Lia.
From Coq Require Import ZifyBool ZifyNat.
Export ListNotations.
Open Scope Z_scope.

Ltac Zify.zify_post_hook ::= Z.div_mod_to_equations.

(* ---------- bytes ---------- *)
Definition byte := Z.
Definition bytes := list Z.

Fixpoint bytes_eqb (a b : bytes) : bool :=
  match a, b with
  | [], [] => true
  | x :: a', y :: b' => (x =? y) && bytes_eqb a' b'
  | _, _ => false
  end.

Lemma bytes_eqb_eq a b : bytes_eqb a b = true <-> a = b.
Proof.
  revert b; induction a as [|x a IH]; intros [|y b]; simpl; split; intro H;
    try reflexivity; try discriminate.
  - apply andb_true_iff in H as [H1 H2]. apply Z.eqb_eq in H1. apply IH in H2. congruence.
  - inversion H; subst. rewrite Z.eqb_refl. simpl. apply IH. reflexivity.
Qed.

Lemma bytes_eqb_refl a : bytes_eqb a a = true.
Proof. apply bytes_eqb_eq; reflexivity. Qed.

Lemma bytes_eqb_neq a b : bytes_eqb a b = false <-> a <> b.
Proof.
  split; intro H.
  - intro E. apply bytes_eqb_eq in E. congruence.
  - destruct (bytes_eqb a b) eqn:E; [apply bytes_eqb_eq in E; contradiction|reflexivity].
Qed.

(* lexicographic order on byte strings (store iteration order) *)
Fixpoint bytes_ltb (a b : bytes) : bool :=
  match a, b with
  | [], [] => false
  | [], _ :: _ => true
  | _ :: _, [] => false
  | x :: a', y :: b' => if x <? y then true else if y <? x then false else bytes_ltb a' b'
  end.

(* ---------- machine words ---------- *)
Definition two64 : Z := 18446744073709551616.
Definition two63 : Z := 9223372036854775808.
Definition two32 : Z := 4294967296.
Definition two256 : Z := 2 ^ 256.

Definition wrap64 (x : Z) : Z := x mod two64.
Definition wrap32 (x : Z) : Z := x mod two32.
(* reinterpret an unsigned 64-bit value as int64 *)
Definition to_int64 (x : Z) : Z :=
  let u := x mod two64 in if u <? two63 then u else u - two64.
(* reinterpret an int64 as uint64 *)
Definition to_uint64 (x : Z) : Z := x mod two64.

Lemma wrap64_range x : 0 <= wrap64 x < two64.
Proof. unfold wrap64, two64. apply Z.mod_pos_bound. lia. Qed.

Lemma wrap64_small x : 0 <= x < two64 -> wrap64 x = x.
Proof. unfold wrap64. intros. apply Z.mod_small. assumption. Qed.

Lemma to_int64_small x : 0 <= x < two63 -> to_int64 x = x.
Proof.
  intros H. unfold to_int64. rewrite Z.mod_small by (unfold two64, two63 in *; lia).
  destruct (x <? two63) eqn:E; lia.
Qed.

(* Go's truncated division / remainder on signed integers *)
Definition go_quo (a b : Z) : Z := Z.quot a b.
Definition go_rem (a b : Z) : Z := Z.rem a b.

(* ---------- generic list utilities ---------- *)
Fixpoint sumZ (l : list Z) : Z :=
  match l with [] => 0 | x :: l' => x + sumZ l' end.

Lemma sumZ_app a b : sumZ (a ++ b) = sumZ a + sumZ b.
Proof. induction a; simpl; lia. Qed.

Lemma sumZ_nonneg l : (forall x, In x l -> 0 <= x) -> 0 <= sumZ l.
Proof.
  induction l as [|x l IH]; simpl; intros H; [lia|].
  assert (0 <= x) by (apply H; auto). assert (0 <= sumZ l) by (apply IH; intros; apply H; auto). lia.
Qed.

Fixpoint memZ (x : Z) (l : list Z) : bool :=
  match l with [] => false | y :: l' => (x =? y) || memZ x l' end.

Lemma memZ_In x l : memZ x l = true <-> In x l.
Proof.
  induction l as [|y l IH]; simpl; [split; [discriminate|tauto]|].
  rewrite orb_true_iff, IH, Z.eqb_eq. split; intros [H|H]; auto.
Qed.

Fixpoint mem_bytes (x : bytes) (l : list bytes) : bool :=
  match l with [] => false | y :: l' => bytes_eqb x y || mem_bytes x l' end.

Lemma mem_bytes_In x l : mem_bytes x l = true <-> In x l.
Proof.
  induction l as [|y l IH]; simpl; [split; [discriminate|tauto]|].
  rewrite orb_true_iff, IH, bytes_eqb_eq. split; intros [H|H]; auto.
Qed.

(* association lists keyed by Z *)
Fixpoint zlookup {A} (k : Z) (l : list (Z * A)) : option A :=
  match l with
  | [] => None
  | (k', v) :: l' => if k =? k' then Some v else zlookup k l'
  end.

Fixpoint zremove {A} (k : Z) (l : list (Z * A)) : list (Z * A) :=
  match l with
  | [] => []
  | (k', v) :: l' => if k =? k' then zremove k l' else (k', v) :: zremove k l'
  end.

(* sorted insert/replace, keeps ascending key order *)
Fixpoint zinsert {A} (k : Z) (v : A) (l : list (Z * A)) : list (Z * A) :=
  match l with
  | [] => [(k, v)]
  | (k', v') :: l' =>
      if k <? k' then (k, v) :: l
      else if k =? k' then (k, v) :: l'
      else (k', v') :: zinsert k v l'
  end.

Lemma zlookup_zinsert_same {A} k (v : A) l : zlookup k (zinsert k v l) = Some v.
Proof.
  induction l as [|[k' v'] l IH]; simpl.
  - rewrite Z.eqb_refl; reflexivity.
  - destruct (k <? k') eqn:E1; simpl.
    + rewrite Z.eqb_refl; reflexivity.
    + destruct (k =? k') eqn:E2; simpl.
      * rewrite Z.eqb_refl; reflexivity.
      * rewrite E2. exact IH.
Qed.

Lemma zlookup_zinsert_other {A} k k2 (v : A) l : k2 <> k -> zlookup k2 (zinsert k v l) = zlookup k2 l.
Proof.
  intros Hne. induction l as [|[k' v'] l IH]; simpl.
  - destruct (k2 =? k) eqn:E; [lia|reflexivity].
  - destruct (k <? k') eqn:E1; simpl.
    + destruct (k2 =? k) eqn:E; [lia|reflexivity].
    + destruct (k =? k') eqn:E2; simpl.
      * assert (k = k') by lia; subst. destruct (k2 =? k') eqn:E; [lia|reflexivity].
      * destruct (k2 =? k'); [reflexivity|exact IH].
Qed.

Lemma zlookup_zremove_same {A} k (l : list (Z * A)) : zlookup k (zremove k l) = None.
Proof.
  induction l as [|[k' v'] l IH]; simpl; [reflexivity|].
  destruct (k =? k') eqn:E; simpl; [exact IH|rewrite E; exact IH].
Qed.

Lemma zlookup_zremove_other {A} k k2 (l : list (Z * A)) : k2 <> k -> zlookup k2 (zremove k l) = zlookup k2 l.
Proof.
  intros Hne. induction l as [|[k' v'] l IH]; simpl; [reflexivity|].
  destruct (k =? k') eqn:E; simpl.
  - assert (k = k') by lia; subst. destruct (k2 =? k') eqn:E2; [lia|exact IH].
  - destruct (k2 =? k'); [reflexivity|exact IH].
Qed.

Definition option_eqb {A} (eqb : A -> A -> bool) (a b : option A) : bool :=
  match a, b with
  | None, None => true
  | Some x, Some y => eqb x y
  | _, _ => false
  end.

Fixpoint list_eqb {A} (eqb : A -> A -> bool) (a b : list A) : bool :=
  match a, b with
  | [], [] => true
  | x :: a', y :: b' => eqb x y && list_eqb eqb a' b'
  | _, _ => false
  end.

Lemma list_eqb_eq {A} (eqb : A -> A -> bool) :
  (forall x y, eqb x y = true <-> x = y) -> forall a b, list_eqb eqb a b = true <-> a = b.
Proof.
  intros Heq a. induction a as [|x a IH]; intros [|y b]; simpl; split; intro H;
    try reflexivity; try discriminate.
  - apply andb_true_iff in H as [H1 H2]. apply Heq in H1. apply IH in H2. congruence.
  - inversion H; subst. apply andb_true_iff. split; [apply Heq; reflexivity|apply IH; reflexivity].
Qed.

(* indices of the entries that are false *)
Fixpoint false_positions_from (i : Z) (l : list bool) : list Z :=
  match l with
  | [] => []
  | b :: l' => if b then false_positions_from (i + 1) l' else i :: false_positions_from (i + 1) l'
  end.
Definition false_positions := false_positions_from 0.

Lemma false_positions_from_nil i l :
  false_positions_from i l = [] <-> forallb (fun b => b) l = true.
Proof.
  revert i; induction l as [|b l IH]; intros i; simpl; [tauto|].
  destruct b; simpl; [apply IH|split; discriminate].
Qed.

Lemma NoDup_app_singleton {A} (l : list A) x : NoDup l -> ~ In x l -> NoDup (l ++ [x]).
Proof.
  induction l as [|y l IH]; simpl; intros Hnd Hn.
  - constructor; [intros []|constructor].
  - inversion Hnd; subst. constructor.
    + rewrite in_app_iff. simpl. intros [H|[H|[]]]; [contradiction|subst; apply Hn; left; reflexivity].
    + apply IH; [assumption|]. intro; apply Hn; right; assumption.
Qed.
