(* Semantics of the few sdk.Dec operations the translator (/verif/translator) emits that Base/Dec.v
   does not already name, with the lemmas that connect them to the functions the model uses. *)
From Settlus Require Import Base.Prelude Base.Dec.

(* Dec.Ceil(): the least Dec with no fractional part that is >= a, still a Dec (scaled by 10^18) *)
Definition dec_ceil (a : Z) : Z := dec_of_int (dec_ceil_int a).
(* DecCoin.TruncateDecimal / Dec.TruncateDec: the integral part as a Dec *)
Definition dec_truncate_dec (a : Z) : Z := dec_of_int (dec_truncate_int a).

Lemma truncate_of_int x : dec_truncate_int (dec_of_int x) = x.
Proof. unfold dec_truncate_int, dec_of_int. apply Z.quot_mul. unfold prec. lia. Qed.

Lemma truncate_ceil a : dec_truncate_int (dec_ceil a) = dec_ceil_int a.
Proof. unfold dec_ceil. apply truncate_of_int. Qed.

Lemma gtb_ltb a b : (a >? b) = (b <? a).
Proof. apply Z.gtb_ltb. Qed.
Lemma geb_leb a b : (a >=? b) = (b <=? a).
Proof. apply Z.geb_leb. Qed.

(* int64 / uint64 arithmetic is arithmetic modulo 2^64: intermediate wraps can be dropped *)
Lemma to_int64_congr a b : a mod two64 = b mod two64 -> to_int64 a = to_int64 b.
Proof. intros H. unfold to_int64. rewrite H. reflexivity. Qed.

Lemma to_int64_mod a : (to_int64 a) mod two64 = a mod two64.
Proof.
  unfold to_int64. cbv zeta. destruct (a mod two64 <? two63).
  - apply Z.mod_mod. unfold two64. lia.
  - replace (a mod two64 - two64) with (a mod two64 + (-1) * two64) by lia.
    rewrite Z.mod_add by (unfold two64; lia). apply Z.mod_mod. unfold two64. lia.
Qed.

Lemma to_int64_add_l a b : to_int64 (to_int64 a + b) = to_int64 (a + b).
Proof.
  apply to_int64_congr. rewrite Z.add_mod by (unfold two64; lia). rewrite to_int64_mod.
  rewrite <- Z.add_mod by (unfold two64; lia). reflexivity.
Qed.
Lemma to_int64_add_r a b : to_int64 (a + to_int64 b) = to_int64 (a + b).
Proof. rewrite Z.add_comm, to_int64_add_l. f_equal. lia. Qed.
Lemma to_int64_sub_l a b : to_int64 (to_int64 a - b) = to_int64 (a - b).
Proof. unfold Z.sub. apply to_int64_add_l. Qed.
Lemma to_int64_sub_r a b : to_int64 (a - to_int64 b) = to_int64 (a - b).
Proof.
  apply to_int64_congr. rewrite Zminus_mod, to_int64_mod, <- Zminus_mod. reflexivity.
Qed.

Lemma wrap64_add_l a b : wrap64 (wrap64 a + b) = wrap64 (a + b).
Proof. unfold wrap64. rewrite Z.add_mod_idemp_l by (unfold two64; lia). reflexivity. Qed.
Lemma to_uint64_small x : 0 <= x < two64 -> to_uint64 x = x.
Proof. unfold to_uint64. intros. apply Z.mod_small. assumption. Qed.

Lemma to_int64_decomp a : exists k, to_int64 a = a + k * two64.
Proof.
  unfold to_int64. cbv zeta. pose proof (Z.div_mod a two64 ltac:(unfold two64; lia)) as H.
  destruct (a mod two64 <? two63).
  - exists (- (a / two64)). lia.
  - exists (- (a / two64) - 1). lia.
Qed.

(* goal: to_int64 L = to_int64 R where L and R differ only in intermediate wraps.  Every inner wrap is
   replaced by "+ k * 2^64"; the big non-arithmetic subterms should be generalised by the caller. *)
Ltac int64_eq :=
  apply to_int64_congr;
  repeat match goal with
         | |- context [to_int64 ?e] =>
             let k := fresh "k" in let H := fresh "H" in
             destruct (to_int64_decomp e) as [k H]; rewrite H; clear H
         end;
  unfold two64; Z.div_mod_to_equations; lia.

(* semantic closing tactic for the tie obligations: split every conditional and every comparison, then linear
   arithmetic.  Robust against a source that writes the same test differently (a >= b / b <= a / !(a < b)). *)
Ltac arith_cases :=
  rewrite ?gtb_ltb, ?geb_leb;
  repeat match goal with
         | |- context [if ?c then _ else _] => destruct c eqn:?
         end;
  try reflexivity; try lia;
  repeat match goal with
         | |- context [?a <? ?b] => destruct (Z.ltb_spec a b)
         | |- context [?a <=? ?b] => destruct (Z.leb_spec a b)
         | |- context [?a =? ?b] => destruct (Z.eqb_spec a b)
         end;
  cbn [negb andb orb]; try reflexivity; try lia.

(* LegacyDec.Quo / QuoTruncate / QuoRoundUp: the quotient is computed with twice the precision and chopped *)
Definition chop_up (x : Z) : Z :=
  if x <? 0 then - (Z.quot (- x) prec) else if Z.rem x prec =? 0 then Z.quot x prec else Z.quot x prec + 1.
Definition dec_quo (a b : Z) : Z := chop_round (Z.quot (a * prec * prec) b).
Definition dec_quo_trunc (a b : Z) : Z := Z.quot (Z.quot (a * prec * prec) b) prec.
Definition dec_quo_roundup (a b : Z) : Z := chop_up (Z.quot (a * prec * prec) b).
Definition dec_mul_roundup (a b : Z) : Z := chop_up (a * b).
