(* sdk.Dec (LegacyDec): an integer scaled by 10^18. Arithmetic as in cosmossdk.io/math. *)
From Settlus Require Import Base.Prelude.

Definition prec : Z := 1000000000000000000.

(* round n/d half-to-even for n >= 0, d > 0  (chopPrecisionAndRound on |x|) *)
Definition round_half_even (n d : Z) : Z :=
  let q := n / d in
  let r := n mod d in
  if 2 * r <? d then q
  else if d <? 2 * r then q + 1
  else if Z.even q then q else q + 1.

Definition chop_round (x : Z) : Z :=
  if x <? 0 then - round_half_even (- x) prec else round_half_even x prec.

Definition dec_of_int (i : Z) : Z := i * prec.
Definition dec_mul (a b : Z) : Z := chop_round (a * b).          (* Dec.Mul *)
Definition dec_mul_trunc (a b : Z) : Z := Z.quot (a * b) prec.   (* Dec.MulTruncate *)
Definition dec_mul_int (a i : Z) : Z := a * i.                   (* Dec.MulInt64 / MulInt *)
Definition dec_quo_int (a i : Z) : Z := Z.quot a i.              (* Dec.QuoInt64 (i <> 0) *)
Definition dec_truncate_int (a : Z) : Z := Z.quot a prec.        (* Dec.TruncateInt *)
Definition dec_round_int (a : Z) : Z := chop_round a.            (* Dec.RoundInt *)
Definition dec_frac (a : Z) : Z := Z.rem a prec.                 (* remainder of TruncateDecimal *)
Definition dec_ceil_int (a : Z) : Z :=                           (* Dec.Ceil().TruncateInt() *)
  let q := Z.quot a prec in
  let r := Z.rem a prec in
  if r =? 0 then q else if r <? 0 then q else q + 1.
Definition dec_sub (a b : Z) : Z := a - b.

Lemma prec_pos : 0 < prec. Proof. reflexivity. Qed.

Lemma round_half_even_bounds n d : 0 <= n -> 0 < d ->
  n / d <= round_half_even n d <= n / d + 1.
Proof.
  intros Hn Hd. unfold round_half_even.
  destruct (2 * (n mod d) <? d); [lia|].
  destruct (d <? 2 * (n mod d)); [lia|].
  destruct (Z.even (n / d)); lia.
Qed.

Lemma round_half_even_exact n d : 0 <= n -> 0 < d -> n mod d = 0 -> round_half_even n d = n / d.
Proof.
  intros Hn Hd Hm. unfold round_half_even. rewrite Hm.
  destruct (2 * 0 <? d) eqn:E; lia.
Qed.

Lemma dec_truncate_nonneg a : 0 <= a -> dec_truncate_int a = a / prec.
Proof. intros. unfold dec_truncate_int. apply Z.quot_div_nonneg; [assumption|reflexivity]. Qed.

Lemma dec_ceil_nonneg a : 0 <= a ->
  dec_ceil_int a = if a mod prec =? 0 then a / prec else a / prec + 1.
Proof.
  intros H. unfold dec_ceil_int.
  rewrite Z.quot_div_nonneg, Z.rem_mod_nonneg by (try assumption; reflexivity).
  pose proof (Z.mod_pos_bound a prec prec_pos).
  destruct (a mod prec =? 0) eqn:E; [reflexivity|].
  destruct (a mod prec <? 0) eqn:E2; [lia|reflexivity].
Qed.

(* ceil is the least integer whose Dec is >= a *)
Lemma dec_ceil_spec a : 0 <= a ->
  a <= dec_ceil_int a * prec /\ (dec_ceil_int a - 1) * prec < a \/ (a = 0 /\ dec_ceil_int a = 0).
Proof.
  intros H. rewrite dec_ceil_nonneg by assumption.
  pose proof (Z.mod_pos_bound a prec prec_pos).
  pose proof (Z.div_mod a prec ltac:(unfold prec; lia)).
  destruct (a mod prec =? 0) eqn:E.
  - destruct (Z.eq_dec a 0); [right; split; [assumption|subst; reflexivity]|].
    left. split; lia.
  - left. split; lia.
Qed.
