(* Byte-level store keys of x/settlement/types/keys.go. *)
From Settlus Require Import Base.Prelude Base.Hex.

(* sdk.Uint64ToBigEndian: 8 bytes, most significant first *)
Fixpoint be_bytes (n : nat) (v : Z) : bytes :=
  match n with
  | O => []
  | S n' => be_bytes n' (v / 256) ++ [v mod 256]
  end.
Definition be64 (v : Z) : bytes := be_bytes 8 v.

Definition utxr_key (tid uid : Z) : bytes := 0 :: be64 tid ++ be64 uid.
Definition reqid_key (tid : Z) (req : bytes) : bytes := 1 :: be64 tid ++ req.
Definition tenant_key (tid : Z) : bytes := 2 :: be64 tid.
Definition lastid_key (tid : Z) : bytes := 3 :: be64 tid.

Lemma be_bytes_length n v : length (be_bytes n v) = n.
Proof. revert v; induction n as [|n IH]; intros v; simpl; [reflexivity|]. rewrite app_length, IH. simpl. lia. Qed.

Lemma app_inj_length {A} (a b c d : list A) : length a = length c -> a ++ b = c ++ d -> a = c /\ b = d.
Proof.
  revert c; induction a as [|x a IH]; intros [|y c] Hl H; simpl in *; try discriminate; [auto|].
  inversion H; subst. destruct (IH c ltac:(lia) H2). subst. auto.
Qed.

Lemma app_inj_tail_length {A} (a b c d : list A) : length b = length d -> a ++ b = c ++ d -> a = c /\ b = d.
Proof.
  intros Hl H. assert (Hla : length a = length c).
  { apply (f_equal (@length A)) in H. rewrite !app_length in H. lia. }
  apply app_inj_length; assumption.
Qed.

Lemma be_bytes_inj n : forall v w, 0 <= v < 256 ^ Z.of_nat n -> 0 <= w < 256 ^ Z.of_nat n ->
  be_bytes n v = be_bytes n w -> v = w.
Proof.
  induction n as [|n IH]; intros v w Hv Hw H.
  - simpl in Hv, Hw. lia.
  - simpl in H. apply app_inj_tail_length in H as [H1 H2]; [|reflexivity].
    inversion H2 as [Hm].
    rewrite Nat2Z.inj_succ, Z.pow_succ_r in Hv, Hw by lia.
    assert (Hq : v / 256 = w / 256).
    { apply IH; [| |assumption].
      - split; [apply Z.div_pos; lia|apply Z.div_lt_upper_bound; lia].
      - split; [apply Z.div_pos; lia|apply Z.div_lt_upper_bound; lia]. }
    rewrite (Z.div_mod v 256), (Z.div_mod w 256) by lia. lia.
Qed.

Lemma be64_inj v w : 0 <= v < two64 -> 0 <= w < two64 -> be64 v = be64 w -> v = w.
Proof. unfold be64, two64. intros. apply (be_bytes_inj 8); simpl; assumption. Qed.

(* (tenant, request id) -> key is injective for ARBITRARY request-id bytes: the tenant id has a
   fixed width, so no request id of one tenant can collide with one of another, nor a prefix with
   a longer id *)
Theorem reqid_key_inj t r t' r' : 0 <= t < two64 -> 0 <= t' < two64 ->
  reqid_key t r = reqid_key t' r' -> t = t' /\ r = r'.
Proof.
  unfold reqid_key. intros Ht Ht' H.
  assert (H1 : be64 t ++ r = be64 t' ++ r') by congruence.
  apply app_inj_length in H1 as [Ha Hb]; [|unfold be64; rewrite !be_bytes_length; reflexivity].
  split; [apply be64_inj; assumption|assumption].
Qed.

Theorem utxr_key_inj t u t' u' : 0 <= t < two64 -> 0 <= t' < two64 -> 0 <= u < two64 -> 0 <= u' < two64 ->
  utxr_key t u = utxr_key t' u' -> t = t' /\ u = u'.
Proof.
  unfold utxr_key. intros Ht Ht' Hu Hu' H.
  assert (H1 : be64 t ++ be64 u = be64 t' ++ be64 u') by congruence.
  apply app_inj_length in H1 as [Ha Hb]; [|unfold be64; rewrite !be_bytes_length; reflexivity].
  split; apply be64_inj; assumption.
Qed.

(* the four key spaces are disjoint (distinct prefix bytes) *)
Theorem key_spaces_disjoint t u r t2 t3 :
  utxr_key t u <> reqid_key t2 r /\ utxr_key t u <> tenant_key t3 /\ utxr_key t u <> lastid_key t3 /\
  reqid_key t2 r <> tenant_key t3 /\ reqid_key t2 r <> lastid_key t3 /\ tenant_key t3 <> lastid_key t.
Proof. unfold utxr_key, reqid_key, tenant_key, lastid_key. repeat split; intro H; discriminate H. Qed.

(* big-endian bytes order like the numbers: store iteration order = (tenant, id) order *)
Lemma be_bytes_lt n : forall v w, 0 <= v < 256 ^ Z.of_nat n -> 0 <= w < 256 ^ Z.of_nat n ->
  v < w -> bytes_ltb (be_bytes n v) (be_bytes n w) = true.
Proof.
  induction n as [|n IH]; intros v w Hv Hw Hlt.
  - simpl in Hv, Hw. lia.
  - simpl. rewrite Nat2Z.inj_succ, Z.pow_succ_r in Hv, Hw by lia.
    assert (Hvq : 0 <= v / 256 < 256 ^ Z.of_nat n) by (split; [apply Z.div_pos; lia|apply Z.div_lt_upper_bound; lia]).
    assert (Hwq : 0 <= w / 256 < 256 ^ Z.of_nat n) by (split; [apply Z.div_pos; lia|apply Z.div_lt_upper_bound; lia]).
    assert (Hprefix : forall a b x y, length a = length b ->
              bytes_ltb (a ++ [x]) (b ++ [y]) = if bytes_ltb a b then true else if bytes_eqb a b then x <? y else false).
    { clear. induction a as [|p a IHa]; intros [|q b] x y Hl; simpl in *; try discriminate.
      - destruct (x <? y) eqn:E; [reflexivity|]. destruct (y <? x); reflexivity.
      - inversion Hl as [Hl']. rewrite (IHa b x y Hl').
        destruct (p <? q) eqn:E1; [reflexivity|]. destruct (q <? p) eqn:E2.
        + replace (p =? q) with false by lia. reflexivity.
        + replace (p =? q) with true by lia. simpl. reflexivity. }
    rewrite Hprefix by (rewrite !be_bytes_length; reflexivity).
    destruct (Z.lt_trichotomy (v / 256) (w / 256)) as [Hq|[Hq|Hq]].
    + rewrite (IH _ _ Hvq Hwq Hq). reflexivity.
    + rewrite Hq. assert (Hir : forall l, bytes_ltb l l = false).
      { induction l as [|x l IHl]; simpl; [reflexivity|]. rewrite Z.ltb_irrefl. exact IHl. }
      rewrite Hir, bytes_eqb_refl.
      pose proof (Z.div_mod v 256 ltac:(lia)). pose proof (Z.div_mod w 256 ltac:(lia)). lia.
    + exfalso. pose proof (Z.div_le_mono v w 256 ltac:(lia) ltac:(lia)). lia.
Qed.
