(* The reference feeder (tools/interop-node): entry formatter, hex trimming, commitment preimage, and the
   external-chain block cache (subscriber/cache.go: a tree map keyed by timestamp with evict-minimum). *)
From Settlus Require Import Base.Prelude Base.Hex Settlement.Model Oracle.Model.

(* types.TrimHexZeroes *)
Definition trim_hex_zeroes (s : bytes) : bytes :=
  match trim_left_zeros (trim_prefix_0x s) with
  | [] => [c_0; c_x; c_0]
  | t => c_0 :: c_x :: t
  end.

(* feeder.gatherNftOwnerDataString: "<nft id>:<trimmed owner>" *)
Definition format_entry (src owner : bytes) : bytes := src ++ c_colon :: trim_hex_zeroes owner.

(* feeder.GeneratePrevoteHash hashes this byte string; the chain's GetAggregateVoteHash hashes [preimage] *)
Definition feeder_preimage (salt : bytes) (vd : votedata) : bytes :=
  fold_left (fun acc tv => fold_left (fun a e => a ++ e) (snd tv) acc) vd salt.

(* Nft.FormatString of the chain: what it publishes as a source *)
Definition format_nft (n : nft) : bytes :=
  n_chain n ++ c_slash :: addr_hex (n_contract n) ++ c_slash :: addr_hex (n_token n).

(* ---------- block cache ---------- *)
Record cache := mkCache { ca_cap : Z; ca_items : list (Z * (bytes * Z)) }.   (* ascending timestamps *)

Definition cache_new (cap : Z) : cache := mkCache cap [].

(* PutBlockData: Put, then if Size() > size remove Min() *)
Definition cache_put (c : cache) (ts : Z) (v : bytes * Z) : cache :=
  let items := zinsert ts v (ca_items c) in
  if ca_cap c <? lenZ items then mkCache (ca_cap c) (tl items) else mkCache (ca_cap c) items.

(* GetOldestBlock: Ceiling(timestamp) - the entry with the smallest key >= timestamp; ("", 0) if none *)
Fixpoint ceiling (l : list (Z * (bytes * Z))) (ts : Z) : option (bytes * Z) :=
  match l with
  | [] => None
  | (k, v) :: l' => if ts <=? k then Some v else ceiling l' ts
  end.
Definition cache_get (c : cache) (ts : Z) : bytes * Z :=
  match ceiling (ca_items c) ts with Some v => v | None => ([], 0) end.

Inductive cop := CPut (ts : Z) (hash : bytes) (number : Z) | CGet (ts : Z).

Fixpoint cache_run (c : cache) (ops : list cop) : list (bytes * Z) :=
  match ops with
  | [] => []
  | CPut ts h n :: ops' => cache_run (cache_put c ts (h, n)) ops'
  | CGet ts :: ops' => cache_get c ts :: cache_run c ops'
  end.
