(* The composed chain refines the generalised settlement machine: every step of the chain model acts
   on the settlement state exactly like one event of SM (whose oracle input and fault plan are
   arbitrary).  Everything proved about SM histories (C01, C02, C09, C11, C12, C06) therefore holds for
   the settlement state along every history of the full chain, whatever the oracle does. *)
From Settlus Require Import Base.Prelude Base.Hex Base.Dec Oracle.Arith Settlement.Model Settlement.Machine
  Oracle.Model Ante.Fee Chain.Model Proofs.StoreLemmas Proofs.SettlementInv Proofs.SettlementEnd Proofs.ChainInv.

Definition senvs_of (envs : list cenv) : list senv :=
  concat (map (fun e => match e with ES x => [x] | EO _ => [] end) envs).

Definition ante_accepts (c : cstate) (offered : list (bytes * Z)) (msgs : list smsg) : bool :=
  match msgs with
  | [] => false
  | _ :: _ => forallb validate_basic msgs &&
              match pick_fee (fp_prices (c_fp c)) offered (gas_cost msgs) with Some _ => true | None => false end
  end.

Definition to_sevent (c : cstate) (e : event) : sevent :=
  match e with
  | EvBegin envs => SBegin (senvs_of envs)
  | EvTx offered msgs => if ante_accepts c offered msgs then STx msgs else STx []
  | EvOTx _ => STx []
  | EvEnd faults => SEnd (snd (oracle_end_block (staking_end (c_o c)) (c_s c) (c_h c))) faults
  end.

Definition mstate_of (c : cstate) : mstate := mkM (c_h c) (c_s c).

Lemma apply_cenvs_senvs envs : forall c c' g, apply_cenvs c envs = (c', g) ->
  apply_senvs (c_s c) (senvs_of envs) = (c_s c', g) /\ c_h c' = c_h c.
Proof.
  induction envs as [|e envs IH]; intros c c' g H; simpl in H.
  - inversion H; subst. simpl. auto.
  - destruct (apply_cenv c e) as [c1 g1] eqn:E1. destruct (apply_cenvs c1 envs) as [c2 g2] eqn:E2.
    inversion H; subst. apply IH in E2 as [E2 Hh]. destruct e as [x|x]; simpl in E1.
    + destruct (apply_senv (c_s c) x) as [s1 gs] eqn:Es. inversion E1; subst. simpl in *.
      unfold senvs_of. simpl. fold (senvs_of envs). rewrite Es, E2. auto.
    + inversion E1; subst. simpl in *. unfold senvs_of. simpl. fold (senvs_of envs). rewrite E2. auto.
Qed.

Theorem chain_refines_settlement_machine : forall c e c' o g,
  step c e = (c', o, g) ->
  sm_step (mstate_of c) (to_sevent c e) = (mstate_of c', g).
Proof.
  intros c e c' o g H. destruct e as [envs|offered msgs|m|faults]; simpl in H.
  - destruct (apply_cenvs (mkC (c_h c + 1) (c_s c) (c_o c) (c_fp c)) envs) as [c1 g1] eqn:E.
    inversion H; subst. apply apply_cenvs_senvs in E as [E Hh]. simpl in *.
    unfold mstate_of. simpl. rewrite E, Hh. reflexivity.
  - unfold to_sevent, ante_accepts. destruct msgs as [|m0 ms].
    + inversion H; subst. reflexivity.
    + remember (m0 :: ms) as mm eqn:Emm.
      destruct (forallb validate_basic mm) eqn:Ev; cbn [negb andb] in H |- *.
      2:{ inversion H; subst. reflexivity. }
      destruct (pick_fee (fp_prices (c_fp c)) offered (gas_cost mm)) as [[d fee]|] eqn:Ep.
      2:{ inversion H; subst. reflexivity. }
      unfold mstate_of. cbn [sm_step m_s m_h].
      destruct (handle_all (c_s c) (c_h c) mm) as [[s' g0]| |] eqn:Eh; inversion H; subst; reflexivity.
  - destruct (ohandle (c_o c) (s_supported (c_s c)) (c_h c) m) as [o'| |]; inversion H; subst; reflexivity.
  - destruct (end_block c faults) as [c1 g1] eqn:E. inversion H; subst.
    unfold end_block in E. unfold to_sevent, mstate_of. simpl. unfold sm_end.
    destruct (oracle_end_block (staking_end (c_o c)) (c_s c) (c_h c)) as [o1 fill]. simpl.
    destruct (match fill with Some (res, before) => set_recipients (c_s c) res before | None => (c_s c, []) end) as [s1 gg1].
    destruct (settlement_end_block s1 (c_h c) faults) as [s2 gg2]. inversion E; subst. reflexivity.
Qed.

(* lifted to runs: the settlement state and the ghost log of a chain run are those of an SM run *)
Fixpoint to_sevents (c : cstate) (es : list event) : list sevent :=
  match es with
  | [] => []
  | e :: es' => to_sevent c e :: to_sevents (step_state c e) es'
  end.

Theorem chain_run_refines : forall es c os gs c',
  run c es = (os, gs, c') ->
  exists glog, sm_run (mstate_of c) (to_sevents c es) = (mstate_of c', glog) /\ map snd glog = gs.
Proof.
  induction es as [|e es IH]; intros c os gs c' H; simpl in H.
  - inversion H; subst. exists []. auto.
  - destruct (step c e) as [[c1 o] g] eqn:E1. destruct (run c1 es) as [[os2 gs2] c2] eqn:E2.
    inversion H; subst. simpl.
    assert (Hss : step_state c e = c1) by (unfold step_state; rewrite E1; reflexivity).
    rewrite Hss. rewrite (chain_refines_settlement_machine _ _ _ _ _ E1).
    destruct (IH _ _ _ _ E2) as (glog & Hr & Hm). rewrite Hr.
    eexists. split; [reflexivity|]. rewrite map_app, map_map. simpl. rewrite map_id. congruence.
Qed.

Lemma to_sevents_msgs : forall es c, total_msgs (to_sevents c es) <= sumZ (map (fun e => match e with EvTx _ ms => lenZ ms | _ => 0 end) es).
Proof.
  induction es as [|e es IH]; intros c; simpl; [unfold total_msgs; simpl; lia|].
  rewrite total_msgs_cons. specialize (IH (step_state c e)).
  assert (ev_msgs (to_sevent c e) <= match e with EvTx _ ms => lenZ ms | _ => 0 end).
  { destruct e as [envs|offered msgs|m|faults]; simpl; try lia.
    - destruct (ante_accepts c offered msgs); simpl; [lia|]. unfold lenZ. simpl. lia.
    - unfold lenZ. simpl. lia. }
  simpl in IH. lia.
Qed.
