(* Run-level facts: tenant table, creation heights, and where payouts come from. *)
From Settlus Require Import Base.Prelude Base.Hex Settlement.Model Settlement.Machine
  Proofs.StoreLemmas Proofs.SettlementInv Proofs.SettlementEnd Proofs.SettlementAuth.

Lemma sm_run_app : forall es1 es2 m,
  sm_run m (es1 ++ es2) =
  let '(m1, g1) := sm_run m es1 in let '(m2, g2) := sm_run m1 es2 in (m2, g1 ++ g2).
Proof.
  induction es1 as [|e es1 IH]; intros es2 m; simpl.
  - destruct (sm_run m es2); reflexivity.
  - destruct (sm_step m e) as [m1 g]. rewrite IH.
    destruct (sm_run m1 es1) as [m2 g1]. destruct (sm_run m2 es2) as [m3 g2].
    rewrite app_assoc. reflexivity.
Qed.

(* second invariant: tenant table well-formed, creation heights in range *)
Record Inv2 (B : Z) (m : mstate) : Prop := mkInv2 {
  i2_tenants : tenants_ok (s_tenants (m_s m));
  i2_largest : largest_tenant_id (s_tenants (m_s m)) <= B;
  i2_h : 0 <= m_h m;
  i2_created : forall e, In e (s_utxrs (m_s m)) -> 0 <= u_created (snd e) <= m_h m
}.

Lemma handle_frame s h m s' g :
  handle s h m = Ok (s', g) ->
  (forall e, In e (s_utxrs s') -> In e (s_utxrs s) \/ u_created (snd e) = h) /\
  largest_tenant_id (s_tenants s') <= largest_tenant_id (s_tenants s) + 1.
Proof.
  intros Hh. unfold handle in Hh. destruct (negb (validate_basic m)); [discriminate|].
  pose proof (largest_nonneg (s_tenants s)) as Hnn.
  destruct m.
  - inversion Hh; subst. simpl. split; [auto|]. unfold largest_tenant_id. rewrite fold_max_app. simpl.
    fold (largest_tenant_id (s_tenants s)). unfold wrap64.
    pose proof (Z.mod_le (largest_tenant_id (s_tenants s) + 1) two64 ltac:(lia) ltac:(reflexivity)). lia.
  - inversion Hh; subst. simpl. split; [auto|]. unfold largest_tenant_id. rewrite fold_max_app. simpl.
    fold (largest_tenant_id (s_tenants s)). unfold wrap64.
    pose proof (Z.mod_le (largest_tenant_id (s_tenants s) + 1) two64 ltac:(lia) ltac:(reflexivity)). lia.
  - destruct (negb (is_admin s tid sender)); [discriminate|].
    destruct (find_tenant (s_tenants s) tid) as [t|]; [|discriminate].
    destruct (memZ admin (t_admins t)); [discriminate|].
    inversion Hh; subst. simpl. rewrite largest_replace. split; [auto|lia].
  - destruct (negb (is_admin s tid sender)); [discriminate|].
    destruct (find_tenant (s_tenants s) tid) as [t|]; [|discriminate].
    destruct (negb (memZ admin (t_admins t))); [discriminate|].
    destruct (lenZ (t_admins t) =? 1); [discriminate|].
    inversion Hh; subst. simpl. rewrite largest_replace. split; [auto|lia].
  - destruct (negb (is_admin s tid sender)); [discriminate|].
    destruct (find_tenant (s_tenants s) tid) as [t|]; [|discriminate].
    inversion Hh; subst. simpl. rewrite largest_replace. split; [auto|lia].
  - destruct (find_tenant (s_tenants s) tid) as [t|]; [|discriminate].
    destruct (negb (t_method t =? 0)); [discriminate|].
    destruct (bal_get (s_bal s) sender denom <? amount); [discriminate|].
    inversion Hh; subst. simpl. split; [auto|lia].
  - destruct (negb (is_admin s tid sender)); [discriminate|].
    destruct (find_tenant (s_tenants s) tid) as [t|]; [|discriminate].
    destruct (negb (bytes_eqb (t_denom t) denom)); [discriminate|].
    destruct (t_period t =? 0); [discriminate|].
    destruct (get_recipients s chain contract tokhex) as [rs| |]; try discriminate.
    unfold create_utxr in Hh. destruct (idx_get (s_idx s) tid _); [discriminate|].
    inversion Hh; subst. simpl. split; [|lia].
    intros e He. apply utxr_ins_In in He as [->|He]; [right; reflexivity|left; assumption].
  - destruct (find_tenant (s_tenants s) tid) as [t|]; [|discriminate].
    destruct (negb (is_admin s tid sender)); [discriminate|].
    destruct (idx_get (s_idx s) tid req); [|discriminate].
    inversion Hh; subst. simpl. split; [|lia].
    intros e He. left. eapply utxr_del_In; eassumption.
Qed.

Lemma handle_all_inv2 ms : forall B s h s' g,
  0 <= B -> B + lenZ ms < two64 -> Inv2 B (mkM h s) -> handle_all s h ms = Ok (s', g) ->
  Inv2 (B + lenZ ms) (mkM h s').
Proof.
  induction ms as [|m ms IH]; intros B s h s' g HB0 HB HI Hh; simpl in Hh.
  - inversion Hh; subst. unfold lenZ; simpl. replace (B + 0) with B by lia. assumption.
  - unfold lenZ in *. simpl length in *. rewrite Nat2Z.inj_succ in *.
    destruct (handle s h m) as [[s1 g1]| |] eqn:E1; try discriminate.
    destruct (handle_all s1 h ms) as [[s2 g2]| |] eqn:E2; try discriminate.
    inversion Hh; subst. destruct HI as [Ht Hl Hh0 Hc]. simpl in *.
    pose proof (handle_frame _ _ _ _ _ E1) as [Hf1 Hf2].
    assert (HI1 : Inv2 (B + 1) (mkM h s1)).
    { constructor; simpl.
      - eapply handle_tenants_ok; [exact Ht| |exact E1]. lia.
      - lia.
      - assumption.
      - intros e He. destruct (Hf1 e He) as [H|H]; [auto|lia]. }
    apply (IH (B + 1) s1 h s' g2) in E2; [|lia|lia|exact HI1].
    replace (B + Z.succ (Z.of_nat (length ms))) with (B + 1 + Z.of_nat (length ms)) by lia. assumption.
Qed.

Lemma settle_loop_frame t h : forall recs s faults s' f' g,
  settle_loop t h recs s faults = (s', f', g) ->
  s_tenants s' = s_tenants s /\ (forall e, In e (s_utxrs s') -> In e (s_utxrs s)).
Proof.
  induction recs as [|[uid u] recs IH]; intros s faults s' f' g Hsl; simpl in Hsl.
  - inversion Hsl; subst. auto.
  - destruct (negb (mature u (t_period t) h)); [inversion Hsl; subst; auto|].
    destruct (valid_recips (u_recips u)).
    + destruct (settle_loop t h recs _ faults) as [[s3 f3] g3] eqn:E3. inversion Hsl; subst.
      apply IH in E3 as [H1 H2]. simpl in *. split; [assumption|].
      intros e He. apply H2 in He. eapply utxr_del_In; eassumption.
    + destruct (negb (payable_method (t_method t))); [inversion Hsl; subst; auto|].
      destruct (pay_all _ _ _ _ _ _) as [[l'|] faults'].
      * destruct (settle_loop t h recs _ faults') as [[s4 f4] g4] eqn:E4. inversion Hsl; subst.
        apply IH in E4 as [H1 H2]. simpl in *. split; [assumption|].
        intros e He. apply H2 in He. eapply utxr_del_In; eassumption.
      * inversion Hsl; subst. auto.
Qed.

Lemma end_block_frame s h faults s' g :
  settlement_end_block s h faults = (s', g) ->
  s_tenants s' = s_tenants s /\ (forall e, In e (s_utxrs s') -> In e (s_utxrs s)).
Proof.
  unfold settlement_end_block. intros Heb.
  assert (Hfold : forall ts s0 f0 g0 s1 f1 g1,
            fold_left (settle_tenant h) ts (s0, f0, g0) = (s1, f1, g1) ->
            s_tenants s1 = s_tenants s0 /\ (forall e, In e (s_utxrs s1) -> In e (s_utxrs s0))).
  { induction ts as [|t ts IH]; intros s0 f0 g0 s1 f1 g1 Hf; cbn [fold_left] in Hf.
    - inversion Hf; subst. auto.
    - destruct (settle_tenant h (s0, f0, g0) t) as [[s2 f2] g2] eqn:E.
      apply IH in Hf as [H1 H2]. unfold settle_tenant in E.
      destruct (settle_loop t h _ s0 f0) as [[s3 f3] g3] eqn:E3. inversion E; subst.
      apply settle_loop_frame in E3 as [H3 H4]. split; [congruence|auto]. }
  destruct (fold_left (settle_tenant h) (s_tenants s) (s, faults, [])) as [[s1 f1] g1] eqn:E.
  inversion Heb; subst. eapply Hfold; eassumption.
Qed.

Lemma set_recipients_frame s fill before s' g :
  set_recipients s fill before = (s', g) ->
  s_tenants s' = s_tenants s /\
  (forall e, In e (s_utxrs s') -> exists e0, In e0 (s_utxrs s) /\ u_created (snd e) = u_created (snd e0)).
Proof.
  unfold set_recipients. intros H.
  pose proof (set_recipients_list_map (s_utxrs s) fill before) as Hmap.
  destruct (set_recipients_list (s_utxrs s) fill before) as [l g0]. simpl in Hmap. inversion H; subst.
  split; [reflexivity|]. simpl. intros e He. apply in_map_iff in He as (e0 & <- & Hin).
  exists e0. split; [assumption|]. simpl. unfold fill_rec. destruct (fill_owner fill before (snd e0)); reflexivity.
Qed.

Lemma apply_senvs_frame : forall es s s' g, apply_senvs s es = (s', g) ->
  s_tenants s' = s_tenants s /\ s_utxrs s' = s_utxrs s.
Proof.
  induction es as [|e es IH]; intros s s' g H; simpl in H.
  - inversion H; subst. auto.
  - destruct (apply_senv s e) as [s1 g1] eqn:E1. destruct (apply_senvs s1 es) as [s2 g2] eqn:E2.
    inversion H; subst. apply IH in E2 as [H1 H2].
    destruct e; simpl in E1.
    + destruct ((0 <? amount) && (amount <=? bal_get (s_bal s) from denom) && (from <? two160));
        inversion E1; subst; simpl in *; auto.
    + inversion E1; subst; simpl in *; auto.
Qed.

Lemma sm_step_inv2 B m e m' g :
  0 <= B -> B + ev_msgs e < two64 -> Inv2 B m -> sm_step m e = (m', g) -> Inv2 (B + ev_msgs e) m'.
Proof.
  intros HB0 HB HI Hst. destruct e as [envs|msgs|fill faults]; simpl in *.
  - destruct (apply_senvs (m_s m) envs) as [s g0] eqn:E. inversion Hst; subst.
    apply apply_senvs_frame in E as [H1 H2]. destruct HI as [Ht Hl Hh Hc].
    replace (B + 0) with B by lia. constructor; simpl; rewrite ?H1, ?H2; auto; try lia;
      try (intros e He; specialize (Hc e He); lia).
  - destruct (handle_all (m_s m) (m_h m) msgs) as [[s g0]| |] eqn:E.
    + inversion Hst; subst. destruct m as [h s0]. simpl in *. eapply handle_all_inv2; eassumption.
    + inversion Hst; subst. pose proof (lenZ_nonneg msgs). destruct HI as [Ht Hl Hh Hc]. constructor; auto; lia.
    + inversion Hst; subst. pose proof (lenZ_nonneg msgs). destruct HI as [Ht Hl Hh Hc]. constructor; auto; lia.
  - unfold sm_end in Hst.
    destruct (match fill with Some (res, before) => set_recipients (m_s m) res before | None => (m_s m, []) end) as [s1 g1] eqn:E1.
    destruct (settlement_end_block s1 (m_h m) faults) as [s2 g2] eqn:E2.
    inversion Hst; subst. replace (B + 0) with B by lia.
    apply end_block_frame in E2 as [H1 H2]. destruct HI as [Ht Hl Hh Hc].
    assert (Hs1 : s_tenants s1 = s_tenants (m_s m) /\
                  forall e, In e (s_utxrs s1) -> 0 <= u_created (snd e) <= m_h m).
    { destruct fill as [[res before]|].
      - apply set_recipients_frame in E1 as [Ha Hb]. split; [assumption|].
        intros e He. destruct (Hb e He) as (e0 & Hin & Heq). rewrite Heq. auto.
      - inversion E1; subst. auto. }
    destruct Hs1 as [Ha Hb]. constructor; simpl; rewrite ?H1, ?Ha; auto.
Qed.

Lemma sm_run_inv2 : forall es B m m' glog,
  0 <= B -> B + total_msgs es < two64 -> Inv2 B m -> sm_run m es = (m', glog) ->
  Inv2 (B + total_msgs es) m'.
Proof.
  induction es as [|e es IH]; intros B m m' glog HB0 HB HI Hr; simpl in Hr.
  - inversion Hr; subst. unfold total_msgs; simpl. replace (B + 0) with B by lia. assumption.
  - destruct (sm_step m e) as [m1 g] eqn:E1. destruct (sm_run m1 es) as [m2 gs] eqn:E2.
    inversion Hr; subst. rewrite total_msgs_cons in *.
    pose proof (total_msgs_nonneg es) as Hn.
    assert (Hem : 0 <= ev_msgs e) by (destruct e; simpl; try lia; apply lenZ_nonneg).
    apply (sm_step_inv2 B m e m1 g) in E1; [|exact HB0|lia|exact HI].
    apply (IH (B + ev_msgs e) m1 m' gs) in E2; [|lia|lia|exact E1].
    replace (B + (ev_msgs e + total_msgs es)) with (B + ev_msgs e + total_msgs es) by lia. assumption.
Qed.

Lemma Inv2_init bal owners chain sup h0 : 0 <= h0 -> Inv2 0 (mkM h0 (empty_sstate bal owners chain sup)).
Proof.
  intros. constructor; simpl; [apply tenants_ok_nil|unfold largest_tenant_id; simpl; lia|assumption|intros ? []].
Qed.

(* heights never decrease *)
Lemma sm_step_height m e m' g : sm_step m e = (m', g) -> m_h m <= m_h m' <= m_h m + 1.
Proof.
  destruct e; simpl; intros H.
  - destruct (apply_senvs _ _). inversion H; subst; simpl; lia.
  - destruct (handle_all _ _ _) as [[? ?]| |]; inversion H; subst; simpl; lia.
  - destruct (sm_end _ _ _ _). inversion H; subst; simpl; lia.
Qed.

(* ---------- payouts in a run: the record was pending, mature, and paid with the period in force ---------- *)
Lemma settle_loop_kinds t h : forall recs s f s' f' g,
  settle_loop t h recs s f = (s', f', g) ->
  forall e, In e g -> (forall tid uid u, e <> GRecorded tid uid u) /\ (forall tid uid, e <> GCancelled tid uid).
Proof.
  induction recs as [|[uid0 u0] recs IHr]; intros s f s' f' g E3 e Hin; simpl in E3.
  - inversion E3; subst. destruct Hin.
  - destruct (negb (mature u0 (t_period t) h)); [inversion E3; subst; destruct Hin|].
    destruct (valid_recips (u_recips u0)).
    + destruct (settle_loop t h recs _ f) as [[s3' f3'] g3'] eqn:E'. inversion E3; subst.
      destruct Hin as [<-|Hin]; [split; intros; discriminate|]. eapply IHr; eassumption.
    + destruct (negb (payable_method (t_method t))); [inversion E3; subst; destruct Hin|].
      destruct (pay_all _ _ _ _ _ _) as [[l'|] faults'].
      * destruct (settle_loop t h recs _ faults') as [[s4 f4] g4] eqn:E'. inversion E3; subst.
        destruct Hin as [<-|Hin]; [split; intros; discriminate|]. eapply IHr; eassumption.
      * inversion E3; subst. destruct Hin.
Qed.

Lemma end_block_paid s h faults s' g :
  settlement_end_block s h faults = (s', g) ->
  forall e, In e g ->
    (forall tid uid m d outs c p, e = GPaid tid uid m d outs c p ->
       exists t u, In t (s_tenants s) /\ t_id t = tid /\ p = t_period t /\ m = t_method t /\
                   In (tid, uid, u) (s_utxrs s) /\ c = u_created u /\ d = u_denom u /\
                   mature u p h = true /\ outs = payout_amounts u) /\
    (forall tid uid, e = GDropped tid uid ->
       exists t u, In t (s_tenants s) /\ t_id t = tid /\ In (tid, uid, u) (s_utxrs s) /\
                   mature u (t_period t) h = true /\ valid_recips (u_recips u) = []) /\
    (forall tid uid u, e <> GRecorded tid uid u) /\ (forall tid uid, e <> GCancelled tid uid).
Proof.
  unfold settlement_end_block. intros Heb.
  assert (Hfold : forall ts s0 f0 g0 s1 f1 g1,
            (forall x, In x ts -> In x (s_tenants s)) ->
            (forall x, In x (s_utxrs s0) -> In x (s_utxrs s)) ->
            fold_left (settle_tenant h) ts (s0, f0, g0) = (s1, f1, g1) ->
            forall e, In e g1 -> In e g0 \/
              ((forall tid uid m d outs c p, e = GPaid tid uid m d outs c p ->
                 exists t u, In t (s_tenants s) /\ t_id t = tid /\ p = t_period t /\ m = t_method t /\
                   In (tid, uid, u) (s_utxrs s) /\ c = u_created u /\ d = u_denom u /\
                   mature u p h = true /\ outs = payout_amounts u) /\
               (forall tid uid, e = GDropped tid uid ->
                 exists t u, In t (s_tenants s) /\ t_id t = tid /\ In (tid, uid, u) (s_utxrs s) /\
                   mature u (t_period t) h = true /\ valid_recips (u_recips u) = []) /\
               (forall tid uid u, e <> GRecorded tid uid u) /\ (forall tid uid, e <> GCancelled tid uid))).
  { induction ts as [|t ts IH]; intros s0 f0 g0 s1 f1 g1 Hts Hsub Hf e He; cbn [fold_left] in Hf.
    - inversion Hf; subst. left. assumption.
    - destruct (settle_tenant h (s0, f0, g0) t) as [[s2 f2] g2] eqn:E.
      unfold settle_tenant in E.
      destruct (settle_loop t h (utxrs_of (s_utxrs s0) (t_id t)) s0 f0) as [[s3 f3] g3] eqn:E3.
      inversion E; subst.
      pose proof (settle_loop_frame _ _ _ _ _ _ _ _ E3) as [_ Hsub3].
      assert (Hts' : forall x, In x ts -> In x (s_tenants s)) by (intros x Hx; apply Hts; right; assumption).
      assert (Hsub' : forall x, In x (s_utxrs s2) -> In x (s_utxrs s)) by (intros x Hx; apply Hsub; apply Hsub3; assumption).
      destruct (IH s2 f2 (g0 ++ g3) s1 f1 g1 Hts' Hsub' Hf e He) as [Hin|Hr]; [|right; exact Hr].
      apply in_app_iff in Hin as [Hin|Hin]; [left; assumption|right].
      {
        destruct (settle_loop_mature t h _ _ _ _ _ _ E3 e Hin) as [H1 H2].
        split; [|split; [|split]].
        * intros tid uid m d outs c p Heq.
          destruct (H1 _ _ _ _ _ _ _ Heq) as (Hp & Ht & u & Hu & Hc & Hm & Ho & Hmm & Hd).
          exists t, u. subst. repeat split; auto.
          -- apply Hts. left. reflexivity.
          -- apply Hsub. apply utxrs_of_In. assumption.
        * intros tid uid Heq. destruct (H2 _ _ Heq) as (Ht & u & Hu & Hm & Hv).
          exists t, u. subst. repeat split; auto.
          -- apply Hts. left. reflexivity.
          -- apply Hsub. apply utxrs_of_In. assumption.
        * apply (settle_loop_kinds _ _ _ _ _ _ _ _ E3 e Hin).
        * apply (settle_loop_kinds _ _ _ _ _ _ _ _ E3 e Hin).
      } }
  destruct (fold_left (settle_tenant h) (s_tenants s) (s, faults, [])) as [[s1 f1] g1] eqn:E.
  inversion Heb; subst. intros e He.
  destruct (Hfold _ _ _ _ _ _ _ (fun x H => H) (fun x H => H) E e He) as [[]|H]. exact H.
Qed.
