(* The end-block of the settlement machine preserves the invariant; shape of what it does. *)
From Settlus Require Import Base.Prelude Base.Hex Settlement.Model Settlement.Machine
  Proofs.StoreLemmas Proofs.SettlementInv.

(* ---------- oracle fill ---------- *)
Definition fill_owner (fill : list (nft * Z)) (before : Z) (u : utxr) : option Z :=
  match u_recips u with
  | [] => if u_created u <? before then fill_get fill (u_nft u) else None
  | _ :: _ => None
  end.
Definition with_owner (u : utxr) (o : Z) : utxr :=
  mkUtxr (u_req u) [mkRecip o 1] (u_denom u) (u_amount u) (u_nft u) (u_created u).
Definition fill_rec (fill : list (nft * Z)) (before : Z) (u : utxr) : utxr :=
  match fill_owner fill before u with Some o => with_owner u o | None => u end.

Lemma set_recipients_list_map l fill before :
  fst (set_recipients_list l fill before) =
  map (fun e : Z * Z * utxr => (fst (fst e), snd (fst e), fill_rec fill before (snd e))) l.
Proof.
  induction l as [|[[t i] u] l IH]; simpl; [reflexivity|].
  destruct (set_recipients_list l fill before) as [r g] eqn:E. simpl in IH. subst r.
  unfold fill_rec, fill_owner. destruct (u_recips u) eqn:Er; simpl.
  - destruct (u_created u <? before); simpl.
    + destruct (fill_get fill (u_nft u)); simpl; reflexivity.
    + reflexivity.
  - reflexivity.
Qed.

Lemma set_recipients_list_log l fill before :
  recorded (snd (set_recipients_list l fill before)) = [] /\
  resolved (snd (set_recipients_list l fill before)) = [].
Proof.
  induction l as [|[[t i] u] l IH]; simpl; [auto|].
  destruct (set_recipients_list l fill before) as [r g] eqn:E. simpl in IH.
  destruct (u_recips u); simpl; [|assumption].
  destruct (u_created u <? before); simpl; [|assumption].
  destruct (fill_get fill (u_nft u)); simpl; assumption.
Qed.

Lemma utxr_get_map (f : utxr -> utxr) l t u :
  utxr_get (map (fun e : Z * Z * utxr => (fst (fst e), snd (fst e), f (snd e))) l) t u
  = option_map f (utxr_get l t u).
Proof.
  induction l as [|[[t' u'] v] l IH]; simpl; [reflexivity|].
  destruct ((t' =? t) && (u' =? u)); [reflexivity|exact IH].
Qed.

Lemma ksorted_map (f : utxr -> utxr) l : ksorted l ->
  ksorted (map (fun e : Z * Z * utxr => (fst (fst e), snd (fst e), f (snd e))) l).
Proof.
  induction 1 as [|e l Hlb Hs IH]; simpl; constructor; [|exact IH].
  intros e' He'. apply in_map_iff in He' as (e0 & Heq & Hin). subst e'.
  specialize (Hlb _ Hin). destruct e as [[a b] c], e0 as [[a0 b0] c0]. exact Hlb.
Qed.

Lemma fill_rec_req fill before u : u_req (fill_rec fill before u) = u_req u.
Proof. unfold fill_rec. destruct (fill_owner fill before u); reflexivity. Qed.

Lemma set_recipients_inv B s log fill before s' g :
  Inv B s log -> set_recipients s fill before = (s', g) -> Inv B s' (log ++ g).
Proof.
  intros [Ha Hb Hrr Hinc Hp Hl Hbd Hi1 Hi2 Hs] Hsr. unfold set_recipients in Hsr.
  pose proof (set_recipients_list_map (s_utxrs s) fill before) as Hmap.
  pose proof (set_recipients_list_log (s_utxrs s) fill before) as [Hl1 Hl2].
  destruct (set_recipients_list (s_utxrs s) fill before) as [l g0]. simpl in *.
  inversion Hsr; subst; clear Hsr.
  constructor; cbn [s_utxrs s_idx s_last set_idx set_utxrs set_last];
    rewrite ?recorded_app, ?resolved_app, ?Hl1, ?Hl2, ?app_nil_r; try assumption.
  - intros t u. rewrite utxr_get_map. rewrite <- Hp.
    destruct (utxr_get (s_utxrs s) t u); simpl; split; congruence.
  - intros t r u Hg. destruct (Hi1 _ _ _ Hg) as (rc & Hrc & Hreq).
    exists (fill_rec fill before rc). rewrite utxr_get_map, Hrc. simpl. rewrite fill_rec_req. auto.
  - intros t u rc Hg. rewrite utxr_get_map in Hg.
    destruct (utxr_get (s_utxrs s) t u) as [rc0|] eqn:E; simpl in Hg; [|discriminate].
    inversion Hg; subst. rewrite fill_rec_req. eauto.
  - apply ksorted_map. assumption.
Qed.

(* ---------- payout loop ---------- *)
Lemma settle_loop_inv t h : forall recs B s log faults s' f' g,
  Inv B s log ->
  NoDup (map fst recs) ->
  (forall uid u, In (uid, u) recs -> utxr_get (s_utxrs s) (t_id t) uid = Some u) ->
  settle_loop t h recs s faults = (s', f', g) ->
  Inv B s' (log ++ g).
Proof.
  induction recs as [|[uid u] recs IH]; intros B s log faults s' f' g HI Hnd Hrecs Hsl; simpl in Hsl.
  - inversion Hsl; subst. rewrite app_nil_r. assumption.
  - assert (Hget : utxr_get (s_utxrs s) (t_id t) uid = Some u) by (apply Hrecs; left; reflexivity).
    inversion Hnd as [|? ? Hnotin Hnd']; subst.
    assert (Hrest : forall s1, s_utxrs s1 = utxr_del (s_utxrs s) (t_id t) uid ->
              forall uid' u', In (uid', u') recs -> utxr_get (s_utxrs s1) (t_id t) uid' = Some u').
    { intros s1 Hs1 uid' u' Hin. rewrite Hs1. rewrite utxr_get_del_other.
      - apply Hrecs. right. assumption.
      - intro Heq. inversion Heq; subst. apply Hnotin. apply in_map_iff. exists (uid, u'). auto. }
    destruct (negb (mature u (t_period t) h)); [inversion Hsl; subst; rewrite app_nil_r; assumption|].
    destruct (valid_recips (u_recips u)) as [|vr0 vrs] eqn:Evr.
    + (* dropped *)
      destruct (settle_loop t h recs _ faults) as [[s3 f3] g3] eqn:E3.
      inversion Hsl; subst.
      replace (log ++ GDropped (t_id t) uid :: g3) with ((log ++ [GDropped (t_id t) uid]) ++ g3)
        by (rewrite <- app_assoc; reflexivity).
      eapply IH; [| exact Hnd' | | exact E3].
      * apply (remove_inv B s log (t_id t) uid u (GDropped (t_id t) uid)); auto.
      * apply Hrest. reflexivity.
    + destruct (negb (payable_method (t_method t)));
        [inversion Hsl; subst; rewrite app_nil_r; assumption|].
      destruct (pay_all (t_method t) (t_id t) (u_denom u) (s_bal s) faults (payout_amounts u)) as [[l'|] faults'] eqn:Ep.
      * destruct (settle_loop t h recs _ faults') as [[s4 f4] g4] eqn:E4.
        inversion Hsl; subst.
        match goal with |- Inv _ _ (log ++ ?e :: g4) =>
          replace (log ++ e :: g4) with ((log ++ [e]) ++ g4) by (rewrite <- app_assoc; reflexivity) end.
        eapply IH; [| exact Hnd' | | exact E4].
        -- match goal with |- Inv _ _ (log ++ [?e]) =>
             pose proof (remove_inv B (set_bal s l') log (t_id t) uid u e) as Hrm end.
           apply Hrm; auto.
           destruct HI as [Ha Hb Hrr Hinc Hp Hl Hbd Hi1 Hi2 Hs]. constructor; assumption.
        -- apply Hrest. reflexivity.
      * inversion Hsl; subst. rewrite app_nil_r. assumption.
Qed.

Lemma settle_tenant_inv B h : forall t s faults log0 g0 s' f' g',
  Inv B s (log0 ++ g0) ->
  settle_tenant h (s, faults, g0) t = (s', f', g') ->
  Inv B s' (log0 ++ g').
Proof.
  intros t s faults log0 g0 s' f' g' HI Hst. unfold settle_tenant in Hst.
  destruct (settle_loop t h (utxrs_of (s_utxrs s) (t_id t)) s faults) as [[s1 f1] g1] eqn:E.
  inversion Hst; subst. rewrite app_assoc.
  eapply settle_loop_inv; [exact HI| | |exact E].
  - apply (proj1 (utxrs_of_sorted (s_utxrs s) (t_id t) (inv_sorted _ _ _ HI))).
  - intros uid u Hin. apply utxrs_of_In in Hin. apply ksorted_get; [apply (inv_sorted _ _ _ HI)|assumption].
Qed.

Lemma settlement_end_block_inv B s log h faults s' g :
  Inv B s log -> settlement_end_block s h faults = (s', g) -> Inv B s' (log ++ g).
Proof.
  intros HI Heb. unfold settlement_end_block in Heb.
  assert (Hfold : forall ts s0 f0 g0 s1 f1 g1,
            Inv B s0 (log ++ g0) ->
            fold_left (settle_tenant h) ts (s0, f0, g0) = (s1, f1, g1) -> Inv B s1 (log ++ g1)).
  { induction ts as [|t ts IH]; intros s0 f0 g0 s1 f1 g1 HI0 Hf; cbn [fold_left] in Hf.
    - inversion Hf; subst. assumption.
    - destruct (settle_tenant h (s0, f0, g0) t) as [[s2 f2] g2] eqn:E.
      eapply IH; [|exact Hf]. eapply settle_tenant_inv; eassumption. }
  destruct (fold_left (settle_tenant h) (s_tenants s) (s, faults, [])) as [[s1 f1] g1] eqn:E.
  inversion Heb; subst. eapply Hfold; [|exact E]. rewrite app_nil_r. assumption.
Qed.

Lemma apply_senv_inv B s log e s' g :
  Inv B s log -> apply_senv s e = (s', g) -> Inv B s' (log ++ g).
Proof.
  intros HI Ha. destruct e; simpl in Ha.
  - destruct ((0 <? amount) && (amount <=? bal_get (s_bal s) from denom) && (from <? two160)).
    + inversion Ha; subst. apply (Inv_frame B s); auto. destruct (treasury_tid to); reflexivity.
      destruct (treasury_tid to); reflexivity.
    + inversion Ha; subst. rewrite app_nil_r. assumption.
  - inversion Ha; subst. apply (Inv_frame B s); auto.
Qed.

Lemma apply_senvs_inv B : forall es s log s' g,
  Inv B s log -> apply_senvs s es = (s', g) -> Inv B s' (log ++ g).
Proof.
  induction es as [|e es IH]; intros s log s' g HI Ha; simpl in Ha.
  - inversion Ha; subst. rewrite app_nil_r. assumption.
  - destruct (apply_senv s e) as [s1 g1] eqn:E1. destruct (apply_senvs s1 es) as [s2 g2] eqn:E2.
    inversion Ha; subst. rewrite app_assoc. eapply IH; [|exact E2]. eapply apply_senv_inv; eassumption.
Qed.

(* ---------- the whole machine ---------- *)
Definition ev_msgs (e : sevent) : Z := match e with STx ms => lenZ ms | _ => 0 end.
Definition total_msgs (es : list sevent) : Z := sumZ (map ev_msgs es).

Lemma lenZ_nonneg {A} (l : list A) : 0 <= lenZ l.
Proof. unfold lenZ. lia. Qed.

Lemma sm_step_inv B m log e m' g :
  0 <= B -> B + ev_msgs e < two64 -> Inv B (m_s m) log -> sm_step m e = (m', g) ->
  Inv (B + ev_msgs e) (m_s m') (log ++ g).
Proof.
  intros HB0 HB HI Hst. destruct e as [envs|msgs|fill faults]; simpl in *.
  - destruct (apply_senvs (m_s m) envs) as [s g0] eqn:E. inversion Hst; subst. simpl.
    replace (B + 0) with B by lia. eapply apply_senvs_inv; eassumption.
  - destruct (handle_all (m_s m) (m_h m) msgs) as [[s g0]| |] eqn:E.
    + inversion Hst; subst. simpl. eapply handle_all_inv; eassumption.
    + inversion Hst; subst. rewrite app_nil_r. apply Inv_weaken with B; [pose proof (lenZ_nonneg msgs); lia|assumption].
    + inversion Hst; subst. rewrite app_nil_r. apply Inv_weaken with B; [pose proof (lenZ_nonneg msgs); lia|assumption].
  - unfold sm_end in Hst.
    destruct (match fill with Some (res, before) => set_recipients (m_s m) res before | None => (m_s m, []) end) as [s1 g1] eqn:E1.
    destruct (settlement_end_block s1 (m_h m) faults) as [s2 g2] eqn:E2.
    inversion Hst; subst. simpl. replace (B + 0) with B by lia. rewrite app_assoc.
    eapply settlement_end_block_inv; [|exact E2].
    destruct fill as [[res before]|].
    + eapply set_recipients_inv; eassumption.
    + inversion E1; subst. rewrite app_nil_r. assumption.
Qed.

Lemma total_msgs_nonneg es : 0 <= total_msgs es.
Proof.
  unfold total_msgs. apply sumZ_nonneg. intros x Hx. apply in_map_iff in Hx as (e & He & _). subst.
  destruct e; simpl; try lia. apply lenZ_nonneg.
Qed.

Lemma total_msgs_cons e es : total_msgs (e :: es) = ev_msgs e + total_msgs es.
Proof. reflexivity. Qed.

Theorem sm_run_inv : forall es B m log m' glog,
  0 <= B -> B + total_msgs es < two64 -> Inv B (m_s m) log -> sm_run m es = (m', glog) ->
  Inv (B + total_msgs es) (m_s m') (log ++ map snd glog).
Proof.
  induction es as [|e es IH]; intros B m log m' glog HB0 HB HI Hr; simpl in Hr.
  - inversion Hr; subst. simpl. rewrite app_nil_r. unfold total_msgs; simpl. replace (B + 0) with B by lia. assumption.
  - destruct (sm_step m e) as [m1 g] eqn:E1. destruct (sm_run m1 es) as [m2 gs] eqn:E2.
    inversion Hr; subst. rewrite total_msgs_cons in *.
    pose proof (total_msgs_nonneg es) as Hn.
    assert (Hem : 0 <= ev_msgs e) by (destruct e; simpl; try lia; apply lenZ_nonneg).
    apply (sm_step_inv B m log e m1 g) in E1; [|exact HB0|lia|exact HI].
    apply (IH (B + ev_msgs e) m1 (log ++ g) m' gs) in E2; [|lia|lia|exact E1].
    rewrite map_app, map_map. cbn [snd]. rewrite map_id. rewrite app_assoc.
    replace (B + (ev_msgs e + total_msgs es)) with (B + ev_msgs e + total_msgs es) by lia. assumption.
Qed.
