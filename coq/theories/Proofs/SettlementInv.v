(* The central invariant of the settlement machine, relating the state to the ghost log. *)
From Settlus Require Import Base.Prelude Base.Hex Settlement.Model Settlement.Machine Proofs.StoreLemmas.

(* ---------- strictly ascending (tenant, id) order of the record store ---------- *)
Definition klt (a b : Z * Z) : Prop := fst a < fst b \/ (fst a = fst b /\ snd a < snd b).
Definition ekey (e : Z * Z * utxr) : Z * Z := (fst (fst e), snd (fst e)).

Lemma key_ltb_klt t u t' u' : key_ltb t u t' u' = true <-> klt (t, u) (t', u').
Proof. unfold key_ltb, klt. simpl. rewrite orb_true_iff, andb_true_iff. lia. Qed.

Lemma klt_trans a b c : klt a b -> klt b c -> klt a c.
Proof. unfold klt. lia. Qed.
Lemma klt_irrefl a : ~ klt a a.
Proof. unfold klt. lia. Qed.
Lemma klt_total a b : klt a b \/ a = b \/ klt b a.
Proof. destruct a as [a1 a2], b as [b1 b2]. unfold klt. simpl.
  destruct (Z.lt_trichotomy a1 b1) as [|[|]]; destruct (Z.lt_trichotomy a2 b2) as [|[|]]; subst; auto; try lia.
Qed.

Inductive ksorted : list (Z * Z * utxr) -> Prop :=
| ks_nil : ksorted []
| ks_cons e l : (forall e', In e' l -> klt (ekey e) (ekey e')) -> ksorted l -> ksorted (e :: l).

Lemma utxr_get_In l t u v : utxr_get l t u = Some v -> In (t, u, v) l.
Proof.
  induction l as [|[[t' u'] v'] l IH]; simpl; [discriminate|].
  destruct ((t' =? t) && (u' =? u)) eqn:E.
  - intros H; inversion H; subst. apply andb_true_iff in E as [Ea Eb].
    assert (t' = t) by lia. assert (u' = u) by lia. subst. left; reflexivity.
  - intros H. right. auto.
Qed.

Lemma ksorted_get l t u v : ksorted l -> In (t, u, v) l -> utxr_get l t u = Some v.
Proof.
  induction 1 as [|e l Hlb Hs IH]; simpl; [tauto|].
  destruct e as [[t' u'] v']. intros [H|H].
  - inversion H; subst. rewrite !Z.eqb_refl. reflexivity.
  - specialize (Hlb _ H). unfold ekey in Hlb; simpl in Hlb.
    replace ((t' =? t) && (u' =? u)) with false; [auto|].
    symmetry. apply andb_false_iff. unfold klt in Hlb; simpl in Hlb. lia.
Qed.

Lemma utxr_ins_In l t u v e : In e (utxr_ins l t u v) -> e = (t, u, v) \/ In e l.
Proof.
  induction l as [|[[t' u'] v'] l IH]; simpl; [intros [H|[]]; auto|].
  destruct (key_ltb t u t' u'); simpl; [intros [H|[H|H]]; auto|].
  destruct ((t =? t') && (u =? u')); simpl; [intros [H|H]; auto|].
  intros [H|H]; auto. destruct (IH H); auto.
Qed.

Lemma utxr_ins_sorted l t u v : ksorted l -> ksorted (utxr_ins l t u v).
Proof.
  induction 1 as [|e l Hlb Hs IH]; simpl.
  - constructor; [intros ? []|constructor].
  - destruct e as [[t' u'] v'].
    destruct (key_ltb t u t' u') eqn:E1.
    + apply key_ltb_klt in E1. constructor; [|constructor; assumption].
      intros e' [H|H]; [subst; exact E1|].
      eapply klt_trans; [exact E1|]. apply (Hlb _ H).
    + destruct ((t =? t') && (u =? u')) eqn:E2.
      * apply andb_true_iff in E2 as [Ea Eb]. assert (t = t') by lia. assert (u = u') by lia. subst.
        constructor; assumption.
      * constructor; [|exact IH].
        intros e' He'. apply utxr_ins_In in He' as [He'|He']; [|apply Hlb; assumption].
        subst. unfold ekey; simpl.
        destruct (klt_total (t', u') (t, u)) as [H|[H|H]]; [assumption| |].
        -- inversion H; subst. rewrite !Z.eqb_refl in E2. discriminate.
        -- apply key_ltb_klt in H. congruence.
Qed.

Lemma utxr_del_In l t u e : In e (utxr_del l t u) -> In e l.
Proof.
  induction l as [|[[t' u'] v'] l IH]; simpl; [tauto|].
  destruct ((t' =? t) && (u' =? u)); simpl; [intros; right; auto|intros [H|H]; auto].
Qed.

Lemma utxr_del_sorted l t u : ksorted l -> ksorted (utxr_del l t u).
Proof.
  induction 1 as [|e l Hlb Hs IH]; simpl; [constructor|].
  destruct e as [[t' u'] v'].
  destruct ((t' =? t) && (u' =? u)); [exact IH|].
  constructor; [|exact IH]. intros e' He'. apply Hlb. eapply utxr_del_In; eassumption.
Qed.

Lemma utxrs_of_In l tid uid v : In (uid, v) (utxrs_of l tid) <-> In (tid, uid, v) l.
Proof.
  unfold utxrs_of. rewrite in_map_iff. split.
  - intros ([[t u] v'] & Heq & Hin). simpl in Heq. inversion Heq; subst.
    apply filter_In in Hin as [Hin Ht]. simpl in Ht. assert (t = tid) by lia. subst. assumption.
  - intros Hin. exists (tid, uid, v). split; [reflexivity|]. apply filter_In. split; [assumption|].
    simpl. apply Z.eqb_refl.
Qed.

Lemma utxrs_of_sorted l tid : ksorted l ->
  NoDup (map fst (utxrs_of l tid)) /\
  (forall a b rest pre, utxrs_of l tid = pre ++ a :: rest -> In b rest -> fst a < fst b).
Proof.
  induction 1 as [|e l Hlb Hs IH]; simpl.
  - split; [constructor|]. intros a b rest pre H. destruct pre; discriminate.
  - destruct e as [[t u] v]. unfold utxrs_of in *. simpl.
    destruct (t =? tid) eqn:E; simpl; [|exact IH].
    assert (t = tid) by lia. subst.
    destruct IH as [IH1 IH2]. split.
    + constructor; [|exact IH1]. intro Hin. apply in_map_iff in Hin as ([u' v'] & Hu & Hin). simpl in Hu. subst.
      apply in_map_iff in Hin as ([[t2 u2] v2] & Heq & Hin). simpl in Heq. inversion Heq; subst.
      apply filter_In in Hin as [Hin Ht]. simpl in Ht. assert (t2 = tid) by lia. subst.
      specialize (Hlb _ Hin). unfold ekey, klt in Hlb; simpl in Hlb. lia.
    + intros a b rest pre Heq Hb. destruct pre as [|p pre]; simpl in Heq.
      * inversion Heq; subst. simpl.
        apply in_map_iff in Hb as ([[t2 u2] v2] & Hb1 & Hb2). subst. simpl.
        apply filter_In in Hb2 as [Hin Ht]. simpl in Ht. assert (t2 = tid) by lia. subst.
        specialize (Hlb _ Hin). unfold ekey, klt in Hlb; simpl in Hlb. lia.
      * inversion Heq; subst. eapply IH2; eassumption.
Qed.

(* ids recorded for one tenant, in log order *)
From Coq Require Import Sorting.Sorted.
Fixpoint ids_of (t : Z) (l : list (Z * Z)) : list Z :=
  match l with
  | [] => []
  | (t', u) :: l' => if t' =? t then u :: ids_of t l' else ids_of t l'
  end.

Lemma ids_of_app t a b : ids_of t (a ++ b) = ids_of t a ++ ids_of t b.
Proof.
  induction a as [|[t' u] a IH]; simpl; [reflexivity|].
  destruct (t' =? t); simpl; rewrite IH; reflexivity.
Qed.

Lemma ids_of_In t u l : In u (ids_of t l) <-> In (t, u) l.
Proof.
  induction l as [|[t' u'] l IH]; simpl; [tauto|].
  destruct (t' =? t) eqn:E; simpl; rewrite IH.
  - assert (t' = t) by lia. subst. split; [intros [H|H]; [left; congruence|auto]|intros [H|H]; [left; congruence|auto]].
  - split; [auto|]. intros [H|H]; [inversion H; lia|assumption].
Qed.

Lemma sorted_snoc l y : StronglySorted Z.lt l -> (forall x, In x l -> x < y) -> StronglySorted Z.lt (l ++ [y]).
Proof.
  induction 1 as [|a l Hs IH Hall]; intros Hlt; simpl.
  - constructor; [constructor|constructor].
  - constructor.
    + apply IH. intros x Hx. apply Hlt. right. assumption.
    + apply Forall_app. split; [assumption|]. constructor; [apply Hlt; left; reflexivity|constructor].
Qed.

(* ---------- the invariant ---------- *)
Record Inv (B : Z) (s : sstate) (log : list gev) : Prop := mkInv {
  inv_rec_nodup : NoDup (recorded log);
  inv_res_nodup : NoDup (resolved log);
  inv_res_rec : forall k, In k (resolved log) -> In k (recorded log);
  inv_inc : forall t, StronglySorted Z.lt (ids_of t (recorded log));
  inv_pending : forall t u, utxr_get (s_utxrs s) t u <> None <->
                            (In (t, u) (recorded log) /\ ~ In (t, u) (resolved log));
  inv_last : forall t u, In (t, u) (recorded log) ->
                         exists L, zlookup t (s_last s) = Some L /\ 0 <= u <= L;
  inv_bound : forall t L, zlookup t (s_last s) = Some L -> 0 <= L < B;
  inv_idx1 : forall t r u, idx_get (s_idx s) t r = Some u ->
                           exists rc, utxr_get (s_utxrs s) t u = Some rc /\ u_req rc = r;
  inv_idx2 : forall t u rc, utxr_get (s_utxrs s) t u = Some rc ->
                            idx_get (s_idx s) t (u_req rc) = Some u;
  inv_sorted : ksorted (s_utxrs s)
}.

Lemma recorded_app a b : recorded (a ++ b) = recorded a ++ recorded b.
Proof. unfold recorded. rewrite map_app, concat_app. reflexivity. Qed.
Lemma resolved_app a b : resolved (a ++ b) = resolved a ++ resolved b.
Proof. unfold resolved. rewrite map_app, concat_app. reflexivity. Qed.

Lemma Inv_init bal owners chain sup B : 0 <= B -> Inv B (empty_sstate bal owners chain sup) [].
Proof.
  intros HB. constructor; simpl; try constructor; try (intros; discriminate); try tauto;
    try (intros H; congruence); try (intros [[] _]); try (intros; constructor).
Qed.

Lemma Inv_weaken B B' s log : B <= B' -> Inv B s log -> Inv B' s log.
Proof.
  intros Hle [a b b' b'' c d e f g h]. constructor; auto.
  intros t L HL. specialize (e t L HL). lia.
Qed.

(* changes that touch neither records, index nor counters, and log nothing about records *)
Lemma Inv_frame B s s' log g :
  s_utxrs s' = s_utxrs s -> s_idx s' = s_idx s -> s_last s' = s_last s ->
  recorded g = [] -> resolved g = [] ->
  Inv B s log -> Inv B s' (log ++ g).
Proof.
  intros Hu Hi Hl Hr1 Hr2 [a b b' b'' c d e f g0 h].
  constructor; rewrite ?recorded_app, ?resolved_app, ?Hr1, ?Hr2, ?app_nil_r, ?Hu, ?Hi, ?Hl; assumption.
Qed.

(* ---------- recording ---------- *)
Lemma create_utxr_inv B s log tid u s' uid :
  0 <= B < two64 -> Inv B s log -> create_utxr s tid u = Ok (s', uid) ->
  Inv (B + 1) s' (log ++ [GRecorded tid uid u]) /\
  (forall u', In (tid, u') (recorded log) -> u' < uid) /\
  s_tenants s' = s_tenants s /\ s_bal s' = s_bal s /\ s_owners s' = s_owners s
  /\ s_chain s' = s_chain s /\ s_supported s' = s_supported s.
Proof.
  intros HB HI Hc. unfold create_utxr in Hc.
  destruct (idx_get (s_idx s) tid (u_req u)) eqn:Eidx; [discriminate|].
  inversion Hc; subst; clear Hc.
  destruct HI as [Ha Hb Hrr Hinc Hp Hl Hbd Hi1 Hi2 Hs].
  set (uid := next_uid s tid).
  assert (Hfresh : forall u', In (tid, u') (recorded log) -> u' < uid).
  { intros u' Hin. destruct (Hl _ _ Hin) as (L & HL & Hr). unfold uid, next_uid. rewrite HL.
    specialize (Hbd _ _ HL). cbv iota beta. rewrite wrap64_small by (unfold two64 in *; lia). lia. }
  assert (Hnotrec : ~ In (tid, uid) (recorded log)).
  { intro Hin. specialize (Hfresh _ Hin). lia. }
  assert (Huid : 0 <= uid < B + 1).
  { unfold uid, next_uid. destruct (zlookup tid (s_last s)) eqn:EL; [|lia].
    specialize (Hbd _ _ EL). rewrite wrap64_small by (unfold two64 in *; lia). lia. }
  split; [|split; [exact Hfresh|simpl; auto 10]].
  assert (Hr1 : recorded [GRecorded tid uid u] = [(tid, uid)]) by reflexivity.
  assert (Hr2 : resolved [GRecorded tid uid u] = []) by reflexivity.
  constructor; cbn [s_utxrs s_idx s_last set_idx set_utxrs set_last s_tenants s_bal];
    rewrite ?recorded_app, ?resolved_app, ?Hr1, ?Hr2, ?app_nil_r.
  - apply NoDup_app_singleton; assumption.
  - assumption.
  - intros k Hk. apply in_or_app. left. auto.
  - intros t. rewrite ids_of_app. simpl. destruct (tid =? t) eqn:Et.
    + assert (tid = t) by lia. subst t. apply sorted_snoc; [apply Hinc|].
      intros x Hx. apply ids_of_In in Hx. apply Hfresh. assumption.
    + rewrite app_nil_r. apply Hinc.
  - intros t u0. destruct (Z.eq_dec t tid) as [->|Hne]; [destruct (Z.eq_dec u0 uid) as [->|Hne2]|].
    + rewrite utxr_get_ins_same. split; [intros _|intros _; discriminate].
      split; [apply in_or_app; right; left; reflexivity|].
      intro Hin. apply Hnotrec. auto.
    + rewrite utxr_get_ins_other by congruence. rewrite Hp, in_app_iff. simpl.
      split; [tauto|]. intros [[H|[H|[]]] Hn]; [tauto|inversion H; congruence].
    + rewrite utxr_get_ins_other by congruence. rewrite Hp, in_app_iff. simpl.
      split; [tauto|]. intros [[H|[H|[]]] Hn]; [tauto|inversion H; congruence].
  - intros t u0 Hin. apply in_app_iff in Hin as [Hin|[Hin|[]]].
    + destruct (Hl _ _ Hin) as (L & HL & Hr). destruct (Z.eq_dec t tid) as [->|Hne].
      * rewrite zlookup_zinsert_same. exists uid. split; [reflexivity|].
        specialize (Hfresh _ Hin). lia.
      * rewrite zlookup_zinsert_other by assumption. exists L. auto.
    + inversion Hin; subst. rewrite zlookup_zinsert_same. exists uid. split; [reflexivity|lia].
  - intros t L HL. destruct (Z.eq_dec t tid) as [->|Hne].
    + rewrite zlookup_zinsert_same in HL. inversion HL; subst. lia.
    + rewrite zlookup_zinsert_other in HL by assumption. specialize (Hbd _ _ HL). lia.
  - intros t r u0 Hg. destruct (Z.eq_dec t tid) as [->|Hne]; [destruct (bytes_eqb r (u_req u)) eqn:Er|].
    + apply bytes_eqb_eq in Er. subst r. rewrite idx_get_cons_same in Hg. inversion Hg; subst.
      exists u. rewrite utxr_get_ins_same. auto.
    + apply bytes_eqb_neq in Er. rewrite idx_get_cons_other in Hg by congruence.
      destruct (Hi1 _ _ _ Hg) as (rc & Hrc & Hreq). exists rc. split; [|assumption].
      rewrite utxr_get_ins_other; [assumption|].
      intro Heq. inversion Heq; subst.
      assert (Hpend : utxr_get (s_utxrs s) tid uid <> None) by congruence.
      apply Hp in Hpend. tauto.
    + rewrite idx_get_cons_other in Hg by congruence.
      destruct (Hi1 _ _ _ Hg) as (rc & Hrc & Hreq). exists rc. split; [|assumption].
      rewrite utxr_get_ins_other by congruence. assumption.
  - intros t u0 rc Hg. destruct (Z.eq_dec t tid) as [->|Hne]; [destruct (Z.eq_dec u0 uid) as [->|Hne2]|].
    + rewrite utxr_get_ins_same in Hg. inversion Hg; subst. apply idx_get_cons_same.
    + rewrite utxr_get_ins_other in Hg by congruence.
      specialize (Hi2 _ _ _ Hg). rewrite idx_get_cons_other; [assumption|].
      intro Heq. inversion Heq as [Hr]. rewrite Hr in Hi2. congruence.
    + rewrite utxr_get_ins_other in Hg by congruence.
      rewrite idx_get_cons_other by congruence. eauto.
  - apply utxr_ins_sorted. assumption.
Qed.

(* ---------- removing a pending record (cancel, payout, drop) ---------- *)
Lemma remove_inv B s log tid uid rc g :
  Inv B s log -> utxr_get (s_utxrs s) tid uid = Some rc ->
  recorded [g] = [] -> resolved [g] = [(tid, uid)] ->
  Inv B (set_idx (set_utxrs s (utxr_del (s_utxrs s) tid uid))
                 (idx_del (s_idx s) tid (u_req rc))) (log ++ [g]).
Proof.
  intros [Ha Hb Hrr Hinc Hp Hl Hbd Hi1 Hi2 Hs] Hget Hg1 Hg2.
  assert (Hpend : In (tid, uid) (recorded log) /\ ~ In (tid, uid) (resolved log)).
  { apply Hp. congruence. }
  constructor; cbn [s_utxrs s_idx s_last set_idx set_utxrs set_last s_tenants s_bal];
    rewrite ?recorded_app, ?resolved_app, ?Hg1, ?Hg2, ?app_nil_r.
  - assumption.
  - apply NoDup_app_singleton; tauto.
  - intros k Hk. apply in_app_iff in Hk as [Hk|[Hk|[]]]; [auto|subst; tauto].
  - assumption.
  - intros t u. rewrite in_app_iff. simpl.
    destruct (Z.eq_dec t tid) as [->|Hne]; [destruct (Z.eq_dec u uid) as [->|Hne2]|].
    + rewrite utxr_get_del_same. split; [congruence|]. intros [_ Hn]. exfalso. apply Hn. auto.
    + rewrite utxr_get_del_other by congruence. rewrite Hp. split; [|tauto].
      intros [H1 H2]. split; [assumption|]. intros [H|[H|[]]]; [tauto|inversion H; congruence].
    + rewrite utxr_get_del_other by congruence. rewrite Hp. split; [|tauto].
      intros [H1 H2]. split; [assumption|]. intros [H|[H|[]]]; [tauto|inversion H; congruence].
  - assumption.
  - assumption.
  - intros t r u Hg. destruct (Z.eq_dec t tid) as [->|Hne]; [destruct (bytes_eqb r (u_req rc)) eqn:Er|].
    + apply bytes_eqb_eq in Er. subst. rewrite idx_get_del_same in Hg. discriminate.
    + apply bytes_eqb_neq in Er. rewrite idx_get_del_other in Hg by congruence.
      destruct (Hi1 _ _ _ Hg) as (rc' & Hrc' & Hreq). exists rc'. split; [|assumption].
      rewrite utxr_get_del_other; [assumption|]. intro Heq. inversion Heq; subst.
      rewrite Hrc' in Hget. inversion Hget; subst. congruence.
    + rewrite idx_get_del_other in Hg by congruence.
      destruct (Hi1 _ _ _ Hg) as (rc' & Hrc' & Hreq). exists rc'. split; [|assumption].
      rewrite utxr_get_del_other by congruence. assumption.
  - intros t u rc' Hg. destruct (Z.eq_dec t tid) as [->|Hne]; [destruct (Z.eq_dec u uid) as [->|Hne2]|].
    + rewrite utxr_get_del_same in Hg. discriminate.
    + rewrite utxr_get_del_other in Hg by congruence.
      pose proof (Hi2 _ _ _ Hg) as H2. rewrite idx_get_del_other; [assumption|].
      intro Heq. inversion Heq as [Hr]. rewrite Hr in H2. rewrite (Hi2 _ _ _ Hget) in H2. congruence.
    + rewrite utxr_get_del_other in Hg by congruence.
      rewrite idx_get_del_other by congruence. eauto.
  - apply utxr_del_sorted. assumption.
Qed.

(* ---------- one message ---------- *)
Lemma get_recipients_cases s chain contract tok rs :
  get_recipients s chain contract tok = Ok rs ->
  rs = [] \/ exists o, rs = [mkRecip o 1] /\ o <> 0.
Proof.
  unfold get_recipients.
  destruct (mem_bytes chain (s_supported s) && negb (bytes_eqb (s_chain s) chain)); [intros H; inversion H; auto|].
  destruct (negb (bytes_eqb (s_chain s) chain)); [discriminate|].
  destruct (owner_get _ _ _) as [o|]; [|discriminate].
  destruct (o =? 0) eqn:E; [discriminate|]. intros H; inversion H. right. exists o. split; [reflexivity|lia].
Qed.

Lemma handle_inv B s log h m s' g :
  0 <= B < two64 -> Inv B s log -> handle s h m = Ok (s', g) -> Inv (B + 1) s' (log ++ g).
Proof.
  intros HB HI Hh. unfold handle in Hh.
  destruct (negb (validate_basic m)); [discriminate|].
  destruct m.
  - (* create tenant *)
    inversion Hh; subst. apply Inv_weaken with B; [lia|]. apply (Inv_frame B s); auto.
  - inversion Hh; subst. apply Inv_weaken with B; [lia|]. apply (Inv_frame B s); auto.
  - (* add admin *)
    destruct (negb (is_admin s tid sender)); [discriminate|].
    destruct (find_tenant (s_tenants s) tid) as [t|]; [|discriminate].
    destruct (memZ admin (t_admins t)); [discriminate|].
    inversion Hh; subst. apply Inv_weaken with B; [lia|]. apply (Inv_frame B s); auto.
  - destruct (negb (is_admin s tid sender)); [discriminate|].
    destruct (find_tenant (s_tenants s) tid) as [t|]; [|discriminate].
    destruct (negb (memZ admin (t_admins t))); [discriminate|].
    destruct (lenZ (t_admins t) =? 1); [discriminate|].
    inversion Hh; subst. apply Inv_weaken with B; [lia|]. apply (Inv_frame B s); auto.
  - destruct (negb (is_admin s tid sender)); [discriminate|].
    destruct (find_tenant (s_tenants s) tid) as [t|]; [|discriminate].
    inversion Hh; subst. apply Inv_weaken with B; [lia|]. apply (Inv_frame B s); auto.
  - (* deposit *)
    destruct (find_tenant (s_tenants s) tid) as [t|]; [|discriminate].
    destruct (negb (t_method t =? 0)); [discriminate|].
    destruct (bal_get (s_bal s) sender denom <? amount); [discriminate|].
    inversion Hh; subst. apply Inv_weaken with B; [lia|]. apply (Inv_frame B s); auto.
  - (* record *)
    destruct (negb (is_admin s tid sender)); [discriminate|].
    destruct (find_tenant (s_tenants s) tid) as [t|]; [|discriminate].
    destruct (negb (bytes_eqb (t_denom t) denom)); [discriminate|].
    destruct (t_period t =? 0); [discriminate|].
    destruct (get_recipients s chain contract tokhex) as [rs| |]; try discriminate.
    destruct (create_utxr s tid _) as [[s1 uid]| |] eqn:Ec; try discriminate.
    inversion Hh; subst.
    eapply create_utxr_inv in Ec; eauto. tauto.
  - (* cancel *)
    destruct (find_tenant (s_tenants s) tid) as [t|]; [|discriminate].
    destruct (negb (is_admin s tid sender)); [discriminate|].
    destruct (idx_get (s_idx s) tid req) as [uid|] eqn:Ei; [|discriminate].
    inversion Hh; subst.
    destruct (inv_idx1 _ _ _ HI _ _ _ Ei) as (rc & Hrc & Hreq). subst req.
    apply Inv_weaken with B; [lia|].
    apply (remove_inv B s log tid uid rc (GCancelled tid uid)); auto.
Qed.

Lemma handle_all_inv ms : forall B s log h s' g,
  0 <= B -> B + lenZ ms < two64 -> Inv B s log -> handle_all s h ms = Ok (s', g) ->
  Inv (B + lenZ ms) s' (log ++ g).
Proof.
  induction ms as [|m ms IH]; intros B s log h s' g HB0 HB HI Hh; simpl in Hh.
  - inversion Hh; subst. rewrite app_nil_r. unfold lenZ; simpl. replace (B + 0) with B by lia. assumption.
  - unfold lenZ in *. simpl length in *. rewrite Nat2Z.inj_succ in *.
    destruct (handle s h m) as [[s1 g1]| |] eqn:E1; try discriminate.
    destruct (handle_all s1 h ms) as [[s2 g2]| |] eqn:E2; try discriminate.
    inversion Hh; subst.
    apply (handle_inv B s log) in E1; [|lia|assumption].
    apply (IH (B + 1) s1 (log ++ g1)) in E2; [|lia|lia|assumption].
    rewrite app_assoc. replace (B + Z.succ (Z.of_nat (length ms))) with (B + 1 + Z.of_nat (length ms)) by lia.
    assumption.
Qed.
