(* The weight split of a payout (C01) and what one payout does to the ledger (C01, C11). *)
From Settlus Require Import Base.Prelude Base.Hex Settlement.Model Settlement.Machine Proofs.StoreLemmas.

Lemma div_add_le a b c : 0 < c -> a / c + b / c <= (a + b) / c.
Proof.
  intros Hc. apply Z.div_le_lower_bound; [assumption|].
  pose proof (Z.mul_div_le a c Hc). pose proof (Z.mul_div_le b c Hc). lia.
Qed.

Lemma sum_div_le (xs : list Z) c : 0 < c -> sumZ (map (fun x => x / c) xs) <= sumZ xs / c.
Proof.
  intros Hc. induction xs as [|x xs IH]; simpl; [rewrite Z.div_0_l; lia|].
  pose proof (div_add_le x (sumZ xs) c Hc). lia.
Qed.

Lemma sum_const {A} (l : list A) q : sumZ (map (fun _ => q) l) = lenZ l * q.
Proof.
  unfold lenZ. induction l as [|x l IH]; simpl length; [simpl; lia|].
  rewrite Nat2Z.inj_succ. simpl map. simpl sumZ. rewrite IH. lia.
Qed.

Definition outs_total (outs : list (Z * Z)) : Z := sumZ (map snd outs).

(* each valid recipient gets floor(amount*w/W), or floor(amount/n) when W = 0 *)
Lemma payout_amounts_each u a x :
  In (a, x) (payout_amounts u) ->
  exists r, In r (valid_recips (u_recips u)) /\ a = r_addr r /\
    x = let vr := valid_recips (u_recips u) in
        if total_weight vr =? 0 then u_amount u / lenZ vr else (u_amount u * r_weight r) / total_weight vr.
Proof.
  unfold payout_amounts. intros Hin. apply in_map_iff in Hin as (r & Heq & Hin). inversion Heq; subst.
  exists r. split; [assumption|]. split; [reflexivity|]. unfold share. reflexivity.
Qed.

Lemma payout_amounts_addrs u : map fst (payout_amounts u) = map r_addr (valid_recips (u_recips u)).
Proof. unfold payout_amounts. rewrite map_map. reflexivity. Qed.

(* together the recipients never receive more than the recorded amount *)
Theorem payout_total_le u :
  0 <= u_amount u -> (forall r, In r (u_recips u) -> 0 <= r_weight r) ->
  0 <= outs_total (payout_amounts u) <= u_amount u.
Proof.
  intros Ha Hw. unfold outs_total, payout_amounts. rewrite map_map. simpl.
  set (vr := valid_recips (u_recips u)).
  assert (Hvw : forall r, In r vr -> 0 <= r_weight r).
  { intros r Hr. apply Hw. unfold vr, valid_recips in Hr. apply filter_In in Hr. tauto. }
  assert (Htw : 0 <= total_weight vr).
  { unfold total_weight. apply sumZ_nonneg. intros x Hx. apply in_map_iff in Hx as (r & <- & Hr). auto. }
  unfold share. destruct (total_weight vr =? 0) eqn:E.
  - (* equal split *)
    rewrite sum_const. unfold lenZ. destruct vr as [|r0 l0]; [simpl; lia|].
    set (n := Z.of_nat (length (r0 :: l0))). assert (0 < n) by (unfold n; simpl length; lia).
    pose proof (Z.mul_div_le (u_amount u) n H).
    assert (0 <= u_amount u / n) by (apply Z.div_pos; lia). nia.
  - assert (Hpos : 0 < total_weight vr) by lia.
    split.
    + apply sumZ_nonneg. intros x Hx. apply in_map_iff in Hx as (r & <- & Hr).
      apply Z.div_pos; [|assumption]. specialize (Hvw _ Hr). nia.
    + replace (map (fun x : recipient => u_amount u * r_weight x / total_weight vr) vr)
        with (map (fun x => x / total_weight vr) (map (fun r => u_amount u * r_weight r) vr))
        by (rewrite map_map; reflexivity).
      eapply Z.le_trans; [apply sum_div_le; assumption|].
      assert (Hsum : sumZ (map (fun r => u_amount u * r_weight r) vr) = u_amount u * total_weight vr).
      { unfold total_weight. clear. induction vr as [|r l IH]; simpl; [lia|]. rewrite IH. lia. }
      rewrite Hsum. rewrite Z.div_mul by lia. lia.
Qed.

(* ---------- effect of paying one record on the ledger ---------- *)
Lemma pay_one_other method tid denom l f o l' a d :
  pay_one method tid denom l f o = Some l' ->
  a <> treasury tid -> a <> fst o -> a <> sbt_supply ->
  bal_get l' a d = bal_get l a d.
Proof.
  destruct o as [addr amt]. unfold pay_one. simpl. intros H Ht Ha Hs.
  destruct f; [discriminate|].
  destruct (method =? 0).
  - destruct (amt =? 0); [inversion H; reflexivity|].
    destruct (bal_get l (treasury tid) denom <? amt); [discriminate|].
    inversion H; subst. rewrite !bal_get_add_other by congruence. reflexivity.
  - destruct (method =? 1).
    + destruct (two256 <=? _); [discriminate|]. inversion H; subst.
      rewrite !bal_get_add_other by congruence. reflexivity.
    + destruct (method =? 4); [|discriminate]. inversion H; reflexivity.
Qed.

(* native payout: the treasury is debited by exactly what the recipient receives *)
Lemma pay_one_native_treasury tid denom l o l' d :
  pay_one 0 tid denom l false o = Some l' -> fst o <> treasury tid ->
  bal_get l' (treasury tid) d = bal_get l (treasury tid) d - (if bytes_eqb d denom then snd o else 0).
Proof.
  destruct o as [addr amt]. unfold pay_one. simpl. intros H Hne.
  destruct (amt =? 0) eqn:E0.
  - inversion H; subst. destruct (bytes_eqb d denom); lia.
  - destruct (bal_get l (treasury tid) denom <? amt); [discriminate|]. inversion H; subst.
    rewrite bal_get_add_other by congruence.
    destruct (bytes_eqb d denom) eqn:Ed.
    + apply bytes_eqb_eq in Ed. subst. rewrite bal_get_add_same. lia.
    + apply bytes_eqb_neq in Ed. rewrite bal_get_add_other by congruence. lia.
Qed.

Lemma pay_all_native_treasury tid denom d : forall outs l faults l' f',
  pay_all 0 tid denom l faults outs = (Some l', f') ->
  (forall o, In o outs -> fst o <> treasury tid) ->
  bal_get l' (treasury tid) d = bal_get l (treasury tid) d - (if bytes_eqb d denom then outs_total outs else 0).
Proof.
  induction outs as [|o outs IH]; intros l faults l' f' Hp Hne; simpl in Hp.
  - inversion Hp; subst. unfold outs_total; simpl. destruct (bytes_eqb d denom); lia.
  - destruct (pay_one 0 tid denom l (match faults with [] => false | f :: _ => f end) o) as [l1|] eqn:E1; [|discriminate].
    assert (Hf : match faults with [] => false | f :: _ => f end = false).
    { destruct faults as [|[] ?]; try reflexivity. unfold pay_one in E1. destruct o. discriminate. }
    rewrite Hf in E1.
    apply IH in Hp; [|intros; apply Hne; right; assumption].
    rewrite Hp. rewrite (pay_one_native_treasury _ _ _ _ _ d E1) by (apply Hne; left; reflexivity).
    unfold outs_total. simpl. destruct (bytes_eqb d denom); lia.
Qed.

(* mint payout: no bank balance of the treasury changes *)
Lemma pay_all_mint_treasury tid denom d : forall outs l faults l' f',
  pay_all 1 tid denom l faults outs = (Some l', f') ->
  (forall o, In o outs -> fst o <> treasury tid) -> 0 <= tid ->
  bal_get l' (treasury tid) d = bal_get l (treasury tid) d.
Proof.
  induction outs as [|o outs IH]; intros l faults l' f' Hp Hne Htid; simpl in Hp.
  - inversion Hp; subst. reflexivity.
  - destruct (pay_one 1 tid denom l (match faults with [] => false | f :: _ => f end) o) as [l1|] eqn:E1; [|discriminate].
    apply IH in Hp; [|intros; apply Hne; right; assumption|assumption]. rewrite Hp.
    destruct o as [addr amt]. unfold pay_one in E1. simpl in E1.
    destruct (match faults with [] => false | f :: _ => f end); [discriminate|].
    destruct (two256 <=? _); [discriminate|].
    inversion E1; subst. rewrite !bal_get_add_other; [reflexivity| |].
    + intro H. inversion H as [[H1 H2]]. apply (Hne (addr, amt)); [left; reflexivity|simpl; congruence].
    + intro H. inversion H as [[H1 H2]]. unfold treasury, sbt_supply, two160 in H1. lia.
Qed.

(* without faults a native payout succeeds as soon as the treasury covers the total *)
Lemma pay_all_succeeds tid denom : forall outs l,
  (forall o, In o outs -> 0 <= snd o /\ fst o <> treasury tid) ->
  outs_total outs <= bal_get l (treasury tid) denom ->
  exists l', pay_all 0 tid denom l [] outs = (Some l', []).
Proof.
  induction outs as [|[addr amt] outs IH]; intros l Hok Hle; simpl.
  - eauto.
  - unfold outs_total in Hle. simpl in Hle.
    destruct (Hok (addr, amt) (or_introl eq_refl)) as [Hamt Hne]. simpl in *.
    assert (Hrest : 0 <= sumZ (map snd outs)).
    { apply sumZ_nonneg. intros x Hx. apply in_map_iff in Hx as (o & <- & Ho). apply Hok. right. assumption. }
    unfold pay_one. simpl. destruct (amt =? 0) eqn:E0.
    + apply IH; [intros; apply Hok; right; assumption|unfold outs_total; lia].
    + destruct (bal_get l (treasury tid) denom <? amt) eqn:El; [lia|].
      apply IH; [intros; apply Hok; right; assumption|].
      rewrite bal_get_add_other by congruence. rewrite bal_get_add_same. unfold outs_total. lia.
Qed.
