(* Oracle reward distribution (keeper/feeder.go RewardBallotWinners): shares, bounds, conservation. *)
From Settlus Require Import Base.Prelude Base.Hex Base.Dec Oracle.Arith Settlement.Model Oracle.Model
  Proofs.Payout Proofs.OracleEnd.
From Coq Require Import Psatz.

(* ---------- one share ---------- *)
Lemma chop_round_exact x : 0 <= x -> x mod prec = 0 -> chop_round x = x / prec.
Proof.
  intros Hx Hm. unfold chop_round. destruct (x <? 0) eqn:E; [lia|].
  apply round_half_even_exact; [assumption|apply prec_pos|assumption].
Qed.

(* rewardCoins = trunc( pool * (w / wsum) ), with Dec.QuoInt64 truncating at 10^-18 and Dec.Mul exact here *)
Lemma reward_of_formula amt wsum w : 0 <= amt -> 0 <= w -> 0 < wsum ->
  reward_of amt wsum w = (amt * ((w * prec) / wsum)) / prec.
Proof.
  intros Ha Hw Hs. unfold reward_of, dec_mul, dec_of_int, dec_quo_int, dec_truncate_int.
  assert (Hq : Z.quot (w * prec) wsum = (w * prec) / wsum).
  { apply Z.quot_div_nonneg; [pose proof prec_pos; nia|assumption]. }
  rewrite Hq. set (q := (w * prec) / wsum).
  assert (Hq0 : 0 <= q) by (apply Z.div_pos; [pose proof prec_pos; nia|assumption]).
  assert (Hex : chop_round (amt * prec * q) = amt * q).
  { rewrite chop_round_exact.
    - replace (amt * prec * q) with (amt * q * prec) by ring. apply Z.div_mul. unfold prec; lia.
    - pose proof prec_pos. nia.
    - replace (amt * prec * q) with (amt * q * prec) by ring. apply Z.mod_mul. unfold prec; lia. }
  rewrite Hex. apply Z.quot_div_nonneg; [nia|apply prec_pos].
Qed.

(* in proportion to the voting power, rounded down: never more than amt*w/wsum, and less than one unit
   plus amt/10^18 below it *)
Lemma reward_of_proportional amt wsum w : 0 <= amt -> 0 <= w -> 0 < wsum ->
  0 <= reward_of amt wsum w /\
  reward_of amt wsum w * wsum <= amt * w /\
  amt * w * prec < (reward_of amt wsum w + 1) * wsum * prec + amt * wsum.
Proof.
  intros Ha Hw Hs. rewrite reward_of_formula by assumption.
  pose proof prec_pos as HP.
  set (q := (w * prec) / wsum).
  assert (Hq0 : 0 <= q) by (apply Z.div_pos; [nia|assumption]).
  pose proof (Z.mul_div_le (w * prec) wsum Hs) as Hq1. fold q in Hq1.
  pose proof (Z.mod_pos_bound (w * prec) wsum Hs) as Hq2.
  pose proof (Z.div_mod (w * prec) wsum ltac:(lia)) as Hq3. fold q in Hq3.
  set (r := (amt * q) / prec).
  assert (Hr0 : 0 <= r) by (apply Z.div_pos; [nia|assumption]).
  pose proof (Z.mul_div_le (amt * q) prec HP) as Hr1. fold r in Hr1.
  pose proof (Z.mod_pos_bound (amt * q) prec HP) as Hr2.
  pose proof (Z.div_mod (amt * q) prec ltac:(lia)) as Hr3. fold r in Hr3.
  split; [assumption|]. split.
  - (* r * prec <= amt*q and q*wsum <= w*prec *)
    assert (r * prec * wsum <= amt * w * prec) by nia. nia.
  - assert (amt * (w * prec) < amt * (wsum * q + wsum) \/ amt = 0) by nia.
    assert (amt * q < r * prec + prec) by lia. nia.
Qed.

(* ---------- never more than the pool holds ---------- *)
Lemma sum_scale {A} (f : A -> Z) a l : sumZ (map (fun c => a * f c) l) = a * sumZ (map f l).
Proof. induction l as [|c l IH]; simpl; [ring|]. rewrite IH. ring. Qed.

Lemma sum_floor_shares (ws : list (Z * Z)) wsum : 0 < wsum ->
  (forall c, In c ws -> 0 <= snd c) -> sumZ (map snd ws) = wsum ->
  sumZ (map (fun c : Z * Z => (snd c * prec) / wsum) ws) <= prec.
Proof.
  intros Hs Hw Hsum.
  replace (map (fun c : Z * Z => snd c * prec / wsum) ws)
    with (map (fun x => x / wsum) (map (fun c : Z * Z => snd c * prec) ws)) by (rewrite map_map; reflexivity).
  eapply Z.le_trans; [apply sum_div_le; assumption|].
  assert (Ht : sumZ (map (fun c : Z * Z => snd c * prec) ws) = wsum * prec).
  { rewrite <- Hsum. clear. induction ws as [|c ws IH]; simpl; [reflexivity|]. rewrite IH. ring. }
  rewrite Ht. rewrite Z.mul_comm, Z.div_mul by lia. lia.
Qed.

Theorem paid_bounds amt (ws : list (Z * Z)) : 0 <= amt ->
  (forall c, In c ws -> 0 <= snd c) -> 0 < sumZ (map snd ws) ->
  0 <= sumZ (map (fun c : Z * Z => reward_of amt (sumZ (map snd ws)) (snd c)) ws) <= amt.
Proof.
  intros Ha Hw Hs. set (wsum := sumZ (map snd ws)) in *.
  assert (Heq : map (fun c : Z * Z => reward_of amt wsum (snd c)) ws
                = map (fun c : Z * Z => (amt * ((snd c * prec) / wsum)) / prec) ws).
  { apply map_ext_in. intros c Hc. apply reward_of_formula; [assumption|apply Hw; assumption|assumption]. }
  rewrite Heq. split.
  - apply sumZ_nonneg. intros x Hx. apply in_map_iff in Hx as (c & <- & Hc).
    apply Z.div_pos; [|apply prec_pos].
    assert (0 <= snd c * prec / wsum) by (apply Z.div_pos; [specialize (Hw c Hc); pose proof prec_pos; nia|assumption]). nia.
  - replace (map (fun c : Z * Z => amt * (snd c * prec / wsum) / prec) ws)
      with (map (fun x => x / prec) (map (fun c : Z * Z => amt * (snd c * prec / wsum)) ws)) by (rewrite map_map; reflexivity).
    eapply Z.le_trans; [apply sum_div_le; apply prec_pos|].
    rewrite (sum_scale (fun c : Z * Z => snd c * prec / wsum) amt ws). pose proof (sum_floor_shares ws wsum Hs Hw eq_refl) as Hle.
    apply Z.div_le_upper_bound; [apply prec_pos|]. nia.
Qed.

(* ---------- conservation: what leaves the pool is what is credited ---------- *)
Lemma coin_get_add_same l d x : coin_get (coin_add l d x) d = coin_get l d + x.
Proof.
  unfold coin_get, coin_add. induction l as [|[d' v] l IH]; simpl.
  - rewrite bytes_eqb_refl. lia.
  - destruct (bytes_eqb d d') eqn:E; simpl.
    + rewrite bytes_eqb_refl. reflexivity.
    + rewrite E. exact IH.
Qed.

Lemma coin_get_add_other l d x d2 : d2 <> d -> coin_get (coin_add l d x) d2 = coin_get l d2.
Proof.
  intros Hne. unfold coin_get, coin_add. induction l as [|[d' v] l IH]; simpl.
  - assert (E : bytes_eqb d2 d = false) by (apply bytes_eqb_neq; assumption). rewrite E. reflexivity.
  - destruct (bytes_eqb d d') eqn:E; simpl.
    + apply bytes_eqb_eq in E. subst d'.
      assert (E2 : bytes_eqb d2 d = false) by (apply bytes_eqb_neq; assumption). rewrite E2. reflexivity.
    + destruct (bytes_eqb d2 d'); [reflexivity|exact IH].
Qed.

Definition books (pool cred : list (bytes * Z)) (d : bytes) : Z := coin_get pool d * prec + coin_get cred d.

Lemma reward_denom_books ws wsum pool cred c pool' cred' d :
  reward_denom ws wsum (pool, cred) c = (pool', cred') -> books pool' cred' d = books pool cred d.
Proof.
  unfold reward_denom. destruct c as [d0 amt]. intros H. inversion H; subst. unfold books, dec_of_int.
  destruct (list_eq_dec Z.eq_dec d d0) as [->|Hne].
  - rewrite !coin_get_add_same. ring.
  - rewrite !coin_get_add_other by assumption. reflexivity.
Qed.

Lemma fold_reward_books ws wsum L : forall pool cred pool' cred' d,
  fold_left (reward_denom ws wsum) L (pool, cred) = (pool', cred') -> books pool' cred' d = books pool cred d.
Proof.
  induction L as [|c L IH]; intros pool cred pool' cred' d H; cbn [fold_left] in H.
  - inversion H; subst. reflexivity.
  - destruct (reward_denom ws wsum (pool, cred) c) as [p1 c1] eqn:E.
    rewrite (IH _ _ _ _ d H). eapply reward_denom_books; eassumption.
Qed.

Theorem reward_conserves o cl miss d :
  books (o_pool (reward o cl miss)) (o_credited (reward o cl miss)) d = books (o_pool o) (o_credited o) d.
Proof.
  unfold reward. destruct (sumZ (map snd (winners cl miss)) =? 0); [reflexivity|].
  destruct (fold_left _ (o_pool o) (o_pool o, o_credited o)) as [pool cred] eqn:E. simpl.
  eapply fold_reward_books; eassumption.
Qed.

(* ---------- the credit lines ---------- *)
Lemma dec_mul_trunc_int rew rate : 0 <= rew -> 0 <= rate ->
  dec_mul_trunc (dec_of_int rew) rate = rew * rate.
Proof.
  intros Hr Ht. unfold dec_mul_trunc, dec_of_int.
  replace (rew * prec * rate) with (rew * rate * prec) by ring.
  rewrite Z.quot_div_nonneg by (pose proof prec_pos; nia). apply Z.div_mul. unfold prec; lia.
Qed.

Theorem reward_line_spec o cl miss a d fin con :
  In (a, d, fin, con) (reward_lines o cl miss) ->
  let ws := winners cl miss in
  let wsum := sumZ (map snd ws) in
  exists w amt, In (a, w) ws /\ In (d, amt) (o_pool o) /\
    fin + con = dec_of_int (reward_of amt wsum w) /\
    con = dec_mul_trunc (dec_of_int (reward_of amt wsum w)) (rate_of o a) /\
    reward_of amt wsum w <> 0.
Proof.
  intros H. cbv zeta. unfold reward_lines in H. cbv zeta in H.
  set (ws := winners cl miss) in *. set (wsum := sumZ (map snd ws)) in *.
  destruct (wsum =? 0); [destruct H|].
  apply in_concat in H as (l1 & Hl1 & Hin1). apply in_map_iff in Hl1 as ([a0 w] & <- & Hw).
  apply in_concat in Hin1 as (l2 & Hl2 & Hin2). apply in_map_iff in Hl2 as ([d0 amt] & <- & Hc).
  simpl in Hin2. destruct (reward_of amt wsum w =? 0) eqn:E; [destruct Hin2|].
  destruct Hin2 as [Heq|[]]. inversion Heq; subst.
  exists w, amt. repeat split; try assumption; [lia|lia].
Qed.

Lemma winners_In cl miss a w : In (a, w) (winners cl miss) <-> In (a, w) cl /\ ~ In a miss.
Proof.
  unfold winners. rewrite filter_In. simpl. split; intros [H1 H2]; (split; [assumption|]).
  - intro Hin. apply memZ_In in Hin. rewrite Hin in H2. discriminate.
  - destruct (memZ a miss) eqn:E; [apply memZ_In in E; contradiction|reflexivity].
Qed.
