(* Tenant isolation (C13): what one tenant can observe - its tenant record, its pending records, its
   request-id index, its id counter, its treasury and token supply - is not touched by anything another
   tenant does, and the tenant's own operations depend on nothing else. *)
From Coq Require Import Sorting.Sorted.
From Settlus Require Import Base.Prelude Base.Hex Settlement.Model Settlement.Machine
  Proofs.StoreLemmas Proofs.SettlementInv Proofs.SettlementEnd Proofs.SettlementAuth Proofs.SettlementRun Proofs.Payout.

Definition msg_tenant (m : smsg) : option Z :=
  match m with
  | MCreateTenant _ _ _ | MCreateTenantMC _ _ _ _ _ => None
  | MAddAdmin _ t _ | MRemoveAdmin _ t _ | MUpdatePeriod _ t _ | MDeposit _ t _ _
  | MRecord _ t _ _ _ _ _ _ | MCancel _ t _ => Some t
  end.

Definition msg_sender (m : smsg) : Z :=
  match m with
  | MCreateTenant s _ _ | MCreateTenantMC s _ _ _ _ | MAddAdmin s _ _ | MRemoveAdmin s _ _ | MUpdatePeriod s _ _
  | MDeposit s _ _ _ | MRecord s _ _ _ _ _ _ _ | MCancel s _ _ => s
  end.

(* accounts are 20-byte addresses; treasuries and the supply pseudo account lie outside *)
Definition is_account (a : Z) : Prop := 0 <= a < two160.

(* the two states show tenant [t] the same things *)
Record agree (t : Z) (s1 s2 : sstate) : Prop := mkAgree {
  ag_ten : find_tenant (s_tenants s1) t = find_tenant (s_tenants s2) t;
  ag_rec : forall u, utxr_get (s_utxrs s1) t u = utxr_get (s_utxrs s2) t u;
  ag_idx : forall r, idx_get (s_idx s1) t r = idx_get (s_idx s2) t r;
  ag_last : zlookup t (s_last s1) = zlookup t (s_last s2);
  ag_tre : forall d, bal_get (s_bal s1) (treasury t) d = bal_get (s_bal s2) (treasury t) d;
  ag_sup : bal_get (s_bal s1) sbt_supply (sbt_asset t) = bal_get (s_bal s2) sbt_supply (sbt_asset t);
  ag_own : s_owners s1 = s_owners s2;
  ag_chain : s_chain s1 = s_chain s2;
  ag_supp : s_supported s1 = s_supported s2;
  ag_max : largest_tenant_id (s_tenants s1) = largest_tenant_id (s_tenants s2)
}.

Lemma agree_refl t s : agree t s s.
Proof. constructor; reflexivity. Qed.
Lemma agree_sym t s1 s2 : agree t s1 s2 -> agree t s2 s1.
Proof. intros [A B C D E F G H I J]. constructor; intros; symmetry; auto. Qed.
Lemma agree_trans t s1 s2 s3 : agree t s1 s2 -> agree t s2 s3 -> agree t s1 s3.
Proof.
  intros [A B C D E F G H I J] [A' B' C' D' E' F' G' H' I' J']. constructor.
  - congruence.
  - intros u. rewrite B. apply B'.
  - intros r. rewrite C. apply C'.
  - congruence.
  - intros d. rewrite E. apply E'.
  - congruence.
  - congruence.
  - congruence.
  - congruence.
  - congruence.
Qed.

(* ---------- store lemmas: another tenant's key does not disturb tenant t ---------- *)
Lemma utxr_get_ins_tenant l t' u x t u0 : t' <> t -> utxr_get (utxr_ins l t' u x) t u0 = utxr_get l t u0.
Proof. intros H. apply utxr_get_ins_other. congruence. Qed.
Lemma utxr_get_del_tenant l t' u t u0 : t' <> t -> utxr_get (utxr_del l t' u) t u0 = utxr_get l t u0.
Proof. intros H. apply utxr_get_del_other. congruence. Qed.
Lemma idx_get_cons_tenant l t' r u t r0 : t' <> t -> idx_get ((t', r, u) :: l) t r0 = idx_get l t r0.
Proof. intros H. apply idx_get_cons_other. congruence. Qed.
Lemma idx_get_del_tenant l t' r t r0 : t' <> t -> idx_get (idx_del l t' r) t r0 = idx_get l t r0.
Proof. intros H. apply idx_get_del_other. congruence. Qed.

Lemma treasury_inj t t' : treasury t = treasury t' -> t = t'.
Proof. unfold treasury. lia. Qed.
Lemma account_not_treasury a t : is_account a -> 0 <= t -> a <> treasury t.
Proof. unfold is_account, treasury. lia. Qed.
Lemma account_not_supply a : is_account a -> a <> sbt_supply.
Proof. unfold is_account, sbt_supply. lia. Qed.
Lemma treasury_not_supply t : 0 <= t -> treasury t <> sbt_supply.
Proof. unfold treasury, sbt_supply, two160. lia. Qed.

(* ---------- (1) a message addressed to another tenant leaves tenant t's view as it was ---------- *)
Theorem other_message_frame t s h m s' g t' :
  handle s h m = Ok (s', g) -> msg_tenant m = Some t' -> t' <> t -> 0 <= t -> 0 <= t' ->
  is_account (msg_sender m) -> agree t s s'.
Proof.
  intros Hh Hm Hne Ht Ht' Hacc. unfold handle in Hh. destruct (negb (validate_basic m)); [discriminate|].
  destruct m; simpl in Hm; try discriminate; inversion Hm; subst; simpl in Hacc.
  - destruct (negb (is_admin s t' sender)); [discriminate|].
    destruct (find_tenant (s_tenants s) t') as [tn|] eqn:Ef; [|discriminate].
    destruct (memZ admin (t_admins tn)); [discriminate|]. inversion Hh; subst.
    pose proof (find_tenant_id _ _ _ Ef) as Hid.
    constructor; simpl; try reflexivity.
    + symmetry. apply find_replace_other. simpl. lia.
    + rewrite largest_replace. reflexivity.
  - destruct (negb (is_admin s t' sender)); [discriminate|].
    destruct (find_tenant (s_tenants s) t') as [tn|] eqn:Ef; [|discriminate].
    destruct (negb (memZ admin (t_admins tn))); [discriminate|].
    destruct (lenZ (t_admins tn) =? 1); [discriminate|]. inversion Hh; subst.
    pose proof (find_tenant_id _ _ _ Ef) as Hid.
    constructor; simpl; try reflexivity.
    + symmetry. apply find_replace_other. simpl. lia.
    + rewrite largest_replace. reflexivity.
  - destruct (negb (is_admin s t' sender)); [discriminate|].
    destruct (find_tenant (s_tenants s) t') as [tn|] eqn:Ef; [|discriminate]. inversion Hh; subst.
    pose proof (find_tenant_id _ _ _ Ef) as Hid.
    constructor; simpl; try reflexivity.
    + symmetry. apply find_replace_other. simpl. lia.
    + rewrite largest_replace. reflexivity.
  - destruct (find_tenant (s_tenants s) t') as [tn|] eqn:Ef; [|discriminate].
    destruct (negb (t_method tn =? 0)); [discriminate|].
    destruct (bal_get (s_bal s) sender denom <? amount); [discriminate|]. inversion Hh; subst.
    pose proof (account_not_treasury sender t Hacc Ht). pose proof (account_not_supply sender Hacc).
    pose proof (treasury_not_supply t' Ht').
    constructor; simpl; try reflexivity.
    + intros d. rewrite !bal_get_add_other; [reflexivity| |]; intro E; inversion E as [[E1 E2]].
      * symmetry in E1. contradiction.
      * apply treasury_inj in E1. congruence.
    + rewrite !bal_get_add_other; [reflexivity| |]; intro E; inversion E as [[E1 E2]].
      * symmetry in E1. contradiction.
      * symmetry in E1. contradiction.
  - destruct (negb (is_admin s t' sender)); [discriminate|].
    destruct (find_tenant (s_tenants s) t') as [tn|]; [|discriminate].
    destruct (negb (bytes_eqb (t_denom tn) denom)); [discriminate|].
    destruct (t_period tn =? 0); [discriminate|].
    destruct (get_recipients s chain contract tokhex) as [rs| |]; try discriminate.
    unfold create_utxr in Hh. destruct (idx_get (s_idx s) t' _); [discriminate|].
    inversion Hh; subst. constructor; simpl; try reflexivity.
    + intros u. symmetry. apply utxr_get_ins_tenant. assumption.
    + intros r. symmetry. apply idx_get_cons_tenant. assumption.
    + symmetry. apply zlookup_zinsert_other. congruence.
  - destruct (find_tenant (s_tenants s) t') as [tn|]; [|discriminate].
    destruct (negb (is_admin s t' sender)); [discriminate|].
    destruct (idx_get (s_idx s) t' req) as [uid|]; [|discriminate].
    inversion Hh; subst. constructor; simpl; try reflexivity.
    + intros u. symmetry. apply utxr_get_del_tenant. assumption.
    + intros r. symmetry. apply idx_get_del_tenant. assumption.
Qed.

(* a whole transaction of other tenants: accepted or rejected, tenant t sees nothing *)
Theorem other_tx_frame t : forall msgs s h,
  0 <= t -> (forall m, In m msgs -> exists t', msg_tenant m = Some t' /\ t' <> t /\ 0 <= t' /\ is_account (msg_sender m)) ->
  forall s' g, handle_all s h msgs = Ok (s', g) -> agree t s s'.
Proof.
  induction msgs as [|m msgs IH]; intros s h Ht Hall s' g H; simpl in H.
  - inversion H; subst. apply agree_refl.
  - destruct (handle s h m) as [[s1 g1]| |] eqn:E1; try discriminate.
    destruct (handle_all s1 h msgs) as [[s2 g2]| |] eqn:E2; try discriminate. inversion H; subst.
    destruct (Hall m (or_introl eq_refl)) as (t' & Hm & Hne & Ht' & Hacc).
    eapply agree_trans.
    + eapply other_message_frame; eassumption.
    + eapply IH; [assumption| |eassumption]. intros m0 Hin. apply Hall. right. assumption.
Qed.

(* ---------- (2) tenant t's own message: same verdict, same effect, in states that agree on t ---------- *)
Definition same_outcome (t : Z) (r1 r2 : outcome (sstate * list gev)) : Prop :=
  match r1, r2 with
  | Ok (s1, g1), Ok (s2, g2) => agree t s1 s2 /\ g1 = g2
  | Rejected, Rejected => True
  | Panic, Panic => True
  | _, _ => False
  end.

Lemma is_admin_agree t s1 s2 a : agree t s1 s2 -> is_admin s1 t a = is_admin s2 t a.
Proof. intros H. unfold is_admin. rewrite (ag_ten _ _ _ H). reflexivity. Qed.

Lemma get_recipients_agree t s1 s2 c k tok : agree t s1 s2 -> get_recipients s1 c k tok = get_recipients s2 c k tok.
Proof. intros H. unfold get_recipients. rewrite (ag_own _ _ _ H), (ag_chain _ _ _ H), (ag_supp _ _ _ H). reflexivity. Qed.

Theorem own_message_congruence t s1 s2 h m :
  agree t s1 s2 -> msg_tenant m = Some t -> 0 <= t -> is_account (msg_sender m) ->
  (* a deposit finds the depositor equally funded in both states *)
  (forall sender tid denom amount, m = MDeposit sender tid denom amount ->
     (bal_get (s_bal s1) sender denom <? amount) = (bal_get (s_bal s2) sender denom <? amount)) ->
  same_outcome t (handle s1 h m) (handle s2 h m).
Proof.
  intros HA Hm Ht Hacc Hdep. unfold handle. destruct (negb (validate_basic m)); [exact I|].
  destruct m; simpl in Hm; try discriminate; inversion Hm; subst; simpl in Hacc.
  - rewrite <- (is_admin_agree t s1 s2 sender HA). destruct (negb (is_admin s1 t sender)); [exact I|].
    rewrite <- (ag_ten _ _ _ HA). destruct (find_tenant (s_tenants s1) t) as [tn|] eqn:Ef; [|exact I].
    destruct (memZ admin (t_admins tn)); [exact I|]. simpl. split; [|reflexivity].
    pose proof (find_tenant_id _ _ _ Ef) as Hid.
    assert (Ef2 : find_tenant (s_tenants s2) t = Some tn) by (rewrite <- (ag_ten _ _ _ HA); assumption).
    destruct HA as [A B C D E F G H I J]. constructor; simpl; try assumption.
    + set (tn' := mkTenant (t_id tn) (t_admins tn ++ [admin]) (t_denom tn) (t_period tn) (t_method tn)).
      replace t with (t_id tn') by (simpl; assumption).
      rewrite !find_replace_same; [reflexivity| |]; simpl; rewrite Hid; congruence.
    + rewrite !largest_replace. assumption.
  - rewrite <- (is_admin_agree t s1 s2 sender HA). destruct (negb (is_admin s1 t sender)); [exact I|].
    rewrite <- (ag_ten _ _ _ HA). destruct (find_tenant (s_tenants s1) t) as [tn|] eqn:Ef; [|exact I].
    destruct (negb (memZ admin (t_admins tn))); [exact I|].
    destruct (lenZ (t_admins tn) =? 1); [exact I|]. simpl. split; [|reflexivity].
    pose proof (find_tenant_id _ _ _ Ef) as Hid.
    assert (Ef2 : find_tenant (s_tenants s2) t = Some tn) by (rewrite <- (ag_ten _ _ _ HA); assumption).
    destruct HA as [A B C D E F G H I J]. constructor; simpl; try assumption.
    + set (tn' := mkTenant (t_id tn) (remove_first admin (t_admins tn)) (t_denom tn) (t_period tn) (t_method tn)).
      replace t with (t_id tn') by (simpl; assumption).
      rewrite !find_replace_same; [reflexivity| |]; simpl; rewrite Hid; congruence.
    + rewrite !largest_replace. assumption.
  - rewrite <- (is_admin_agree t s1 s2 sender HA). destruct (negb (is_admin s1 t sender)); [exact I|].
    rewrite <- (ag_ten _ _ _ HA). destruct (find_tenant (s_tenants s1) t) as [tn|] eqn:Ef; [|exact I].
    simpl. split; [|reflexivity].
    pose proof (find_tenant_id _ _ _ Ef) as Hid.
    assert (Ef2 : find_tenant (s_tenants s2) t = Some tn) by (rewrite <- (ag_ten _ _ _ HA); assumption).
    destruct HA as [A B C D E F G H I J]. constructor; simpl; try assumption.
    + set (tn' := mkTenant (t_id tn) (t_admins tn) (t_denom tn) period (t_method tn)).
      replace t with (t_id tn') by (simpl; assumption).
      rewrite !find_replace_same; [reflexivity| |]; simpl; rewrite Hid; congruence.
    + rewrite !largest_replace. assumption.
  - rewrite <- (ag_ten _ _ _ HA). destruct (find_tenant (s_tenants s1) t) as [tn|] eqn:Ef; [|exact I].
    destruct (negb (t_method tn =? 0)); [exact I|].
    rewrite <- (Hdep sender t denom amount eq_refl).
    destruct (bal_get (s_bal s1) sender denom <? amount); [exact I|]. simpl. split; [|reflexivity].
    pose proof (account_not_treasury sender t Hacc Ht). pose proof (account_not_supply sender Hacc).
    pose proof (treasury_not_supply t Ht).
    destruct HA as [A B C D E F G H' I' J]. constructor; simpl; try assumption.
    + intros d. destruct (list_eq_dec Z.eq_dec d denom) as [->|Hd].
      * rewrite !bal_get_add_same. rewrite !bal_get_add_other by (intro X; inversion X; congruence). rewrite E. reflexivity.
      * rewrite !bal_get_add_other by (intro X; inversion X; congruence). apply E.
    + rewrite !bal_get_add_other by (intro X; inversion X; congruence). assumption.
  - rewrite <- (is_admin_agree t s1 s2 sender HA). destruct (negb (is_admin s1 t sender)); [exact I|].
    rewrite <- (ag_ten _ _ _ HA). destruct (find_tenant (s_tenants s1) t) as [tn|] eqn:Ef; [|exact I].
    destruct (negb (bytes_eqb (t_denom tn) denom)); [exact I|].
    destruct (t_period tn =? 0); [exact I|].
    rewrite <- (get_recipients_agree t s1 s2 chain contract tokhex HA).
    destruct (get_recipients s1 chain contract tokhex) as [rs| |]; try exact I.
    unfold create_utxr. simpl. rewrite <- (ag_idx _ _ _ HA req).
    destruct (idx_get (s_idx s1) t req); [exact I|].
    assert (Hnext : next_uid s1 t = next_uid s2 t) by (unfold next_uid; rewrite (ag_last _ _ _ HA); reflexivity).
    rewrite <- Hnext. simpl. split; [|reflexivity].
    destruct HA as [A B C D E F G H' I' J]. constructor; simpl; try assumption.
    + intros u. destruct (Z.eq_dec u (next_uid s1 t)) as [->|Hu].
      * rewrite !utxr_get_ins_same. reflexivity.
      * rewrite !utxr_get_ins_other by congruence. apply B.
    + intros r. rewrite Z.eqb_refl. simpl. destruct (bytes_eqb req r); [reflexivity|apply C].
    + rewrite !zlookup_zinsert_same. reflexivity.
  - rewrite <- (ag_ten _ _ _ HA). destruct (find_tenant (s_tenants s1) t) as [tn|]; [|exact I].
    rewrite <- (is_admin_agree t s1 s2 sender HA). destruct (negb (is_admin s1 t sender)); [exact I|].
    rewrite <- (ag_idx _ _ _ HA req). destruct (idx_get (s_idx s1) t req) as [uid|]; [|exact I].
    simpl. split; [|reflexivity].
    destruct HA as [A B C D E F G H' I' J]. constructor; simpl; try assumption.
    + intros u. destruct (Z.eq_dec u uid) as [->|Hu].
      * rewrite !utxr_get_del_same. reflexivity.
      * rewrite !utxr_get_del_other by congruence. apply B.
    + intros r. destruct (list_eq_dec Z.eq_dec r req) as [->|Hr].
      * rewrite !idx_get_del_same. reflexivity.
      * rewrite !idx_get_del_other by congruence. apply C.
Qed.

(* creating a tenant (by anyone) is the same event in both states: same new id, same record *)
Theorem create_tenant_congruence t s1 s2 h m :
  agree t s1 s2 -> msg_tenant m = None -> same_outcome t (handle s1 h m) (handle s2 h m).
Proof.
  intros HA Hm. unfold handle. destruct (negb (validate_basic m)); [exact I|].
  destruct m; simpl in Hm; try discriminate; simpl; (split; [|reflexivity]);
    destruct HA as [A B C D E F G H' I' J]; constructor; simpl; try assumption.
  - rewrite J. destruct (find_tenant (s_tenants s1) t) as [x|] eqn:E1.
    + rewrite (find_tenant_app_old _ _ _ _ E1). symmetry. apply find_tenant_app_old. symmetry. exact A.
    + rewrite (find_tenant_app_new _ _ _ E1). symmetry in A. rewrite (find_tenant_app_new _ _ _ A). reflexivity.
  - unfold largest_tenant_id in *. rewrite !fold_max_app. simpl. rewrite J. reflexivity.
  - rewrite J. destruct (find_tenant (s_tenants s1) t) as [x|] eqn:E1.
    + rewrite (find_tenant_app_old _ _ _ _ E1). symmetry. apply find_tenant_app_old. symmetry. exact A.
    + rewrite (find_tenant_app_new _ _ _ E1). symmetry in A. rewrite (find_tenant_app_new _ _ _ A). reflexivity.
  - unfold largest_tenant_id in *. rewrite !fold_max_app. simpl. rewrite J. reflexivity.
Qed.

(* ---------- (3) the oracle fill: the same accepted owners give tenant t the same filled records ---------- *)
Theorem fill_congruence t s1 s2 fill before s1' g1 s2' g2 :
  agree t s1 s2 -> set_recipients s1 fill before = (s1', g1) -> set_recipients s2 fill before = (s2', g2) ->
  agree t s1' s2'.
Proof.
  intros HA H1 H2. unfold set_recipients in *.
  pose proof (set_recipients_list_map (s_utxrs s1) fill before) as M1.
  pose proof (set_recipients_list_map (s_utxrs s2) fill before) as M2.
  destruct (set_recipients_list (s_utxrs s1) fill before) as [l1 e1].
  destruct (set_recipients_list (s_utxrs s2) fill before) as [l2 e2].
  inversion H1; subst. inversion H2; subst. simpl in M1, M2. subst l1 l2.
  destruct HA as [A B C D E F G H' I' J]. constructor; simpl; try assumption.
  intros u. rewrite !utxr_get_map. rewrite B. reflexivity.
Qed.

(* ---------- (4) payouts ---------- *)
Ltac sidec :=
  let E := fresh "E" in
  intro E; inversion E; subst;
  unfold treasury, sbt_supply, sbt_asset, is_account, two160 in *; first [congruence | lia].

Definition outs_accounts (outs : list (Z * Z)) : Prop := forall o, In o outs -> is_account (fst o).

(* a payout of ANOTHER tenant touches neither tenant t's treasury nor its token supply *)
Lemma pay_one_other_tenant method t' denom l f o l' t :
  pay_one method t' denom l f o = Some l' -> t' <> t -> 0 <= t -> 0 <= t' -> is_account (fst o) ->
  (forall d, bal_get l' (treasury t) d = bal_get l (treasury t) d) /\
  bal_get l' sbt_supply (sbt_asset t) = bal_get l sbt_supply (sbt_asset t).
Proof.
  destruct o as [addr amt]. unfold pay_one. simpl. intros H Hne Ht Ht' Hacc.
  pose proof (account_not_treasury addr t Hacc Ht). pose proof (account_not_supply addr Hacc).
  pose proof (treasury_not_supply t' Ht'). pose proof (treasury_not_supply t Ht).
  destruct f; [discriminate|]. destruct (method =? 0).
  - destruct (amt =? 0); [inversion H; subst; auto|].
    destruct (bal_get l (treasury t') denom <? amt); [discriminate|]. inversion H; subst. split.
    + intros d. rewrite !bal_get_add_other; [reflexivity|sidec|sidec].
    + rewrite !bal_get_add_other; [reflexivity|sidec|sidec].
  - destruct (method =? 1); [|destruct (method =? 4); [inversion H; subst; auto|discriminate]].
    destruct (two256 <=? bal_get l sbt_supply (sbt_asset t') + amt); [discriminate|]. inversion H; subst. split.
    + intros d. rewrite !bal_get_add_other; [reflexivity|sidec|sidec].
    + rewrite !bal_get_add_other; [reflexivity|sidec|sidec].
Qed.

Lemma pay_all_other_tenant method t' denom t : forall outs l faults l' f',
  pay_all method t' denom l faults outs = (Some l', f') -> t' <> t -> 0 <= t -> 0 <= t' -> outs_accounts outs ->
  (forall d, bal_get l' (treasury t) d = bal_get l (treasury t) d) /\
  bal_get l' sbt_supply (sbt_asset t) = bal_get l sbt_supply (sbt_asset t).
Proof.
  induction outs as [|o outs IH]; intros l faults l' f' H Hne Ht Ht' Hacc; simpl in H.
  - inversion H; subst. auto.
  - destruct (pay_one method t' denom l (match faults with [] => false | f :: _ => f end) o) as [l1|] eqn:E1; [|discriminate].
    destruct (pay_one_other_tenant _ _ _ _ _ _ _ t E1 Hne Ht Ht' (Hacc o (or_introl eq_refl))) as [A1 A2].
    destruct (IH _ _ _ _ H Hne Ht Ht' (fun o' Ho => Hacc o' (or_intror Ho))) as [B1 B2].
    split; [intros d; rewrite B1; apply A1|rewrite B2; exact A2].
Qed.

(* tenant t's own payout reads and writes, of the ledger, only its treasury and its supply *)
Lemma pay_one_congruence method t denom l1 l2 o :
  0 <= t -> is_account (fst o) ->
  (forall d, bal_get l1 (treasury t) d = bal_get l2 (treasury t) d) ->
  bal_get l1 sbt_supply (sbt_asset t) = bal_get l2 sbt_supply (sbt_asset t) ->
  match pay_one method t denom l1 false o, pay_one method t denom l2 false o with
  | Some l1', Some l2' => (forall d, bal_get l1' (treasury t) d = bal_get l2' (treasury t) d) /\
                          bal_get l1' sbt_supply (sbt_asset t) = bal_get l2' sbt_supply (sbt_asset t)
  | None, None => True
  | _, _ => False
  end.
Proof.
  destruct o as [addr amt]. unfold pay_one. simpl. intros Ht Hacc HT HS.
  pose proof (account_not_treasury addr t Hacc Ht). pose proof (account_not_supply addr Hacc).
  pose proof (treasury_not_supply t Ht).
  destruct (method =? 0).
  - destruct (amt =? 0); [auto|]. rewrite <- (HT denom).
    destruct (bal_get l1 (treasury t) denom <? amt); [exact I|]. split.
    + intros d. rewrite !(bal_get_add_other _ addr) by sidec.
      destruct (list_eq_dec Z.eq_dec d denom) as [->|Hd].
      * rewrite !bal_get_add_same. rewrite HT. reflexivity.
      * rewrite !bal_get_add_other by sidec. apply HT.
    + rewrite !bal_get_add_other by sidec. exact HS.
  - destruct (method =? 1); [|destruct (method =? 4); [split; assumption|exact I]]. rewrite <- HS.
    destruct (two256 <=? bal_get l1 sbt_supply (sbt_asset t) + amt); [exact I|]. split.
    + intros d. rewrite !bal_get_add_other by sidec. apply HT.
    + rewrite !bal_get_add_same. rewrite !(bal_get_add_other _ addr) by sidec. rewrite HS. reflexivity.
Qed.

Lemma pay_all_nofault method t denom : forall outs l, snd (pay_all method t denom l [] outs) = [].
Proof.
  induction outs as [|o outs IH]; intros l; simpl; [reflexivity|].
  destruct (pay_one method t denom l false o); [apply IH|reflexivity].
Qed.

Lemma pay_all_congruence method t denom : forall outs l1 l2,
  0 <= t -> outs_accounts outs ->
  (forall d, bal_get l1 (treasury t) d = bal_get l2 (treasury t) d) ->
  bal_get l1 sbt_supply (sbt_asset t) = bal_get l2 sbt_supply (sbt_asset t) ->
  match fst (pay_all method t denom l1 [] outs), fst (pay_all method t denom l2 [] outs) with
  | Some l1', Some l2' => (forall d, bal_get l1' (treasury t) d = bal_get l2' (treasury t) d) /\
                          bal_get l1' sbt_supply (sbt_asset t) = bal_get l2' sbt_supply (sbt_asset t)
  | None, None => True
  | _, _ => False
  end.
Proof.
  induction outs as [|o outs IH]; intros l1 l2 Ht Hacc HT HS; simpl; [auto|].
  pose proof (pay_one_congruence method t denom l1 l2 o Ht (Hacc o (or_introl eq_refl)) HT HS) as Hone.
  destruct (pay_one method t denom l1 false o) as [l1'|]; destruct (pay_one method t denom l2 false o) as [l2'|]; try contradiction; [|exact I].
  destruct Hone as [HT' HS']. apply IH; try assumption. intros o' Ho. apply Hacc. right. assumption.
Qed.

(* every recipient of every stored record is an account (20-byte address) *)
Definition recips_ok (s : sstate) : Prop :=
  forall x, In x (s_utxrs s) -> forall r, In r (u_recips (snd x)) -> is_account (r_addr r).

Lemma payout_outs_accounts u : (forall r, In r (u_recips u) -> is_account (r_addr r)) -> outs_accounts (payout_amounts u).
Proof.
  intros H o Ho. assert (Hin : In (fst o) (map fst (payout_amounts u))) by (apply in_map; assumption).
  rewrite payout_amounts_addrs in Hin. apply in_map_iff in Hin as (r & <- & Hr).
  apply H. unfold valid_recips in Hr. apply filter_In in Hr. tauto.
Qed.

(* ---------- (5) the payout loop ---------- *)
Definition gev_tid (g : gev) : Z :=
  match g with
  | GRecorded t _ _ | GPaid t _ _ _ _ _ _ | GCancelled t _ | GDropped t _ | GFilled t _ _
  | GDeposited t _ _ _ | GCredit t _ _ => t
  end.
Definition tev (t : Z) (g : list gev) : list gev := filter (fun e => gev_tid e =? t) g.

Lemma tev_app t a b : tev t (a ++ b) = tev t a ++ tev t b.
Proof. unfold tev. apply filter_app. Qed.

Lemma settle_loop_sorted tn h : forall recs s faults s' f' g,
  settle_loop tn h recs s faults = (s', f', g) -> ksorted (s_utxrs s) -> ksorted (s_utxrs s').
Proof.
  induction recs as [|[uid u] recs IH]; intros s faults s' f' g H Hs; simpl in H.
  - inversion H; subst. assumption.
  - destruct (negb (mature u (t_period tn) h)); [inversion H; subst; assumption|].
    destruct (valid_recips (u_recips u)).
    + destruct (settle_loop tn h recs _ faults) as [[s3 f3] g3] eqn:E3. inversion H; subst.
      eapply IH; [eassumption|]. simpl. apply utxr_del_sorted. assumption.
    + destruct (negb (payable_method (t_method tn))); [inversion H; subst; assumption|].
      destruct (pay_all _ _ _ _ _ _) as [[l'|] faults'].
      * destruct (settle_loop tn h recs _ faults') as [[s4 f4] g4] eqn:E4. inversion H; subst.
        eapply IH; [eassumption|]. simpl. apply utxr_del_sorted. assumption.
      * inversion H; subst. assumption.
Qed.

(* the events of a loop all carry its tenant id *)
Lemma settle_loop_events tn h : forall recs s faults s' f' g,
  settle_loop tn h recs s faults = (s', f', g) -> forall e, In e g -> gev_tid e = t_id tn.
Proof.
  induction recs as [|[uid u] recs IH]; intros s faults s' f' g H e He; simpl in H.
  - inversion H; subst. destruct He.
  - destruct (negb (mature u (t_period tn) h)); [inversion H; subst; destruct He|].
    destruct (valid_recips (u_recips u)).
    + destruct (settle_loop tn h recs _ faults) as [[s3 f3] g3] eqn:E3. inversion H; subst.
      destruct He as [<-|He]; [reflexivity|eapply IH; eassumption].
    + destruct (negb (payable_method (t_method tn))); [inversion H; subst; destruct He|].
      destruct (pay_all _ _ _ _ _ _) as [[l'|] faults'].
      * destruct (settle_loop tn h recs _ faults') as [[s4 f4] g4] eqn:E4. inversion H; subst.
        destruct He as [<-|He]; [reflexivity|eapply IH; eassumption].
      * inversion H; subst. destruct He.
Qed.

Lemma tev_same t g : (forall e, In e g -> gev_tid e = t) -> tev t g = g.
Proof.
  induction g as [|e g IH]; intros H; [reflexivity|]. simpl.
  rewrite (H e (or_introl eq_refl)), Z.eqb_refl. f_equal. apply IH. intros; apply H; right; assumption.
Qed.
Lemma tev_other t t' g : t' <> t -> (forall e, In e g -> gev_tid e = t') -> tev t g = [].
Proof.
  intros Hne. induction g as [|e g IH]; intros H; [reflexivity|]. simpl.
  rewrite (H e (or_introl eq_refl)). destruct (t' =? t) eqn:E; [lia|]. apply IH. intros; apply H; right; assumption.
Qed.

(* removing a record of another tenant (with or without a ledger change that respects t) *)
Lemma remove_other_agree t s l' t' uid req :
  t' <> t ->
  (forall d, bal_get l' (treasury t) d = bal_get (s_bal s) (treasury t) d) ->
  bal_get l' sbt_supply (sbt_asset t) = bal_get (s_bal s) sbt_supply (sbt_asset t) ->
  agree t s (set_idx (set_utxrs (set_bal s l') (utxr_del (s_utxrs s) t' uid)) (idx_del (s_idx s) t' req)).
Proof.
  intros Hne HT HS. constructor; simpl; try reflexivity.
  - intros u. symmetry. apply utxr_get_del_tenant. assumption.
  - intros r. symmetry. apply idx_get_del_tenant. assumption.
  - intros d. symmetry. apply HT.
  - symmetry. apply HS.
Qed.

(* the loop of ANOTHER tenant - whatever it pays, drops, or fails to pay - leaves tenant t's view as it was *)
Theorem other_loop_frame tn h t : forall recs s faults s' f' g,
  settle_loop tn h recs s faults = (s', f', g) -> t_id tn <> t -> 0 <= t -> 0 <= t_id tn ->
  (forall x, In x recs -> forall r, In r (u_recips (snd x)) -> is_account (r_addr r)) ->
  agree t s s'.
Proof.
  induction recs as [|[uid u] recs IH]; intros s faults s' f' g H Hne Ht Htn Hacc; simpl in H.
  - inversion H; subst. apply agree_refl.
  - assert (Hacc' : forall x, In x recs -> forall r, In r (u_recips (snd x)) -> is_account (r_addr r))
      by (intros x Hx; apply Hacc; right; assumption).
    destruct (negb (mature u (t_period tn) h)); [inversion H; subst; apply agree_refl|].
    destruct (valid_recips (u_recips u)) eqn:Evr.
    + destruct (settle_loop tn h recs _ faults) as [[s3 f3] g3] eqn:E3. inversion H; subst.
      eapply agree_trans; [|eapply IH; eassumption].
      pose proof (remove_other_agree t s (s_bal s) (t_id tn) uid (u_req u) Hne (fun d => eq_refl) eq_refl) as R.
      destruct s; exact R.
    + destruct (negb (payable_method (t_method tn))); [inversion H; subst; apply agree_refl|].
      destruct (pay_all (t_method tn) (t_id tn) (u_denom u) (s_bal s) faults (payout_amounts u)) as [[l'|] faults'] eqn:Ep.
      * destruct (settle_loop tn h recs _ faults') as [[s4 f4] g4] eqn:E4. inversion H; subst.
        eapply agree_trans; [|eapply IH; eassumption].
        destruct (pay_all_other_tenant _ _ _ t _ _ _ _ _ Ep Hne Ht Htn
                    (payout_outs_accounts u (Hacc (uid, u) (or_introl eq_refl)))) as [HT HS].
        apply remove_other_agree; assumption.
      * inversion H; subst. apply agree_refl.
Qed.

Lemma remove_own_agree t s1 s2 l1 l2 uid req :
  agree t s1 s2 ->
  (forall d, bal_get l1 (treasury t) d = bal_get l2 (treasury t) d) ->
  bal_get l1 sbt_supply (sbt_asset t) = bal_get l2 sbt_supply (sbt_asset t) ->
  agree t (set_idx (set_utxrs (set_bal s1 l1) (utxr_del (s_utxrs s1) t uid)) (idx_del (s_idx s1) t req))
          (set_idx (set_utxrs (set_bal s2 l2) (utxr_del (s_utxrs s2) t uid)) (idx_del (s_idx s2) t req)).
Proof.
  intros HA HT HS. destruct HA as [A B C D E F G H' I' J]. constructor; simpl; try assumption.
  - intros u0. destruct (Z.eq_dec u0 uid) as [->|Hu].
    + rewrite !utxr_get_del_same. reflexivity.
    + rewrite !utxr_get_del_other by congruence. apply B.
  - intros r. destruct (list_eq_dec Z.eq_dec r req) as [->|Hr].
    + rewrite !idx_get_del_same. reflexivity.
    + rewrite !idx_get_del_other by congruence. apply C.
Qed.

(* tenant t's own loop: same decisions, same payments, in states that agree on t (no injected faults) *)
Theorem own_loop_congruence tn h : forall recs s1 s2,
  agree (t_id tn) s1 s2 -> 0 <= t_id tn ->
  (forall x, In x recs -> forall r, In r (u_recips (snd x)) -> is_account (r_addr r)) ->
  exists s1' s2' g, settle_loop tn h recs s1 [] = (s1', [], g) /\ settle_loop tn h recs s2 [] = (s2', [], g) /\
                    agree (t_id tn) s1' s2'.
Proof.
  induction recs as [|[uid u] recs IH]; intros s1 s2 HA Htn Hacc; simpl.
  - exists s1, s2, []. auto.
  - assert (Hacc' : forall x, In x recs -> forall r, In r (u_recips (snd x)) -> is_account (r_addr r))
      by (intros x Hx; apply Hacc; right; assumption).
    destruct (negb (mature u (t_period tn) h)); [exists s1, s2, []; auto|].
    destruct (valid_recips (u_recips u)) eqn:Evr.
    + pose proof (remove_own_agree (t_id tn) s1 s2 (s_bal s1) (s_bal s2) uid (u_req u) HA (ag_tre _ _ _ HA) (ag_sup _ _ _ HA)) as HA'.
      destruct (IH _ _ HA' Htn Hacc') as (s1' & s2' & g & E1 & E2 & HA'').
      replace (set_utxrs (set_bal s1 (s_bal s1)) (utxr_del (s_utxrs s1) (t_id tn) uid)) with (set_utxrs s1 (utxr_del (s_utxrs s1) (t_id tn) uid)) in E1 by (destruct s1; reflexivity).
      replace (set_utxrs (set_bal s2 (s_bal s2)) (utxr_del (s_utxrs s2) (t_id tn) uid)) with (set_utxrs s2 (utxr_del (s_utxrs s2) (t_id tn) uid)) in E2 by (destruct s2; reflexivity).
      rewrite E1, E2. exists s1', s2', (GDropped (t_id tn) uid :: g). auto.
    + destruct (negb (payable_method (t_method tn))); [exists s1, s2, []; auto|].
      pose proof (pay_all_congruence (t_method tn) (t_id tn) (u_denom u) (payout_amounts u) (s_bal s1) (s_bal s2) Htn
                    (payout_outs_accounts u (Hacc (uid, u) (or_introl eq_refl))) (ag_tre _ _ _ HA) (ag_sup _ _ _ HA)) as Hp.
      pose proof (pay_all_nofault (t_method tn) (t_id tn) (u_denom u) (payout_amounts u) (s_bal s1)) as N1.
      pose proof (pay_all_nofault (t_method tn) (t_id tn) (u_denom u) (payout_amounts u) (s_bal s2)) as N2.
      destruct (pay_all (t_method tn) (t_id tn) (u_denom u) (s_bal s1) [] (payout_amounts u)) as [[l1'|] f1'];
        destruct (pay_all (t_method tn) (t_id tn) (u_denom u) (s_bal s2) [] (payout_amounts u)) as [[l2'|] f2'];
        simpl in Hp, N1, N2; subst f1' f2'; try contradiction; [|exists s1, s2, []; auto].
      destruct Hp as [HT HS].
      pose proof (remove_own_agree (t_id tn) s1 s2 l1' l2' uid (u_req u) HA HT HS) as HA'.
      destruct (IH _ _ HA' Htn Hacc') as (s1' & s2' & g & E1 & E2 & HA'').
      rewrite E1, E2. eexists s1', s2', _. split; [reflexivity|]. split; [reflexivity|assumption].
Qed.

(* ---------- (6) the pending queue of tenant t is determined by its view ---------- *)
Definition lt_fst {A} (a b : Z * A) : Prop := fst a < fst b.

Lemma sorted_unique {A} : forall (a b : list (Z * A)),
  StronglySorted lt_fst a -> StronglySorted lt_fst b -> (forall x, In x a <-> In x b) -> a = b.
Proof.
  induction a as [|x a IH]; intros [|y b] Ha Hb Hin; [reflexivity| | |].
  - exfalso. apply (proj2 (Hin y)). left. reflexivity.
  - exfalso. apply (proj1 (Hin x)). left. reflexivity.
  - inversion Ha as [|? ? Sa Fa]; subst. inversion Hb as [|? ? Sb Fb]; subst.
    rewrite Forall_forall in Fa, Fb.
    assert (Hxy : x = y).
    { destruct (proj1 (Hin x) (or_introl eq_refl)) as [E|E]; [congruence|].
      destruct (proj2 (Hin y) (or_introl eq_refl)) as [E'|E']; [assumption|].
      specialize (Fa _ E'). specialize (Fb _ E). unfold lt_fst in *. lia. }
    subst y. f_equal. apply IH; [assumption|assumption|].
    intros z. split; intros Hz.
    + destruct (proj1 (Hin z) (or_intror Hz)) as [E|E]; [|assumption].
      subst z. specialize (Fa _ Hz). unfold lt_fst in Fa. lia.
    + destruct (proj2 (Hin z) (or_intror Hz)) as [E|E]; [|assumption].
      subst z. specialize (Fb _ Hz). unfold lt_fst in Fb. lia.
Qed.

Lemma utxrs_of_strongly_sorted l t : ksorted l -> StronglySorted lt_fst (utxrs_of l t).
Proof.
  induction 1 as [|e l Hlb Hs IH]; [constructor|].
  unfold utxrs_of in *. simpl. destruct e as [[t' u'] v']. simpl.
  destruct (t' =? t) eqn:E; [|exact IH]. simpl. constructor; [exact IH|].
  rewrite Forall_forall. intros [u v] Hin. apply in_map_iff in Hin as (e0 & Heq & Hf).
  apply filter_In in Hf as [Hin0 Ht0]. specialize (Hlb _ Hin0). destruct e0 as [[t0 u0] v0]. simpl in *.
  inversion Heq; subst. unfold lt_fst. simpl. unfold klt, ekey in Hlb. simpl in Hlb. lia.
Qed.

Lemma utxrs_of_ext l1 l2 t : ksorted l1 -> ksorted l2 ->
  (forall u, utxr_get l1 t u = utxr_get l2 t u) -> utxrs_of l1 t = utxrs_of l2 t.
Proof.
  intros H1 H2 Hext. apply sorted_unique; try (apply utxrs_of_strongly_sorted; assumption).
  intros [u v]. rewrite !utxrs_of_In. split; intros Hin.
  - apply utxr_get_In. rewrite <- Hext. apply ksorted_get; assumption.
  - apply utxr_get_In. rewrite Hext. apply ksorted_get; assumption.
Qed.

(* ---------- (7) the whole end-block ---------- *)
Definition state_ok (s : sstate) : Prop :=
  ksorted (s_utxrs s) /\ recips_ok s /\ NoDup (map t_id (s_tenants s)) /\ (forall tn, In tn (s_tenants s) -> 0 <= t_id tn).

Lemma recips_ok_subset s s' : recips_ok s -> (forall e, In e (s_utxrs s') -> In e (s_utxrs s)) -> recips_ok s'.
Proof. intros H Hsub x Hx. apply H. apply Hsub. assumption. Qed.

(* folding the per-tenant loops over ANY list of tenants with distinct ids: for tenant t the result is the
   result of its own loop alone (if it is in the list), run on any state that agrees with the start *)
Lemma fold_settle_rel t h : forall L s0 g0 sref,
  0 <= t -> NoDup (map t_id L) -> (forall tn, In tn L -> 0 <= t_id tn) ->
  agree t s0 sref -> ksorted (s_utxrs s0) -> recips_ok s0 -> ksorted (s_utxrs sref) -> recips_ok sref ->
  exists s' g', fold_left (settle_tenant h) L (s0, [], g0) = (s', [], g') /\
    match find_tenant L t with
    | Some tn => exists sl gl, settle_loop tn h (utxrs_of (s_utxrs sref) t) sref [] = (sl, [], gl) /\
                               agree t s' sl /\ tev t g' = tev t g0 ++ gl
    | None => agree t s' sref /\ tev t g' = tev t g0
    end.
Proof.
  induction L as [|tn L IH]; intros s0 g0 sref Ht Hnd Hpos HA Hs0 Hr0 Hsr Hrr.
  - simpl. exists s0, g0. auto.
  - inversion Hnd as [|? ? Hnotin Hnd']; subst.
    assert (Hpos' : forall tn0, In tn0 L -> 0 <= t_id tn0) by (intros; apply Hpos; right; assumption).
    cbn [fold_left]. unfold settle_tenant at 2.
    destruct (Z.eq_dec (t_id tn) t) as [Heq|Hne].
    + (* tenant t itself *)
      simpl find_tenant. rewrite (proj2 (Z.eqb_eq _ _) Heq).
      assert (Hrecs : utxrs_of (s_utxrs s0) t = utxrs_of (s_utxrs sref) t) by (apply utxrs_of_ext; try assumption; apply (ag_rec _ _ _ HA)).
      assert (Hacc : forall x, In x (utxrs_of (s_utxrs sref) t) -> forall r, In r (u_recips (snd x)) -> is_account (r_addr r)).
      { intros [u v] Hx r Hr. apply utxrs_of_In in Hx. apply (Hrr _ Hx). assumption. }
      subst t.
      destruct (own_loop_congruence tn h (utxrs_of (s_utxrs sref) (t_id tn)) s0 sref HA (Hpos tn (or_introl eq_refl)) Hacc)
        as (s1 & sl & gl & E1 & E2 & HA1).
      rewrite Hrecs, E1.
      assert (Hs1 : ksorted (s_utxrs s1)) by (eapply settle_loop_sorted; eassumption).
      assert (Hr1 : recips_ok s1) by (eapply recips_ok_subset; [exact Hr0|]; apply (settle_loop_frame _ _ _ _ _ _ _ _ E1)).
      assert (Hsl : ksorted (s_utxrs sl)) by (eapply settle_loop_sorted; eassumption).
      assert (Hrl : recips_ok sl) by (eapply recips_ok_subset; [exact Hrr|]; apply (settle_loop_frame _ _ _ _ _ _ _ _ E2)).
      destruct (IH s1 (g0 ++ gl) sl (Hpos tn (or_introl eq_refl)) Hnd' Hpos' HA1 Hs1 Hr1 Hsl Hrl) as (s' & g' & Ef & Hm).
      exists s', g'. split; [exact Ef|].
      assert (Hnone : find_tenant L (t_id tn) = None).
      { destruct (find_tenant L (t_id tn)) as [x|] eqn:E; [|reflexivity].
        exfalso. apply Hnotin. rewrite <- (find_tenant_id _ _ _ E). apply in_map. eapply find_tenant_In; eassumption. }
      rewrite Hnone in Hm. destruct Hm as [Hag Hev].
      exists sl, gl. split; [exact E2|]. split; [exact Hag|].
      rewrite Hev, tev_app. f_equal. apply tev_same. eapply settle_loop_events; eassumption.
    + (* another tenant *)
      simpl find_tenant. destruct (t_id tn =? t) eqn:E; [lia|].
      destruct (settle_loop tn h (utxrs_of (s_utxrs s0) (t_id tn)) s0 []) as [[s1 f1] g1] eqn:E1.
      assert (Hacc : forall x, In x (utxrs_of (s_utxrs s0) (t_id tn)) -> forall r, In r (u_recips (snd x)) -> is_account (r_addr r)).
      { intros [u v] Hx r Hr. apply utxrs_of_In in Hx. apply (Hr0 _ Hx). assumption. }
      pose proof (other_loop_frame tn h t _ _ _ _ _ _ E1 Hne Ht (Hpos tn (or_introl eq_refl)) Hacc) as Hfr.
      assert (Hf1 : f1 = []).
      { destruct (own_loop_congruence tn h (utxrs_of (s_utxrs s0) (t_id tn)) s0 s0 (agree_refl _ _) (Hpos tn (or_introl eq_refl)) Hacc)
          as (sa & sb & ga & Ea & _ & _). rewrite Ea in E1. inversion E1. reflexivity. }
      subst f1.
      assert (Hs1 : ksorted (s_utxrs s1)) by (eapply settle_loop_sorted; eassumption).
      assert (Hr1 : recips_ok s1) by (eapply recips_ok_subset; [exact Hr0|]; apply (settle_loop_frame _ _ _ _ _ _ _ _ E1)).
      assert (HA1 : agree t s1 sref) by (eapply agree_trans; [apply agree_sym; exact Hfr|exact HA]).
      destruct (IH s1 (g0 ++ g1) sref Ht Hnd' Hpos' HA1 Hs1 Hr1 Hsr Hrr) as (s' & g' & Ef & Hm).
      exists s', g'. split; [exact Ef|].
      assert (Hg1 : tev t g1 = []) by (eapply tev_other; [exact Hne|]; eapply settle_loop_events; eassumption).
      rewrite tev_app, Hg1, app_nil_r in Hm. exact Hm.
Qed.

(* the end-block of two states that agree on tenant t: afterwards they still agree on t, and tenant t was paid
   / dropped / deferred identically - whatever other tenants exist, have pending, can or cannot pay *)
Theorem end_block_isolation t h s1 s2 :
  0 <= t -> agree t s1 s2 -> state_ok s1 -> state_ok s2 ->
  agree t (fst (settlement_end_block s1 h [])) (fst (settlement_end_block s2 h [])) /\
  tev t (snd (settlement_end_block s1 h [])) = tev t (snd (settlement_end_block s2 h [])).
Proof.
  intros Ht HA (K1 & R1 & N1 & P1) (K2 & R2 & N2 & P2). unfold settlement_end_block.
  destruct (fold_settle_rel t h (s_tenants s1) s1 [] s1 Ht N1 P1 (agree_refl _ _) K1 R1 K1 R1) as (a1 & g1 & F1 & M1).
  destruct (fold_settle_rel t h (s_tenants s2) s2 [] s2 Ht N2 P2 (agree_refl _ _) K2 R2 K2 R2) as (a2 & g2 & F2 & M2).
  rewrite F1, F2. simpl. rewrite <- (ag_ten _ _ _ HA) in M2.
  destruct (find_tenant (s_tenants s1) t) as [tn|] eqn:Ef.
  - destruct M1 as (sl1 & gl1 & L1 & A1 & V1). destruct M2 as (sl2 & gl2 & L2 & A2 & V2).
    assert (Hrecs : utxrs_of (s_utxrs s1) t = utxrs_of (s_utxrs s2) t) by (apply utxrs_of_ext; try assumption; apply (ag_rec _ _ _ HA)).
    assert (Hacc : forall x, In x (utxrs_of (s_utxrs s1) t) -> forall r, In r (u_recips (snd x)) -> is_account (r_addr r)).
    { intros [u v] Hx r Hr. apply utxrs_of_In in Hx. apply (R1 _ Hx). assumption. }
    pose proof (find_tenant_id _ _ _ Ef) as Hid. subst t.
    destruct (own_loop_congruence tn h (utxrs_of (s_utxrs s1) (t_id tn)) s1 s2 HA Ht Hacc) as (x1 & x2 & gx & X1 & X2 & HX).
    rewrite X1 in L1. rewrite <- Hrecs, X2 in L2. inversion L1; subst. inversion L2; subst.
    split; [|simpl in V1, V2; congruence].
    eapply agree_trans; [exact A1|]. eapply agree_trans; [exact HX|]. apply agree_sym. exact A2.
  - destruct M1 as [A1 V1]. destruct M2 as [A2 V2]. split; [|simpl in V1, V2; congruence].
    eapply agree_trans; [exact A1|]. eapply agree_trans; [exact HA|]. apply agree_sym. exact A2.
Qed.
