(* Locating a ghost event of a run in the step that produced it, and what each kind of step can log. *)
From Settlus Require Import Base.Prelude Base.Hex Settlement.Model Settlement.Machine
  Proofs.StoreLemmas Proofs.SettlementInv Proofs.SettlementEnd Proofs.SettlementAuth Proofs.SettlementRun.

Lemma sm_run_event : forall es m m' glog H g,
  sm_run m es = (m', glog) -> In (H, g) glog ->
  exists es1 e es2 m1 m2 gs,
    es = es1 ++ e :: es2 /\ fst (sm_run m es1) = m1 /\ sm_step m1 e = (m2, gs) /\ In g gs /\ H = m_h m2.
Proof.
  induction es as [|e es IH]; intros m m' glog H g Hr Hin; simpl in Hr.
  - inversion Hr; subst. destruct Hin.
  - destruct (sm_step m e) as [m1 gs] eqn:E1. destruct (sm_run m1 es) as [m2 gl] eqn:E2.
    inversion Hr; subst. apply in_app_iff in Hin as [Hin|Hin].
    + apply in_map_iff in Hin as (g0 & Heq & Hin). inversion Heq; subst.
      exists [], e, es, m, m1, gs. simpl. auto.
    + destruct (IH _ _ _ _ _ E2 Hin) as (es1 & e' & es2 & ma & mb & gs' & Hes & Hfst & Hst & Hg & HH).
      exists (e :: es1), e', es2, ma, mb, gs'. subst es. simpl. rewrite E1.
      destruct (sm_run m1 es1) as [mx gx]. simpl in *. auto.
Qed.

Definition is_payout (g : gev) : bool :=
  match g with GPaid _ _ _ _ _ _ _ | GDropped _ _ => true | _ => false end.

Lemma handle_log s h m s' g : handle s h m = Ok (s', g) -> forall e, In e g -> is_payout e = false.
Proof.
  intros Hh. unfold handle in Hh. destruct (negb (validate_basic m)); [discriminate|].
  destruct m; repeat (match type of Hh with
    | context [match ?x with _ => _ end] => destruct x eqn:?; try discriminate
    | context [if ?x then _ else _] => destruct x eqn:?; try discriminate
    end); inversion Hh; subst; intros e He; simpl in He;
    repeat (destruct He as [<-|He]; [reflexivity|]); try contradiction.
Qed.

Lemma handle_all_log : forall ms s h s' g, handle_all s h ms = Ok (s', g) -> forall e, In e g -> is_payout e = false.
Proof.
  induction ms as [|m ms IH]; intros s h s' g Hh e He; simpl in Hh.
  - inversion Hh; subst. destruct He.
  - destruct (handle s h m) as [[s1 g1]| |] eqn:E1; try discriminate.
    destruct (handle_all s1 h ms) as [[s2 g2]| |] eqn:E2; try discriminate.
    inversion Hh; subst. apply in_app_iff in He as [He|He].
    + eapply handle_log; eassumption.
    + eapply IH; eassumption.
Qed.

Lemma apply_senvs_log : forall es s s' g, apply_senvs s es = (s', g) -> forall e, In e g -> is_payout e = false.
Proof.
  induction es as [|x es IH]; intros s s' g Ha e He; simpl in Ha.
  - inversion Ha; subst. destruct He.
  - destruct (apply_senv s x) as [s1 g1] eqn:E1. destruct (apply_senvs s1 es) as [s2 g2] eqn:E2.
    inversion Ha; subst. apply in_app_iff in He as [He|He]; [|eapply IH; eassumption].
    destruct x; simpl in E1.
    + destruct ((0 <? amount) && (amount <=? bal_get (s_bal s) from denom) && (from <? two160)).
      * inversion E1; subst. destruct (treasury_tid to); [destruct He as [<-|[]]; reflexivity|destruct He].
      * inversion E1; subst. destruct He.
    + inversion E1; subst. destruct He.
Qed.

Lemma set_recipients_log_kind s fill before s' g : set_recipients s fill before = (s', g) ->
  forall e, In e g -> is_payout e = false.
Proof.
  unfold set_recipients. intros H.
  destruct (set_recipients_list (s_utxrs s) fill before) as [l g0] eqn:E. inversion H; subst. clear H.
  revert l g E. induction (s_utxrs s) as [|[[t i] u] l0 IH]; intros l g E e He; simpl in E.
  - inversion E; subst. destruct He.
  - destruct (set_recipients_list l0 fill before) as [r g1] eqn:E1.
    destruct (u_recips u).
    + destruct (u_created u <? before).
      * destruct (fill_get fill (u_nft u)); inversion E; subst.
        -- destruct He as [<-|He]; [reflexivity|eapply IH; [reflexivity|assumption]].
        -- eapply IH; [reflexivity|assumption].
      * inversion E; subst. eapply IH; [reflexivity|assumption].
    + inversion E; subst. eapply IH; [reflexivity|assumption].
Qed.
