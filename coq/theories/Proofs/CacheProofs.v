(* The feeder's block cache (insert, then evict the minimum when over capacity) refines its
   specification: remember every put, answer from the [cap] largest timestamps (C20). *)
From Coq Require Import Sorting.Sorted.
From Settlus Require Import Base.Prelude Base.Hex Settlement.Model Oracle.Model Feeder.Model Proofs.GenesisProofs.

Section Cache.
  Context {V : Type}.
  Notation kv := (Z * V)%type.

  Definition top (k : nat) (l : list kv) : list kv := skipn (length l - k) l.
  Definition evict (k : nat) (m : list kv) : list kv := if (k <? length m)%nat then tl m else m.

  Lemma zinsert_len t (v : V) l : (length l <= length (zinsert t v l) <= S (length l))%nat.
  Proof.
    induction l as [|[k' v'] l IH]; simpl; [lia|].
    destruct (t <? k'); simpl; [lia|]. destruct (t =? k'); simpl; lia.
  Qed.

  Lemma zsorted_tail (x : kv) l : zsorted (x :: l) -> zsorted l /\ forall y, In y l -> fst x < fst y.
  Proof.
    unfold zsorted. simpl. intros H. inversion H as [|? ? Hs Hall]; subst. split; [assumption|].
    intros y Hy. rewrite Forall_forall in Hall. apply Hall. apply in_map. assumption.
  Qed.

  Lemma skipn_In {A} n (l : list A) y : In y (skipn n l) -> In y l.
  Proof.
    revert l; induction n as [|n IH]; intros l H; [assumption|].
    destruct l as [|a l]; [destruct H|]. simpl in H. right. auto.
  Qed.

  (* inserting a key below every key of the list puts it in front *)
  Lemma zinsert_below t (v : V) l : (forall y, In y l -> t < fst y) -> zinsert t v l = (t, v) :: l.
  Proof.
    destruct l as [|[k' v'] l]; [reflexivity|]. intros H. simpl.
    assert (t < k') by (apply (H (k', v')); left; reflexivity).
    destruct (t <? k') eqn:E; [reflexivity|lia].
  Qed.

  Lemma top_all k l : (length l <= k)%nat -> top k l = l.
  Proof. intros H. unfold top. replace (length l - k)%nat with 0%nat by lia. reflexivity. Qed.

  Lemma top_cons k x l : (k <= length l)%nat -> top k (x :: l) = top k l.
  Proof. intros H. unfold top. simpl length. replace (S (length l) - k)%nat with (S (length l - k)) by lia. reflexivity. Qed.

  Lemma top_len k l : (k <= length l)%nat -> length (top k l) = k.
  Proof. intros H. unfold top. rewrite skipn_length. lia. Qed.

  (* the central step: evicting after inserting into the kept suffix = keeping the suffix of the insertion *)
  Lemma top_insert k t (v : V) : (1 <= k)%nat -> forall l, zsorted l ->
    top k (zinsert t v l) = evict k (zinsert t v (top k l)).
  Proof.
    intros Hk. induction l as [|[x vx] l IH]; intros Hs.
    - simpl. unfold top, evict. simpl. destruct k; [lia|]. reflexivity.
    - destruct (zsorted_tail _ _ Hs) as [Hs' Hlt]. simpl in Hlt.
      destruct (le_lt_dec (length ((x, vx) :: l)) k) as [Hshort|Hlong].
      + (* nothing has been dropped yet *)
        rewrite (top_all k ((x, vx) :: l) Hshort).
        pose proof (zinsert_len t v ((x, vx) :: l)) as Hl.
        unfold evict. destruct (k <? length (zinsert t v ((x, vx) :: l)))%nat eqn:E.
        * apply Nat.ltb_lt in E.
          assert (Hlen : length (zinsert t v ((x, vx) :: l)) = S k) by lia.
          unfold top. rewrite Hlen. replace (S k - k)%nat with 1%nat by lia.
          destruct (zinsert t v ((x, vx) :: l)); reflexivity.
        * apply Nat.ltb_ge in E. apply top_all. assumption.
      + (* the list is longer than the capacity: its head is not kept *)
        simpl in Hlong. assert (Hkl : (k <= length l)%nat) by lia.
        rewrite (top_cons k (x, vx) l Hkl).
        assert (Hsuffix : forall y, In y (top k l) -> x < fst y).
        { intros y Hy. apply Hlt. unfold top in Hy. eapply skipn_In; eassumption. }
        simpl zinsert. destruct (t <? x) eqn:E1.
        * (* new minimum: it is evicted at once *)
          rewrite (top_cons k (t, v) ((x, vx) :: l)) by (simpl; lia).
          rewrite (top_cons k (x, vx) l Hkl).
          rewrite zinsert_below by (intros y Hy; specialize (Hsuffix y Hy); lia).
          unfold evict. simpl length. rewrite (top_len k l Hkl).
          replace (k <? S k)%nat with true by (symmetry; apply Nat.ltb_lt; lia). reflexivity.
        * destruct (t =? x) eqn:E2.
          -- (* replaces the (dropped) head *)
             rewrite (top_cons k (t, v) l Hkl).
             rewrite zinsert_below by (intros y Hy; specialize (Hsuffix y Hy); lia).
             unfold evict. simpl length. rewrite (top_len k l Hkl).
             replace (k <? S k)%nat with true by (symmetry; apply Nat.ltb_lt; lia). reflexivity.
          -- (* goes somewhere into the tail *)
             pose proof (zinsert_len t v l) as Hl.
             rewrite (top_cons k (x, vx) (zinsert t v l)) by lia.
             apply IH. assumption.
  Qed.
End Cache.

(* ---------- the cache of the feeder ---------- *)
Definition kept (cap : Z) (all : list (Z * (bytes * Z))) : list (Z * (bytes * Z)) :=
  skipn (Z.to_nat (lenZ all - cap)) all.

Lemma kept_top cap all : 0 <= cap -> kept cap all = top (Z.to_nat cap) all.
Proof. intros H. unfold kept, top, lenZ. f_equal. lia. Qed.

Lemma cache_put_spec cap all ts v : 1 <= cap -> zsorted all ->
  cache_put (mkCache cap (kept cap all)) ts v = mkCache cap (kept cap (zinsert ts v all)).
Proof.
  intros Hc Hs. unfold cache_put. simpl.
  rewrite !kept_top by lia. rewrite (top_insert (Z.to_nat cap) ts v ltac:(lia) all Hs).
  unfold evict, lenZ.
  destruct (cap <? Z.of_nat (length (zinsert ts v (top (Z.to_nat cap) all)))) eqn:E1;
    destruct (Z.to_nat cap <? length (zinsert ts v (top (Z.to_nat cap) all)))%nat eqn:E2; try reflexivity.
  - apply Nat.ltb_ge in E2. lia.
  - apply Nat.ltb_lt in E2. lia.
Qed.

(* the specification run: remember everything, answer from the [cap] largest timestamps *)
Fixpoint spec_answers (cap : Z) (all : list (Z * (bytes * Z))) (ops : list cop) : list (bytes * Z) :=
  match ops with
  | [] => []
  | CPut ts h n :: ops' => spec_answers cap (zinsert ts (h, n) all) ops'
  | CGet ts :: ops' =>
      (match ceiling (kept cap all) ts with Some v => v | None => ([], 0) end) :: spec_answers cap all ops'
  end.

Theorem cache_refines_spec cap : 1 <= cap -> forall ops all, zsorted all ->
  cache_run (mkCache cap (kept cap all)) ops = spec_answers cap all ops.
Proof.
  intros Hc. induction ops as [|[ts h n|ts] ops IH]; intros all Hs; simpl; [reflexivity| |].
  - rewrite cache_put_spec by assumption. apply IH. apply zinsert_sorted. assumption.
  - unfold cache_get. simpl. f_equal. apply IH. assumption.
Qed.

(* ---------- what the kept part is, in elementary terms ---------- *)
Lemma kept_sorted cap all : zsorted all -> zsorted (kept cap all).
Proof.
  unfold kept, zsorted. generalize (Z.to_nat (lenZ all - cap)). intros n. revert all.
  induction n as [|n IH]; intros all H; [assumption|].
  destruct all as [|x all]; [assumption|]. simpl. apply IH. simpl in H. inversion H; assumption.
Qed.

Lemma kept_length cap all : 0 <= cap -> lenZ (kept cap all) <= cap.
Proof. intros H. unfold kept, lenZ. rewrite skipn_length. lia. Qed.

(* a timestamp that was put but is not kept is smaller than every kept one, and the cache is full *)
Lemma kept_highest cap all x : 0 <= cap -> zsorted all -> In x all -> ~ In x (kept cap all) ->
  lenZ (kept cap all) = cap /\ forall y, In y (kept cap all) -> fst x < fst y.
Proof.
  intros Hc Hs Hin Hnot. unfold kept in *. set (n := Z.to_nat (lenZ all - cap)) in *.
  assert (Hn : (n <= length all)%nat \/ (length all < n)%nat) by lia.
  assert (Hsplit : all = firstn n all ++ skipn n all) by (symmetry; apply firstn_skipn).
  assert (Hfirst : In x (firstn n all)).
  { rewrite Hsplit in Hin. apply in_app_iff in Hin as [H|H]; [assumption|contradiction]. }
  split.
  - unfold lenZ. rewrite skipn_length. unfold lenZ in n.
    assert (n <> 0)%nat by (intro E; rewrite E in Hfirst; destruct Hfirst). lia.
  - intros y Hy. unfold zsorted in Hs. rewrite Hsplit in Hs. rewrite map_app in Hs.
    clear - Hs Hfirst Hy. induction (firstn n all) as [|a l IH]; [destruct Hfirst|].
    simpl in Hs. inversion Hs as [|? ? Hs' Hall]; subst. destruct Hfirst as [->|Hf].
    + rewrite Forall_forall in Hall. apply Hall. apply in_or_app. right. apply in_map. assumption.
    + apply IH; assumption.
Qed.

(* the answer to a query is the kept entry with the least timestamp not below the query, or a miss *)
Lemma ceiling_spec l ts : zsorted l ->
  match ceiling l ts with
  | Some v => exists k, In (k, v) l /\ ts <= k /\ forall k' v', In (k', v') l -> ts <= k' -> k <= k'
  | None => forall k' v', In (k', v') l -> k' < ts
  end.
Proof.
  induction l as [|[k v] l IH]; intros Hs; simpl; [intros ? ? []|].
  destruct (zsorted_tail _ _ Hs) as [Hs' Hlt]. simpl in Hlt.
  destruct (ts <=? k) eqn:E.
  - exists k. split; [left; reflexivity|]. split; [lia|].
    intros k' v' [H|H] Hle; [inversion H; lia|]. specialize (Hlt _ H). simpl in Hlt. lia.
  - specialize (IH Hs'). destruct (ceiling l ts) as [v0|].
    + destruct IH as (k0 & Hin & Hle & Hmin). exists k0. split; [right; assumption|]. split; [assumption|].
      intros k' v' [H|H] Hle'; [inversion H; subst; lia|eauto].
    + intros k' v' [H|H]; [inversion H; subst; lia|eauto].
Qed.
