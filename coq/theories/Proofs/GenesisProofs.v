(* Export followed by import reproduces the settlement and oracle state (C17). *)
From Coq Require Import Sorting.Sorted.
From Settlus Require Import Base.Prelude Base.Hex Base.Dec Oracle.Arith Settlement.Model Settlement.Machine
  Oracle.Model Chain.Model Genesis.Model Proofs.StoreLemmas Proofs.SettlementInv.

(* ---------- settlement ---------- *)
Definition ikey (e : Z * Z * utxr) : Z * bytes * Z := (fst (fst e), u_req (snd e), snd (fst e)).

Definition store_ok (l : list (Z * Z * utxr)) : Prop :=
  ksorted l /\
  forall t u1 u2 rc1 rc2, In (t, u1, rc1) l -> In (t, u2, rc2) l -> u_req rc1 = u_req rc2 -> u1 = u2.

Lemma ksorted_app_lt p x rest : ksorted (p ++ x :: rest) -> forall e, In e p -> klt (ekey e) (ekey x).
Proof.
  induction p as [|a p IH]; simpl; intros H e He; [destruct He|].
  inversion H as [|? ? Hlt Hs]; subst. destruct He as [->|He].
  - apply Hlt. apply in_or_app. right. left. reflexivity.
  - apply IH; assumption.
Qed.

Lemma utxr_ins_append p t u rc : (forall e, In e p -> klt (ekey e) (t, u)) ->
  utxr_ins p t u rc = p ++ [(t, u, rc)].
Proof.
  induction p as [|[[t' u'] v] p IH]; simpl; intros H; [reflexivity|].
  assert (Hk : klt (t', u') (t, u)) by (apply (H (t', u', v)); left; reflexivity).
  destruct (key_ltb t u t' u') eqn:E1.
  - apply key_ltb_klt in E1. exfalso. eapply klt_irrefl. eapply klt_trans; eassumption.
  - destruct ((t =? t') && (u =? u')) eqn:E2.
    + apply andb_true_iff in E2 as [A B]. assert (t = t') by lia. assert (u = u') by lia. subst.
      exfalso. eapply klt_irrefl; eassumption.
    + f_equal. apply IH. intros e He. apply H. right. assumption.
Qed.

Lemma idx_get_In l t r u : idx_get l t r = Some u -> In (t, r, u) l.
Proof.
  induction l as [|[[t' r'] u'] l IH]; simpl; [discriminate|].
  destruct ((t' =? t) && bytes_eqb r' r) eqn:E.
  - intros H; inversion H; subst. apply andb_true_iff in E as [A B]. apply bytes_eqb_eq in B.
    assert (t' = t) by lia. subst. left. reflexivity.
  - intros H. right. auto.
Qed.

Lemma idx_get_app_none l1 l2 t r : idx_get l1 t r = None -> idx_get (l1 ++ l2) t r = idx_get l2 t r.
Proof.
  induction l1 as [|[[t' r'] u'] l1 IH]; simpl; intros H; [reflexivity|].
  destruct ((t' =? t) && bytes_eqb r' r); [discriminate|auto].
Qed.

Lemma idx_get_app_some l1 l2 t r u : idx_get l1 t r = Some u -> idx_get (l1 ++ l2) t r = Some u.
Proof.
  induction l1 as [|[[t' r'] u'] l1 IH]; simpl; intros H; [discriminate|].
  destruct ((t' =? t) && bytes_eqb r' r); [assumption|auto].
Qed.

(* the index that the import builds characterises the imported records *)
Lemma idx_rev_spec l t r u : store_ok l ->
  (idx_get (rev (map ikey l)) t r = Some u <-> exists rc, In (t, u, rc) l /\ u_req rc = r).
Proof.
  intros [Hs Hu]. split.
  - intros H. apply idx_get_In in H. apply in_rev in H. apply in_map_iff in H as ([[t' u'] rc] & Heq & Hin).
    unfold ikey in Heq. simpl in Heq. inversion Heq; subst. eauto.
  - intros (rc & Hin & Hr).
    destruct (idx_get (rev (map ikey l)) t r) as [u0|] eqn:E.
    + apply idx_get_In in E. apply in_rev in E. apply in_map_iff in E as ([[t' u'] rc'] & Heq & Hin').
      unfold ikey in Heq. simpl in Heq. inversion Heq; subst. f_equal. eapply Hu; eauto.
    + exfalso. subst r. revert E. clear Hs Hu. induction l as [|e l IH]; [destruct Hin|].
      simpl. intros E.
      destruct (idx_get (rev (map ikey l)) t (u_req rc)) as [u1|] eqn:E2.
      * rewrite (idx_get_app_some _ _ _ _ _ E2) in E. discriminate.
      * rewrite (idx_get_app_none _ _ _ _ E2) in E. destruct Hin as [->|Hin].
        -- unfold ikey in E. simpl in E. rewrite Z.eqb_refl, bytes_eqb_refl in E. discriminate.
        -- exact (IH Hin eq_refl).
Qed.

Lemma store_ok_prefix p x rest : store_ok (p ++ x :: rest) ->
  (forall e, In e p -> klt (ekey e) (ekey x)) /\
  (forall u' rc', In (fst (fst x), u', rc') p -> u_req rc' <> u_req (snd x)).
Proof.
  intros [Hs Hu]. split; [apply (ksorted_app_lt p x rest Hs)|].
  intros u' rc' Hin Heq. destruct x as [[t u] rc]. simpl in *.
  assert (u' = u).
  { eapply (Hu t u' u rc' rc); [apply in_or_app; left; assumption|apply in_or_app; right; left; reflexivity|assumption]. }
  subst u'. pose proof (ksorted_app_lt p (t, u, rc) rest Hs _ Hin) as Hk. unfold ekey in Hk. simpl in Hk.
  eapply klt_irrefl; eassumption.
Qed.

Lemma import_rest : forall rest p s, store_ok (p ++ rest) ->
  s_utxrs s = p -> s_idx s = rev (map ikey p) ->
  exists s', fold_left import_utxr rest (Ok s) = Ok s' /\
    s_utxrs s' = p ++ rest /\ s_idx s' = rev (map ikey (p ++ rest)) /\
    s_tenants s' = s_tenants s /\ s_bal s' = s_bal s /\ s_owners s' = s_owners s /\
    s_chain s' = s_chain s /\ s_supported s' = s_supported s.
Proof.
  induction rest as [|[[t u] rc] rest IH]; intros p s Hok Hu Hi.
  - exists s. simpl. rewrite app_nil_r. auto 10.
  - destruct (store_ok_prefix p (t, u, rc) rest Hok) as [Hlt Hreq]. simpl in Hlt, Hreq.
    cbn [fold_left import_utxr].
    assert (E1 : idx_get (s_idx s) t (u_req rc) = None).
    { rewrite Hi. destruct (idx_get (rev (map ikey p)) t (u_req rc)) as [u0|] eqn:E; [|reflexivity].
      apply idx_get_In in E. apply in_rev in E. apply in_map_iff in E as ([[t' u'] rc'] & Heq & Hin).
      unfold ikey in Heq. simpl in Heq. inversion Heq; subst. exfalso. eapply Hreq; eauto. }
    rewrite E1.
    assert (E2 : utxr_get (s_utxrs s) t u = None).
    { rewrite Hu. destruct (utxr_get p t u) as [v|] eqn:E; [|reflexivity].
      apply utxr_get_In in E. specialize (Hlt _ E). exfalso. eapply klt_irrefl; eassumption. }
    rewrite E2.
    set (s2 := set_idx (set_utxrs s (utxr_ins (s_utxrs s) t u rc)) ((t, u_req rc, u) :: s_idx (set_utxrs s (utxr_ins (s_utxrs s) t u rc)))).
    set (s3 := match zlookup t (s_last s2) with
               | Some l => if l <? u then set_last s2 (zinsert t u (s_last s2)) else s2
               | None => set_last s2 (zinsert t u (s_last s2))
               end).
    assert (H3 : s_utxrs s3 = p ++ [(t, u, rc)] /\ s_idx s3 = rev (map ikey (p ++ [(t, u, rc)])) /\
                 s_tenants s3 = s_tenants s /\ s_bal s3 = s_bal s /\ s_owners s3 = s_owners s /\
                 s_chain s3 = s_chain s /\ s_supported s3 = s_supported s).
    { assert (Hb : s_utxrs s2 = p ++ [(t, u, rc)] /\ s_idx s2 = rev (map ikey (p ++ [(t, u, rc)])) /\
                   s_tenants s2 = s_tenants s /\ s_bal s2 = s_bal s /\ s_owners s2 = s_owners s /\
                   s_chain s2 = s_chain s /\ s_supported s2 = s_supported s).
      { subst s2. simpl. rewrite Hu, Hi. rewrite (utxr_ins_append p t u rc Hlt).
        rewrite map_app, rev_app_distr. simpl. auto 10. }
      subst s3. destruct (zlookup t (s_last s2)) as [l|]; [destruct (l <? u)|]; simpl; exact Hb. }
    destruct H3 as (A1 & A2 & A3 & A4 & A5 & A6 & A7).
    assert (Hok' : store_ok ((p ++ [(t, u, rc)]) ++ rest)) by (rewrite <- app_assoc; exact Hok).
    destruct (IH (p ++ [(t, u, rc)]) s3 Hok' A1 A2) as (s' & Hf & B1 & B2 & B3 & B4 & B5 & B6 & B7).
    exists s'. rewrite <- app_assoc in B1, B2. simpl in B1, B2.
    split; [exact Hf|]. repeat split; congruence.
Qed.

Lemma inv_store_ok B s log : Inv B s log -> store_ok (s_utxrs s).
Proof.
  intros HI. split; [apply (inv_sorted _ _ _ HI)|].
  intros t u1 u2 rc1 rc2 H1 H2 Heq.
  pose proof (ksorted_get _ _ _ _ (inv_sorted _ _ _ HI) H1) as G1.
  pose proof (ksorted_get _ _ _ _ (inv_sorted _ _ _ HI) H2) as G2.
  pose proof (inv_idx2 _ _ _ HI _ _ _ G1) as I1. pose proof (inv_idx2 _ _ _ HI _ _ _ G2) as I2.
  rewrite Heq in I1. congruence.
Qed.

Theorem settlement_roundtrip B s log : Inv B s log ->
  exists s', import_s (blank s) (export_s s) = Ok s' /\
    s_tenants s' = s_tenants s /\ s_utxrs s' = s_utxrs s /\
    (forall t r, idx_get (s_idx s') t r = idx_get (s_idx s) t r) /\
    s_bal s' = s_bal s /\ s_owners s' = s_owners s /\ s_chain s' = s_chain s /\ s_supported s' = s_supported s /\
    export_s s' = export_s s.
Proof.
  intros HI. pose proof (inv_store_ok _ _ _ HI) as Hok.
  destruct (import_rest (s_utxrs s) [] (blank s) Hok eq_refl eq_refl) as (s1 & Hf & A1 & A2 & A3 & A4 & A5 & A6 & A7).
  simpl in A1, A2. unfold import_s, export_s. simpl. rewrite Hf.
  eexists. split; [reflexivity|]. simpl. rewrite A1.
  split; [reflexivity|]. split; [reflexivity|]. split.
  - intros t r. rewrite A2.
    destruct (idx_get (rev (map ikey (s_utxrs s))) t r) as [u|] eqn:E.
    + apply (idx_rev_spec _ _ _ _ Hok) in E as (rc & Hin & Hr).
      pose proof (ksorted_get _ _ _ _ (inv_sorted _ _ _ HI) Hin) as G. subst r.
      symmetry. apply (inv_idx2 _ _ _ HI _ _ _ G).
    + destruct (idx_get (s_idx s) t r) as [u|] eqn:E2; [|reflexivity].
      destruct (inv_idx1 _ _ _ HI _ _ _ E2) as (rc & G & Hr).
      assert (Hs : idx_get (rev (map ikey (s_utxrs s))) t r = Some u).
      { apply (idx_rev_spec _ _ _ _ Hok). exists rc. split; [apply utxr_get_In; assumption|assumption]. }
      congruence.
  - simpl in *. repeat split; assumption.
Qed.

(* ---------- oracle ---------- *)
Definition zsorted {A} (l : list (Z * A)) : Prop := StronglySorted Z.lt (map fst l).

Lemma zinsert_keys {A} k (v : A) l x : In x (map fst (zinsert k v l)) -> x = k \/ In x (map fst l).
Proof.
  induction l as [|[k' v'] l IH]; simpl; [intuition congruence|].
  destruct (k <? k'); simpl; [intuition congruence|].
  destruct (k =? k') eqn:E; simpl; [assert (k = k') by lia; subst; intuition congruence|].
  intros [H|H]; [auto|]. apply IH in H. tauto.
Qed.

Lemma zinsert_sorted {A} k (v : A) l : zsorted l -> zsorted (zinsert k v l).
Proof.
  unfold zsorted. induction l as [|[k' v'] l IH]; simpl; intros H.
  - constructor; constructor.
  - inversion H as [|? ? Hs Hall]; subst.
    destruct (k <? k') eqn:E1; simpl.
    + constructor; [assumption|]. constructor; [lia|].
      rewrite Forall_forall in *. intros x Hx. specialize (Hall x Hx). lia.
    + destruct (k =? k') eqn:E2; simpl.
      * assert (k = k') by lia. subst. constructor; assumption.
      * constructor; [apply IH; assumption|].
        rewrite Forall_forall in *. intros x Hx. apply zinsert_keys in Hx as [->|Hx]; [lia|auto].
Qed.

Lemma zremove_sorted {A} k (l : list (Z * A)) : zsorted l -> zsorted (zremove k l).
Proof.
  unfold zsorted. induction l as [|[k' v'] l IH]; simpl; intros H; [constructor|].
  inversion H as [|? ? Hs Hall]; subst.
  destruct (k =? k'); simpl; [apply IH; assumption|].
  constructor; [apply IH; assumption|].
  rewrite Forall_forall in *. intros x Hx. apply Hall.
  clear - Hx. induction l as [|[k2 v2] l IH]; simpl in *; [assumption|].
  destruct (k =? k2); simpl in *; [right; auto|]. destruct Hx; [left; assumption|right; auto].
Qed.

Lemma zinsert_at_end {A} k (v : A) l : (forall x, In x (map fst l) -> x < k) -> zinsert k v l = l ++ [(k, v)].
Proof.
  induction l as [|[k' v'] l IH]; simpl; intros H; [reflexivity|].
  assert (k' < k) by (apply H; left; reflexivity).
  destruct (k <? k') eqn:E1; [lia|]. destruct (k =? k') eqn:E2; [lia|].
  f_equal. apply IH. intros x Hx. apply H. right. assumption.
Qed.

Lemma zfill_sorted_id {A} (l : list (Z * A)) : zsorted l -> zfill l = l.
Proof.
  unfold zfill. intros Hs.
  assert (G : forall (rest p : list (Z * A)), zsorted (p ++ rest) ->
              fold_left (fun acc (kv : Z * A) => zinsert (fst kv) (snd kv) acc) rest p = p ++ rest).
  { induction rest as [|[k v] rest IH]; intros p Hp; simpl; [rewrite app_nil_r; reflexivity|].
    rewrite zinsert_at_end.
    - rewrite IH; [rewrite <- app_assoc; reflexivity|]. rewrite <- app_assoc. exact Hp.
    - intros x Hx. unfold zsorted in Hp. rewrite map_app in Hp. simpl in Hp.
      clear - Hp Hx. induction (map fst p) as [|a q IHq]; [destruct Hx|].
      simpl in Hp. inversion Hp as [|? ? Hs Hall]; subst. destruct Hx as [->|Hx].
      + rewrite Forall_forall in Hall. apply Hall. apply in_or_app. right. left. reflexivity.
      + apply IHq; assumption. }
  apply (G l []). exact Hs.
Qed.

(* the oracle's key-value lists are only ever built by sorted insertion and removal *)
Definition osorted (o : ostate) : Prop :=
  zsorted (o_prevotes o) /\ zsorted (o_votes o) /\ zsorted (o_deleg o) /\ zsorted (o_miss o).

Theorem oracle_roundtrip o s h : osorted o ->
  let o' := import_o (export_o o) (o_vals o) (o_pool o) (o_credited o) s h in
  o_params o' = o_params o /\ o_prevotes o' = o_prevotes o /\ o_votes o' = o_votes o /\
  o_deleg o' = o_deleg o /\ o_miss o' = o_miss o /\ export_o o' = export_o o.
Proof.
  intros (A & B & C & D) o'. subst o'. unfold import_o, export_o. simpl.
  rewrite !zfill_sorted_id by assumption. auto 10.
Qed.
