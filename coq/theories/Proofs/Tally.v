(* The tally of x/oracle (voteprocessor.go) refines its specification: power behind an (NFT, owner)
   pair = sum, over DISTINCT active validators that revealed it, of their own power; an owner is
   accepted iff it alone reaches the threshold. *)
From Settlus Require Import Base.Prelude Base.Hex Base.Dec Oracle.Arith Settlement.Model Oracle.Model Proofs.OracleEnd.

(* ---------- boolean equalities are Leibniz equalities ---------- *)
Lemma nft_eqb_eq a b : nft_eqb a b = true <-> a = b.
Proof.
  destruct a as [c1 k1 t1], b as [c2 k2 t2]. unfold nft_eqb. simpl.
  rewrite !andb_true_iff, bytes_eqb_eq, !Z.eqb_eq. split.
  - intros [[A B] C]. subst. reflexivity.
  - intros H. inversion H. auto.
Qed.
Lemma nft_eqb_refl a : nft_eqb a a = true. Proof. apply nft_eqb_eq. reflexivity. Qed.
Lemma nft_eqb_neq a b : nft_eqb a b = false <-> a <> b.
Proof.
  split; intro H.
  - intro E. apply nft_eqb_eq in E. congruence.
  - destruct (nft_eqb a b) eqn:E; [apply nft_eqb_eq in E; contradiction|reflexivity].
Qed.

Lemma ballot_eqb_eq a b : ballot_eqb a b = true <-> a = b.
Proof.
  destruct a as [v1 n1 o1], b as [v2 n2 o2]. unfold ballot_eqb. simpl.
  rewrite !andb_true_iff, nft_eqb_eq, !Z.eqb_eq. split.
  - intros [[A B] C]. subst. reflexivity.
  - intros H. inversion H. auto.
Qed.

Lemma ballot_mem_In b l : ballot_mem b l = true <-> In b l.
Proof.
  induction l as [|x l IH]; simpl; [split; [discriminate|tauto]|].
  rewrite orb_true_iff, IH, ballot_eqb_eq. split; intros [H|H]; auto.
Qed.

Lemma nft_mem_In n l : nft_mem n l = true <-> In n l.
Proof.
  induction l as [|x l IH]; simpl; [split; [discriminate|tauto]|].
  rewrite orb_true_iff, IH, nft_eqb_eq. split; intros [H|H]; auto.
Qed.

(* ---------- deduplication ---------- *)
Lemma dedup_ballots_In l : forall acc x, In x (dedup_ballots l acc) <-> In x acc \/ In x l.
Proof.
  induction l as [|y l IH]; intros acc x; simpl; [tauto|].
  destruct (ballot_mem y acc) eqn:E.
  - rewrite IH. apply ballot_mem_In in E. split; [tauto|]. intros [H|[H|H]]; subst; auto.
  - rewrite IH, in_app_iff. simpl. tauto.
Qed.

Lemma dedup_ballots_NoDup l : forall acc, NoDup acc -> NoDup (dedup_ballots l acc).
Proof.
  induction l as [|y l IH]; intros acc Hnd; simpl; [assumption|].
  destruct (ballot_mem y acc) eqn:E; [apply IH; assumption|].
  apply IH. apply NoDup_app_singleton; [assumption|].
  intro Hin. apply ballot_mem_In in Hin. congruence.
Qed.

Lemma nft_dedup_In l : forall acc x, In x (nft_dedup l acc) <-> In x acc \/ In x l.
Proof.
  induction l as [|y l IH]; intros acc x; simpl; [tauto|].
  destruct (nft_mem y acc) eqn:E.
  - rewrite IH. apply nft_mem_In in E. split; [tauto|]. intros [H|[H|H]]; subst; auto.
  - rewrite IH, in_app_iff. simpl. tauto.
Qed.

Lemma nft_dedup_NoDup l : forall acc, NoDup acc -> NoDup (nft_dedup l acc).
Proof.
  induction l as [|y l IH]; intros acc Hnd; simpl; [assumption|].
  destruct (nft_mem y acc) eqn:E; [apply IH; assumption|].
  apply IH. apply NoDup_app_singleton; [assumption|].
  intro Hin. apply nft_mem_In in Hin. congruence.
Qed.

Lemma all_ballots_NoDup o : NoDup (all_ballots o).
Proof. unfold all_ballots. apply dedup_ballots_NoDup. constructor. Qed.

(* a ballot is counted iff some stored vote of that validator contains, under the ownership topic,
   a well-formed entry for that NFT and owner - however many times the entry is repeated *)
Lemma all_ballots_In o b :
  In b (all_ballots o) <->
  exists vv, In vv (o_votes o) /\ In b (ballots_of_vote (fst vv) (snd vv)).
Proof.
  unfold all_ballots. rewrite dedup_ballots_In. simpl. rewrite in_concat. split.
  - intros [[]|(l & Hl & Hb)]. apply in_map_iff in Hl as (vv & <- & Hvv). eauto.
  - intros (vv & Hvv & Hb). right. exists (ballots_of_vote (fst vv) (snd vv)). split; [|assumption].
    apply in_map_iff. eauto.
Qed.

(* ---------- one validator, one voice ---------- *)
Definition revealed (bs : list ballot) (v : Z) (n : nft) (ow : Z) : bool := ballot_mem (mkBallot v n ow) bs.

(* specification: the summed power of the DISTINCT members of the claim map that revealed (n, ow) *)
Definition power_behind (cl : list (Z * Z)) (bs : list ballot) (n : nft) (ow : Z) : Z :=
  sumZ (map (fun c : Z * Z => if revealed bs (fst c) n ow then snd c else 0) cl).

Lemma sum_key cl v : NoDup (map fst cl) ->
  sumZ (map (fun c : Z * Z => if fst c =? v then snd c else 0) cl) = weight_of cl v.
Proof.
  unfold weight_of. induction cl as [|[k w] cl IH]; simpl; intros Hnd; [reflexivity|].
  inversion Hnd as [|? ? Hn Hnd']; subst.
  destruct (v =? k) eqn:E.
  - assert (k = v) by lia. subst k. rewrite Z.eqb_refl.
    assert (Hz : sumZ (map (fun c : Z * Z => if fst c =? v then snd c else 0) cl) = 0).
    { clear IH Hnd Hnd'. induction cl as [|[k' w'] cl IH]; simpl; [reflexivity|].
      simpl in Hn. destruct (k' =? v) eqn:E'; [exfalso; apply Hn; left; lia|].
      rewrite IH; [lia|]. intro; apply Hn; right; assumption. }
    lia.
  - destruct (k =? v) eqn:E'; [lia|]. rewrite IH by assumption. lia.
Qed.

Lemma sum_split (f g : Z * Z -> bool) cl :
  (forall c, In c cl -> f c = true -> g c = false) ->
  sumZ (map (fun c : Z * Z => if f c || g c then snd c else 0) cl) =
  sumZ (map (fun c : Z * Z => if f c then snd c else 0) cl) + sumZ (map (fun c : Z * Z => if g c then snd c else 0) cl).
Proof.
  induction cl as [|c cl IH]; simpl; intros H; [reflexivity|].
  rewrite IH by (intros; apply H; auto).
  destruct (f c) eqn:Ef; simpl.
  - rewrite (H c (or_introl eq_refl) Ef). lia.
  - destruct (g c); lia.
Qed.

Theorem support_is_power_behind cl bs n ow :
  NoDup (map fst cl) -> NoDup bs ->
  support cl bs n ow = power_behind cl bs n ow.
Proof.
  intros Hcl. unfold support, power_behind. induction bs as [|b bs IH]; intros Hnd.
  - simpl. induction cl as [|c cl IHc]; simpl; [reflexivity|].
    inversion Hcl; subst. rewrite <- IHc by assumption. reflexivity.
  - inversion Hnd as [|? ? Hnb Hnd']; subst. simpl map at 1. simpl sumZ at 1. rewrite (IH Hnd').
    destruct (nft_eqb (b_nft b) n && (b_owner b =? ow)) eqn:Em.
    + apply andb_true_iff in Em as [En Eo]. apply nft_eqb_eq in En. apply Z.eqb_eq in Eo.
      rewrite <- (sum_key cl (b_voter b) Hcl).
      rewrite <- sum_split.
      * f_equal. apply map_ext. intros c. unfold revealed. simpl.
        replace (ballot_eqb {| b_voter := fst c; b_nft := n; b_owner := ow |} b) with (fst c =? b_voter b).
        2:{ destruct b as [bv bn bo]. simpl in *. subst. unfold ballot_eqb. simpl.
            rewrite nft_eqb_refl, Z.eqb_refl, !andb_true_r. reflexivity. }
        reflexivity.
      * intros c _ Hc. apply Z.eqb_eq in Hc. unfold revealed.
        destruct (ballot_mem {| b_voter := fst c; b_nft := n; b_owner := ow |} bs) eqn:Eb; [|reflexivity].
        apply ballot_mem_In in Eb. exfalso. apply Hnb.
        destruct b as [bv bn bo]. simpl in *. subst. exact Eb.
    + rewrite Z.add_0_l. f_equal. apply map_ext. intros c. unfold revealed. simpl.
      replace (ballot_eqb {| b_voter := fst c; b_nft := n; b_owner := ow |} b) with false; [reflexivity|].
      symmetry. destruct (ballot_eqb _ b) eqn:Eb; [|reflexivity].
      apply ballot_eqb_eq in Eb. subst b. simpl in Em. rewrite nft_eqb_refl, Z.eqb_refl in Em. discriminate.
Qed.

(* validators that are not bonded or are jailed have no voice *)
Lemma claims_keys o : map fst (claims o) = map v_addr (filter active (o_vals o)).
Proof. unfold claims. rewrite map_map. reflexivity. Qed.

Lemma claims_NoDup o : NoDup (map v_addr (o_vals o)) -> NoDup (map fst (claims o)).
Proof.
  rewrite claims_keys. induction (o_vals o) as [|v l IH]; simpl; intros H; [constructor|].
  inversion H as [|? ? Hn Hnd]; subst.
  destruct (active v); simpl; [|apply IH; assumption].
  constructor; [|apply IH; assumption].
  intro Hin. apply Hn. apply in_map_iff in Hin as (x & Hx & Hf). apply filter_In in Hf as [Hf _].
  apply in_map_iff. eauto.
Qed.

Lemma inactive_weight_zero o a :
  (forall v, In v (o_vals o) -> v_addr v = a -> active v = false) -> weight_of (claims o) a = 0.
Proof.
  intros H. unfold weight_of. destruct (zlookup a (claims o)) eqn:E; [|reflexivity].
  exfalso. assert (Hn : zlookup a (claims o) <> None) by congruence.
  destruct (claims_lookup o a Hn) as (x & Hx & Ha & Hact). rewrite (H x Hx Ha) in Hact. discriminate.
Qed.

(* ---------- the pick ---------- *)
Lemma filter_singleton {A} (f : A -> bool) l x : NoDup l ->
  (filter f l = [x] <-> In x l /\ f x = true /\ forall y, In y l -> f y = true -> y = x).
Proof.
  intros Hnd. split.
  - intros Hf.
    assert (Hin : In x (filter f l)) by (rewrite Hf; left; reflexivity).
    apply filter_In in Hin as [Hin Hfx]. split; [assumption|]. split; [assumption|].
    intros y Hy Hfy. assert (Hiny : In y (filter f l)) by (apply filter_In; auto).
    rewrite Hf in Hiny. destruct Hiny as [H|[]]. auto.
  - intros (Hin & Hfx & Huniq). induction l as [|z l IH]; [destruct Hin|].
    inversion Hnd as [|? ? Hnz Hnd']; subst. simpl.
    destruct (f z) eqn:Ez.
    + assert (z = x) by (apply Huniq; [left; reflexivity|assumption]). subst z.
      f_equal. assert (Hnone : forall y, In y l -> f y = false).
      { intros y Hy. destruct (f y) eqn:Ey; [|reflexivity].
        assert (y = x) by (apply Huniq; [right; assumption|assumption]). subst y. contradiction. }
      clear - Hnone. induction l as [|y l IH]; simpl; [reflexivity|].
      rewrite (Hnone y (or_introl eq_refl)). apply IH. intros; apply Hnone; right; assumption.
    + destruct Hin as [->|Hin]; [congruence|].
      apply IH; [assumption|assumption|]. intros y Hy. apply Huniq. right. assumption.
Qed.

Lemma owners_for_NoDup bs n : NoDup (owners_for bs n).
Proof. unfold owners_for. apply z_dedup_NoDup. constructor. Qed.

Lemma owners_for_In bs n ow :
  In ow (owners_for bs n) <-> exists b, In b bs /\ b_nft b = n /\ b_owner b = ow.
Proof.
  unfold owners_for. rewrite z_dedup_In. simpl. rewrite in_map_iff. split.
  - intros [[]|(b & Ho & Hf)]. apply filter_In in Hf as [Hin Hn]. apply nft_eqb_eq in Hn. eauto.
  - intros (b & Hin & Hn & Ho). right. exists b. split; [assumption|].
    apply filter_In. split; [assumption|]. apply nft_eqb_eq. assumption.
Qed.

Theorem pick_spec cl bs thr n ow :
  pick cl bs thr n = Some ow <->
  (In ow (owners_for bs n) /\ thr <= support cl bs n ow /\
   forall ow', In ow' (owners_for bs n) -> thr <= support cl bs n ow' -> ow' = ow).
Proof.
  unfold pick.
  assert (HS : filter (fun ow0 => thr <=? support cl bs n ow0) (owners_for bs n) = [ow] <->
               (In ow (owners_for bs n) /\ thr <= support cl bs n ow /\
                forall ow', In ow' (owners_for bs n) -> thr <= support cl bs n ow' -> ow' = ow)).
  { rewrite (filter_singleton (fun ow0 => thr <=? support cl bs n ow0) (owners_for bs n) ow (owners_for_NoDup bs n)).
    split; intros (A & B & C); (split; [assumption|split; [lia|intros y Hy Hf; apply C; [assumption|lia]]]). }
  destruct (filter (fun ow0 => thr <=? support cl bs n ow0) (owners_for bs n)) as [|x [|y rest]] eqn:Ef.
  - split; [discriminate|]. intros H. apply HS in H. discriminate.
  - split.
    + intros H; inversion H; subst. apply HS. reflexivity.
    + intros H. apply HS in H. inversion H; reflexivity.
  - split; [discriminate|]. intros H. apply HS in H. discriminate.
Qed.

(* ---------- the result map ---------- *)
Lemma fill_get_results_notin cl bs thr L n : ~ In n L ->
  fill_get (concat (map (fun n0 => match pick cl bs thr n0 with Some ow => [(n0, ow)] | None => [] end) L)) n = None.
Proof.
  induction L as [|n' L IH]; simpl; intros Hn; [reflexivity|].
  destruct (pick cl bs thr n') as [ow|]; simpl.
  - destruct (nft_eqb n n') eqn:E; [apply nft_eqb_eq in E; subst; exfalso; apply Hn; left; reflexivity|].
    apply IH. intro; apply Hn; right; assumption.
  - apply IH. intro; apply Hn; right; assumption.
Qed.

Lemma fill_get_results cl bs thr L n : NoDup L -> In n L ->
  fill_get (concat (map (fun n0 => match pick cl bs thr n0 with Some ow => [(n0, ow)] | None => [] end) L)) n
  = pick cl bs thr n.
Proof.
  induction L as [|n' L IH]; simpl; intros Hnd Hin; [destruct Hin|].
  inversion Hnd as [|? ? Hn' Hnd']; subst.
  destruct (nft_eqb n n') eqn:E.
  - apply nft_eqb_eq in E. subst n'. destruct (pick cl bs thr n) as [ow|]; simpl.
    + rewrite nft_eqb_refl. reflexivity.
    + apply fill_get_results_notin. assumption.
  - apply nft_eqb_neq in E. destruct Hin as [->|Hin]; [congruence|].
    destruct (pick cl bs thr n') as [ow|]; simpl.
    + destruct (nft_eqb n n') eqn:E2; [apply nft_eqb_eq in E2; congruence|]. apply IH; assumption.
    + apply IH; assumption.
Qed.

Lemma sources_of_In bs n : In n (sources_of bs) <-> exists b, In b bs /\ b_nft b = n.
Proof.
  unfold sources_of. rewrite nft_dedup_In. simpl. rewrite in_map_iff. split.
  - intros [[]|(b & H1 & H2)]. eauto.
  - intros (b & H1 & H2). right. eauto.
Qed.

Theorem tally_results_spec cl bs thr n ow :
  fill_get (tally_results cl bs thr) n = Some ow <-> pick cl bs thr n = Some ow.
Proof.
  unfold tally_results.
  destruct (in_dec (fun a b => match Bool.bool_dec (nft_eqb a b) true with
                               | left H => left (proj1 (nft_eqb_eq a b) H)
                               | right H => right (fun E => H (proj2 (nft_eqb_eq a b) E))
                               end) n (sources_of bs)) as [Hin|Hn].
  - rewrite fill_get_results; [tauto| |assumption]. unfold sources_of. apply nft_dedup_NoDup. constructor.
  - rewrite fill_get_results_notin by assumption. split; [discriminate|].
    intros Hp. exfalso. apply Hn. apply pick_spec in Hp as (Hown & _).
    apply owners_for_In in Hown as (b & Hb & Hnb & _). apply sources_of_In. eauto.
Qed.

(* ---------- the threshold: ceil(threshold x total power) ---------- *)
Lemma ceil_threshold a x : 0 <= a ->
  (dec_ceil_int a <= x <-> a <= x * prec).
Proof.
  intros Ha. rewrite dec_ceil_nonneg by assumption.
  pose proof (Z.mod_pos_bound a prec prec_pos) as Hm.
  pose proof (Z.div_mod a prec ltac:(unfold prec; lia)) as Hd.
  destruct (a mod prec =? 0) eqn:E; split; intro H; nia.
Qed.
