(* Tenants, admins, authorisation (C09) and the maturity test (C02). *)
From Settlus Require Import Base.Prelude Base.Hex Settlement.Model Settlement.Machine
  Proofs.StoreLemmas Proofs.SettlementInv Proofs.SettlementEnd.

(* ---------- tenant table invariant ---------- *)
Definition tenant_ok (t : tenant) : Prop :=
  NoDup (t_admins t) /\ t_admins t <> [] /\ 1 <= t_period t < two64 /\ 1 <= t_id t.

Definition tenants_ok (l : list tenant) : Prop :=
  (forall t, In t l -> tenant_ok t) /\ NoDup (map t_id l) /\
  (forall t, In t l -> t_id t <= largest_tenant_id l).

Lemma fold_max_ge l : forall acc, acc <= fold_left (fun a t => Z.max a (t_id t)) l acc.
Proof. induction l as [|t l IH]; intros acc; simpl; [lia|]. specialize (IH (Z.max acc (t_id t))). lia. Qed.

Lemma fold_max_In l : forall acc t, In t l -> t_id t <= fold_left (fun a t => Z.max a (t_id t)) l acc.
Proof.
  induction l as [|t' l IH]; intros acc t Hin; simpl; [destruct Hin|].
  destruct Hin as [->|Hin]; [|apply IH; assumption].
  pose proof (fold_max_ge l (Z.max acc (t_id t))). lia.
Qed.

Lemma fold_max_app l t acc :
  fold_left (fun a t => Z.max a (t_id t)) (l ++ [t]) acc = Z.max (fold_left (fun a t => Z.max a (t_id t)) l acc) (t_id t).
Proof. rewrite fold_left_app. reflexivity. Qed.

Lemma largest_nonneg l : 0 <= largest_tenant_id l.
Proof. unfold largest_tenant_id. apply fold_max_ge. Qed.

Lemma tenants_ok_nil : tenants_ok [].
Proof. split; [intros ? []|split; [constructor|intros ? []]]. Qed.

Lemma find_tenant_none_notin l tid : find_tenant l tid = None -> ~ In tid (map t_id l).
Proof.
  induction l as [|t l IH]; simpl; [tauto|].
  destruct (t_id t =? tid) eqn:E; [discriminate|]. intros H [H1|H1]; [lia|]. apply IH; assumption.
Qed.

Lemma tenants_ok_app l t : tenants_ok l -> tenant_ok t -> t_id t = largest_tenant_id l + 1 ->
  tenants_ok (l ++ [t]).
Proof.
  intros (H1 & H2 & H3) Hok Hid. split; [|split].
  - intros t' Hin. apply in_app_iff in Hin as [Hin|[<-|[]]]; auto.
  - rewrite map_app. simpl. apply NoDup_app_singleton; [assumption|].
    intro Hin. apply in_map_iff in Hin as (t' & Heq & Hin). specialize (H3 _ Hin). lia.
  - intros t' Hin. unfold largest_tenant_id in *. rewrite fold_max_app.
    apply in_app_iff in Hin as [Hin|[<-|[]]]; [specialize (H3 _ Hin)|]; lia.
Qed.

Lemma replace_tenant_In l t x : In x (replace_tenant l t) -> x = t \/ In x l.
Proof.
  induction l as [|t' l IH]; simpl; [tauto|].
  destruct (t_id t' =? t_id t); simpl; intros [H|H]; auto. destruct (IH H); auto.
Qed.

Lemma replace_tenant_ids l t : map t_id (replace_tenant l t) = map t_id l.
Proof.
  induction l as [|t' l IH]; simpl; [reflexivity|].
  destruct (t_id t' =? t_id t) eqn:E; simpl; [f_equal; lia|f_equal; exact IH].
Qed.

Lemma largest_replace l t : largest_tenant_id (replace_tenant l t) = largest_tenant_id l.
Proof.
  unfold largest_tenant_id. generalize 0.
  induction l as [|t' l IH]; intros acc; simpl; [reflexivity|].
  destruct (t_id t' =? t_id t) eqn:E; simpl; [replace (t_id t) with (t_id t') by lia; reflexivity|apply IH].
Qed.

Lemma tenants_ok_replace l t : tenants_ok l -> tenant_ok t -> In (t_id t) (map t_id l) ->
  tenants_ok (replace_tenant l t).
Proof.
  intros (H1 & H2 & H3) Hok Hin. split; [|split].
  - intros x Hx. apply replace_tenant_In in Hx as [->|Hx]; auto.
  - rewrite replace_tenant_ids. assumption.
  - intros x Hx. rewrite largest_replace. apply replace_tenant_In in Hx as [->|Hx]; [|auto].
    apply in_map_iff in Hin as (t0 & Heq & Hin0). rewrite <- Heq. auto.
Qed.

Lemma remove_first_NoDup x l : NoDup l -> NoDup (remove_first x l).
Proof.
  induction 1 as [|y l Hn Hnd IH]; simpl; [constructor|].
  destruct (x =? y); [assumption|]. constructor; [|exact IH].
  intro Hin. apply Hn. clear -Hin. induction l as [|z l IH]; simpl in *; [assumption|].
  destruct (x =? z); [right; assumption|]. destruct Hin; [left; assumption|right; auto].
Qed.

Lemma remove_first_nonempty x l : 2 <= lenZ l -> remove_first x l <> [].
Proof.
  unfold lenZ. destruct l as [|a [|b l]]; simpl; try lia. intros _.
  destruct (x =? a); [discriminate|]. destruct (x =? b); discriminate.
Qed.

Lemma find_tenant_some_in l tid t : find_tenant l tid = Some t -> In (t_id t) (map t_id l).
Proof. intros H. apply in_map. eapply find_tenant_In; eassumption. Qed.

Lemma handle_tenants_ok s h m s' g :
  tenants_ok (s_tenants s) -> largest_tenant_id (s_tenants s) + 1 < two64 ->
  handle s h m = Ok (s', g) -> tenants_ok (s_tenants s').
Proof.
  intros Hok Hbig Hh. unfold handle in Hh.
  destruct (validate_basic m) eqn:Evb; [|discriminate]. simpl in Hh.
  pose proof (largest_nonneg (s_tenants s)) as Hnn.
  destruct m; simpl in Evb.
  - inversion Hh; subst. simpl. apply andb_true_iff in Evb as [_ Ep]. unfold valid_period_u64 in Ep.
    rewrite wrap64_small by (unfold two64 in *; lia).
    apply tenants_ok_app; [assumption| |reflexivity].
    split; [constructor; [intros []|constructor]|]. split; [discriminate|].
    cbn [t_period t_id t_admins]. unfold two64 in *. lia.
  - inversion Hh; subst. simpl. apply andb_true_iff in Evb as [Evb _]. apply andb_true_iff in Evb as [_ Ep]. unfold valid_period_u64 in Ep.
    rewrite wrap64_small by (unfold two64 in *; lia).
    apply tenants_ok_app; [assumption| |reflexivity].
    split; [constructor; [intros []|constructor]|]. split; [discriminate|].
    cbn [t_period t_id t_admins]. unfold two64 in *. lia.
  - destruct (negb (is_admin s tid sender)); [discriminate|].
    destruct (find_tenant (s_tenants s) tid) as [t|] eqn:Ef; [|discriminate].
    destruct (memZ admin (t_admins t)) eqn:Em; [discriminate|].
    inversion Hh; subst. simpl.
    destruct (proj1 Hok t (find_tenant_In _ _ _ Ef)) as (Hnd & Hne & Hp & Hi).
    apply tenants_ok_replace; [assumption| |simpl; eapply find_tenant_some_in; eassumption].
    split; simpl; [|split; [destruct (t_admins t); discriminate|auto]].
    apply NoDup_app_singleton; [assumption|]. intro Hin. apply memZ_In in Hin. congruence.
  - destruct (negb (is_admin s tid sender)); [discriminate|].
    destruct (find_tenant (s_tenants s) tid) as [t|] eqn:Ef; [|discriminate].
    destruct (negb (memZ admin (t_admins t))); [discriminate|].
    destruct (lenZ (t_admins t) =? 1) eqn:El; [discriminate|].
    inversion Hh; subst. simpl.
    destruct (proj1 Hok t (find_tenant_In _ _ _ Ef)) as (Hnd & Hne & Hp & Hi).
    apply tenants_ok_replace; [assumption| |simpl; eapply find_tenant_some_in; eassumption].
    split; simpl; [apply remove_first_NoDup; assumption|]. split; [|auto].
    apply remove_first_nonempty. unfold lenZ in *. destruct (t_admins t) as [|a0 l0]; [congruence|].
    cbn [length] in *. lia.
  - destruct (negb (is_admin s tid sender)); [discriminate|].
    destruct (find_tenant (s_tenants s) tid) as [t|] eqn:Ef; [|discriminate].
    inversion Hh; subst. simpl. unfold valid_period_u64 in Evb.
    destruct (proj1 Hok t (find_tenant_In _ _ _ Ef)) as (Hnd & Hne & Hp & Hi).
    apply tenants_ok_replace; [assumption| |simpl; eapply find_tenant_some_in; eassumption].
    split; simpl; [assumption|]. split; [assumption|]. unfold two64 in *. lia.
  - destruct (find_tenant (s_tenants s) tid) as [t|]; [|discriminate].
    destruct (negb (t_method t =? 0)); [discriminate|].
    destruct (bal_get (s_bal s) sender denom <? amount); [discriminate|].
    inversion Hh; subst. assumption.
  - destruct (negb (is_admin s tid sender)); [discriminate|].
    destruct (find_tenant (s_tenants s) tid) as [t|]; [|discriminate].
    destruct (negb (bytes_eqb (t_denom t) denom)); [discriminate|].
    destruct (t_period t =? 0); [discriminate|].
    destruct (get_recipients s chain contract tokhex) as [rs| |]; try discriminate.
    unfold create_utxr in Hh. destruct (idx_get (s_idx s) tid _); [discriminate|].
    inversion Hh; subst. assumption.
  - destruct (find_tenant (s_tenants s) tid) as [t|]; [|discriminate].
    destruct (negb (is_admin s tid sender)); [discriminate|].
    destruct (idx_get (s_idx s) tid req); [|discriminate].
    inversion Hh; subst. assumption.
Qed.

(* ---------- who may act for a tenant ---------- *)
Definition privileged (m : smsg) : option (Z * Z) :=   (* (tenant, sender) *)
  match m with
  | MRecord sender tid _ _ _ _ _ _ => Some (tid, sender)
  | MCancel sender tid _ => Some (tid, sender)
  | MAddAdmin sender tid _ => Some (tid, sender)
  | MRemoveAdmin sender tid _ => Some (tid, sender)
  | MUpdatePeriod sender tid _ => Some (tid, sender)
  | _ => None
  end.

Lemma handle_only_admin s h m s' g tid sender :
  privileged m = Some (tid, sender) -> handle s h m = Ok (s', g) -> is_admin s tid sender = true.
Proof.
  intros Hp Hh. unfold handle in Hh. destruct (negb (validate_basic m)); [discriminate|].
  destruct m; simpl in Hp; inversion Hp; subst;
    try (destruct (is_admin s tid sender); [reflexivity|discriminate]).
  destruct (find_tenant (s_tenants s) tid); [|discriminate].
  destruct (is_admin s tid sender); [reflexivity|discriminate].
Qed.

Lemma is_admin_spec s tid a :
  is_admin s tid a = true <-> exists t, find_tenant (s_tenants s) tid = Some t /\ In a (t_admins t).
Proof.
  unfold is_admin. destruct (find_tenant (s_tenants s) tid) as [t|].
  - rewrite memZ_In. split; [intros H; exists t; auto|intros (t' & Heq & Hin); inversion Heq; subst; assumption].
  - split; [discriminate|intros (t & Heq & _); discriminate].
Qed.

(* exact acceptance conditions, kind by kind *)
Lemma cancel_iff s h sender tid req :
  (exists s' g, handle s h (MCancel sender tid req) = Ok (s', g)) <->
  (is_admin s tid sender = true /\ idx_get (s_idx s) tid req <> None).
Proof.
  unfold handle. simpl. unfold is_admin.
  destruct (find_tenant (s_tenants s) tid) as [t|]; [|split; [intros (? & ? & H); discriminate|intros [H _]; discriminate]].
  destruct (memZ sender (t_admins t)); simpl; [|split; [intros (? & ? & H); discriminate|intros [H _]; discriminate]].
  destruct (idx_get (s_idx s) tid req); split; try (intros (? & ? & H); discriminate); try tauto.
  - intros _. split; [reflexivity|discriminate].
  - intros _. eauto.
Qed.

Lemma add_admin_iff s h sender tid a :
  (exists s' g, handle s h (MAddAdmin sender tid a) = Ok (s', g)) <->
  (is_admin s tid sender = true /\ is_admin s tid a = false).
Proof.
  unfold handle. simpl. unfold is_admin.
  destruct (find_tenant (s_tenants s) tid) as [t|].
  - destruct (memZ sender (t_admins t)); simpl; [|split; [intros (? & ? & H); discriminate|intros [H _]; discriminate]].
    destruct (memZ a (t_admins t)); split; try (intros (? & ? & H); discriminate); try tauto; eauto.
    intros [_ H]; discriminate.
  - split; [intros (? & ? & H); discriminate|intros [H _]; discriminate].
Qed.

Lemma remove_admin_iff s h sender tid a :
  (exists s' g, handle s h (MRemoveAdmin sender tid a) = Ok (s', g)) <->
  (is_admin s tid sender = true /\ is_admin s tid a = true /\
   exists t, find_tenant (s_tenants s) tid = Some t /\ lenZ (t_admins t) <> 1).
Proof.
  unfold handle. simpl. unfold is_admin.
  destruct (find_tenant (s_tenants s) tid) as [t|].
  - destruct (memZ sender (t_admins t)); simpl; [|split; [intros (? & ? & H); discriminate|intros [H _]; discriminate]].
    destruct (memZ a (t_admins t)); simpl; [|split; [intros (? & ? & H); discriminate|intros (_ & H & _); discriminate]].
    destruct (lenZ (t_admins t) =? 1) eqn:E; split; try (intros (? & ? & H); discriminate).
    + intros (_ & _ & t' & Heq & Hl). inversion Heq; subst. lia.
    + intros _. split; [reflexivity|]. split; [reflexivity|]. exists t. split; [reflexivity|lia].
    + intros _. eauto.
  - split; [intros (? & ? & H); discriminate|intros [H _]; discriminate].
Qed.

Lemma update_period_iff s h sender tid p :
  (exists s' g, handle s h (MUpdatePeriod sender tid p) = Ok (s', g)) <->
  (is_admin s tid sender = true /\ 1 <= p < two64).
Proof.
  unfold handle. simpl. unfold valid_period_u64, is_admin.
  destruct ((1 <=? p) && (p <? two64)) eqn:Ep; simpl.
  - destruct (find_tenant (s_tenants s) tid) as [t|].
    + destruct (memZ sender (t_admins t)); simpl; split; try (intros (? & ? & H); discriminate); try (intros [H _]; discriminate); eauto.
      intros _. split; [reflexivity|lia].
    + split; [intros (? & ? & H); discriminate|intros [H _]; discriminate].
  - split; [intros (? & ? & H); discriminate|]. intros [_ H]. lia.
Qed.

(* a rejected transaction changes nothing (baseapp writes the message branch only on success) *)
Lemma rejected_noop m msgs :
  (forall s g, handle_all (m_s m) (m_h m) msgs <> Ok (s, g)) ->
  sm_step m (STx msgs) = (m, []).
Proof.
  intros H. simpl. destruct (handle_all (m_s m) (m_h m) msgs) as [[s g]| |] eqn:E; [|reflexivity|reflexivity].
  exfalso. eapply H. reflexivity.
Qed.

(* ---------- maturity (C02) ---------- *)
Lemma mature_iff u period h :
  0 <= u_created u < two64 -> 1 <= period < two64 -> 0 <= h < two63 ->
  (mature u period h = true <-> u_created u + period <= h).
Proof.
  intros Hc Hp Hh. unfold mature, wrap64.
  rewrite negb_true_iff, orb_false_iff, !Z.ltb_ge.
  unfold two64, two63 in *.
  destruct (Z_lt_ge_dec (u_created u + period) 18446744073709551616) as [Hlt|Hge].
  - rewrite Z.mod_small by lia. lia.
  - assert (Hm : (u_created u + period) mod 18446744073709551616 = u_created u + period - 18446744073709551616).
    { symmetry. apply (Z.mod_unique_pos _ _ 1); lia. }
    rewrite Hm. lia.
Qed.

(* every payout or drop made by the loop is for a record that the maturity test accepted *)
Lemma settle_loop_mature t h : forall recs s faults s' f' g,
  settle_loop t h recs s faults = (s', f', g) ->
  forall e, In e g ->
    (forall tid uid m d outs c p, e = GPaid tid uid m d outs c p ->
       p = t_period t /\ tid = t_id t /\ exists u, In (uid, u) recs /\ c = u_created u /\ mature u p h = true
       /\ outs = payout_amounts u /\ m = t_method t /\ d = u_denom u) /\
    (forall tid uid, e = GDropped tid uid ->
       tid = t_id t /\ exists u, In (uid, u) recs /\ mature u (t_period t) h = true /\ valid_recips (u_recips u) = []).
Proof.
  induction recs as [|[uid u] recs IH]; intros s faults s' f' g Hsl e He; simpl in Hsl.
  - inversion Hsl; subst. destruct He.
  - destruct (mature u (t_period t) h) eqn:Em; simpl in Hsl; [|inversion Hsl; subst; destruct He].
    destruct (valid_recips (u_recips u)) as [|vr0 vrs] eqn:Evr.
    + destruct (settle_loop t h recs _ faults) as [[s3 f3] g3] eqn:E3.
      inversion Hsl; subst. destruct He as [<-|He].
      * split; [intros; discriminate|]. intros tid uid0 Heq. inversion Heq; subst.
        split; [reflexivity|]. exists u. split; [left; reflexivity|]. auto.
      * destruct (IH _ _ _ _ _ E3 e He) as [H1 H2]. split.
        -- intros tid uid0 m d outs c p Heq. destruct (H1 _ _ _ _ _ _ _ Heq) as (Hp & Ht & u0 & Hin & Hrest).
           split; [assumption|]. split; [assumption|]. exists u0. split; [right; assumption|assumption].
        -- intros tid uid0 Heq. destruct (H2 _ _ Heq) as (Ht & u0 & Hin & Hrest).
           split; [assumption|]. exists u0. split; [right; assumption|assumption].
    + destruct (negb (payable_method (t_method t))); [inversion Hsl; subst; destruct He|].
      destruct (pay_all (t_method t) (t_id t) (u_denom u) (s_bal s) faults (payout_amounts u)) as [[l'|] faults'] eqn:Ep.
      * destruct (settle_loop t h recs _ faults') as [[s4 f4] g4] eqn:E4.
        inversion Hsl; subst. destruct He as [<-|He].
        -- split; [|intros; discriminate]. intros tid uid0 m d outs c p Heq. inversion Heq; subst.
           split; [reflexivity|]. split; [reflexivity|]. exists u. split; [left; reflexivity|]. auto 10.
        -- destruct (IH _ _ _ _ _ E4 e He) as [H1 H2]. split.
           ++ intros tid uid0 m d outs c p Heq. destruct (H1 _ _ _ _ _ _ _ Heq) as (Hp & Ht & u0 & Hin & Hrest).
              split; [assumption|]. split; [assumption|]. exists u0. split; [right; assumption|assumption].
           ++ intros tid uid0 Heq. destruct (H2 _ _ Heq) as (Ht & u0 & Hin & Hrest).
              split; [assumption|]. exists u0. split; [right; assumption|assumption].
      * inversion Hsl; subst. destruct He.
Qed.
