(* Soundness of the admission filters: whatever the packaging (message lists, authz exec nesting,
   grants), an admitted transaction executes no restricted message (C03, C04). *)
From Settlus Require Import Base.Prelude Base.Hex Base.Dec Settlement.Model Oracle.Model Ante.Fee Ante.Model.

(* nested induction principle for messages *)
Section TmsgInd.
  Variable P : tmsg -> Prop.
  Hypothesis Hleaf : forall l, P (TLeaf l).
  Hypothesis Hgrant : forall g u, P (TGrant g u).
  Hypothesis Hexec : forall g ms, Forall P ms -> P (TExec g ms).
  Fixpoint tmsg_ind2 (m : tmsg) : P m :=
    match m with
    | TLeaf l => Hleaf l
    | TGrant g u => Hgrant g u
    | TExec g ms =>
        Hexec g ms ((fix go (ms : list tmsg) : Forall P ms :=
                       match ms with
                       | [] => Forall_nil P
                       | m' :: ms' => Forall_cons m' (tmsg_ind2 m') (go ms')
                       end) ms)
    end.
End TmsgInd.

Lemma leaves_exec g ms : leaves (TExec g ms) = concat (map leaves ms).
Proof.
  simpl. induction ms as [|m ms IH]; simpl; [reflexivity|]. rewrite IH. reflexivity.
Qed.

Section Sound.
  Variable disabled : list url.

  (* the inner loop of checkDisabledMsgs, named *)
  Fixpoint loop_inner (ms : list tmsg) (l : Z) : bool :=
    match ms with
    | [] => true
    | m' :: ms' => let '(ok, l') := chk disabled m' true l in ok && loop_inner ms' l'
    end.

  Lemma chk_exec g ms inner lvl :
    chk disabled (TExec g ms) inner lvl = ((lvl + 1 <? max_nested) && loop_inner ms (lvl + 1), lvl + 1).
  Proof.
    reflexivity.
  Qed.

  (* every leaf below an authz exec was compared with the disabled list *)
  Lemma chk_inner_sound : forall m lvl l', chk disabled m true lvl = (true, l') ->
    forall x, In x (leaves m) -> is_disabled disabled (url_of x) = false.
  Proof.
    induction m as [l|g u|g ms IH] using tmsg_ind2; intros lvl l' H x Hx.
    - simpl in H. simpl in Hx. destruct Hx as [<-|[]]. inversion H as [[H1 H2]].
      destruct (is_disabled disabled (url_of l)); [discriminate|reflexivity].
    - destruct Hx.
    - rewrite chk_exec in H. inversion H as [[H1 H2]]. apply andb_true_iff in H1 as [_ Hloop].
      rewrite leaves_exec in Hx. clear H H2. revert Hloop Hx. generalize (lvl + 1).
      induction ms as [|m ms IHms]; intros l Hloop Hx; [destruct Hx|].
      inversion IH as [|? ? Hm Hms]; subst. simpl in Hloop, Hx.
      destruct (chk disabled m true l) as [ok l2] eqn:E. apply andb_true_iff in Hloop as [Hok Hrest]. subst ok.
      apply in_app_iff in Hx as [Hx|Hx].
      + eapply Hm; eassumption.
      + eapply IHms; eassumption.
  Qed.

  (* at the top level only the leaves BELOW some exec were compared *)
  Lemma chk_top_sound : forall m lvl l', chk disabled m false lvl = (true, l') ->
    forall x, In x (leaves m) -> m = TLeaf x \/ is_disabled disabled (url_of x) = false.
  Proof.
    intros m lvl l' H x Hx. destruct m as [l|g ms|g u].
    - simpl in Hx. destruct Hx as [<-|[]]. left. reflexivity.
    - right. rewrite chk_exec in H. rewrite <- (chk_exec g ms true lvl) in H.
      eapply chk_inner_sound; eassumption.
    - destruct Hx.
  Qed.

  Lemma chk_list_sound : forall ms lvl, chk_list disabled ms false lvl = true ->
    forall x, In x (leaves_list ms) -> In (TLeaf x) ms \/ is_disabled disabled (url_of x) = false.
  Proof.
    induction ms as [|m ms IH]; intros lvl H x Hx; [destruct Hx|].
    simpl in H. destruct (chk disabled m false lvl) as [ok l'] eqn:E. apply andb_true_iff in H as [Hok Hrest]. subst ok.
    unfold leaves_list in Hx. simpl in Hx. apply in_app_iff in Hx as [Hx|Hx].
    - destruct (chk_top_sound _ _ _ E x Hx) as [->|Hd]; [left; left; reflexivity|right; assumption].
    - destruct (IH _ Hrest x Hx) as [Hin|Hd]; [left; right; assumption|right; assumption].
  Qed.
End Sound.

(* the repaired list covers every settlement message, every oracle message and create-validator *)
Lemma settle_disabled m : is_disabled disabled_list (USettle (smsg_kind m)) = true.
Proof. destruct m; reflexivity. Qed.
Lemma oracle_disabled m : is_disabled disabled_list (UOracle (omsg_kind m)) = true.
Proof. destruct m; reflexivity. Qed.
Lemma create_validator_disabled : is_disabled disabled_list UCreateValidator = true.
Proof. reflexivity. Qed.

Definition restricted (h : Z) (x : leaf) : bool :=
  is_settlement_url (url_of x) || is_oracle_url (url_of x)
  || (url_eqb (url_of x) UCreateValidator && negb (h =? 0)) || url_eqb (url_of x) UEthereum.

(* the generic chain executes no restricted message, at any depth *)
Theorem cosmos_no_restricted h tx : cosmos_admits disabled_list true h tx = true ->
  forall x, In x (leaves_list (tx_msgs tx)) -> restricted h x = false.
Proof.
  unfold cosmos_admits. intros H x Hx.
  apply andb_true_iff in H as [H Hlim]. apply andb_true_iff in H as [Htop Heth].
  unfold limiter_ok in Hlim. apply andb_true_iff in Hlim as [_ Hlim].
  destruct (chk_list_sound disabled_list _ _ Hlim x Hx) as [Hin|Hd].
  - (* a top-level leaf: the two reject decorators looked at it *)
    unfold reject_top_ok in Htop. rewrite forallb_forall in Htop. specialize (Htop _ Hin). simpl in Htop.
    unfold reject_eth_ok in Heth. rewrite forallb_forall in Heth. specialize (Heth _ Hin). simpl in Heth.
    unfold restricted.
    apply andb_true_iff in Htop as [Htop H3]. apply andb_true_iff in Htop as [H1 H2].
    destruct (is_settlement_url (url_of x)); [discriminate|].
    destruct (is_oracle_url (url_of x)); [discriminate|].
    destruct (url_eqb (url_of x) UCreateValidator && negb (h =? 0)); [discriminate|].
    destruct (url_eqb (url_of x) UEthereum); [discriminate|]. reflexivity.
  - (* below an exec: compared with the list *)
    unfold restricted. destruct x as [m|m|a|a|a| |a]; try reflexivity.
    + pose proof (settle_disabled m) as E. unfold url_of in Hd. congruence.
    + pose proof (oracle_disabled m) as E. unfold url_of in Hd. congruence.
    + pose proof create_validator_disabled as E. unfold url_of in Hd. congruence.
    + unfold url_of in Hd. vm_compute in Hd. discriminate.
Qed.

(* a transaction routed to the settlus chain consists of top-level leaves of one module only *)
Lemma settlement_tx_leaves ms : is_settlement_tx ms = true ->
  forall x, In x (leaves_list ms) -> exists m, x = LSettle m /\ In (TLeaf x) ms.
Proof.
  unfold is_settlement_tx. destruct ms as [|m0 ms0]; [discriminate|]. intros H x Hx.
  rewrite forallb_forall in H. unfold leaves_list in Hx. apply in_concat in Hx as (l & Hl & Hxl).
  apply in_map_iff in Hl as (m & <- & Hm). specialize (H m Hm).
  destruct m as [l|g ms|g u]; simpl in H; try discriminate.
  simpl in Hxl. destruct Hxl as [<-|[]]. destruct l; simpl in H; try discriminate. eauto.
Qed.

Lemma oracle_tx_leaves ms : is_oracle_tx ms = true ->
  forall x, In x (leaves_list ms) -> exists m, x = LOracle m /\ In (TLeaf x) ms.
Proof.
  unfold is_oracle_tx. destruct ms as [|m0 ms0]; [discriminate|]. intros H x Hx.
  rewrite forallb_forall in H. unfold leaves_list in Hx. apply in_concat in Hx as (l & Hl & Hxl).
  apply in_map_iff in Hl as (m & <- & Hm). specialize (H m Hm).
  destruct m as [l|g ms|g u]; simpl in H; try discriminate.
  simpl in Hxl. destruct Hxl as [<-|[]]. destruct l; simpl in H; try discriminate. eauto.
Qed.
