(* Get/insert/delete laws of the association lists that model the settlement KV store. *)
From Settlus Require Import Base.Prelude Base.Hex Settlement.Model.

Definition keyeq (t u t' u' : Z) : bool := (t =? t') && (u =? u').

Lemma utxr_get_ins_same l t u v : utxr_get (utxr_ins l t u v) t u = Some v.
Proof.
  induction l as [|[[t' u'] v'] l IH]; simpl.
  - rewrite !Z.eqb_refl. reflexivity.
  - destruct (key_ltb t u t' u') eqn:E1; simpl.
    + rewrite !Z.eqb_refl. reflexivity.
    + destruct ((t =? t') && (u =? u')) eqn:E2; simpl.
      * rewrite !Z.eqb_refl. reflexivity.
      * replace ((t' =? t) && (u' =? u)) with false; [exact IH|].
        symmetry. apply andb_false_iff. apply andb_false_iff in E2. destruct E2; [left|right]; lia.
Qed.

Lemma utxr_get_ins_other l t u v t2 u2 : (t2, u2) <> (t, u) ->
  utxr_get (utxr_ins l t u v) t2 u2 = utxr_get l t2 u2.
Proof.
  intros Hne.
  assert (Hk : (t =? t2) && (u =? u2) = false).
  { apply andb_false_iff. destruct (Z.eq_dec t t2); [right|left]; [|lia].
    destruct (Z.eq_dec u u2); [subst; congruence|lia]. }
  induction l as [|[[t' u'] v'] l IH]; simpl.
  - rewrite Hk. reflexivity.
  - destruct (key_ltb t u t' u') eqn:E1; simpl.
    + rewrite Hk. reflexivity.
    + destruct ((t =? t') && (u =? u')) eqn:E2; simpl.
      * apply andb_true_iff in E2 as [Ea Eb]. assert (t = t') by lia. assert (u = u') by lia. subst.
        rewrite Hk. reflexivity.
      * destruct ((t' =? t2) && (u' =? u2)); [reflexivity|exact IH].
Qed.

Lemma utxr_get_del_same l t u : utxr_get (utxr_del l t u) t u = None.
Proof.
  induction l as [|[[t' u'] v'] l IH]; simpl; [reflexivity|].
  destruct ((t' =? t) && (u' =? u)) eqn:E; simpl; [exact IH|rewrite E; exact IH].
Qed.

Lemma utxr_get_del_other l t u t2 u2 : (t2, u2) <> (t, u) ->
  utxr_get (utxr_del l t u) t2 u2 = utxr_get l t2 u2.
Proof.
  intros Hne. induction l as [|[[t' u'] v'] l IH]; simpl; [reflexivity|].
  destruct ((t' =? t) && (u' =? u)) eqn:E; simpl.
  - apply andb_true_iff in E as [Ea Eb]. assert (t' = t) by lia. assert (u' = u) by lia. subst.
    replace ((t =? t2) && (u =? u2)) with false; [exact IH|].
    symmetry. apply andb_false_iff. destruct (Z.eq_dec t t2); [right|left]; [|lia].
    destruct (Z.eq_dec u u2); [subst; congruence|lia].
  - destruct ((t' =? t2) && (u' =? u2)); [reflexivity|exact IH].
Qed.

Lemma idx_get_cons_same l t r u : idx_get ((t, r, u) :: l) t r = Some u.
Proof. simpl. rewrite Z.eqb_refl, bytes_eqb_refl. reflexivity. Qed.

Lemma idx_get_cons_other l t r u t2 r2 : (t2, r2) <> (t, r) ->
  idx_get ((t, r, u) :: l) t2 r2 = idx_get l t2 r2.
Proof.
  intros Hne. simpl.
  destruct ((t =? t2) && bytes_eqb r r2) eqn:E; [|reflexivity].
  apply andb_true_iff in E as [Ea Eb]. apply bytes_eqb_eq in Eb. assert (t = t2) by lia. subst. congruence.
Qed.

Lemma idx_get_del_same l t r : idx_get (idx_del l t r) t r = None.
Proof.
  induction l as [|[[t' r'] u'] l IH]; simpl; [reflexivity|].
  destruct ((t' =? t) && bytes_eqb r' r) eqn:E; simpl; [exact IH|rewrite E; exact IH].
Qed.

Lemma idx_get_del_other l t r t2 r2 : (t2, r2) <> (t, r) ->
  idx_get (idx_del l t r) t2 r2 = idx_get l t2 r2.
Proof.
  intros Hne. induction l as [|[[t' r'] u'] l IH]; simpl; [reflexivity|].
  destruct ((t' =? t) && bytes_eqb r' r) eqn:E; simpl.
  - apply andb_true_iff in E as [Ea Eb]. apply bytes_eqb_eq in Eb. assert (t' = t) by lia. subst.
    replace ((t =? t2) && bytes_eqb r r2) with false; [exact IH|].
    symmetry. apply andb_false_iff. destruct (Z.eq_dec t t2); [right|left; lia].
    apply bytes_eqb_neq. intro; subst; congruence.
  - destruct ((t' =? t2) && bytes_eqb r' r2); [reflexivity|exact IH].
Qed.

(* ledger *)
Lemma bal_get_set_same l a d v : bal_get (bal_set l a d v) a d = v.
Proof.
  induction l as [|[[a' d'] v'] l IH]; simpl.
  - rewrite Z.eqb_refl, bytes_eqb_refl. reflexivity.
  - destruct ((a =? a') && bytes_eqb d d') eqn:E; simpl.
    + rewrite Z.eqb_refl, bytes_eqb_refl. reflexivity.
    + rewrite E. exact IH.
Qed.

Lemma bal_get_set_other l a d v a2 d2 : (a2, d2) <> (a, d) ->
  bal_get (bal_set l a d v) a2 d2 = bal_get l a2 d2.
Proof.
  intros Hne.
  assert (Hk : (a2 =? a) && bytes_eqb d2 d = false).
  { apply andb_false_iff. destruct (Z.eq_dec a2 a); [right|left; lia].
    apply bytes_eqb_neq. intro; subst; congruence. }
  induction l as [|[[a' d'] v'] l IH]; simpl.
  - rewrite Hk. reflexivity.
  - destruct ((a =? a') && bytes_eqb d d') eqn:E; simpl.
    + apply andb_true_iff in E as [Ea Eb]. apply bytes_eqb_eq in Eb. assert (a = a') by lia. subst.
      rewrite Hk. reflexivity.
    + destruct ((a2 =? a') && bytes_eqb d2 d'); [reflexivity|exact IH].
Qed.

Lemma bal_get_add_same l a d x : bal_get (bal_add l a d x) a d = bal_get l a d + x.
Proof. unfold bal_add. apply bal_get_set_same. Qed.

Lemma bal_get_add_other l a d x a2 d2 : (a2, d2) <> (a, d) ->
  bal_get (bal_add l a d x) a2 d2 = bal_get l a2 d2.
Proof. unfold bal_add. apply bal_get_set_other. Qed.

(* tenants *)
Lemma find_tenant_id l tid t : find_tenant l tid = Some t -> t_id t = tid.
Proof.
  induction l as [|t' l IH]; simpl; [discriminate|].
  destruct (t_id t' =? tid) eqn:E; [intros H; inversion H; subst; lia|exact IH].
Qed.

Lemma find_tenant_In l tid t : find_tenant l tid = Some t -> In t l.
Proof.
  induction l as [|t' l IH]; simpl; [discriminate|].
  destruct (t_id t' =? tid); [intros H; inversion H; left; reflexivity|intros H; right; auto].
Qed.

Lemma find_replace_same l t : find_tenant l (t_id t) <> None ->
  find_tenant (replace_tenant l t) (t_id t) = Some t.
Proof.
  induction l as [|t' l IH]; simpl; [congruence|].
  destruct (t_id t' =? t_id t) eqn:E; simpl.
  - rewrite Z.eqb_refl. reflexivity.
  - rewrite E. exact IH.
Qed.

Lemma find_replace_other l t tid : tid <> t_id t ->
  find_tenant (replace_tenant l t) tid = find_tenant l tid.
Proof.
  intros Hne. induction l as [|t' l IH]; simpl; [reflexivity|].
  destruct (t_id t' =? t_id t) eqn:E; simpl.
  - destruct (t_id t =? tid) eqn:E2; [lia|]. destruct (t_id t' =? tid) eqn:E3; [lia|reflexivity].
  - destruct (t_id t' =? tid); [reflexivity|exact IH].
Qed.

Lemma find_tenant_app_new l t tid : find_tenant l tid = None ->
  find_tenant (l ++ [t]) tid = if t_id t =? tid then Some t else None.
Proof.
  induction l as [|t' l IH]; simpl; [reflexivity|].
  destruct (t_id t' =? tid); [discriminate|exact IH].
Qed.

Lemma find_tenant_app_old l t tid x : find_tenant l tid = Some x ->
  find_tenant (l ++ [t]) tid = Some x.
Proof.
  induction l as [|t' l IH]; simpl; [discriminate|].
  destruct (t_id t' =? tid); [auto|exact IH].
Qed.
