(* Facts about the oracle end-blocker used by C05, C08, C14, C15. *)
From Settlus Require Import Base.Prelude Base.Hex Base.Dec Oracle.Arith Oracle.ArithProofs Settlement.Model Oracle.Model.

Lemma reward_vals o cl ms : o_vals (reward o cl ms) = o_vals o.
Proof.
  unfold reward. destruct (sumZ (map snd (winners cl ms)) =? 0); [reflexivity|].
  destruct (fold_left _ _ _) as [pool cred]. reflexivity.
Qed.
Lemma reward_miss o cl ms : o_miss (reward o cl ms) = o_miss o.
Proof.
  unfold reward. destruct (sumZ (map snd (winners cl ms)) =? 0); [reflexivity|].
  destruct (fold_left _ _ _) as [pool cred]. reflexivity.
Qed.
Lemma reward_params o cl ms : o_params (reward o cl ms) = o_params o.
Proof.
  unfold reward. destruct (sumZ (map snd (winners cl ms)) =? 0); [reflexivity|].
  destruct (fold_left _ _ _) as [pool cred]. reflexivity.
Qed.
Lemma reward_ballots o cl ms :
  o_prevotes (reward o cl ms) = o_prevotes o /\ o_votes (reward o cl ms) = o_votes o
  /\ o_deleg (reward o cl ms) = o_deleg o /\ o_round (reward o cl ms) = o_round o.
Proof.
  unfold reward. destruct (sumZ (map snd (winners cl ms)) =? 0); [auto|].
  destruct (fold_left _ _ _) as [pool cred]. auto.
Qed.

(* outside a tally block the end-blocker only rewrites the round info *)
Lemma end_block_no_tally o s h :
  is_tally h (op_period (o_params o)) = false ->
  oracle_end_block o s h = (set_round o (Some (next_round o s h)), None).
Proof. intros H. unfold oracle_end_block. rewrite H. reflexivity. Qed.

(* the validator table and the miss counters after an end-block *)
Definition tally_state (o : ostate) (s : sstate) (h : Z) : ostate :=
  let o1 := set_round o (Some (next_round o s h)) in
  let cl := claims o1 in
  let bs := all_ballots o1 in
  let res := tally_results cl bs (threshold_votes o1) in
  let ms := missers cl bs res in
  set_votes (set_prevotes (reward (set_miss o1 (fold_left bump_miss ms (o_miss o1))) cl ms) []) [].

Lemma end_block_tally o s h :
  is_tally h (op_period (o_params o)) = true ->
  fst (oracle_end_block o s h) =
    if window_closing h (op_period (o_params o)) (op_window (o_params o))
    then close_window (tally_state o s h) else tally_state o s h.
Proof. intros H. unfold oracle_end_block, tally_state. rewrite H. simpl. reflexivity. Qed.

Lemma tally_state_vals o s h : o_vals (tally_state o s h) = o_vals o.
Proof. unfold tally_state. simpl. rewrite reward_vals. reflexivity. Qed.

Lemma tally_state_params o s h : o_params (tally_state o s h) = o_params o.
Proof. unfold tally_state. simpl. rewrite reward_params. reflexivity. Qed.

(* C15: the oracle touches validators (slash / jail) only when a window closes *)
Lemma end_block_vals_unchanged o s h :
  closes h (op_period (o_params o)) (op_window (o_params o)) = false ->
  o_vals (fst (oracle_end_block o s h)) = o_vals o.
Proof.
  intros Hc. unfold closes in Hc.
  destruct (is_tally h (op_period (o_params o))) eqn:Et.
  - simpl in Hc. rewrite end_block_tally by assumption. rewrite Hc. apply tally_state_vals.
  - rewrite end_block_no_tally by assumption. reflexivity.
Qed.

Lemma end_block_closes o s h :
  closes h (op_period (o_params o)) (op_window (o_params o)) = true ->
  fst (oracle_end_block o s h) = close_window (tally_state o s h).
Proof.
  intros Hc. unfold closes in Hc. apply andb_true_iff in Hc as [Ht Hw].
  rewrite end_block_tally by assumption. rewrite Hw. reflexivity.
Qed.

(* effect of closing: counters restart from zero; exactly the active validators above the maximum
   are slashed by the fraction and jailed *)
Lemma close_window_miss o : o_miss (close_window o) = [].
Proof. reflexivity. Qed.

Definition over_limit (o : ostate) (v : validator) : bool :=
  match zlookup (v_addr v) (o_miss o) with
  | Some c => (op_maxmiss (o_params o) <? c) && active v
  | None => false
  end.

Lemma slash_one_spec o v :
  slash_one o (o_miss o) v =
    if over_limit o v
    then mkVal (v_addr v) (v_tokens v - slash_amount o v) (v_bonded v) true (v_rate v)
    else v.
Proof. unfold slash_one, over_limit. destruct (zlookup (v_addr v) (o_miss o)); reflexivity. Qed.

Lemma close_window_vals o : o_vals (close_window o) = map (slash_one o (o_miss o)) (o_vals o).
Proof. reflexivity. Qed.

Lemma slash_amount_bounds o v : 0 <= v_tokens v -> 0 <= op_slash_fraction (o_params o) ->
  0 <= power o v -> 0 <= slash_amount o v <= v_tokens v.
Proof.
  intros Ht Hf Hp. unfold slash_amount.
  assert (0 <= dec_truncate_int (dec_mul (dec_of_int (power o v * power_reduction)) (op_slash_fraction (o_params o)))).
  { unfold dec_truncate_int, dec_mul, dec_of_int, chop_round.
    assert (0 <= power o v * power_reduction * prec * op_slash_fraction (o_params o)).
    { unfold power_reduction, prec. nia. }
    destruct (_ <? 0) eqn:E; [lia|].
    apply Z.quot_pos; [|unfold prec; lia].
    pose proof (round_half_even_bounds _ prec H prec_pos).
    assert (0 <= (power o v * power_reduction * prec * op_slash_fraction (o_params o)) / prec) by (apply Z.div_pos; [assumption|reflexivity]).
    lia. }
  lia.
Qed.

(* miss counting: a counter moves only for validators in [missers] *)
Lemma bump_miss_other m a b : a <> b -> zlookup b (bump_miss m a) = zlookup b m.
Proof. intros. unfold bump_miss. apply zlookup_zinsert_other. auto. Qed.

Lemma fold_bump_not_in ms : forall m b, ~ In b ms -> zlookup b (fold_left bump_miss ms m) = zlookup b m.
Proof.
  induction ms as [|a ms IH]; intros m b Hn; simpl; [reflexivity|].
  rewrite IH by (intro; apply Hn; right; assumption).
  apply bump_miss_other. intro; subst; apply Hn; left; reflexivity.
Qed.

Lemma z_dedup_In l : forall acc x, In x (z_dedup l acc) <-> In x acc \/ In x l.
Proof.
  induction l as [|y l IH]; intros acc x; simpl; [tauto|].
  destruct (memZ y acc) eqn:E.
  - rewrite IH. apply memZ_In in E. split; [tauto|]. intros [H|[H|H]]; subst; auto.
  - rewrite IH, in_app_iff. simpl. tauto.
Qed.

Lemma z_dedup_NoDup l : forall acc, NoDup acc -> NoDup (z_dedup l acc).
Proof.
  induction l as [|y l IH]; intros acc Hnd; simpl; [assumption|].
  destruct (memZ y acc) eqn:E; [apply IH; assumption|].
  apply IH. apply NoDup_app_singleton; [assumption|].
  intro Hin. apply memZ_In in Hin. congruence.
Qed.

(* who is charged a miss *)
Lemma missers_spec cl bs res v :
  In v (missers cl bs res) <->
  exists b, In b bs /\ b_voter b = v /\ zlookup v cl <> None /\
            fill_get res (b_nft b) <> Some (b_owner b).
Proof.
  unfold missers. rewrite z_dedup_In. simpl. rewrite in_map_iff. split.
  - intros [[]|(b & Hv & Hin)]. apply filter_In in Hin as [Hin Hc].
    exists b. split; [assumption|]. split; [assumption|]. subst v.
    destruct (zlookup (b_voter b) cl); [|discriminate]. split; [discriminate|].
    destruct (fill_get res (b_nft b)) as [ow|]; [|discriminate].
    intro E. inversion E; subst. rewrite Z.eqb_refl in Hc. discriminate.
  - intros (b & Hin & Hv & Hcl & Hne). right. exists b. split; [assumption|].
    apply filter_In. split; [assumption|]. subst v.
    destruct (zlookup (b_voter b) cl); [|congruence].
    destruct (fill_get res (b_nft b)) as [ow|]; [|reflexivity].
    destruct (ow =? b_owner b) eqn:E; [|reflexivity].
    exfalso. apply Hne. f_equal. lia.
Qed.

Lemma claims_lookup o v : zlookup v (claims o) <> None ->
  exists x, In x (o_vals o) /\ v_addr x = v /\ active x = true.
Proof.
  unfold claims. induction (o_vals o) as [|x l IH]; simpl; [congruence|].
  destruct (active x) eqn:Ea; simpl.
  - destruct (v =? v_addr x) eqn:E.
    + intros _. exists x. split; [left; reflexivity|]. split; [lia|assumption].
    + intros H. destruct (IH H) as (y & Hy & Hv & Hay). exists y. auto.
  - intros H. destruct (IH H) as (y & Hy & Hv & Hay). exists y. auto.
Qed.

Lemma tally_state_miss_changed o s h v :
  zlookup v (o_miss (tally_state o s h)) <> zlookup v (o_miss o) ->
  let o1 := set_round o (Some (next_round o s h)) in
  In v (missers (claims o1) (all_ballots o1) (tally_results (claims o1) (all_ballots o1) (threshold_votes o1))).
Proof.
  intros Hne o1. unfold tally_state in Hne. simpl in Hne. rewrite reward_miss in Hne. simpl in Hne.
  fold o1 in Hne.
  destruct (in_dec Z.eq_dec v (missers (claims o1) (all_ballots o1) (tally_results (claims o1) (all_ballots o1) (threshold_votes o1)))) as [Hin|Hn];
    [assumption|].
  exfalso. apply Hne. apply fold_bump_not_in. assumption.
Qed.
