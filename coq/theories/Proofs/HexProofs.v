(* Hex strings as numbers: go-ethereum's lenient decoder on well-formed input, trimming of leading
   zeros, rendering of addresses (C19, C20). *)
From Settlus Require Import Base.Prelude Base.Hex.
From Coq Require Import Psatz.

Definition hv (c : Z) : Z := match hexval c with Some v => v | None => 0 end.
Definition hexnum_acc (acc : Z) (s : bytes) : Z := fold_left (fun a c => a * 16 + hv c) s acc.
Definition hexnum (s : bytes) : Z := hexnum_acc 0 s.
Definition all_hex (s : bytes) : bool := forallb is_hex_char s.

Lemma hexval_range c v : hexval c = Some v -> 0 <= v < 16.
Proof.
  unfold hexval, c_0, c_9, c_a, c_f, c_A, c_F.
  destruct ((48 <=? c) && (c <=? 57)) eqn:E1; [intros H; inversion H; lia|].
  destruct ((97 <=? c) && (c <=? 102)) eqn:E2; [intros H; inversion H; lia|].
  destruct ((65 <=? c) && (c <=? 70)) eqn:E3; [intros H; inversion H; lia|]. discriminate.
Qed.

Lemma is_hex_some c : is_hex_char c = true -> exists v, hexval c = Some v.
Proof. unfold is_hex_char. destruct (hexval c) as [v|]; [eauto|discriminate]. Qed.

(* the decoder on an even number of hex digits computes the same number, two digits per byte *)
Lemma decode_even : forall n ds acc, length ds = (2 * n)%nat -> all_hex ds = true ->
  fold_left (fun a x => a * 256 + x) (hex_decode_prefix ds) acc = hexnum_acc acc ds.
Proof.
  induction n as [|n IH]; intros ds acc Hl Hh.
  - destruct ds; [reflexivity|discriminate].
  - destruct ds as [|p [|q ds]]; try (simpl in Hl; lia).
    simpl in Hh. apply andb_true_iff in Hh as [Hp Hh]. apply andb_true_iff in Hh as [Hq Hh].
    destruct (is_hex_some _ Hp) as (a & Ha). destruct (is_hex_some _ Hq) as (b & Hb).
    simpl hex_decode_prefix. rewrite Ha, Hb. simpl fold_left. unfold hexnum_acc. simpl fold_left.
    unfold hv at 2 3. rewrite Ha, Hb. fold (hexnum_acc (((acc * 16 + a) * 16) + b) ds).
    rewrite IH by (try assumption; simpl in Hl; lia).
    f_equal. ring.
Qed.

Lemma length_parity {A} (l : list A) : exists n, length l = (2 * n)%nat \/ length l = (2 * n + 1)%nat.
Proof.
  induction l as [|x l [n [H|H]]]; [exists 0%nat; left; reflexivity| |].
  - exists n. right. simpl. lia.
  - exists (S n). left. simpl. lia.
Qed.

Lemma odd_lenZ {A} (l : list A) n : length l = (2 * n + 1)%nat -> Z.odd (lenZ l) = true.
Proof.
  intros H. unfold lenZ. rewrite H.
  replace (Z.of_nat (2 * n + 1)) with (1 + 2 * Z.of_nat n) by lia. rewrite Z.odd_add_mul_2. reflexivity.
Qed.
Lemma even_lenZ {A} (l : list A) n : length l = (2 * n)%nat -> Z.odd (lenZ l) = false.
Proof.
  intros H. unfold lenZ. rewrite H.
  replace (Z.of_nat (2 * n)) with (0 + 2 * Z.of_nat n) by lia. rewrite Z.odd_add_mul_2. reflexivity.
Qed.

Lemma hv_zero : hv c_0 = 0. Proof. reflexivity. Qed.

(* go-ethereum's padding of an odd number of digits with a leading zero does not change the number *)
Lemma decode_padded ds : all_hex ds = true ->
  be_value (hex_decode_prefix (if Z.odd (lenZ ds) then c_0 :: ds else ds)) = hexnum ds.
Proof.
  intros Hh. unfold be_value. destruct (length_parity ds) as (n & [H|H]).
  - rewrite (even_lenZ ds n H). apply decode_even with (n := n); assumption.
  - rewrite (odd_lenZ ds n H). rewrite (decode_even (S n)).
    + unfold hexnum, hexnum_acc. simpl. rewrite hv_zero. reflexivity.
    + simpl. lia.
    + simpl. rewrite Hh. reflexivity.
Qed.

Lemma all_hex_no_x ds : all_hex ds = true -> has0x ds = false.
Proof.
  destruct ds as [|a [|b ds]]; try reflexivity. simpl. intros H.
  apply andb_true_iff in H as [_ H]. apply andb_true_iff in H as [Hb _].
  destruct (a =? c_0); [|reflexivity]. simpl.
  destruct ((b =? c_x) || (b =? c_X)) eqn:E; [|reflexivity].
  apply orb_true_iff in E as [E|E]; apply Z.eqb_eq in E; subst b; discriminate.
Qed.

(* FromHex on digits, with or without the 0x prefix *)
Theorem from_hex_digits ds : all_hex ds = true -> be_value (from_hex ds) = hexnum ds.
Proof. intros H. unfold from_hex. rewrite (all_hex_no_x ds H). apply decode_padded. assumption. Qed.

Theorem from_hex_0x_digits ds : all_hex ds = true -> be_value (from_hex (c_0 :: c_x :: ds)) = hexnum ds.
Proof.
  intros H. unfold from_hex. replace (has0x (c_0 :: c_x :: ds)) with true by reflexivity.
  cbn [drop2]. apply decode_padded. assumption.
Qed.

(* leading zeros *)
Lemma hexnum_trim ds : hexnum (trim_left_zeros ds) = hexnum ds.
Proof.
  induction ds as [|c ds IH]; [reflexivity|]. simpl.
  destruct (c =? c_0) eqn:E; [|reflexivity].
  apply Z.eqb_eq in E. subst c. rewrite IH. unfold hexnum, hexnum_acc. simpl. rewrite hv_zero. reflexivity.
Qed.

Lemma all_hex_trim ds : all_hex ds = true -> all_hex (trim_left_zeros ds) = true.
Proof.
  induction ds as [|c ds IH]; [reflexivity|]. simpl. intros H. apply andb_true_iff in H as [Hc Hd].
  destruct (c =? c_0); [auto|]. simpl. rewrite Hc, Hd. reflexivity.
Qed.

(* rendering: n lower-case digits of v *)
Lemma hv_hexdigit d : 0 <= d < 16 -> hv (hexdigit d) = d.
Proof.
  intros H. assert (Hd : d = 0 \/ d = 1 \/ d = 2 \/ d = 3 \/ d = 4 \/ d = 5 \/ d = 6 \/ d = 7 \/ d = 8 \/ d = 9
                         \/ d = 10 \/ d = 11 \/ d = 12 \/ d = 13 \/ d = 14 \/ d = 15) by lia.
  repeat (destruct Hd as [->|Hd]; [reflexivity|]). subst. reflexivity.
Qed.

Lemma is_hex_hexdigit d : 0 <= d < 16 -> is_hex_char (hexdigit d) = true.
Proof.
  intros H. assert (Hd : d = 0 \/ d = 1 \/ d = 2 \/ d = 3 \/ d = 4 \/ d = 5 \/ d = 6 \/ d = 7 \/ d = 8 \/ d = 9
                         \/ d = 10 \/ d = 11 \/ d = 12 \/ d = 13 \/ d = 14 \/ d = 15) by lia.
  repeat (destruct Hd as [->|Hd]; [reflexivity|]). subst. reflexivity.
Qed.

Lemma hexnum_acc_app acc a b : hexnum_acc acc (a ++ b) = hexnum_acc (hexnum_acc acc a) b.
Proof. unfold hexnum_acc. apply fold_left_app. Qed.

Lemma hexnum_hex_digits n : forall v, 0 <= v -> hexnum (hex_digits n v) = v mod 16 ^ Z.of_nat n.
Proof.
  induction n as [|n IH]; intros v Hv.
  - simpl. rewrite Z.mod_1_r. reflexivity.
  - replace (Z.of_nat (S n)) with (Z.of_nat n + 1) by lia. rewrite Z.pow_add_r by lia. rewrite Z.pow_1_r.
    cbn [hex_digits]. unfold hexnum. rewrite hexnum_acc_app. fold (hexnum (hex_digits n (v / 16))).
    rewrite IH by (apply Z.div_pos; lia). unfold hexnum_acc. cbn [fold_left].
    rewrite hv_hexdigit by (apply Z.mod_pos_bound; lia).
    assert (Hp : 0 < 16 ^ Z.of_nat n) by (apply Z.pow_pos_nonneg; lia).
    rewrite (Z.mul_comm (16 ^ Z.of_nat n) 16).
    rewrite (Z.rem_mul_r v 16 (16 ^ Z.of_nat n)) by lia. lia.
Qed.

Lemma all_hex_hex_digits n : forall v, all_hex (hex_digits n v) = true.
Proof.
  induction n as [|n IH]; intros v; [reflexivity|]. simpl. unfold all_hex. rewrite forallb_app.
  fold (all_hex (hex_digits n (v / 16))). rewrite IH. simpl.
  rewrite is_hex_hexdigit by (apply Z.mod_pos_bound; lia). reflexivity.
Qed.

Lemma two160_pow : two160 = 16 ^ Z.of_nat 40. Proof. reflexivity. Qed.

(* what the chain renders for an address parses back to that address *)
Theorem addr_hex_roundtrip v : 0 <= v < two160 -> hex_to_address (addr_hex v) = v.
Proof.
  intros Hv. unfold hex_to_address, addr_hex. rewrite from_hex_0x_digits by apply all_hex_hex_digits.
  rewrite hexnum_hex_digits by lia. rewrite <- two160_pow. rewrite Z.mod_mod by (unfold two160; lia).
  apply Z.mod_small. assumption.
Qed.

(* no separator characters in rendered addresses *)
Lemma hex_char_not_sep c : is_hex_char c = true -> c <> c_colon /\ c <> c_slash.
Proof.
  intros H. destruct (is_hex_some _ H) as (v & Hv). unfold hexval, c_0, c_9, c_a, c_f, c_A, c_F in Hv.
  unfold c_colon, c_slash.
  destruct ((48 <=? c) && (c <=? 57)) eqn:E1; [lia|].
  destruct ((97 <=? c) && (c <=? 102)) eqn:E2; [lia|].
  destruct ((65 <=? c) && (c <=? 70)) eqn:E3; [lia|discriminate].
Qed.

Lemma all_hex_no_sep ds : all_hex ds = true -> no_byte c_colon ds /\ no_byte c_slash ds.
Proof.
  unfold no_byte. induction ds as [|c ds IH]; simpl; intros H; [tauto|].
  apply andb_true_iff in H as [Hc Hd]. destruct (hex_char_not_sep c Hc) as [A B]. destruct (IH Hd) as [C D].
  split; intros [E|E]; congruence || auto.
Qed.

Lemma addr_hex_no_sep v : no_byte c_colon (addr_hex v) /\ no_byte c_slash (addr_hex v).
Proof.
  destruct (all_hex_no_sep _ (all_hex_hex_digits 40 v)) as [A B]. unfold addr_hex, no_byte in *.
  split; intros [E|[E|E]]; try (unfold c_colon, c_slash, c_0, c_x in E; lia); auto.
Qed.

(* ---------- contract addresses: common.IsHexAddress / common.HexToAddress ---------- *)
Definition addr_digits (s : bytes) : bytes := if has0x s then drop2 s else s.

Lemma hexnum_acc_bound : forall ds acc, 0 <= acc ->
  0 <= hexnum_acc acc ds < (acc + 1) * 16 ^ Z.of_nat (length ds).
Proof.
  induction ds as [|c ds IH]; intros acc Ha.
  - unfold hexnum_acc. simpl. lia.
  - unfold hexnum_acc. cbn [fold_left]. fold (hexnum_acc (acc * 16 + hv c) ds).
    assert (Hc : 0 <= hv c < 16).
    { unfold hv. destruct (hexval c) as [v|] eqn:E; [apply (hexval_range c v E)|lia]. }
    specialize (IH (acc * 16 + hv c) ltac:(lia)).
    replace (Z.of_nat (length (c :: ds))) with (Z.of_nat (length ds) + 1) by (simpl length; lia).
    rewrite Z.pow_add_r by lia. rewrite Z.pow_1_r.
    assert (Hp : 0 < 16 ^ Z.of_nat (length ds)) by (apply Z.pow_pos_nonneg; lia).
    nia.
Qed.

(* every spelling IsHexAddress accepts - with 0x, with 0X, without prefix, any casing - is normalised to the
   number its 40 digits denote *)
Theorem contract_address_faithful s : is_hex_address s = true ->
  hex_to_address s = hexnum (addr_digits s) /\ 0 <= hexnum (addr_digits s) < two160.
Proof.
  unfold is_hex_address. fold (addr_digits s). intros H. apply andb_true_iff in H as [Hl Hh].
  apply Z.eqb_eq in Hl.
  assert (Hb : 0 <= hexnum (addr_digits s) < two160).
  { pose proof (hexnum_acc_bound (addr_digits s) 0 ltac:(lia)) as B. unfold hexnum.
    unfold lenZ in Hl. rewrite Hl in B. rewrite two160_pow. simpl Z.of_nat. lia. }
  split; [|exact Hb].
  unfold hex_to_address, from_hex. fold (addr_digits s).
  replace (Z.odd (lenZ (addr_digits s))) with false by (rewrite Hl; reflexivity).
  unfold be_value. rewrite (decode_even 20) by (try assumption; unfold lenZ in Hl; lia).
  fold (hexnum (addr_digits s)). apply Z.mod_small. exact Hb.
Qed.
