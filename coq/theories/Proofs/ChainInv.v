(* Invariants of the composed chain over block-structured histories: the stored round info is
   always the round of the block being executed, ballots never survive a tally, parameters are
   constant.  Used by C08, C10, C05, C15. *)
From Settlus Require Import Base.Prelude Base.Hex Base.Dec Oracle.Arith Oracle.ArithProofs
  Settlement.Model Oracle.Model Ante.Fee Chain.Model Proofs.OracleEnd.

Definition exec (c : cstate) (es : list event) : cstate := snd (run c es).
Definition glog (c : cstate) (es : list event) : list gev := snd (fst (run c es)).
Definition step_state (c : cstate) (e : event) : cstate := fst (fst (step c e)).

Lemma exec_nil c : exec c [] = c.
Proof. reflexivity. Qed.

Lemma exec_cons c e es : exec c (e :: es) = exec (step_state c e) es.
Proof.
  unfold exec, step_state. simpl. destruct (step c e) as [[c1 o] g]. simpl.
  destruct (run c1 es) as [[os gs] c2]. reflexivity.
Qed.

Lemma exec_app c es1 es2 : exec c (es1 ++ es2) = exec (exec c es1) es2.
Proof.
  revert c. induction es1 as [|e es1 IH]; intros c; simpl; [reflexivity|].
  rewrite !exec_cons. apply IH.
Qed.

Definition is_tx (e : event) : bool := match e with EvTx _ _ | EvOTx _ => true | _ => false end.

Definition cperiod (c : cstate) : Z := op_period (o_params (c_o c)).

(* the stored round info is the round that contains height h *)
Definition round_is (o : ostate) (h : Z) : Prop :=
  let p := op_period (o_params o) in
  exists r, o_round o = Some r /\ rd_id r = rstart h p /\
            rd_prevote_end r = prevote_end h p /\ rd_vote_end r = vote_end h p.

(* ---------- frames ---------- *)
Lemma ohandle_frame o chains h m o' : ohandle o chains h m = Ok o' ->
  o_round o' = o_round o /\ o_params o' = o_params o /\ o_vals o' = o_vals o /\
  o_miss o' = o_miss o /\ o_pool o' = o_pool o /\ o_credited o' = o_credited o.
Proof.
  unfold ohandle. destruct m as [f v c rid|f v vd salt rid|v f].
  - destruct (negb (validate_feeder o f v)); [discriminate|].
    destruct (o_round o) as [r|] eqn:Er; [|discriminate].
    destruct (negb (rd_id r =? rid)); [discriminate|].
    destruct (rd_prevote_end r <? h); [discriminate|]. intros H; inversion H; subst. simpl. rewrite ?Er. repeat split; reflexivity.
  - destruct (negb (validate_feeder o f v)); [discriminate|].
    destruct (o_round o) as [r|] eqn:Er; [|discriminate].
    destruct (negb (rd_id r =? rid)); [discriminate|].
    destruct (rd_vote_end r <? h); [discriminate|].
    destruct (negb (validate_vote_data vd chains)); [discriminate|].
    destruct (zlookup v (o_prevotes o)) as [c|]; [|discriminate].
    destruct (negb (bytes_eqb c (preimage salt vd))); [discriminate|].
    intros H; inversion H; subst. simpl. rewrite ?Er. repeat split; reflexivity.
  - destruct (find_val (o_vals o) v) as [x|]; [|discriminate].
    destruct (v_bonded x); [|discriminate]. intros H; inversion H; subst. simpl. rewrite ?Er. repeat split; reflexivity.
Qed.

Lemma step_tx_frame c e : is_tx e = true ->
  c_h (step_state c e) = c_h c /\ o_round (c_o (step_state c e)) = o_round (c_o c) /\
  o_params (c_o (step_state c e)) = o_params (c_o c) /\
  o_vals (c_o (step_state c e)) = o_vals (c_o c) /\ o_miss (c_o (step_state c e)) = o_miss (c_o c) /\
  c_fp (step_state c e) = c_fp c.
Proof.
  unfold step_state. destruct e as [envs|offered msgs|m|faults]; try discriminate; intros _; simpl.
  - destruct msgs as [|m0 ms]; [simpl; auto 10|].
    destruct (negb (forallb validate_basic (m0 :: ms))); [simpl; auto 10|].
    destruct (pick_fee _ _ _) as [[d fee]|]; [|simpl; auto 10].
    destruct (handle_all _ _ _) as [[s' g]| |]; simpl; auto 10.
  - destruct (ohandle (c_o c) (s_supported (c_s c)) (c_h c) m) as [o'| |] eqn:E; simpl; auto 10.
    apply ohandle_frame in E. intuition congruence.
Qed.

Lemma exec_txs_frame txs : forall c, forallb is_tx txs = true ->
  c_h (exec c txs) = c_h c /\ o_round (c_o (exec c txs)) = o_round (c_o c) /\
  o_params (c_o (exec c txs)) = o_params (c_o c) /\
  o_vals (c_o (exec c txs)) = o_vals (c_o c) /\ o_miss (c_o (exec c txs)) = o_miss (c_o c) /\
  c_fp (exec c txs) = c_fp c.
Proof.
  induction txs as [|e txs IH]; intros c H; [rewrite exec_nil; auto 10|].
  simpl in H. apply andb_true_iff in H as [He Ht]. rewrite exec_cons.
  destruct (step_tx_frame c e He) as (A1 & A2 & A3 & A4 & A5 & A6).
  destruct (IH (step_state c e) Ht) as (B1 & B2 & B3 & B4 & B5 & B6).
  repeat split; congruence.
Qed.

Lemma apply_cenvs_frame es : forall c c' g, apply_cenvs c es = (c', g) ->
  c_h c' = c_h c /\ o_round (c_o c') = o_round (c_o c) /\ o_params (c_o c') = o_params (c_o c) /\
  o_prevotes (c_o c') = o_prevotes (c_o c) /\ o_votes (c_o c') = o_votes (c_o c) /\
  o_miss (c_o c') = o_miss (c_o c) /\ c_fp c' = c_fp c /\ s_utxrs (c_s c') = s_utxrs (c_s c)
  /\ s_tenants (c_s c') = s_tenants (c_s c) /\ s_idx (c_s c') = s_idx (c_s c).
Proof.
  induction es as [|e es IH]; intros c c' g H; simpl in H.
  - inversion H; subst. auto 12.
  - destruct (apply_cenv c e) as [c1 g1] eqn:E1. destruct (apply_cenvs c1 es) as [c2 g2] eqn:E2.
    inversion H; subst. apply IH in E2.
    assert (F : c_h c1 = c_h c /\ o_round (c_o c1) = o_round (c_o c) /\ o_params (c_o c1) = o_params (c_o c) /\
                o_prevotes (c_o c1) = o_prevotes (c_o c) /\ o_votes (c_o c1) = o_votes (c_o c) /\
                o_miss (c_o c1) = o_miss (c_o c) /\ c_fp c1 = c_fp c /\ s_utxrs (c_s c1) = s_utxrs (c_s c)
                /\ s_tenants (c_s c1) = s_tenants (c_s c) /\ s_idx (c_s c1) = s_idx (c_s c)).
    { destruct e as [e'|e']; simpl in E1.
      - destruct (apply_senv (c_s c) e') as [s g0] eqn:Es. inversion E1; subst. simpl.
        destruct e'; simpl in Es.
        + destruct ((0 <? amount) && (amount <=? bal_get (s_bal (c_s c)) from denom) && (from <? two160));
            inversion Es; subst; simpl; auto 12.
        + inversion Es; subst; simpl; auto 12.
      - inversion E1; subst. destruct e'; simpl; auto 12. }
    intuition congruence.
Qed.

(* ---------- the oracle end-blocker and the round info ---------- *)
Lemma close_window_frame o :
  o_round (close_window o) = o_round o /\ o_params (close_window o) = o_params o /\
  o_prevotes (close_window o) = o_prevotes o /\ o_votes (close_window o) = o_votes o.
Proof. unfold close_window. simpl. auto. Qed.

Lemma tally_state_frame o s h :
  o_round (tally_state o s h) = Some (next_round o s h) /\
  o_prevotes (tally_state o s h) = [] /\ o_votes (tally_state o s h) = [].
Proof.
  unfold tally_state. cbv zeta. simpl. split; [|split; reflexivity].
  match goal with |- o_round (reward ?a ?b ?c) = _ => destruct (reward_ballots a b c) as (_ & _ & _ & Hr); rewrite Hr end.
  reflexivity.
Qed.

Lemma oracle_end_round o s h :
  o_round (fst (oracle_end_block o s h)) = Some (next_round o s h) /\
  o_params (fst (oracle_end_block o s h)) = o_params o.
Proof.
  destruct (is_tally h (op_period (o_params o))) eqn:Et.
  - rewrite end_block_tally by assumption.
    destruct (window_closing _ _ _).
    + destruct (close_window_frame (tally_state o s h)) as (A & B & _). rewrite A, B.
      rewrite tally_state_params. split; [apply tally_state_frame|reflexivity].
    + rewrite tally_state_params. split; [apply tally_state_frame|reflexivity].
  - rewrite end_block_no_tally by assumption. simpl. auto.
Qed.

(* C08: a tally leaves no prevote and no vote behind *)
Lemma oracle_end_clears o s h : is_tally h (op_period (o_params o)) = true ->
  o_prevotes (fst (oracle_end_block o s h)) = [] /\ o_votes (fst (oracle_end_block o s h)) = [].
Proof.
  intros Et. rewrite end_block_tally by assumption.
  destruct (window_closing _ _ _).
  - destruct (close_window_frame (tally_state o s h)) as (_ & _ & C & D). rewrite C, D.
    destruct (tally_state_frame o s h) as (_ & E & F). auto.
  - destruct (tally_state_frame o s h) as (_ & E & F). auto.
Qed.

(* outside the tally block the ballots are untouched *)
Lemma oracle_end_keeps o s h : is_tally h (op_period (o_params o)) = false ->
  o_prevotes (fst (oracle_end_block o s h)) = o_prevotes o /\ o_votes (fst (oracle_end_block o s h)) = o_votes o
  /\ o_miss (fst (oracle_end_block o s h)) = o_miss o /\ o_vals (fst (oracle_end_block o s h)) = o_vals o
  /\ o_pool (fst (oracle_end_block o s h)) = o_pool o /\ snd (oracle_end_block o s h) = None.
Proof. intros Et. rewrite end_block_no_tally by assumption. simpl. auto 10. Qed.

Lemma next_round_is o s h : 1 <= op_period (o_params o) ->
  let r := next_round o s h in
  rd_id r = rstart (h + 1) (op_period (o_params o)) /\
  rd_prevote_end r = prevote_end (h + 1) (op_period (o_params o)) /\
  rd_vote_end r = vote_end (h + 1) (op_period (o_params o)).
Proof. intros; simpl; auto. Qed.

Lemma staking_end_frame o :
  o_round (staking_end o) = o_round o /\ o_params (staking_end o) = o_params o /\
  o_prevotes (staking_end o) = o_prevotes o /\ o_votes (staking_end o) = o_votes o /\
  o_miss (staking_end o) = o_miss o /\ o_pool (staking_end o) = o_pool o.
Proof. unfold staking_end. simpl. auto 10. Qed.

Definition end_state (c : cstate) (faults : list bool) : cstate := fst (end_block c faults).

Lemma end_block_oracle c faults :
  c_o (end_state c faults) = fst (oracle_end_block (staking_end (c_o c)) (c_s c) (c_h c)) /\
  c_h (end_state c faults) = c_h c /\ c_fp (end_state c faults) = c_fp c.
Proof.
  unfold end_state, end_block.
  destruct (oracle_end_block (staking_end (c_o c)) (c_s c) (c_h c)) as [o1 fill].
  destruct (match fill with Some (res, before) => set_recipients (c_s c) res before | None => (c_s c, []) end) as [s1 g1].
  destruct (settlement_end_block s1 (c_h c) faults) as [s2 g2]. simpl. auto.
Qed.

Lemma step_end c faults : step_state c (EvEnd faults) = end_state c faults.
Proof.
  unfold step_state, end_state. simpl. destruct (end_block c faults) as [c1 g]. reflexivity.
Qed.

Lemma step_begin c envs : step_state c (EvBegin envs) =
  fst (apply_cenvs (mkC (c_h c + 1) (c_s c) (c_o c) (c_fp c)) envs).
Proof.
  unfold step_state. simpl. destruct (apply_cenvs _ envs) as [c1 g]. reflexivity.
Qed.

(* ---------- blocks ---------- *)
Record block := mkBlock { b_envs : list cenv; b_txs : list event; b_faults : list bool }.
Definition block_ok (b : block) : Prop := forallb is_tx (b_txs b) = true.
Definition block_events (b : block) : list event := EvBegin (b_envs b) :: b_txs b ++ [EvEnd (b_faults b)].
Definition blocks_events (bs : list block) : list event := concat (map block_events bs).

(* the state in which the i-th transaction of a block is executed *)
Definition tx_state (c : cstate) (b : block) (i : nat) : cstate :=
  exec c (EvBegin (b_envs b) :: firstn i (b_txs b)).

Definition BInv (c : cstate) : Prop :=
  0 <= c_h c /\ 1 <= cperiod c /\ round_is (c_o c) (c_h c + 1).

Lemma forallb_firstn {A} (f : A -> bool) l n : forallb f l = true -> forallb f (firstn n l) = true.
Proof.
  revert n; induction l as [|x l IH]; intros [|n] H; simpl; try reflexivity.
  simpl in H. apply andb_true_iff in H as [H1 H2]. rewrite H1. simpl. apply IH. assumption.
Qed.

Lemma tx_state_inv c b i : BInv c -> block_ok b ->
  c_h (tx_state c b i) = c_h c + 1 /\ round_is (c_o (tx_state c b i)) (c_h c + 1) /\
  o_params (c_o (tx_state c b i)) = o_params (c_o c).
Proof.
  intros (Hh & Hp & Hr) Hb. unfold tx_state. rewrite exec_cons, step_begin.
  destruct (apply_cenvs (mkC (c_h c + 1) (c_s c) (c_o c) (c_fp c)) (b_envs b)) as [c1 g] eqn:E.
  apply apply_cenvs_frame in E. simpl in E. destruct E as (E1 & E2 & E3 & _). simpl.
  destruct (exec_txs_frame (firstn i (b_txs b)) c1 (forallb_firstn _ _ _ Hb)) as (F1 & F2 & F3 & _).
  split; [congruence|]. split; [|congruence].
  unfold round_is in *. rewrite F3, E3, F2, E2. exact Hr.
Qed.

Lemma block_inv c b : BInv c -> block_ok b ->
  let c' := exec c (block_events b) in
  BInv c' /\ c_h c' = c_h c + 1 /\ o_params (c_o c') = o_params (c_o c) /\
  (is_tally (c_h c') (cperiod c) = true -> o_prevotes (c_o c') = [] /\ o_votes (c_o c') = []).
Proof.
  intros HI Hb c'. subst c'. unfold block_events.
  change (EvBegin (b_envs b) :: b_txs b ++ [EvEnd (b_faults b)])
    with ((EvBegin (b_envs b) :: b_txs b) ++ [EvEnd (b_faults b)]).
  rewrite exec_app.
  assert (Hall : exec c (EvBegin (b_envs b) :: b_txs b) = tx_state c b (length (b_txs b))).
  { unfold tx_state. rewrite firstn_all. reflexivity. }
  rewrite Hall.
  destruct (tx_state_inv c b (length (b_txs b)) HI Hb) as (T1 & T2 & T3).
  set (ct := tx_state c b (length (b_txs b))) in *.
  rewrite exec_cons, exec_nil, step_end.
  destruct (end_block_oracle ct (b_faults b)) as (O1 & O2 & O3).
  destruct HI as (Hh & Hp & Hr). unfold cperiod in *.
  destruct (staking_end_frame (c_o ct)) as (S1 & S2 & S3 & S4 & _).
  destruct (oracle_end_round (staking_end (c_o ct)) (c_s ct) (c_h ct)) as (R1 & R2).
  assert (Hpar : o_params (c_o (end_state ct (b_faults b))) = o_params (c_o c)).
  { rewrite O1, R2, S2, T3. reflexivity. }
  assert (Hh' : c_h (end_state ct (b_faults b)) = c_h c + 1) by (rewrite O2, T1; reflexivity).
  split; [|split; [exact Hh'|split; [exact Hpar|]]].
  - unfold BInv, cperiod. rewrite Hpar, Hh'. split; [lia|]. split; [assumption|].
    unfold round_is. rewrite Hpar, O1, R1.
    eexists. split; [reflexivity|]. simpl. rewrite T3, T1. auto.
  - intros Ht. rewrite O1. apply oracle_end_clears. rewrite S2, T3, <- O2. exact Ht.
Qed.

Lemma blocks_inv bs : forall c, BInv c -> Forall block_ok bs ->
  let c' := exec c (blocks_events bs) in
  BInv c' /\ c_h c' = c_h c + Z.of_nat (length bs) /\ o_params (c_o c') = o_params (c_o c).
Proof.
  induction bs as [|b bs IH]; intros c HI Hok; cbv zeta.
  - unfold blocks_events. simpl concat. rewrite exec_nil. split; [assumption|]. split; [simpl; lia|reflexivity].
  - inversion Hok as [|? ? Hb Hbs]; subst.
    assert (Hev : blocks_events (b :: bs) = block_events b ++ blocks_events bs) by reflexivity.
    rewrite Hev, exec_app.
    destruct (block_inv c b HI Hb) as (I1 & I2 & I3 & _).
    destruct (IH _ I1 Hbs) as (J1 & J2 & J3). cbv zeta in *.
    split; [assumption|]. split; [rewrite J2, I2; simpl length; lia|congruence].
Qed.

(* the genesis state built by InitGenesis (the round info of the first block is stored) *)
Definition genesis_cstate (s : sstate) (p : oparams) (vals : list validator) (pool : list (bytes * Z)) (fp : feeparams) : cstate :=
  mkC 0 s (init_ostate p vals pool) fp.

Lemma genesis_BInv s p vals pool fp : 1 <= op_period p -> BInv (genesis_cstate s p vals pool fp).
Proof.
  intros Hp. unfold BInv, genesis_cstate, cperiod. simpl. repeat split; try lia.
  unfold round_is. simpl. eexists. split; [reflexivity|]. simpl. auto.
Qed.
