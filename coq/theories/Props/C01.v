(* C01 - Every recorded payment is resolved exactly once and funds are conserved. *)
From Settlus Require Import Base.Prelude Base.Hex Settlement.Model Settlement.Machine
  Proofs.StoreLemmas Proofs.SettlementInv Proofs.SettlementEnd Proofs.SettlementAuth
  Proofs.SettlementRun Proofs.RunEvents Proofs.Payout.

Definition genesis_state bal owners chain sup h0 := mkM h0 (empty_sstate bal owners chain sup).

(* (1) exactly once, over every history of the generalised machine (arbitrary oracle fills, cut-offs
   and fault plans): no record id is recorded twice; none is resolved (paid, cancelled or dropped)
   twice; only recorded ids are resolved; and the pending set is exactly recorded minus resolved,
   i.e. a record stays pending until it is resolved *)
Theorem C01_exactly_once : forall es bal owners chain sup h0 m' glog,
  total_msgs es < two64 ->
  sm_run (genesis_state bal owners chain sup h0) es = (m', glog) ->
  let log := map snd glog in
  NoDup (recorded log) /\ NoDup (resolved log) /\
  (forall k, In k (resolved log) -> In k (recorded log)) /\
  (forall t u, utxr_get (s_utxrs (m_s m')) t u <> None <->
               (In (t, u) (recorded log) /\ ~ In (t, u) (resolved log))).
Proof.
  intros es bal owners chain sup h0 m' glog Hn Hr log.
  pose proof (sm_run_inv es 0 (genesis_state bal owners chain sup h0) [] m' glog (Z.le_refl 0) ltac:(lia)
                (Inv_init bal owners chain sup 0 (Z.le_refl 0)) Hr) as HI.
  simpl in HI. fold log in HI. destruct HI. auto.
Qed.

(* the same holds after every prefix of the history: a resolution never precedes the recording *)
Theorem C01_resolved_after_recorded : forall es1 es2 bal owners chain sup h0 m1 g1,
  total_msgs (es1 ++ es2) < two64 ->
  sm_run (genesis_state bal owners chain sup h0) es1 = (m1, g1) ->
  forall k, In k (resolved (map snd g1)) -> In k (recorded (map snd g1)).
Proof.
  intros es1 es2 bal owners chain sup h0 m1 g1 Hn Hr.
  assert (Hle : total_msgs es1 < two64).
  { unfold total_msgs in *. rewrite map_app, sumZ_app in Hn. pose proof (total_msgs_nonneg es2). unfold total_msgs in H. lia. }
  destruct (C01_exactly_once es1 bal owners chain sup h0 m1 g1 Hle Hr) as (_ & _ & H & _). exact H.
Qed.

(* (2) the split: each non-null recipient gets floor(amount*w/W) (floor(amount/n) when W = 0) and
   together they never get more than the recorded amount *)
Theorem C01_split_each : forall u a x, In (a, x) (payout_amounts u) ->
  exists r, In r (valid_recips (u_recips u)) /\ a = r_addr r /\
    x = let vr := valid_recips (u_recips u) in
        if total_weight vr =? 0 then u_amount u / lenZ vr else (u_amount u * r_weight r) / total_weight vr.
Proof. exact payout_amounts_each. Qed.

Theorem C01_split_total : forall u,
  0 <= u_amount u -> (forall r, In r (u_recips u) -> 0 <= r_weight r) ->
  0 <= outs_total (payout_amounts u) <= u_amount u.
Proof. exact payout_total_le. Qed.

(* (3) what is logged as paid is what the loop computed for a record that was pending *)
Theorem C01_paid_is_split : forall es bal owners chain sup h0 m' glog H tid uid m d outs c p,
  sm_run (genesis_state bal owners chain sup h0) es = (m', glog) ->
  In (H, GPaid tid uid m d outs c p) glog ->
  exists u, outs = payout_amounts u /\ d = u_denom u /\ c = u_created u.
Proof.
  intros es bal owners chain sup h0 m' glog H tid uid m d outs c p Hr Hin.
  destruct (sm_run_event _ _ _ _ _ _ Hr Hin) as (es1 & e & es2 & m1 & m2 & gs & Hes & Hm1 & Hst & Hg & HH).
  destruct e as [envs|msgs|fill faults]; simpl in Hst.
  - destruct (apply_senvs (m_s m1) envs) as [s g0] eqn:E. inversion Hst; subst.
    pose proof (apply_senvs_log _ _ _ _ E _ Hg). discriminate.
  - destruct (handle_all (m_s m1) (m_h m1) msgs) as [[s g0]| |] eqn:E; inversion Hst; subst; try destruct Hg.
    pose proof (handle_all_log _ _ _ _ _ E _ Hg). discriminate.
  - unfold sm_end in Hst.
    destruct (match fill with Some (res, before) => set_recipients (m_s m1) res before | None => (m_s m1, []) end) as [s1 g1] eqn:E1.
    destruct (settlement_end_block s1 (m_h m1) faults) as [s2 g2] eqn:E2. inversion Hst; subst.
    apply in_app_iff in Hg as [Hg|Hg].
    + destruct fill as [[res before]|]; [|inversion E1; subst; destruct Hg].
      pose proof (set_recipients_log_kind _ _ _ _ _ E1 _ Hg). discriminate.
    + destruct (end_block_paid _ _ _ _ _ E2 _ Hg) as (H1 & _).
      destruct (H1 _ _ _ _ _ _ _ eq_refl) as (t & u & _ & _ & _ & _ & _ & Hc & Hd & _ & Ho).
      exists u. auto.
Qed.

(* (4) native tenants: the treasury is debited by exactly what the recipients received;
   mint tenants: no bank balance of the treasury moves *)
Theorem C01_treasury_debit_native : forall tid denom d outs l faults l' f',
  pay_all 0 tid denom l faults outs = (Some l', f') ->
  (forall o, In o outs -> fst o <> treasury tid) ->
  bal_get l' (treasury tid) d = bal_get l (treasury tid) d - (if bytes_eqb d denom then outs_total outs else 0).
Proof. intros. eapply pay_all_native_treasury; eassumption. Qed.

Theorem C01_treasury_untouched_mint : forall tid denom d outs l faults l' f',
  pay_all 1 tid denom l faults outs = (Some l', f') ->
  (forall o, In o outs -> fst o <> treasury tid) -> 0 <= tid ->
  bal_get l' (treasury tid) d = bal_get l (treasury tid) d.
Proof. intros. eapply pay_all_mint_treasury; eassumption. Qed.

(* non-vacuity: a concrete history that records, fills, pays and cancels *)
Example C01_nonvacuous :
  let u := mkUtxr [1] [mkRecip 7 3; mkRecip 0 5; mkRecip 9 1] [117;116;111;107] 10 (mkNft [49] 1 1) 0 in
  payout_amounts u = [(7, 7); (9, 2)] /\ outs_total (payout_amounts u) = 9.
Proof. vm_compute. split; reflexivity. Qed.

Print Assumptions C01_exactly_once.
Print Assumptions C01_resolved_after_recorded.
Print Assumptions C01_split_each.
Print Assumptions C01_split_total.
Print Assumptions C01_paid_is_split.
Print Assumptions C01_treasury_debit_native.
Print Assumptions C01_treasury_untouched_mint.
