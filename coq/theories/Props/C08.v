(* C08 - Commit-reveal rounds: prevote in window, vote must open it, tally once per round. *)
From Settlus Require Import Base.Prelude Base.Hex Base.Dec Oracle.Arith Oracle.ArithProofs
  Settlement.Model Oracle.Model Ante.Fee Chain.Model Genesis.Model Proofs.OracleEnd Proofs.ChainInv.

(* (1) round arithmetic, with the uint64 / int64 machine arithmetic of the code: for every vote period
   parameter validation accepts and every height, both computations give the round
   [start, start+2p-1] that contains the height, with the prevote window [start, start+p-1] *)
Theorem C08_round_arithmetic : forall h p, valid_period p -> valid_height p h ->
  round_start_u h p = Some (rstart h p) /\
  vote_period_i h p = Some (rstart h p + p - 1, rstart h p + 2 * p - 1) /\
  rstart h p <= h < rstart h p + 2 * p /\ (rstart h p) mod (2 * p) = 0.
Proof.
  intros h p Hp Hh.
  assert (Hh' : 0 <= h < two63) by (unfold valid_height, valid_period, two63, max_vote_period in *; lia).
  split; [apply round_start_u_spec; assumption|].
  split; [rewrite vote_period_i_spec by assumption; reflexivity|].
  apply rstart_spec; unfold valid_period in Hp; lia.
Qed.

(* (2) the tally gate opens at exactly one height of every round: the last one *)
Theorem C08_tally_once_per_round : forall s p, 1 <= p -> 0 <= s -> s mod (2 * p) = 0 ->
  forall h, s <= h < s + 2 * p -> (is_tally h p = true <-> h = s + 2 * p - 1).
Proof. exact tally_once_per_round. Qed.

(* what a block-structured history is: genesis, then blocks (begin; transactions; end) *)
Definition history_state s p vals pool fp (bs : list block) : cstate :=
  exec (genesis_cstate s p vals pool fp) (blocks_events bs).

(* (3) in every history, while the block at height h is executed the stored round info is the round
   of h (so "current round id" and "prevote window" in the handlers mean what the property says) *)
Theorem C08_round_info_current : forall s p vals pool fp bs b i,
  1 <= op_period p -> Forall block_ok bs -> block_ok b ->
  let c := tx_state (history_state s p vals pool fp bs) b i in
  let h := Z.of_nat (length bs) + 1 in
  c_h c = h /\ o_params (c_o c) = p /\ round_is (c_o c) h.
Proof.
  intros s p vals pool fp bs b i Hp Hbs Hb c h. subst c h. unfold history_state.
  destruct (blocks_inv bs _ (genesis_BInv s p vals pool fp Hp) Hbs) as (I1 & I2 & I3). cbv zeta in *.
  destruct (tx_state_inv _ b i I1 Hb) as (T1 & T2 & T3).
  simpl in I2, I3. rewrite I2 in T1, T2.
  split; [rewrite T1; lia|]. split; [congruence|]. replace (Z.of_nat (length bs) + 1) with (0 + Z.of_nat (length bs) + 1) by lia. exact T2.
Qed.

(* (4) a prevote is accepted exactly when its sender is authorised for the validator, it carries the
   id of the round of the current height, and the height is inside the prevote window *)
Theorem C08_prevote_iff : forall o chains h feeder val commit rid,
  round_is o h ->
  ((exists o', ohandle o chains h (MPrevote feeder val commit rid) = Ok o') <->
   (validate_feeder o feeder val = true /\ rid = rstart h (op_period (o_params o)) /\
    h <= prevote_end h (op_period (o_params o)))).
Proof.
  intros o chains h feeder val commit rid (r & Hr & Hid & Hpe & Hve). unfold ohandle. rewrite Hr.
  destruct (validate_feeder o feeder val); simpl; [|split; [intros (o' & H); discriminate|intros (H & _); discriminate]].
  rewrite Hid, Hpe.
  destruct (rstart h (op_period (o_params o)) =? rid) eqn:E1; simpl.
  - destruct (prevote_end h (op_period (o_params o)) <? h) eqn:E2.
    + split; [intros (o' & H); discriminate|intros (_ & _ & H); lia].
    + split; [intros _; repeat split; lia|intros _; eexists; reflexivity].
  - split; [intros (o' & H); discriminate|intros (_ & H & _); lia].
Qed.

(* and it stores exactly that commitment for that validator, replacing an earlier one *)
Theorem C08_prevote_effect : forall o chains h feeder val commit rid o',
  ohandle o chains h (MPrevote feeder val commit rid) = Ok o' ->
  zlookup val (o_prevotes o') = Some commit /\
  (forall v, v <> val -> zlookup v (o_prevotes o') = zlookup v (o_prevotes o)) /\ o_votes o' = o_votes o.
Proof.
  intros o chains h feeder val commit rid o'. unfold ohandle.
  destruct (negb (validate_feeder o feeder val)); [discriminate|].
  destruct (o_round o) as [r|]; [|discriminate].
  destruct (negb (rd_id r =? rid)); [discriminate|].
  destruct (rd_prevote_end r <? h); [discriminate|]. intros H; inversion H; subst. simpl.
  split; [apply zlookup_zinsert_same|]. split; [|reflexivity].
  intros v Hv. apply zlookup_zinsert_other. assumption.
Qed.

(* (5) a vote is accepted exactly when its sender is authorised, it carries the current round id, the
   round is not over, every entry is well-formed for a supported chain, and salt followed by the
   entries is the commitment this validator has stored (its latest unopened prevote) *)
Theorem C08_vote_iff : forall o chains h feeder val vd salt rid,
  1 <= op_period (o_params o) -> round_is o h ->
  ((exists o', ohandle o chains h (MVote feeder val vd salt rid) = Ok o') <->
   (validate_feeder o feeder val = true /\ rid = rstart h (op_period (o_params o)) /\
    validate_vote_data vd chains = true /\
    zlookup val (o_prevotes o) = Some (preimage salt vd))).
Proof.
  intros o chains h feeder val vd salt rid Hp1 (r & Hr & Hid & Hpe & Hve). unfold ohandle. rewrite Hr.
  destruct (validate_feeder o feeder val); simpl; [|split; [intros (o' & H); discriminate|intros (H & _); discriminate]].
  rewrite Hid, Hve.
  destruct (rstart h (op_period (o_params o)) =? rid) eqn:E1; simpl;
    [|split; [intros (o' & H); discriminate|intros (_ & H & _); lia]].
  assert (Hin : vote_end h (op_period (o_params o)) <? h = false).
  { unfold vote_end, rstart. pose proof (Z.mod_pos_bound h (2 * op_period (o_params o)) ltac:(lia)). lia. }
  rewrite Hin.
  destruct (validate_vote_data vd chains); simpl;
    [|split; [intros (o' & H); discriminate|intros (_ & _ & H & _); discriminate]].
  destruct (zlookup val (o_prevotes o)) as [c|] eqn:El;
    [|split; [intros (o' & H); discriminate|intros (_ & _ & _ & H); discriminate]].
  destruct (bytes_eqb c (preimage salt vd)) eqn:Eb; simpl.
  - apply bytes_eqb_eq in Eb. subst c.
    split; [intros _; repeat split; lia|intros _; eexists; reflexivity].
  - apply bytes_eqb_neq in Eb.
    split; [intros (o' & H); discriminate|intros (_ & _ & _ & H); congruence].
Qed.

(* the prevote is consumed: the same opening cannot be used again *)
Theorem C08_vote_effect : forall o chains h feeder val vd salt rid o',
  ohandle o chains h (MVote feeder val vd salt rid) = Ok o' ->
  zlookup val (o_votes o') = Some vd /\ zlookup val (o_prevotes o') = None.
Proof.
  intros o chains h feeder val vd salt rid o'. unfold ohandle.
  destruct (negb (validate_feeder o feeder val)); [discriminate|].
  destruct (o_round o) as [r|]; [|discriminate].
  destruct (negb (rd_id r =? rid)); [discriminate|].
  destruct (rd_vote_end r <? h); [discriminate|].
  destruct (negb (validate_vote_data vd chains)); [discriminate|].
  destruct (zlookup val (o_prevotes o)) as [c|]; [|discriminate].
  destruct (negb (bytes_eqb c (preimage salt vd))); [discriminate|].
  intros H; inversion H; subst. simpl. split; [apply zlookup_zinsert_same|apply zlookup_zremove_same].
Qed.

(* (6) the tally runs only at the round's last block: at any other height the end-blocker leaves
   ballots, miss counters, validators and the reward pool untouched and fills nothing *)
Theorem C08_no_tally_elsewhere : forall o s h, is_tally h (op_period (o_params o)) = false ->
  o_prevotes (fst (oracle_end_block o s h)) = o_prevotes o /\ o_votes (fst (oracle_end_block o s h)) = o_votes o
  /\ o_miss (fst (oracle_end_block o s h)) = o_miss o /\ o_vals (fst (oracle_end_block o s h)) = o_vals o
  /\ o_pool (fst (oracle_end_block o s h)) = o_pool o /\ snd (oracle_end_block o s h) = None.
Proof. exact oracle_end_keeps. Qed.

(* (7) in every history: after the block that ends a round no prevote and no vote is stored, hence the
   tally of the next round counts only what was revealed in that round, and a vote replayed in the
   next round is rejected until a new prevote has been accepted *)
Theorem C08_nothing_left_behind : forall s p vals pool fp bs b,
  1 <= op_period p -> Forall block_ok bs -> block_ok b ->
  let c' := history_state s p vals pool fp (bs ++ [b]) in
  is_tally (c_h c') (op_period p) = true ->
  o_prevotes (c_o c') = [] /\ o_votes (c_o c') = [].
Proof.
  intros s p vals pool fp bs b Hp Hbs Hb c' Ht. subst c'. unfold history_state in *.
  unfold blocks_events in *. rewrite map_app, concat_app in *. simpl in *. rewrite app_nil_r in *.
  rewrite exec_app in *. fold (blocks_events bs) in *.
  destruct (blocks_inv bs _ (genesis_BInv s p vals pool fp Hp) Hbs) as (I1 & I2 & I3). cbv zeta in *.
  destruct (block_inv _ b I1 Hb) as (_ & _ & J3 & J4). cbv zeta in *.
  apply J4. unfold cperiod. rewrite I3. simpl. exact Ht.
Qed.

Theorem C08_replayed_vote_rejected : forall o chains h feeder val vd salt rid,
  o_prevotes o = [] -> ohandle o chains h (MVote feeder val vd salt rid) <> Ok o /\
  forall o', ohandle o chains h (MVote feeder val vd salt rid) <> Ok o'.
Proof.
  intros o chains h feeder val vd salt rid He.
  assert (H : forall o', ohandle o chains h (MVote feeder val vd salt rid) <> Ok o').
  { intros o'. unfold ohandle.
    destruct (negb (validate_feeder o feeder val)); [discriminate|].
    destruct (o_round o) as [r|]; [|discriminate].
    destruct (negb (rd_id r =? rid)); [discriminate|].
    destruct (rd_vote_end r <? h); [discriminate|].
    destruct (negb (validate_vote_data vd chains)); [discriminate|].
    rewrite He. simpl. discriminate. }
  split; [apply H|exact H].
Qed.

Example C08_nonvacuous :
  valid_period 3 /\ valid_height 3 17 /\ valid_height 1000000000000 1000000000 /\ rstart 17 3 = 12 /\ prevote_end 17 3 = 14 /\ vote_end 17 3 = 17
  /\ is_tally 17 3 = true /\ is_tally 16 3 = false /\ is_tally 11 3 = true.
Proof. unfold valid_period, valid_height, max_vote_period, two63. repeat split; try lia; try (vm_compute; reflexivity). Qed.

(* (8) a chain restarted from an export taken at height h publishes, for its first block h+1, the round of h+1 -
   whatever the alignment of h with the rounds - so that prevotes and votes in that block are accepted under exactly
   the conditions of an uninterrupted chain (C08_prevote_iff / C08_vote_iff apply: their only premise is round_is) *)
Theorem C08_restart_round : forall g vals pool cred s h,
  round_is (import_o g vals pool cred s h) (h + 1).
Proof.
  intros g vals pool cred s h. unfold round_is, import_o. cbn [o_params o_round set_round].
  eexists. split; [reflexivity|]. unfold next_round. cbn [rd_id rd_prevote_end rd_vote_end o_params]. repeat split.
Qed.

Print Assumptions C08_round_arithmetic.
Print Assumptions C08_restart_round.
Print Assumptions C08_tally_once_per_round.
Print Assumptions C08_round_info_current.
Print Assumptions C08_prevote_iff.
Print Assumptions C08_prevote_effect.
Print Assumptions C08_vote_iff.
Print Assumptions C08_vote_effect.
Print Assumptions C08_no_tally_elsewhere.
Print Assumptions C08_nothing_left_behind.
Print Assumptions C08_replayed_vote_rejected.
