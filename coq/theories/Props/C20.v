(* C20 - Reference feeder: the chain accepts what it produces; its block cache is correct. *)
From Coq Require Import String Sorting.Sorted.
From Settlus Require Import Base.Prelude Base.Hex Settlement.Model Oracle.Model Feeder.Model
  Proofs.HexProofs Proofs.GenesisProofs Proofs.CacheProofs.

(* (1) the feeder's prevote hash and the chain's vote hash are digests of the same byte string, for every
   salt and every vote data (SHA-256 itself is not modelled: equal input, equal digest) *)
Theorem C20_same_committed_bytes : forall salt vd, feeder_preimage salt vd = preimage salt vd.
Proof.
  intros salt vd. unfold feeder_preimage, preimage. revert salt.
  induction vd as [|[t es] vd IH]; intros salt; simpl; [rewrite app_nil_r; reflexivity|].
  rewrite IH. rewrite app_assoc. f_equal.
  clear. revert salt. induction es as [|e es IH]; intros salt; simpl; [rewrite app_nil_r; reflexivity|].
  rewrite IH. rewrite app_assoc. reflexivity.
Qed.

(* (2) entries: for every NFT the chain can publish (chain id without '/' and ':', which parameter
   validation guarantees since the repair of F22) and every owner answer made of hex digits, with or
   without 0x, with any number of leading zeros, the entry the feeder formats parses on the chain to the
   same NFT and to the owner's address (its last 20 bytes) *)
Definition owner_answer (owner ds : bytes) : Prop :=
  (owner = ds \/ owner = c_0 :: c_x :: ds) /\ ds <> [] /\ all_hex ds = true.

Lemma trim_hex_zeroes_value owner ds : owner_answer owner ds ->
  exists ds', trim_hex_zeroes owner = c_0 :: c_x :: ds' /\ all_hex ds' = true /\ hexnum ds' = hexnum ds.
Proof.
  intros (Hor & Hne & Hh). destruct Hor as [Hor|Hor]; subst owner.
  - (* no prefix: TrimPrefix leaves the digits (they cannot start with 0x) *)
    assert (Htp : trim_prefix_0x ds = ds).
    { destruct ds as [|a [|b ds']]; try reflexivity. simpl.
      destruct ((a =? c_0) && (b =? c_x)) eqn:E; [|reflexivity].
      apply andb_true_iff in E as [_ Eb]. apply Z.eqb_eq in Eb. subst b.
      exfalso. unfold all_hex in Hh. simpl in Hh. destruct (is_hex_char a); simpl in Hh; discriminate. }
    unfold trim_hex_zeroes. rewrite Htp.
    destruct (trim_left_zeros ds) as [|c t] eqn:Et.
    + exists [c_0]. split; [reflexivity|]. split; [reflexivity|]. rewrite <- (hexnum_trim ds), Et. reflexivity.
    + exists (c :: t). split; [reflexivity|]. rewrite <- Et. split; [apply all_hex_trim; assumption|apply hexnum_trim].
  - unfold trim_hex_zeroes. replace (trim_prefix_0x (c_0 :: c_x :: ds)) with ds by reflexivity.
    destruct (trim_left_zeros ds) as [|c t] eqn:Et.
    + exists [c_0]. split; [reflexivity|]. split; [reflexivity|]. rewrite <- (hexnum_trim ds), Et. reflexivity.
    + exists (c :: t). split; [reflexivity|]. rewrite <- Et. split; [apply all_hex_trim; assumption|apply hexnum_trim].
Qed.

Lemma owner_address owner ds : owner_answer owner ds -> hex_to_address owner = hexnum ds mod two160.
Proof.
  intros (Hor & _ & Hh). destruct Hor as [Hor|Hor]; subst owner; unfold hex_to_address; [rewrite from_hex_digits|rewrite from_hex_0x_digits]; auto.
Qed.

Theorem C20_entry_roundtrip : forall n owner ds,
  no_byte c_slash (n_chain n) -> no_byte c_colon (n_chain n) ->
  0 <= n_contract n < two160 -> 0 <= n_token n < two160 -> owner_answer owner ds ->
  parse_entry (format_entry (format_nft n) owner) = Some (n, hex_to_address owner).
Proof.
  intros [ch k t] owner ds Hs Hc Hk Ht Ho. simpl in *.
  destruct (trim_hex_zeroes_value owner ds Ho) as (ds' & Htrim & Hh' & Hnum).
  destruct (addr_hex_no_sep k) as [Kc Ks]. destruct (addr_hex_no_sep t) as [Tc Ts].
  destruct (all_hex_no_sep ds' Hh') as [Dc _].
  unfold format_entry, format_nft, parse_entry. simpl n_chain. simpl n_contract. simpl n_token. rewrite Htrim.
  (* split on ':' : the source has none, the trimmed owner has none *)
  assert (Hsrc : no_byte c_colon (ch ++ c_slash :: addr_hex k ++ c_slash :: addr_hex t)).
  { unfold no_byte in *. intros Hin. apply in_app_iff in Hin as [H|[H|H]]; [auto|unfold c_slash, c_colon in H; lia|].
    apply in_app_iff in H as [H|[H|H]]; [auto|unfold c_slash, c_colon in H; lia|auto]. }
  rewrite split_on_app by assumption.
  assert (Hown : no_byte c_colon (c_0 :: c_x :: ds')).
  { unfold no_byte in *. intros [H|[H|H]]; [unfold c_0, c_colon in H; lia|unfold c_x, c_colon in H; lia|auto]. }
  rewrite split_on_no_sep by assumption.
  (* split the NFT id on '/' *)
  unfold parse_nft_id. rewrite split_on_app by assumption. rewrite split_on_app by assumption.
  rewrite split_on_no_sep by assumption.
  rewrite !addr_hex_roundtrip by assumption.
  f_equal. f_equal. rewrite (owner_address owner ds Ho).
  unfold hex_to_address. rewrite from_hex_0x_digits by assumption. rewrite Hnum. reflexivity.
Qed.

(* (3) the block cache: for EVERY sequence of puts (equal, out-of-order timestamps, beyond capacity) and
   queries, the tree-with-eviction implementation answers exactly like the specification that remembers
   every put and answers from the [cap] highest timestamps *)
Theorem C20_cache_refines_spec : forall cap ops, 1 <= cap ->
  cache_run (cache_new cap) ops = spec_answers cap [] ops.
Proof.
  intros cap ops Hc. pose proof (cache_refines_spec cap Hc ops [] ltac:(constructor)) as H.
  assert (E : kept cap [] = []) by (unfold kept; destruct (Z.to_nat (lenZ (@nil (Z * (bytes * Z))) - cap)); reflexivity).
  rewrite E in H. exact H.
Qed.

(* what is retained: at most [cap] entries, ascending; a timestamp that was put and is not retained is
   below every retained one and the cache is full; each retained timestamp holds the value last put for it
   (the specification map [all] is built by last-write-wins insertion) *)
Theorem C20_retains_highest : forall cap all x, 0 <= cap -> zsorted all ->
  zsorted (kept cap all) /\ lenZ (kept cap all) <= cap /\
  (In x all -> ~ In x (kept cap all) ->
     lenZ (kept cap all) = cap /\ forall y, In y (kept cap all) -> fst x < fst y).
Proof.
  intros cap all x Hc Hs. split; [apply kept_sorted; assumption|]. split; [apply kept_length; assumption|].
  apply kept_highest; assumption.
Qed.

(* the answer: the retained block with the smallest timestamp not below the query, or a miss *)
Theorem C20_lookup : forall l ts, zsorted l ->
  match ceiling l ts with
  | Some v => exists k, In (k, v) l /\ ts <= k /\ forall k' v', In (k', v') l -> ts <= k' -> k <= k'
  | None => forall k' v', In (k', v') l -> k' < ts
  end.
Proof. exact ceiling_spec. Qed.

(* concurrency: since the repair of F21 every operation holds the cache's lock, so an execution with one
   writer and several readers is SOME sequence of operations; (3) holds for every sequence.  Data-race
   freedom itself is a property of the Go memory model: it is observed with the race detector, not proved. *)

Example C20_nonvacuous :
  parse_entry (format_entry (format_nft (mkNft [49] 193 36)) (bs "0x00000000000000000000000000A1"%string))
    = Some (mkNft [49] 193 36, 161) /\
  trim_hex_zeroes (bs "0x0000"%string) = bs "0x0"%string /\
  cache_run (cache_new 2) [CPut 5 [104] 1; CPut 7 [105] 2; CPut 6 [106] 3; CGet 5; CGet 6; CGet 8; CPut 1 [107] 4; CGet 0]
    = [([106], 3); ([106], 3); ([], 0); ([106], 3)].
Proof. vm_compute. repeat split; reflexivity. Qed.

Print Assumptions C20_same_committed_bytes.
Print Assumptions C20_entry_roundtrip.
Print Assumptions C20_cache_refines_spec.
Print Assumptions C20_retains_highest.
Print Assumptions C20_lookup.
