(* C19 - The NFT identity recorded is the NFT identity submitted.
   The full statement is FALSE of the code (known finding F20): the token id is normalised with the 20-byte
   ADDRESS normaliser, so ids of 2^160 and above are truncated to their last 20 bytes and a sign is dropped.
   Proved: the refutation with witnesses, and the statement for every id below 2^160 without a sign. *)
From Coq Require Import String.
From Settlus Require Import Base.Prelude Base.Hex Settlement.Model Proofs.HexProofs.

(* the number a token id "0x" + digits denotes *)
Definition plain_token (t ds : bytes) : Prop := t = c_0 :: c_x :: ds /\ ds <> [] /\ all_hex ds = true.

(* (1) every plain id below 2^160 - any casing, any number of leading zeros - is accepted and stored as exactly
   the number it denotes *)
Theorem C19_small_ids_faithful : forall t ds, plain_token t ds -> hexnum ds < two160 ->
  valid_token_hex t = true /\ hex_to_address t = hexnum ds.
Proof.
  intros t ds (-> & Hne & Hh) Hlt. split.
  - unfold valid_token_hex. rewrite !Z.eqb_refl. simpl. destruct ds as [|c ds']; [congruence|].
    unfold all_hex in Hh. simpl in Hh. apply andb_true_iff in Hh as [Hc Hd].
    assert (Hs : (c =? 43) || (c =? 45) = false).
    { destruct (hex_char_not_sep c Hc) as [_ _]. destruct (is_hex_some c Hc) as (v & Hv).
      unfold hexval, c_0, c_9, c_a, c_f, c_A, c_F in Hv.
      destruct ((48 <=? c) && (c <=? 57)) eqn:E1; [lia|].
      destruct ((97 <=? c) && (c <=? 102)) eqn:E2; [lia|].
      destruct ((65 <=? c) && (c <=? 70)) eqn:E3; [lia|discriminate]. }
    rewrite Hs. simpl. rewrite Hc. simpl. exact Hd.
  - unfold hex_to_address. rewrite from_hex_0x_digits by assumption.
    apply Z.mod_small. split; [|assumption].
    assert (G : forall l acc, 0 <= acc -> 0 <= hexnum_acc acc l).
    { unfold hexnum_acc. induction l as [|c l IH]; intros acc Ha; simpl; [assumption|]. apply IH.
      unfold hv. destruct (hexval c) as [v|] eqn:E; [pose proof (hexval_range c v E); lia|lia]. }
    apply G. lia.
Qed.

(* ... hence two such ids are stored identically only if they denote the same number *)
Theorem C19_small_ids_injective : forall t1 ds1 t2 ds2,
  plain_token t1 ds1 -> plain_token t2 ds2 -> hexnum ds1 < two160 -> hexnum ds2 < two160 ->
  hex_to_address t1 = hex_to_address t2 -> hexnum ds1 = hexnum ds2.
Proof.
  intros t1 ds1 t2 ds2 H1 H2 L1 L2 He.
  destruct (C19_small_ids_faithful t1 ds1 H1 L1) as [_ E1]. destruct (C19_small_ids_faithful t2 ds2 H2 L2) as [_ E2]. lia.
Qed.

(* (3) contract addresses: every spelling the record message accepts (common.IsHexAddress: 40 hex digits, any
   casing, with "0x", with "0X" or without prefix) is stored as exactly the number its digits denote, so two accepted
   spellings are stored identically iff they denote the same address *)
Theorem C19_contract_faithful : forall s, is_hex_address s = true ->
  hex_to_address s = hexnum (addr_digits s) /\ 0 <= hexnum (addr_digits s) < two160.
Proof. exact contract_address_faithful. Qed.

Theorem C19_contract_injective : forall s1 s2, is_hex_address s1 = true -> is_hex_address s2 = true ->
  (hex_to_address s1 = hex_to_address s2 <-> hexnum (addr_digits s1) = hexnum (addr_digits s2)).
Proof.
  intros s1 s2 H1 H2. destruct (contract_address_faithful s1 H1) as [E1 _].
  destruct (contract_address_faithful s2 H2) as [E2 _]. rewrite E1, E2. tauto.
Qed.

(* ... and what the chain publishes for it (0x + 40 lower-case digits) denotes the same address again *)
Theorem C19_contract_published : forall s, is_hex_address s = true ->
  is_hex_address (addr_hex (hex_to_address s)) = true /\ hex_to_address (addr_hex (hex_to_address s)) = hex_to_address s.
Proof.
  intros s H. destruct (contract_address_faithful s H) as [E B]. split.
  - unfold is_hex_address, addr_hex. replace (has0x (c_0 :: c_x :: hex_digits 40 (hex_to_address s))) with true by reflexivity.
    cbn [drop2]. fold (all_hex (hex_digits 40 (hex_to_address s))). rewrite all_hex_hex_digits.
    assert (L : forall n v, length (hex_digits n v) = n).
    { induction n as [|n IH]; intros v; [reflexivity|]. cbn [hex_digits]. rewrite app_length, IH. simpl. lia. }
    unfold lenZ. rewrite L. reflexivity.
  - apply addr_hex_roundtrip. rewrite E. exact B.
Qed.

Example C19_contract_spellings :
  is_hex_address (bs "0X00000000000000000000000000000000000000C4"%string) = true /\
  hex_to_address (bs "0X00000000000000000000000000000000000000C4"%string) = 196 /\
  hex_to_address (bs "00000000000000000000000000000000000000c4"%string) = 196.
Proof. vm_compute. repeat split; reflexivity. Qed.

(* (2) refuted beyond 2^160 and for signed ids: different accepted token ids collapse *)
Theorem C19_refuted :
  exists t1 t2, valid_token_hex t1 = true /\ valid_token_hex t2 = true /\ t1 <> t2 /\
    hex_to_address t1 = hex_to_address t2 /\
    (* and they denote different numbers: 2^160 and 0; +15 / -1 and garbage *)
    t1 = bs "0x10000000000000000000000000000000000000000"%string /\ t2 = bs "0x0"%string.
Proof.
  exists (bs "0x10000000000000000000000000000000000000000"%string), (bs "0x0"%string).
  repeat split; try (vm_compute; reflexivity). vm_compute. discriminate.
Qed.

Example C19_signed_ids_collapse :
  valid_token_hex (bs "0x-1"%string) = true /\ valid_token_hex (bs "0x+f"%string) = true /\
  hex_to_address (bs "0x-1"%string) = 0 /\ hex_to_address (bs "0x+f"%string) = 0 /\ hex_to_address (bs "0x0"%string) = 0.
Proof. vm_compute. repeat split; reflexivity. Qed.

Example C19_nonvacuous :
  plain_token (bs "0x00Ff"%string) (bs "00Ff"%string) /\ hexnum (bs "00Ff"%string) = 255 /\
  hex_to_address (bs "0x00Ff"%string) = 255 /\ hex_to_address (bs "0xff"%string) = 255.
Proof. repeat split; try (vm_compute; reflexivity). vm_compute. discriminate. Qed.

Print Assumptions C19_small_ids_faithful.
Print Assumptions C19_small_ids_injective.
Print Assumptions C19_refuted.
Print Assumptions C19_contract_faithful.
Print Assumptions C19_contract_injective.
Print Assumptions C19_contract_published.
