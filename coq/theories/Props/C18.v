(* C18 - A prevote binds its validator to one vote (commitment is unambiguous).
   The full statement is FALSE of the code (known finding F19): the digest is SHA-256 over salt followed by
   the entries with no delimiters or lengths, so one committed byte string has several accepted openings.
   What is proved: the refutation (with witnesses that are replayed on the implementation), and the
   residual guarantee - the committed bytes together with the cut positions determine the opening. *)
From Coq Require Import String.
From Settlus Require Import Base.Prelude Base.Hex Base.Keys Settlement.Model Oracle.Model.

Definition opening := (bytes * votedata)%type.
Definition accepted_opening (chains : list bytes) (commit : bytes) (o : opening) : Prop :=
  validate_vote_data (snd o) chains = true /\ preimage (fst o) (snd o) = commit.

(* the full property, as a statement about the model *)
Definition binding : Prop :=
  forall chains commit o1 o2, accepted_opening chains commit o1 -> accepted_opening chains commit o2 -> o1 = o2.

(* (1) refuted: the deprecated topic is not validated and not counted, but its entries are hashed.  The
   same commitment opens as "A owns both NFTs" and as "A owns the first NFT" (the second entry hidden in
   the deprecated topic) - the validator chooses after seeing the other reveals *)
Theorem C18_binding_refuted : ~ binding.
Proof.
  intros H.
  set (e1 := bs "1/0xc1/0x1:0xa1"%string). set (e2 := bs "1/0xc1/0x2:0xa1"%string).
  specialize (H [[49]] (bs "ABCD"%string ++ e1 ++ e2)
                (bs "ABCD"%string, [(1, [e1; e2])]) (bs "ABCD"%string, [(1, [e1]); (0, [e2])])).
  assert (H1 : accepted_opening [[49]] (bs "ABCD"%string ++ e1 ++ e2) (bs "ABCD"%string, [(1, [e1; e2])])) by (split; vm_compute; reflexivity).
  assert (H2 : accepted_opening [[49]] (bs "ABCD"%string ++ e1 ++ e2) (bs "ABCD"%string, [(1, [e1]); (0, [e2])])) by (split; vm_compute; reflexivity).
  specialize (H H1 H2). vm_compute in H. discriminate.
Qed.

(* two more families of second openings: the salt boundary moves when one supported chain id is a suffix of
   another (e.g. 1 and 11155111), and entries can be regrouped into several vote-data items *)
Example C18_more_openings :
  let e := bs "1/0xc1/0x1:0xa1"%string in
  let chains := [[49]; bs "11155111"%string] in
  preimage (bs "AB1115511"%string) [(1, [e])] = preimage (bs "AB"%string) [(1, [bs "1115511"%string ++ e])] /\
  validate_vote_data [(1, [e])] chains = true /\ validate_vote_data [(1, [bs "1115511"%string ++ e])] chains = true /\
  preimage (bs "AB"%string) [(1, [e; e])] = preimage (bs "AB"%string) [(1, [e]); (1, [e])].
Proof. vm_compute. repeat split; reflexivity. Qed.

(* (2) the residual guarantee: the committed bytes AND the cut positions (length of the salt, topics, number and
   lengths of the entries) determine the opening: whatever a change to the digest does, as long as it still
   covers salt and every entry in order, an opening cannot be altered without altering the committed bytes *)
Definition shape (o : opening) : nat * list (Z * list nat) :=
  (length (fst o), map (fun tv : Z * list bytes => (fst tv, map (@length Z) (snd tv))) (snd o)).

Lemma concat_inj_lengths : forall (a b : list bytes), map (@length Z) a = map (@length Z) b -> concat a = concat b -> a = b.
Proof.
  induction a as [|x a IH]; intros [|y b] Hl Hc; try discriminate; [reflexivity|].
  simpl in Hl, Hc. inversion Hl as [[Hxy Hab]].
  destruct (app_inj_length x (concat a) y (concat b) Hxy Hc) as [-> Hrest]. f_equal. apply IH; assumption.
Qed.

Lemma concat_length_map (a : list bytes) : length (concat a) = fold_right plus 0%nat (map (@length Z) a).
Proof. induction a as [|x a IH]; simpl; [reflexivity|]. rewrite app_length, IH. reflexivity. Qed.

Theorem C18_cuts_determine_opening : forall o1 o2,
  preimage (fst o1) (snd o1) = preimage (fst o2) (snd o2) -> shape o1 = shape o2 -> o1 = o2.
Proof.
  intros [s1 vd1] [s2 vd2]. unfold preimage, shape. simpl. intros Hp Hs. inversion Hs as [[Hl Hv]].
  destruct (app_inj_length s1 _ s2 _ Hl Hp) as [-> Hrest]. f_equal.
  clear Hp Hs Hl. revert vd2 Hv Hrest. induction vd1 as [|[t1 e1] vd1 IH]; intros [|[t2 e2] vd2] Hv Hrest; try discriminate; [reflexivity|].
  simpl in Hv, Hrest. inversion Hv as [[Ht He Hvd]].
  assert (Hlen : length (concat e1) = length (concat e2)) by (rewrite !concat_length_map, He; reflexivity).
  destruct (app_inj_length _ _ _ _ Hlen Hrest) as [Hc Hrest'].
  rewrite (concat_inj_lengths e1 e2 He Hc). f_equal. apply IH; assumption.
Qed.

(* with a collision-free digest (SHA-256 is trusted for that): equal digests mean equal committed bytes *)
Section Digest.
  Variable H : bytes -> bytes.
  Hypothesis H_injective : forall a b, H a = H b -> a = b.
  Theorem C18_partial : forall o1 o2,
    H (preimage (fst o1) (snd o1)) = H (preimage (fst o2) (snd o2)) -> shape o1 = shape o2 -> o1 = o2.
  Proof. intros o1 o2 Hh Hs. apply C18_cuts_determine_opening; [apply H_injective; assumption|assumption]. Qed.
End Digest.

Print Assumptions C18_binding_refuted.
Print Assumptions C18_cuts_determine_opening.
Print Assumptions C18_partial.
