(* C04 - Admission rules bind every executed message, however it is wrapped. *)
From Settlus Require Import Base.Prelude Base.Hex Base.Dec Settlement.Model Oracle.Model Ante.Fee Ante.Model Proofs.AnteProofs.

(* (1) for EVERY transaction shape - any list of messages, authz exec nested to any depth, grants, any
   signer and fee payer - admitted at a height after genesis: no executed message creates a validator *)
Theorem C04_no_validator_creation : forall o h tx, h <> 0 -> admits o h tx = true ->
  forall x, In x (leaves_list (tx_msgs tx)) -> url_of x <> UCreateValidator.
Proof.
  intros o h tx Hh Ha x Hx Hu. unfold admits, admits_with in Ha.
  destruct (tx_msgs tx) as [|m0 ms0] eqn:Em; [discriminate|]. rewrite <- Em in *.
  unfold route_of in Ha.
  destruct (is_oracle_tx (tx_msgs tx)) eqn:Eo; simpl in Ha.
  - destruct (oracle_tx_leaves _ Eo x Hx) as (m & -> & _). discriminate.
  - destruct (is_settlement_tx (tx_msgs tx)) eqn:Es; simpl in Ha.
    + destruct (settlement_tx_leaves _ Es x Hx) as (m & -> & _). discriminate.
    + pose proof (cosmos_no_restricted h tx Ha x Hx) as Hr. unfold restricted in Hr.
      rewrite Hu in Hr. simpl in Hr. destruct (h =? 0) eqn:E; [lia|]. discriminate.
Qed.

(* (2) ... and a settlement message is executed only in a transaction made of settlement messages
   only, which was charged under the fixed-fee rule (C16) *)
Theorem C04_settlement_only_fixed_fee : forall o h tx, admits o h tx = true ->
  forall x m, In x (leaves_list (tx_msgs tx)) -> x = LSettle m ->
  is_settlement_tx (tx_msgs tx) = true /\ tx_fee_ok tx = true /\ In (TLeaf x) (tx_msgs tx).
Proof.
  intros o h tx Ha x m Hx ->. unfold admits, admits_with in Ha.
  destruct (tx_msgs tx) as [|m0 ms0] eqn:Em; [discriminate|]. rewrite <- Em in *.
  unfold route_of in Ha.
  destruct (is_oracle_tx (tx_msgs tx)) eqn:Eo; simpl in Ha.
  - destruct (oracle_tx_leaves _ Eo _ Hx) as (m' & Heq & _). discriminate.
  - destruct (is_settlement_tx (tx_msgs tx)) eqn:Es; simpl in Ha.
    + unfold settlus_admits in Ha. apply andb_true_iff in Ha as [_ Ha]. rewrite Eo in Ha.
      destruct (settlement_tx_leaves _ Es _ Hx) as (m' & _ & Hin). auto.
    + pose proof (cosmos_no_restricted h tx Ha _ Hx) as Hr. unfold restricted in Hr. simpl in Hr. discriminate.
Qed.

(* (3) the same for the authz GRANT of a restricted message type: it is refused *)
Theorem C04_no_restricted_grant : forall o h tx g u, admits o h tx = true ->
  In (TGrant g u) (tx_msgs tx) -> is_disabled disabled_list u = false.
Proof.
  intros o h tx g u Ha Hin. unfold admits, admits_with in Ha.
  destruct (tx_msgs tx) as [|m0 ms0] eqn:Em; [discriminate|]. rewrite <- Em in *.
  unfold route_of in Ha.
  assert (Hns : is_oracle_tx (tx_msgs tx) = false /\ is_settlement_tx (tx_msgs tx) = false).
  { split.
    - destruct (is_oracle_tx (tx_msgs tx)) eqn:E; [|reflexivity]. unfold is_oracle_tx in E. rewrite Em in E. rewrite <- Em in E.
      rewrite forallb_forall in E. specialize (E _ Hin). simpl in E. discriminate.
    - destruct (is_settlement_tx (tx_msgs tx)) eqn:E; [|reflexivity]. unfold is_settlement_tx in E. rewrite Em in E. rewrite <- Em in E.
      rewrite forallb_forall in E. specialize (E _ Hin). simpl in E. discriminate. }
  destruct Hns as [E1 E2]. rewrite E1, E2 in Ha. simpl in Ha.
  unfold cosmos_admits in Ha. apply andb_true_iff in Ha as [_ Hlim].
  unfold limiter_ok in Hlim. apply andb_true_iff in Hlim as [_ Hlim].
  clear - Hlim Hin. revert Hlim. generalize 1. induction (tx_msgs tx) as [|m ms IH]; intros l H; [destruct Hin|].
  simpl in H. destruct (chk disabled_list m false l) as [ok l'] eqn:E. apply andb_true_iff in H as [Hok Hrest]. subst ok.
  destruct Hin as [->|Hin]; [|eapply IH; eassumption].
  destruct (is_disabled disabled_list u) eqn:Ed; [|reflexivity]. unfold chk in E. rewrite Ed in E. discriminate.
Qed.

(* the defect that was repaired (F04): with the old limiter list a create-validator message and a
   settlement message are executed inside an authz exec, in a transaction charged like any Cosmos one *)
Example C04_old_list_refuted :
  let o := mkO (mkOP 1 0 0 2 1 false) None [] [] [] [] [] [] [] in
  let tx1 := mkTx [TExec 7 [TLeaf (LCreateValidator 7)]] 7 [7] false true in
  let tx2 := mkTx [TExec 7 [TLeaf (LSettle (MCancel 7 1 [114]))]] 7 [7] false true in
  admits_old o 5 tx1 = true /\ admits_old o 5 tx2 = true /\
  admits o 5 tx1 = false /\ admits o 5 tx2 = false.
Proof. vm_compute. repeat split; reflexivity. Qed.

Example C04_nonvacuous :
  let o := mkO (mkOP 1 0 0 2 1 false) None [] [] [] [] [] [] [] in
  admits o 5 (mkTx [TLeaf (LSend 7); TExec 7 [TLeaf (LSend 7); TExec 7 [TLeaf (LOther 7)]]] 7 [7] false true) = true /\
  admits o 5 (mkTx [TLeaf (LSettle (MCancel 7 1 [114])); TLeaf (LSettle (MDeposit 7 1 [117] 5))] 7 [7] true true) = true /\
  admits o 5 (mkTx [TLeaf (LSettle (MCancel 7 1 [114])); TLeaf (LSend 7)] 7 [7] true true) = false.
Proof. vm_compute. repeat split; reflexivity. Qed.

Print Assumptions C04_no_validator_creation.
Print Assumptions C04_settlement_only_fixed_fee.
Print Assumptions C04_no_restricted_grant.
