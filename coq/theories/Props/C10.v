(* C10 - Recipients come from the NFT's owner: on-chain at record time, else oracle only. *)
From Settlus Require Import Base.Prelude Base.Hex Base.Dec Oracle.Arith Oracle.ArithProofs
  Settlement.Model Settlement.Machine Oracle.Model Ante.Fee Chain.Model
  Proofs.StoreLemmas Proofs.SettlementInv Proofs.SettlementEnd Proofs.SettlementRun Proofs.OracleEnd
  Proofs.Tally Proofs.ChainInv.
From Settlus Require Import Props.C05.

(* (1) where the recipients of a NEW record come from *)
Theorem C10_internal : forall s chain contract tok,
  bytes_eqb (s_chain s) chain = true ->
  get_recipients s chain contract tok =
    match owner_get (s_owners s) (hex_to_address contract) (hex_to_hash tok) with
    | Some o => if o =? 0 then Rejected else Ok [mkRecip o 1]
    | None => Rejected
    end.
Proof.
  intros s chain contract tok H. unfold get_recipients. rewrite H. simpl.
  rewrite andb_false_r. simpl. reflexivity.
Qed.

Theorem C10_external : forall s chain contract tok,
  bytes_eqb (s_chain s) chain = false -> mem_bytes chain (s_supported s) = true ->
  get_recipients s chain contract tok = Ok [].
Proof. intros s chain contract tok H1 H2. unfold get_recipients. rewrite H1, H2. reflexivity. Qed.

Theorem C10_other_chain_rejected : forall s h sender tid req denom amount chain contract tok,
  bytes_eqb (s_chain s) chain = false -> mem_bytes chain (s_supported s) = false ->
  forall s' g, handle s h (MRecord sender tid req denom amount chain contract tok) <> Ok (s', g).
Proof.
  intros s h sender tid req denom amount chain contract tok H1 H2 s' g. unfold handle.
  destruct (negb (validate_basic _)); [discriminate|].
  destruct (negb (is_admin s tid sender)); [discriminate|].
  destruct (find_tenant (s_tenants s) tid); [|discriminate].
  destruct (negb (bytes_eqb (t_denom t) denom)); [discriminate|].
  destruct (t_period t =? 0); [discriminate|].
  unfold get_recipients. rewrite H1, H2. simpl. discriminate.
Qed.

(* the parts of the settlement state that decide recipients are not touched by messages *)
Lemma handle_static s h m s' g : handle s h m = Ok (s', g) ->
  s_owners s' = s_owners s /\ s_chain s' = s_chain s /\ s_supported s' = s_supported s.
Proof.
  unfold handle. destruct (negb (validate_basic m)); [discriminate|].
  destruct m; intros H.
  - inversion H; subst; simpl; auto.
  - inversion H; subst; simpl; auto.
  - destruct (negb (is_admin s tid sender)); [discriminate|].
    destruct (find_tenant (s_tenants s) tid) as [t|]; [|discriminate].
    destruct (memZ admin (t_admins t)); [discriminate|]. inversion H; subst; simpl; auto.
  - destruct (negb (is_admin s tid sender)); [discriminate|].
    destruct (find_tenant (s_tenants s) tid) as [t|]; [|discriminate].
    destruct (negb (memZ admin (t_admins t))); [discriminate|].
    destruct (lenZ (t_admins t) =? 1); [discriminate|]. inversion H; subst; simpl; auto.
  - destruct (negb (is_admin s tid sender)); [discriminate|].
    destruct (find_tenant (s_tenants s) tid) as [t|]; [|discriminate]. inversion H; subst; simpl; auto.
  - destruct (find_tenant (s_tenants s) tid) as [t|]; [|discriminate].
    destruct (negb (t_method t =? 0)); [discriminate|].
    destruct (bal_get (s_bal s) sender denom <? amount); [discriminate|]. inversion H; subst; simpl; auto.
  - destruct (negb (is_admin s tid sender)); [discriminate|].
    destruct (find_tenant (s_tenants s) tid) as [t|]; [|discriminate].
    destruct (negb (bytes_eqb (t_denom t) denom)); [discriminate|].
    destruct (t_period t =? 0); [discriminate|].
    destruct (get_recipients s chain contract tokhex) as [rs| |]; try discriminate.
    unfold create_utxr in H. destruct (idx_get (s_idx s) tid _); [discriminate|].
    inversion H; subst; simpl; auto.
  - destruct (find_tenant (s_tenants s) tid) as [t|]; [|discriminate].
    destruct (negb (is_admin s tid sender)); [discriminate|].
    destruct (idx_get (s_idx s) tid req); [|discriminate]. inversion H; subst; simpl; auto.
Qed.

(* a record entry is NEW at height h for state s when it was created now with the recipients the
   chain itself determines for its NFT *)
Definition fresh_entry (s : sstate) (h : Z) (x : Z * Z * utxr) : Prop :=
  u_created (snd x) = h /\
  exists chain contract tok,
    get_recipients s chain contract tok = Ok (u_recips (snd x)) /\
    u_nft (snd x) = mkNft chain (hex_to_address contract) (hex_to_address tok).

Lemma get_recipients_static s s' chain contract tok :
  s_owners s' = s_owners s -> s_chain s' = s_chain s -> s_supported s' = s_supported s ->
  get_recipients s' chain contract tok = get_recipients s chain contract tok.
Proof. intros A B C. unfold get_recipients. rewrite A, B, C. reflexivity. Qed.

Lemma handle_entries s h m s' g : handle s h m = Ok (s', g) ->
  forall x, In x (s_utxrs s') -> In x (s_utxrs s) \/ fresh_entry s h x.
Proof.
  unfold handle. destruct (negb (validate_basic m)); [discriminate|].
  destruct m; intros H x Hx.
  - inversion H; subst; simpl in *; auto.
  - inversion H; subst; simpl in *; auto.
  - destruct (negb (is_admin s tid sender)); [discriminate|].
    destruct (find_tenant (s_tenants s) tid) as [t|]; [|discriminate].
    destruct (memZ admin (t_admins t)); [discriminate|]. inversion H; subst; simpl in *; auto.
  - destruct (negb (is_admin s tid sender)); [discriminate|].
    destruct (find_tenant (s_tenants s) tid) as [t|]; [|discriminate].
    destruct (negb (memZ admin (t_admins t))); [discriminate|].
    destruct (lenZ (t_admins t) =? 1); [discriminate|]. inversion H; subst; simpl in *; auto.
  - destruct (negb (is_admin s tid sender)); [discriminate|].
    destruct (find_tenant (s_tenants s) tid) as [t|]; [|discriminate]. inversion H; subst; simpl in *; auto.
  - destruct (find_tenant (s_tenants s) tid) as [t|]; [|discriminate].
    destruct (negb (t_method t =? 0)); [discriminate|].
    destruct (bal_get (s_bal s) sender denom <? amount); [discriminate|]. inversion H; subst; simpl in *; auto.
  - destruct (negb (is_admin s tid sender)); [discriminate|].
    destruct (find_tenant (s_tenants s) tid) as [t|]; [|discriminate].
    destruct (negb (bytes_eqb (t_denom t) denom)); [discriminate|].
    destruct (t_period t =? 0); [discriminate|].
    destruct (get_recipients s chain contract tokhex) as [rs| |] eqn:Eg; try discriminate.
    unfold create_utxr in H. destruct (idx_get (s_idx s) tid _); [discriminate|].
    inversion H; subst; simpl in *.
    apply utxr_ins_In in Hx as [->|Hx]; [|left; assumption].
    right. split; [reflexivity|]. simpl. exists chain, contract, tokhex. auto.
  - destruct (find_tenant (s_tenants s) tid) as [t|]; [|discriminate].
    destruct (negb (is_admin s tid sender)); [discriminate|].
    destruct (idx_get (s_idx s) tid req); [|discriminate]. inversion H; subst; simpl in *.
    left. eapply utxr_del_In; eassumption.
Qed.

(* (2) transactions never modify an existing record: every record present after a transaction was there
   before, unchanged, or was created by it with the chain-determined recipients *)
Theorem C10_tx_entries : forall msgs s h s' g, handle_all s h msgs = Ok (s', g) ->
  forall x, In x (s_utxrs s') -> In x (s_utxrs s) \/ fresh_entry s h x.
Proof.
  induction msgs as [|m msgs IH]; intros s h s' g H x Hx; simpl in H.
  - inversion H; subst. auto.
  - destruct (handle s h m) as [[s1 g1]| |] eqn:E1; try discriminate.
    destruct (handle_all s1 h msgs) as [[s2 g2]| |] eqn:E2; try discriminate.
    inversion H; subst.
    destruct (handle_static _ _ _ _ _ E1) as (A & B & C).
    destruct (IH _ _ _ _ E2 x Hx) as [Hin|(Hc & chain & contract & tok & Hg & Hn)].
    + eapply handle_entries; eassumption.
    + right. split; [assumption|]. exists chain, contract, tok.
      rewrite <- (get_recipients_static s s1 chain contract tok A B C). auto.
Qed.

(* (3) what the oracle hands to settlement: nothing outside a tally block; at a tally the accepted
   owners and, as cut-off, the first block of the tallied round *)
Definition tally_of (o : ostate) : list (nft * Z) :=
  tally_results (claims o) (all_ballots o) (threshold_votes o).

Lemma oracle_end_fill o s h :
  snd (oracle_end_block o s h) =
    if is_tally h (op_period (o_params o)) && negb (rstart h (op_period (o_params o)) =? 0)
    then Some (tally_of o, rstart h (op_period (o_params o))) else None.
Proof.
  unfold oracle_end_block. destruct (is_tally h (op_period (o_params o))); simpl; [|reflexivity].
  destruct (window_closing h (op_period (o_params o)) (op_window (o_params o))); simpl; destruct (rstart h (op_period (o_params o)) =? 0); reflexivity.
Qed.

(* (4) the end-block: a record that is still pending afterwards is either unchanged, or it had NO
   recipients, was created before the tallied round began, this is the tally block of that round, and
   it received exactly the owner accepted for ITS NFT; recipients once set are never overwritten *)
Theorem C10_end_block_entries : forall c faults x,
  In x (s_utxrs (c_s (end_state c faults))) ->
  In x (s_utxrs (c_s c)) \/
  (is_tally (c_h c) (cperiod c) = true /\
   exists x0 ow, In x0 (s_utxrs (c_s c)) /\ u_recips (snd x0) = [] /\
     u_created (snd x0) < rstart (c_h c) (cperiod c) /\
     accepted (staking_end (c_o c)) (u_nft (snd x0)) = Some ow /\
     x = (fst (fst x0), snd (fst x0), with_owner (snd x0) ow)).
Proof.
  intros c faults x Hx. unfold end_state, end_block in Hx.
  pose proof (oracle_end_fill (staking_end (c_o c)) (c_s c) (c_h c)) as Hfill.
  destruct (oracle_end_block (staking_end (c_o c)) (c_s c) (c_h c)) as [o1 fill]. simpl in Hfill.
  destruct (match fill with Some (res, before) => set_recipients (c_s c) res before | None => (c_s c, []) end) as [s1 g1] eqn:E1.
  destruct (settlement_end_block s1 (c_h c) faults) as [s2 g2] eqn:E2. simpl in Hx.
  apply end_block_frame in E2 as [_ Hsub]. apply Hsub in Hx.
  destruct (staking_end_frame (c_o c)) as (_ & Hpar & _).
  destruct fill as [[res before]|].
  - unfold cperiod.
    destruct (is_tally (c_h c) (op_period (o_params (c_o c)))) eqn:Et; simpl in Hfill; [|discriminate].
    destruct (rstart (c_h c) (op_period (o_params (c_o c))) =? 0); simpl in Hfill; [discriminate|].
    inversion Hfill; subst.
    apply C05_fill in E1 as (Hu & _). rewrite Hu in Hx. apply in_map_iff in Hx as (x0 & <- & Hin0).
    rewrite C05_fill_rec.
    destruct (u_recips (snd x0)) eqn:Er.
    + destruct (fill_get (tally_of (staking_end (c_o c))) (u_nft (snd x0))) as [ow|] eqn:Ef.
      * destruct (u_created (snd x0) <? rstart (c_h c) (op_period (o_params (c_o c)))) eqn:Ec.
        -- right. split; [reflexivity|]. exists x0, ow.
           repeat split; try assumption; lia.
        -- left. destruct x0 as [[a b] u]. exact Hin0.
      * left. destruct x0 as [[a b] u]. exact Hin0.
    + left. destruct x0 as [[a b] u]. exact Hin0.
  - inversion E1; subst. left. assumption.
Qed.

Corollary C10_never_overwritten : forall c faults x0,
  In x0 (s_utxrs (c_s c)) -> u_recips (snd x0) <> [] ->
  forall x, In x (s_utxrs (c_s (end_state c faults))) -> fst x = fst x0 ->
  In x (s_utxrs (c_s c)) \/ exists x1, In x1 (s_utxrs (c_s c)) /\ u_recips (snd x1) = [] /\ fst x1 = fst x0.
Proof.
  intros c faults x0 Hin0 Hne x Hx Hk.
  destruct (C10_end_block_entries c faults x Hx) as [H|(_ & x1 & ow & H1 & H2 & _ & _ & Heq)]; [left; assumption|].
  right. exists x1. split; [assumption|]. split; [assumption|]. subst x. simpl in Hk. destruct x1 as [[a b] u]. simpl in *. congruence.
Qed.

(* (5) the environment (bank transfers, NFT transfers, jailing) never touches a record: an NFT transfer
   after recording does not change who is paid *)
Theorem C10_env_keeps_records : forall es c c' g, apply_cenvs c es = (c', g) ->
  s_utxrs (c_s c') = s_utxrs (c_s c).
Proof. intros es c c' g H. apply apply_cenvs_frame in H. tauto. Qed.

(* (6) the same cut-off decides which NFTs are published for verification *)
Theorem C10_published_sources : forall o s h,
  rd_sources (next_round o s h) =
    if rstart h (op_period (o_params o)) =? 0 then [] else nfts_to_verify s (rstart h (op_period (o_params o))).
Proof. reflexivity. Qed.

Lemma nfts_to_verify_acc_In l before : forall acc n,
  In n (nfts_to_verify_acc l before acc) <->
  In n acc \/ exists x, In x l /\ u_recips (snd x) = [] /\ u_created (snd x) < before /\ u_nft (snd x) = n.
Proof.
  induction l as [|[[t i] u] l IH]; intros acc n; simpl.
  - split; [auto|]. intros [H|(x & [] & _)]. assumption.
  - destruct (u_recips u) eqn:Er.
    + destruct ((u_created u <? before) && negb (nft_mem (u_nft u) acc)) eqn:Ec.
      * apply andb_true_iff in Ec as [Ec1 Ec2]. rewrite IH, in_app_iff. simpl. split.
        -- intros [[H|[H|[]]]|(x & Hx & H1 & H2 & H3)]; [left; assumption| |right; exists x; auto].
           right. exists (t, i, u). simpl. repeat split; auto. lia.
        -- intros [H|(x & [Hx|Hx] & H1 & H2 & H3)]; [left; left; assumption| |right; exists x; auto].
           subst x. simpl in *. left. right. left. assumption.
      * rewrite IH. split.
        -- intros [H|(x & Hx & H1 & H2 & H3)]; [left; assumption|right; exists x; auto].
        -- intros [H|(x & [Hx|Hx] & H1 & H2 & H3)]; [left; assumption| |right; exists x; auto].
           subst x. simpl in *. apply andb_false_iff in Ec as [Ec|Ec]; [lia|].
           apply negb_false_iff in Ec. apply nft_mem_In in Ec. left. congruence.
    + rewrite IH. split.
      * intros [H|(x & Hx & H1 & H2 & H3)]; [left; assumption|right; exists x; auto].
      * intros [H|(x & [Hx|Hx] & H1 & H2 & H3)]; [left; assumption| |right; exists x; auto].
        subst x. simpl in *. congruence.
Qed.

Theorem C10_sources_are_unfilled_old_records : forall s before n,
  In n (nfts_to_verify s before) <->
  exists x, In x (s_utxrs s) /\ u_recips (snd x) = [] /\ u_created (snd x) < before /\ u_nft (snd x) = n.
Proof.
  intros. unfold nfts_to_verify. rewrite nfts_to_verify_acc_In. simpl. split; [intros [[]|H]; exact H|auto].
Qed.

From Coq Require Import String.
Example C10_nonvacuous :
  let s := mkS [] [] [] [] [] [(5, 7, 99)] [115] [[49]] in
  get_recipients s [115] (bs "0x05"%string) (bs "0x07"%string) = Ok [mkRecip 99 1] /\
  get_recipients s [115] (bs "0x05"%string) (bs "0x08"%string) = Rejected /\
  get_recipients s [49] (bs "0x05"%string) (bs "0x08"%string) = Ok [] /\
  get_recipients s [50] (bs "0x05"%string) (bs "0x08"%string) = Rejected.
Proof. vm_compute. repeat split; reflexivity. Qed.

Print Assumptions C10_internal.
Print Assumptions C10_external.
Print Assumptions C10_other_chain_rejected.
Print Assumptions C10_tx_entries.
Print Assumptions C10_end_block_entries.
Print Assumptions C10_never_overwritten.
Print Assumptions C10_env_keeps_records.
Print Assumptions C10_published_sources.
Print Assumptions C10_sources_are_unfilled_old_records.
