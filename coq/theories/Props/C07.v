(* C07 - State transition is deterministic: same block, same state, same app hash.
   The model's step is a Coq function, so the content of this file is that the places where the CODE
   iterates a Go map (inventory: Inventory/Table.v range_table) compute something that does not depend
   on the iteration order: for every permutation of the iterated collection the result is the same. *)
From Coq Require Import Permutation.
From Settlus Require Import Base.Prelude Base.Hex Base.Dec Oracle.Arith Settlement.Model Oracle.Model Chain.Model
  Proofs.OracleEnd Proofs.Tally Proofs.Reward.
From Settlus Require Import Props.C05.

Lemma sumZ_perm l l' : Permutation l l' -> sumZ l = sumZ l'.
Proof. induction 1; simpl; lia. Qed.

(* ---------- EndBlocker: miss counting ranges over the claim map ---------- *)
Lemma bump_miss_same m a :
  zlookup a (bump_miss m a) = Some (wrap64 (match zlookup a m with Some c => c | None => 0 end + 1)).
Proof. unfold bump_miss. apply zlookup_zinsert_same. Qed.

Lemma fold_bump_in ms : forall m b, NoDup ms -> In b ms ->
  zlookup b (fold_left bump_miss ms m) = Some (wrap64 (match zlookup b m with Some c => c | None => 0 end + 1)).
Proof.
  induction ms as [|a ms IH]; intros m b Hnd Hin; [destruct Hin|].
  inversion Hnd as [|? ? Hna Hnd']; subst. simpl. destruct Hin as [->|Hin].
  - rewrite fold_bump_not_in by assumption. apply bump_miss_same.
  - rewrite IH by assumption. rewrite bump_miss_other; [reflexivity|]. intro; subst; contradiction.
Qed.

Theorem C07_miss_order_free : forall ms ms' m v, NoDup ms -> Permutation ms ms' ->
  zlookup v (fold_left bump_miss ms m) = zlookup v (fold_left bump_miss ms' m).
Proof.
  intros ms ms' m v Hnd Hp.
  assert (Hnd' : NoDup ms') by (eapply Permutation_NoDup; eassumption).
  destruct (in_dec Z.eq_dec v ms) as [Hin|Hn].
  - rewrite !fold_bump_in; auto. eapply Permutation_in; eassumption.
  - rewrite !fold_bump_not_in; auto. intro H. apply Hn. eapply Permutation_in; [apply Permutation_sym; eassumption|assumption].
Qed.

(* ---------- RewardBallotWinners ranges over the claim map ---------- *)
Theorem C07_reward_order_free : forall amt wsum (ws ws' : list (Z * Z)), Permutation ws ws' ->
  sumZ (map snd ws) = sumZ (map snd ws') /\
  sumZ (map (fun w : Z * Z => reward_of amt wsum (snd w)) ws) = sumZ (map (fun w : Z * Z => reward_of amt wsum (snd w)) ws').
Proof. intros amt wsum ws ws' Hp. split; apply sumZ_perm; apply Permutation_map; assumption. Qed.

(* ---------- TallyVotes / pickMostVoted range over grouped votes and vote counts ---------- *)
Lemma power_behind_perm cl cl' bs n ow : Permutation cl cl' -> power_behind cl bs n ow = power_behind cl' bs n ow.
Proof. intros Hp. unfold power_behind. apply sumZ_perm. apply Permutation_map. assumption. Qed.

Lemma filter_perm {A} (f : A -> bool) l l' : Permutation l l' -> Permutation (filter f l) (filter f l').
Proof.
  induction 1; simpl.
  - constructor.
  - destruct (f x); [constructor|]; assumption.
  - destruct (f x), (f y); [apply perm_swap|apply Permutation_refl|apply Permutation_refl|apply Permutation_refl].
  - eapply Permutation_trans; eassumption.
Qed.

Lemma claims_perm o o' : o_params o = o_params o' -> Permutation (o_vals o) (o_vals o') ->
  Permutation (claims o) (claims o').
Proof.
  intros Hp Hv. unfold claims, power. rewrite Hp. apply Permutation_map. apply filter_perm. assumption.
Qed.

(* the decision of the tally is the same for every order in which validators, votes and entries are
   visited: it depends on the validator SET and on the SET of revealed (validator, NFT, owner) triples *)
Theorem C07_tally_order_free : forall o1 o2 n, vals_ok o1 ->
  o_params o1 = o_params o2 -> Permutation (o_vals o1) (o_vals o2) ->
  (forall b, In b (all_ballots o1) <-> In b (all_ballots o2)) ->
  accepted o1 n = accepted o2 n.
Proof.
  intros o1 o2 n H1 Hp Hv Hb.
  assert (H2 : vals_ok o2).
  { destruct H1 as (A & B & C). split; [|split].
    - eapply Permutation_NoDup; [apply Permutation_map; eassumption|assumption].
    - intros v Hin. apply B. eapply Permutation_in; [apply Permutation_sym; eassumption|assumption].
    - rewrite <- Hp. assumption. }
  pose proof (claims_perm o1 o2 Hp Hv) as Hcl.
  assert (Htot : total_bonded_power o1 = total_bonded_power o2).
  { unfold total_bonded_power. apply sumZ_perm. apply Permutation_map. assumption. }
  assert (Hpb : forall x, power_for o1 n x = power_for o2 n x).
  { intros x. unfold power_for. rewrite (power_behind_perm _ _ _ _ _ Hcl). apply power_behind_ext. assumption. }
  assert (Hiff : forall ow, accepted o1 n = Some ow <-> accepted o2 n = Some ow).
  { intros ow. rewrite (C05_accept_iff o1 n ow H1), (C05_accept_iff o2 n ow H2).
    unfold some_revealed. rewrite Htot, Hp.
    split; intros (A & B & C).
    - split; [destruct A as (b & Hin & Hx); exists b; split; [apply Hb; assumption|assumption]|].
      split; [rewrite <- Hpb; assumption|].
      intros ow' (b & Hin & Hx) Hle. apply C; [exists b; split; [apply Hb; assumption|assumption]|rewrite Hpb; assumption].
    - split; [destruct A as (b & Hin & Hx); exists b; split; [apply Hb; assumption|assumption]|].
      split; [rewrite Hpb; assumption|].
      intros ow' (b & Hin & Hx) Hle. apply C; [exists b; split; [apply Hb; assumption|assumption]|rewrite <- Hpb; assumption]. }
  destruct (accepted o1 n) as [a|] eqn:E1, (accepted o2 n) as [b|] eqn:E2; try reflexivity.
  - symmetry. apply (Hiff a). reflexivity.
  - pose proof (proj1 (Hiff a) eq_refl). discriminate.
  - pose proof (proj2 (Hiff b) eq_refl). discriminate.
Qed.

(* and so is the set of validators charged a miss *)
Theorem C07_missers_order_free : forall cl bs bs' res v,
  (forall b, In b bs <-> In b bs') ->
  (In v (missers cl bs res) <-> In v (missers cl bs' res)).
Proof.
  intros cl bs bs' res v Hb. rewrite !missers_spec. split; intros (b & H1 & H2); exists b; (split; [apply Hb; assumption|assumption]).
Qed.

(* ---------- what IS written to state in an order: the published NFT list ----------
   After the repair of F13 it is a function of the store content in store order: no map, no permutation
   parameter.  The composed step is a function of (state, event): *)
Theorem C07_step_is_a_function : forall c e r1 r2, step c e = r1 -> step c e = r2 -> r1 = r2.
Proof. intros; congruence. Qed.

(* the defect that was repaired, as a refutation: returning the NFTs in an arbitrary (map) order makes
   the stored round info differ between two executions as soon as two NFTs are pending *)
Example C07_map_order_refuted :
  let n1 := mkNft [49] 1 1 in let n2 := mkNft [49] 1 2 in
  Permutation [n1; n2] [n2; n1] /\ [n1; n2] <> [n2; n1].
Proof. split; [apply perm_swap|discriminate]. Qed.

Example C07_nonvacuous :
  fold_left bump_miss [3; 1] [(1, 4)] = fold_left bump_miss [1; 3] [(1, 4)] /\
  fold_left bump_miss [1; 3] [(1, 4)] = [(1, 5); (3, 1)].
Proof. vm_compute. split; reflexivity. Qed.

Print Assumptions C07_miss_order_free.
Print Assumptions C07_reward_order_free.
Print Assumptions C07_tally_order_free.
Print Assumptions C07_missers_order_free.
Print Assumptions C07_step_is_a_function.
