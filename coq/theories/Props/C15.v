(* C15 - Oracle misses are evaluated and reset at the close of every slash window. *)
From Settlus Require Import Base.Prelude Oracle.Arith Oracle.ArithProofs Settlement.Model Oracle.Model Proofs.OracleEnd.

(* (1) the close routine runs at height h exactly when h is a tally height and a window boundary
   k*W (k >= 1) lies after the previous tally and at or before h *)
Theorem C15_close_iff : forall h p w, 1 <= p -> 1 <= w -> 0 <= h ->
  (closes h p w = true <->
   is_tally h p = true /\ exists k, 1 <= k /\ h - 2 * p < k * w <= h).
Proof. exact closes_iff. Qed.

(* the gate as coded (uint64, votePeriod*2 may wrap) is the gate of these theorems for every vote period
   parameter validation accepts *)
Theorem C15_gate_as_coded : forall h p w, 0 <= h -> valid_period p ->
  window_closing_u h p w = window_closing h p w.
Proof.
  intros h p w Hh Hp. apply window_closing_u_spec; [assumption|].
  unfold valid_period, max_vote_period, two63 in *. lia.
Qed.

(* (2) every window is closed at the first tally at or after its last block *)
Theorem C15_every_window_closed : forall k p w, 1 <= p -> 1 <= w -> 1 <= k ->
  closes (first_tally_at_or_after (k * w) p) p w = true.
Proof. exact every_window_closed. Qed.

Theorem C15_first_tally : forall b p, 1 <= p -> 0 <= b ->
  b <= first_tally_at_or_after b p /\ is_tally (first_tally_at_or_after b p) p = true /\
  (forall t', b <= t' < first_tally_at_or_after b p -> is_tally t' p = false).
Proof. exact first_tally_spec. Qed.

(* (3) the oracle slashes or jails nobody at any other time: the validator table is untouched
   by an end-block at which no window closes *)
Theorem C15_nobody_else : forall o s h,
  closes h (op_period (o_params o)) (op_window (o_params o)) = false ->
  o_vals (fst (oracle_end_block o s h)) = o_vals o.
Proof. exact end_block_vals_unchanged. Qed.

(* (4) at a close: all counters restart from zero, and a validator is slashed by the fraction and
   jailed exactly when it is bonded, unjailed and its misses exceed the maximum *)
Theorem C15_effect : forall o s h,
  closes h (op_period (o_params o)) (op_window (o_params o)) = true ->
  let t := tally_state o s h in
  let o' := fst (oracle_end_block o s h) in
  o_miss o' = [] /\
  o_vals o' = map (fun v => if over_limit t v
                            then mkVal (v_addr v) (v_tokens v - slash_amount t v) (v_bonded v) true (v_rate v)
                            else v) (o_vals o).
Proof.
  intros o s h Hc t o'. subst o'. rewrite end_block_closes by assumption.
  split; [reflexivity|]. rewrite close_window_vals. subst t. rewrite (tally_state_vals o s h).
  apply map_ext. intro v. apply slash_one_spec.
Qed.

(* (5) a miss is charged only to an active validator that revealed, for some NFT, an owner that
   differs from the accepted one (or none was accepted) *)
Theorem C15_miss_only : forall o s h v,
  zlookup v (o_miss (tally_state o s h)) <> zlookup v (o_miss o) ->
  let o1 := set_round o (Some (next_round o s h)) in
  let res := tally_results (claims o1) (all_ballots o1) (threshold_votes o1) in
  (exists x, In x (o_vals o) /\ v_addr x = v /\ active x = true) /\
  exists b, In b (all_ballots o1) /\ b_voter b = v /\ fill_get res (b_nft b) <> Some (b_owner b).
Proof.
  intros o s h v Hne o1 res.
  pose proof (tally_state_miss_changed o s h v Hne) as Hin. cbv zeta in Hin. fold o1 in Hin. fold res in Hin.
  apply missers_spec in Hin as (b & Hb & Hv & Hcl & Hres).
  split; [exact (claims_lookup o1 v Hcl)|]. exists b. auto.
Qed.

(* the defect that was repaired: with the gate `height % window == 0` nothing ever closed *)
Theorem C15_old_gate_never_closes : forall h p w, 1 < p -> 1 <= w -> w mod p = 0 -> 0 <= h ->
  closes_old h p w = false.
Proof. exact old_gate_never_closes. Qed.

(* the hypotheses are satisfiable: default-like parameters, a window shorter than a round *)
Example C15_nonvacuous :
  valid_params 10 100000 60 = true /\ closes 100019 10 100000 = true /\ closes 100039 10 100000 = false
  /\ valid_params 3 3 1 = true /\ closes 5 3 3 = true /\ closes 11 3 3 = true.
Proof. vm_compute. repeat split; reflexivity. Qed.

Print Assumptions C15_close_iff.
Print Assumptions C15_gate_as_coded.
Print Assumptions C15_every_window_closed.
Print Assumptions C15_first_tally.
Print Assumptions C15_nobody_else.
Print Assumptions C15_effect.
Print Assumptions C15_miss_only.
Print Assumptions C15_old_gate_never_closes.
