(* C06 - Block processing never panics: no transaction history can halt the chain. *)
From Settlus Require Import Base.Prelude Base.Hex Base.Dec Oracle.Arith Oracle.ArithProofs
  Settlement.Model Settlement.Machine Oracle.Model Oracle.ParseGo Ante.Fee Chain.Model
  Proofs.StoreLemmas Proofs.SettlementInv Proofs.SettlementEnd Proofs.SettlementRun Proofs.Payout.
From Settlus Require Import Props.C05.

(* ---------- the panic sites of the payout loop (keeper/settle.go tryPayout) ----------
   sdk.NewCoins(amount) panics on an invalid denomination or a negative amount;
   Int.Mul panics when amount * weight does not fit in 256 bits; Int results above 2^256-1 panic. *)
Definition payout_panics (u : utxr) : bool :=
  match valid_recips (u_recips u) with
  | [] => false                                     (* returns before any coin is built *)
  | _ :: _ =>
      negb (valid_denom (u_denom u))
      || payout_overflows u
      || existsb (fun out : Z * Z => (snd out <? 0) || (two256 <=? snd out)) (payout_amounts u)
  end.

(* what every stored record satisfies when records enter the store through transactions only *)
Definition rec_safe (u : utxr) : Prop :=
  valid_coin (u_denom u) (u_amount u) = true /\ (u_recips u = [] \/ exists o, u_recips u = [mkRecip o 1]).
Definition Safe (s : sstate) : Prop := forall x, In x (s_utxrs s) -> rec_safe (snd x).

Lemma get_recipients_shape s chain contract tok rs :
  get_recipients s chain contract tok = Ok rs -> rs = [] \/ exists o, rs = [mkRecip o 1].
Proof.
  unfold get_recipients.
  destruct (mem_bytes chain (s_supported s) && negb (bytes_eqb (s_chain s) chain)); [intros H; inversion H; auto|].
  destruct (negb (bytes_eqb (s_chain s) chain)); [discriminate|].
  destruct (owner_get _ _ _) as [o|]; [|discriminate].
  destruct (o =? 0); [discriminate|]. intros H; inversion H; eauto.
Qed.

Lemma handle_safe s h m s' g : Safe s -> handle s h m = Ok (s', g) -> Safe s'.
Proof.
  intros HS. unfold handle. destruct (negb (validate_basic m)) eqn:Ev; [discriminate|].
  apply negb_false_iff in Ev. destruct m; intros H.
  - inversion H; subst; exact HS.
  - inversion H; subst; exact HS.
  - destruct (negb (is_admin s tid sender)); [discriminate|].
    destruct (find_tenant (s_tenants s) tid) as [t|]; [|discriminate].
    destruct (memZ admin (t_admins t)); [discriminate|]. inversion H; subst; exact HS.
  - destruct (negb (is_admin s tid sender)); [discriminate|].
    destruct (find_tenant (s_tenants s) tid) as [t|]; [|discriminate].
    destruct (negb (memZ admin (t_admins t))); [discriminate|].
    destruct (lenZ (t_admins t) =? 1); [discriminate|]. inversion H; subst; exact HS.
  - destruct (negb (is_admin s tid sender)); [discriminate|].
    destruct (find_tenant (s_tenants s) tid) as [t|]; [|discriminate]. inversion H; subst; exact HS.
  - destruct (find_tenant (s_tenants s) tid) as [t|]; [|discriminate].
    destruct (negb (t_method t =? 0)); [discriminate|].
    destruct (bal_get (s_bal s) sender denom <? amount); [discriminate|]. inversion H; subst; exact HS.
  - destruct (negb (is_admin s tid sender)); [discriminate|].
    destruct (find_tenant (s_tenants s) tid) as [t|]; [|discriminate].
    destruct (negb (bytes_eqb (t_denom t) denom)); [discriminate|].
    destruct (t_period t =? 0); [discriminate|].
    destruct (get_recipients s chain contract tokhex) as [rs| |] eqn:Eg; try discriminate.
    unfold create_utxr in H. destruct (idx_get (s_idx s) tid _); [discriminate|].
    inversion H; subst. intros x Hx. simpl in Hx.
    apply utxr_ins_In in Hx as [->|Hx]; [|apply HS; assumption].
    simpl. split; simpl.
    + cbn [validate_basic] in Ev. apply andb_true_iff in Ev as [Ev _]. apply andb_true_iff in Ev as [Ev _].
      apply andb_true_iff in Ev as [Ev _]. exact Ev.
    + eapply get_recipients_shape; eassumption.
  - destruct (find_tenant (s_tenants s) tid) as [t|]; [|discriminate].
    destruct (negb (is_admin s tid sender)); [discriminate|].
    destruct (idx_get (s_idx s) tid req); [|discriminate]. inversion H; subst.
    intros x Hx. simpl in Hx. apply HS. eapply utxr_del_In; eassumption.
Qed.

Lemma handle_all_safe ms : forall s h s' g, Safe s -> handle_all s h ms = Ok (s', g) -> Safe s'.
Proof.
  induction ms as [|m ms IH]; intros s h s' g HS H; simpl in H.
  - inversion H; subst; assumption.
  - destruct (handle s h m) as [[s1 g1]| |] eqn:E1; try discriminate.
    destruct (handle_all s1 h ms) as [[s2 g2]| |] eqn:E2; try discriminate.
    inversion H; subst. eapply IH; [|eassumption]. eapply handle_safe; eassumption.
Qed.

Lemma fill_rec_safe fill before u : rec_safe u -> rec_safe (fill_rec fill before u).
Proof.
  intros [Hc Hr]. rewrite C05_fill_rec. destruct (u_recips u) eqn:Er; [|split; [assumption|rewrite Er; assumption]].
  destruct (fill_get fill (u_nft u)) as [ow|]; [|split; [assumption|rewrite Er; auto]].
  destruct (u_created u <? before); [|split; [assumption|rewrite Er; auto]].
  unfold with_owner, rec_safe. simpl. split; [assumption|right; eauto].
Qed.

Lemma sm_step_safe m e m' g : Safe (m_s m) -> sm_step m e = (m', g) -> Safe (m_s m').
Proof.
  intros HS H. destruct e as [envs|msgs|fill faults]; simpl in H.
  - destruct (apply_senvs (m_s m) envs) as [s g0] eqn:E. inversion H; subst. simpl.
    apply apply_senvs_frame in E as [_ Hu]. intros x Hx. rewrite Hu in Hx. apply HS; assumption.
  - destruct (handle_all (m_s m) (m_h m) msgs) as [[s g0]| |] eqn:E; inversion H; subst; try assumption.
    simpl. eapply handle_all_safe; eassumption.
  - unfold sm_end in H.
    destruct (match fill with Some (res, before) => set_recipients (m_s m) res before | None => (m_s m, []) end) as [s1 g1] eqn:E1.
    destruct (settlement_end_block s1 (m_h m) faults) as [s2 g2] eqn:E2. inversion H; subst. simpl.
    apply end_block_frame in E2 as [_ Hsub].
    assert (HS1 : Safe s1).
    { destruct fill as [[res before]|]; [|inversion E1; subst; assumption].
      apply C05_fill in E1 as (Hu & _). intros x Hx. rewrite Hu in Hx.
      apply in_map_iff in Hx as (x0 & <- & Hin0). simpl. apply fill_rec_safe. apply HS; assumption. }
    intros x Hx. apply HS1. apply Hsub. assumption.
Qed.

(* (1) in every history (arbitrary transactions, oracle fills, cut-offs and fault plans) every stored
   record keeps a valid coin and at most one recipient of weight 1 *)
Theorem C06_records_stay_safe : forall es m m' glog,
  Safe (m_s m) -> sm_run m es = (m', glog) -> Safe (m_s m').
Proof.
  induction es as [|e es IH]; intros m m' glog HS H; simpl in H.
  - inversion H; subst; assumption.
  - destruct (sm_step m e) as [m1 g] eqn:E1. destruct (sm_run m1 es) as [m2 gs] eqn:E2.
    inversion H; subst. eapply IH; [|eassumption]. eapply sm_step_safe; eassumption.
Qed.

Theorem C06_genesis_safe : forall bal owners chain sup, Safe (empty_sstate bal owners chain sup).
Proof. intros bal owners chain sup x []. Qed.

(* (2) hence no coin construction and no big-integer product of the payout loop can panic, whichever
   record the loop reaches, in whichever block *)
Theorem C06_payout_cannot_panic : forall u, rec_safe u -> payout_panics u = false.
Proof.
  intros u [Hc Hr]. unfold payout_panics.
  destruct (valid_recips (u_recips u)) as [|r0 rs] eqn:Evr; [reflexivity|].
  unfold valid_coin in Hc. apply andb_true_iff in Hc as [Hc Hlt]. apply andb_true_iff in Hc as [Hd Hpos].
  rewrite Hd. simpl.
  destruct Hr as [Hr|(o & Hr)]; [rewrite Hr in Evr; discriminate|].
  assert (Hvr : valid_recips (u_recips u) = [mkRecip o 1]).
  { rewrite Hr in *. unfold valid_recips in *. simpl in *. destruct (negb (o =? 0)); [reflexivity|discriminate]. }
  unfold payout_overflows, payout_amounts. rewrite Hvr. simpl.
  unfold share, total_weight, lenZ. simpl.
  replace (u_amount u * 1) with (u_amount u) by lia. rewrite Z.div_1_r.
  assert (H1 : two256 <=? u_amount u = false) by lia. rewrite H1.
  assert (H2 : u_amount u <? 0 = false) by lia. rewrite H2. reflexivity.
Qed.

(* (3) message handling is total: no handler of the model has a panicking path (the Panic outcome of
   [get_recipients] is never produced), for every state and every message *)
Theorem C06_handlers_total : forall s h m, handle s h m <> Panic.
Proof.
  intros s h m. unfold handle. destruct (negb (validate_basic m)); [discriminate|].
  destruct m; try discriminate.
  - destruct (negb (is_admin s tid sender)); [discriminate|].
    destruct (find_tenant (s_tenants s) tid) as [t|]; [|discriminate].
    destruct (memZ admin (t_admins t)); discriminate.
  - destruct (negb (is_admin s tid sender)); [discriminate|].
    destruct (find_tenant (s_tenants s) tid) as [t|]; [|discriminate].
    destruct (negb (memZ admin (t_admins t))); [discriminate|].
    destruct (lenZ (t_admins t) =? 1); discriminate.
  - destruct (negb (is_admin s tid sender)); [discriminate|].
    destruct (find_tenant (s_tenants s) tid) as [t|]; discriminate.
  - destruct (find_tenant (s_tenants s) tid) as [t|]; [|discriminate].
    destruct (negb (t_method t =? 0)); [discriminate|].
    destruct (bal_get (s_bal s) sender denom <? amount); discriminate.
  - destruct (negb (is_admin s tid sender)); [discriminate|].
    destruct (find_tenant (s_tenants s) tid) as [t|]; [|discriminate].
    destruct (negb (bytes_eqb (t_denom t) denom)); [discriminate|].
    destruct (t_period t =? 0); [discriminate|].
    unfold get_recipients.
    destruct (mem_bytes chain (s_supported s) && negb (bytes_eqb (s_chain s) chain)).
    + unfold create_utxr. destruct (idx_get (s_idx s) tid _); discriminate.
    + destruct (negb (bytes_eqb (s_chain s) chain)); [discriminate|].
      destruct (owner_get _ _ _) as [o|]; [|discriminate].
      destruct (o =? 0); [discriminate|].
      unfold create_utxr. destruct (idx_get (s_idx s) tid _); discriminate.
  - destruct (find_tenant (s_tenants s) tid) as [t|]; [|discriminate].
    destruct (negb (is_admin s tid sender)); [discriminate|].
    destruct (idx_get (s_idx s) tid req); discriminate.
Qed.

Theorem C06_oracle_handlers_total : forall o chains h m, ohandle o chains h m <> Panic.
Proof.
  intros o chains h m. unfold ohandle. destruct m as [feeder val commit rid|feeder val vd salt rid|val feeder].
  - destruct (negb (validate_feeder o feeder val)); [discriminate|].
    destruct (o_round o) as [r|]; [|discriminate].
    destruct (negb (rd_id r =? rid)); [discriminate|].
    destruct (rd_prevote_end r <? h); discriminate.
  - destruct (negb (validate_feeder o feeder val)); [discriminate|].
    destruct (o_round o) as [r|]; [|discriminate].
    destruct (negb (rd_id r =? rid)); [discriminate|].
    destruct (rd_vote_end r <? h); [discriminate|].
    destruct (negb (validate_vote_data vd chains)); [discriminate|].
    destruct (zlookup val (o_prevotes o)) as [c|]; [|discriminate].
    destruct (negb (bytes_eqb c (preimage salt vd))); discriminate.
  - destruct (find_val (o_vals o) val) as [x|]; [|discriminate]. destruct (v_bonded x); discriminate.
Qed.

(* (4) the vote-entry parser, with Go's index expressions made explicit, cannot index out of range on
   any byte string, in the handler (validation) and in the tally (which re-parses every stored entry) *)
Theorem C06_entry_parser_total : forall s, parse_entry_go s <> GPanic.
Proof. exact parse_entry_go_total. Qed.

Theorem C06_entry_parser_is_model : forall s,
  parse_entry_go s = match parse_entry s with Some x => GOk x | None => GErr end.
Proof. exact parse_entry_go_spec. Qed.

(* (5) the round arithmetic of begin/end-block cannot divide by zero or wrap for any accepted vote period *)
Theorem C06_round_arithmetic_total : forall h p, valid_period p -> valid_height p h ->
  round_start_u h p <> None /\ vote_period_i h p <> None.
Proof.
  intros h p Hp Hh. split.
  - rewrite round_start_u_spec; [discriminate|assumption|].
    unfold valid_height, valid_period, two63, max_vote_period in *. lia.
  - rewrite vote_period_i_spec by assumption. discriminate.
Qed.

(* (6) the composed chain step never reports a panic *)
Theorem C06_step_never_panics : forall c e,
  match snd (fst (step c e)) with OTx CPanic => False | OEnd CPanic _ => False | _ => True end.
Proof.
  intros c e. destruct e as [envs|offered msgs|m|faults]; simpl.
  - destruct (apply_cenvs _ envs) as [c1 g]. exact I.
  - destruct msgs as [|m0 ms]; [exact I|].
    destruct (negb (forallb validate_basic (m0 :: ms))); [exact I|].
    destruct (pick_fee _ _ _) as [[d fee]|]; [|exact I].
    destruct (handle_all (c_s c) (c_h c) (m0 :: ms)) as [[s' g]| |] eqn:E; try exact I.
    exfalso. revert E. generalize (c_s c). generalize (m0 :: ms). clear.
    induction l as [|m l IH]; intros s H; simpl in H; [discriminate|].
    destruct (handle s (c_h c) m) as [[s1 g1]| |] eqn:E1; try discriminate.
    + destruct (handle_all s1 (c_h c) l) as [[s2 g2]| |] eqn:E2; try discriminate. eapply IH; eassumption.
    + eapply C06_handlers_total; eassumption.
  - destruct (ohandle (c_o c) (s_supported (c_s c)) (c_h c) m) as [o'| |] eqn:E; try exact I.
    exfalso. eapply C06_oracle_handlers_total; eassumption.
  - destruct (end_block c faults) as [c1 g]. exact I.
Qed.

(* the defects that were repaired, as refutations of the old code paths *)
Example C06_old_parser_panicked : parse_entry_go_old [49; 47; 48; 120; 49; 47; 48; 120; 50] = GPanic.
Proof. exact parse_entry_go_old_panics. Qed.

Example C06_unvalidated_coin_panicked :
  payout_panics (mkUtxr [] [mkRecip 7 1] [33; 33] 5 (mkNft [49] 1 1) 0) = true /\
  payout_panics (mkUtxr [] [mkRecip 7 1] [117; 116; 111; 107] (-5) (mkNft [49] 1 1) 0) = true /\
  payout_panics (mkUtxr [] [mkRecip 7 4294967295] [117; 116; 111; 107] (2 ^ 255) (mkNft [49] 1 1) 0) = true /\
  payout_panics (mkUtxr [] [mkRecip 7 1] [117; 116; 111; 107] 5 (mkNft [49] 1 1) 0) = false.
Proof. vm_compute. repeat split; reflexivity. Qed.

Print Assumptions C06_records_stay_safe.
Print Assumptions C06_genesis_safe.
Print Assumptions C06_payout_cannot_panic.
Print Assumptions C06_handlers_total.
Print Assumptions C06_oracle_handlers_total.
Print Assumptions C06_entry_parser_total.
Print Assumptions C06_entry_parser_is_model.
Print Assumptions C06_round_arithmetic_total.
Print Assumptions C06_step_never_panics.
