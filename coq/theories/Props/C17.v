(* C17 - Genesis export then import reproduces settlement and oracle state. *)
From Coq Require Import Sorting.Sorted.
From Settlus Require Import Base.Prelude Base.Hex Base.Dec Oracle.Arith Settlement.Model Settlement.Machine
  Oracle.Model Ante.Fee Chain.Model Genesis.Model
  Proofs.StoreLemmas Proofs.SettlementInv Proofs.SettlementEnd Proofs.OracleEnd Proofs.ChainInv Proofs.Refinement
  Proofs.GenesisProofs.

(* (1) settlement: for every state satisfying the invariant of reachable states, importing the export
   does not fail and reproduces tenants, every pending record with its id / request id / amount /
   recipients / NFT / creation height in the same order, and the by-request-id index; exporting again
   gives the same document *)
Theorem C17_settlement_roundtrip : forall B s log, Inv B s log ->
  exists s', import_s (blank s) (export_s s) = Ok s' /\
    s_tenants s' = s_tenants s /\ s_utxrs s' = s_utxrs s /\
    (forall t r, idx_get (s_idx s') t r = idx_get (s_idx s) t r) /\
    s_bal s' = s_bal s /\ s_owners s' = s_owners s /\ s_chain s' = s_chain s /\ s_supported s' = s_supported s /\
    export_s s' = export_s s.
Proof. exact settlement_roundtrip. Qed.

(* (2) oracle: parameters, ballots, feeder delegations and miss counters are reproduced *)
Theorem C17_oracle_roundtrip : forall o s h, osorted o ->
  let o' := import_o (export_o o) (o_vals o) (o_pool o) (o_credited o) s h in
  o_params o' = o_params o /\ o_prevotes o' = o_prevotes o /\ o_votes o' = o_votes o /\
  o_deleg o' = o_deleg o /\ o_miss o' = o_miss o /\ export_o o' = export_o o.
Proof. exact oracle_roundtrip. Qed.

(* ---------- both hypotheses hold in every state a history can reach ---------- *)
Lemma zsorted_nil {A} : zsorted (@nil (Z * A)).
Proof. constructor. Qed.

Lemma fold_bump_sorted ms : forall m, zsorted m -> zsorted (fold_left bump_miss ms m).
Proof.
  induction ms as [|a ms IH]; intros m H; simpl; [assumption|].
  apply IH. unfold bump_miss. apply zinsert_sorted. assumption.
Qed.

Lemma ohandle_sorted o chains h m o' : osorted o -> ohandle o chains h m = Ok o' -> osorted o'.
Proof.
  intros (A & B & C & D). unfold ohandle. destruct m as [f v c rid|f v vd salt rid|v f].
  - destruct (negb (validate_feeder o f v)); [discriminate|].
    destruct (o_round o) as [r|]; [|discriminate].
    destruct (negb (rd_id r =? rid)); [discriminate|].
    destruct (rd_prevote_end r <? h); [discriminate|]. intros H; inversion H; subst.
    unfold osorted. simpl. repeat split; try assumption. apply zinsert_sorted. assumption.
  - destruct (negb (validate_feeder o f v)); [discriminate|].
    destruct (o_round o) as [r|]; [|discriminate].
    destruct (negb (rd_id r =? rid)); [discriminate|].
    destruct (rd_vote_end r <? h); [discriminate|].
    destruct (negb (validate_vote_data vd chains)); [discriminate|].
    destruct (zlookup v (o_prevotes o)) as [c|]; [|discriminate].
    destruct (negb (bytes_eqb c (preimage salt vd))); [discriminate|].
    intros H; inversion H; subst. unfold osorted. simpl.
    split; [apply zremove_sorted; assumption|]. split; [apply zinsert_sorted; assumption|]. auto.
  - destruct (find_val (o_vals o) v) as [x|]; [|discriminate].
    destruct (v_bonded x); [|discriminate]. intros H; inversion H; subst.
    unfold osorted. simpl. repeat split; try assumption. apply zinsert_sorted. assumption.
Qed.

Lemma oracle_end_sorted o s h : osorted o -> osorted (fst (oracle_end_block o s h)).
Proof.
  intros (A & B & C & D).
  destruct (is_tally h (op_period (o_params o))) eqn:Et.
  - rewrite end_block_tally by assumption.
    assert (HT : osorted (tally_state o s h)).
    { destruct (tally_state_frame o s h) as (_ & P & V). unfold osorted. rewrite P, V.
      unfold tally_state. cbv zeta. simpl.
      match goal with |- context [reward ?a ?b ?c] => destruct (reward_ballots a b c) as (_ & _ & Hd & _); rewrite Hd, (reward_miss a b c) end.
      simpl. repeat split; try apply zsorted_nil; try assumption. apply fold_bump_sorted. assumption. }
    destruct (window_closing _ _ _); [|assumption].
    destruct HT as (A' & B' & C' & D'). unfold osorted, close_window. simpl.
    repeat split; try assumption; try apply zsorted_nil.
  - rewrite end_block_no_tally by assumption. unfold osorted. simpl. auto.
Qed.

Lemma apply_cenvs_deleg es : forall c c' g, apply_cenvs c es = (c', g) -> o_deleg (c_o c') = o_deleg (c_o c).
Proof.
  induction es as [|e es IH]; intros c c' g H; simpl in H.
  - inversion H; subst. reflexivity.
  - destruct (apply_cenv c e) as [c1 g1] eqn:E1. destruct (apply_cenvs c1 es) as [c2 g2] eqn:E2.
    inversion H; subst. rewrite (IH _ _ _ E2). destruct e as [x|x]; simpl in E1.
    + destruct (apply_senv (c_s c) x) as [s1 gs]. inversion E1; subst. reflexivity.
    + inversion E1; subst. destruct x; reflexivity.
Qed.

Lemma step_sorted c e : osorted (c_o c) -> osorted (c_o (step_state c e)).
Proof.
  intros H. destruct e as [envs|offered msgs|m|faults]; [unfold step_state; simpl..|].
  - destruct (apply_cenvs _ envs) as [c1 g] eqn:E. simpl.
    pose proof (apply_cenvs_deleg _ _ _ _ E) as Dl.
    apply apply_cenvs_frame in E as (_ & _ & _ & P & V & M & _). simpl in *.
    destruct H as (A & B & C & D). unfold osorted. rewrite P, V, M, Dl. auto.
  - destruct msgs as [|m0 ms]; [exact H|].
    destruct (negb (forallb validate_basic (m0 :: ms))); [exact H|].
    destruct (pick_fee _ _ _) as [[d fee]|]; [|exact H].
    destruct (handle_all _ _ _) as [[s' g]| |]; simpl; exact H.
  - destruct (ohandle (c_o c) (s_supported (c_s c)) (c_h c) m) as [o'| |] eqn:E; simpl; try exact H.
    eapply ohandle_sorted; eassumption.
  - rewrite step_end.
    destruct (end_block_oracle c faults) as (O1 & _). rewrite O1.
    apply oracle_end_sorted. destruct H as (A & B & C & D).
    destruct (staking_end_frame (c_o c)) as (_ & _ & P & V & M & _).
    unfold osorted. rewrite P, V, M. unfold staking_end. simpl. auto.
Qed.

Lemma exec_sorted es : forall c, osorted (c_o c) -> osorted (c_o (exec c es)).
Proof.
  induction es as [|e es IH]; intros c H; [rewrite exec_nil; assumption|].
  rewrite exec_cons. apply IH. apply step_sorted. assumption.
Qed.

(* (3) every history: starting from a chain whose settlement state satisfies the invariant (the empty
   genesis does) and whose oracle lists are sorted (the empty ones are), after ANY sequence of events -
   records settled or cancelled earlier, validators with delegated feeders, ballots in flight - the
   export can be imported and reproduces both modules' state *)
Theorem C17_roundtrip_after_any_history : forall es c os gs c' B,
  0 <= B -> Inv B (c_s c) [] -> osorted (c_o c) ->
  B + sumZ (map (fun e => match e with EvTx _ ms => lenZ ms | _ => 0 end) es) < two64 ->
  run c es = (os, gs, c') ->
  exists c'', reimport c' = Ok c'' /\
    s_tenants (c_s c'') = s_tenants (c_s c') /\ s_utxrs (c_s c'') = s_utxrs (c_s c') /\
    (forall t r, idx_get (s_idx (c_s c'')) t r = idx_get (s_idx (c_s c')) t r) /\
    o_params (c_o c'') = o_params (c_o c') /\ o_prevotes (c_o c'') = o_prevotes (c_o c') /\
    o_votes (c_o c'') = o_votes (c_o c') /\ o_deleg (c_o c'') = o_deleg (c_o c') /\
    o_miss (c_o c'') = o_miss (c_o c') /\
    export_s (c_s c'') = export_s (c_s c') /\ export_o (c_o c'') = export_o (c_o c').
Proof.
  intros es c os gs c' B HB HI HO Hn Hr.
  destruct (chain_run_refines es c os gs c' Hr) as (glog & Hsm & _).
  pose proof (to_sevents_msgs es c) as Hle.
  assert (HI' : Inv (B + total_msgs (to_sevents c es)) (c_s c') ([] ++ map snd glog)).
  { apply (sm_run_inv (to_sevents c es) B (mstate_of c) [] (mstate_of c') glog HB ltac:(lia) HI Hsm). }
  assert (HO' : osorted (c_o c')).
  { assert (Hc' : c' = exec c es) by (unfold exec; rewrite Hr; reflexivity). rewrite Hc'. apply exec_sorted. assumption. }
  destruct (settlement_roundtrip _ _ _ HI') as (s' & Himp & A1 & A2 & A3 & _ & _ & _ & _ & A9).
  unfold reimport. rewrite Himp. eexists. split; [reflexivity|]. simpl.
  destruct (oracle_roundtrip (c_o c') s' (c_h c') HO') as (P1 & P2 & P3 & P4 & P5 & P6). cbv zeta in *.
  repeat split; assumption.
Qed.

Theorem C17_genesis_hypotheses : forall bal owners chain sup p vals pool fp,
  Inv 0 (empty_sstate bal owners chain sup) [] /\
  osorted (c_o (genesis_cstate (empty_sstate bal owners chain sup) p vals pool fp)).
Proof.
  intros. split; [apply Inv_init; lia|]. unfold osorted, genesis_cstate, init_ostate. simpl.
  repeat split; constructor.
Qed.

(* the defects that were repaired: records used to be re-created through the normal create path, which
   renumbers them from 0; the round trip above fails for that import as soon as an id is not its rank *)
Example C17_renumbering_refuted :
  let u := mkUtxr [114] [] [117; 116; 111; 107] 5 (mkNft [49] 1 1) 3 in
  let s := mkS [mkTenant 1 [9] [117; 116; 111; 107] 2 0] [(1, 4, u)] [(1, [114], 4)] [(1, 4)] [] [] [] [[49]] in
  (* old import: CreateUTXR hands out id 0 *)
  (match create_utxr (blank s) 1 u with Ok (s', uid) => uid | _ => -1 end) = 0 /\
  (* repaired import keeps id 4 *)
  (match import_s (blank s) (export_s s) with Ok s' => s_utxrs s' | _ => [] end) = [(1, 4, u)].
Proof. vm_compute. split; reflexivity. Qed.

Print Assumptions C17_settlement_roundtrip.
Print Assumptions C17_oracle_roundtrip.
Print Assumptions C17_roundtrip_after_any_history.
Print Assumptions C17_genesis_hypotheses.
