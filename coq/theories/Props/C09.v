(* C09 - Only tenant admins act for a tenant; rejected messages change nothing. *)
From Settlus Require Import Base.Prelude Base.Hex Settlement.Model Settlement.Machine
  Proofs.StoreLemmas Proofs.SettlementInv Proofs.SettlementEnd Proofs.SettlementAuth Proofs.SettlementRun.
From Settlus Require Import Props.C01.

(* (1) a privileged message takes effect only if its sender is currently in the tenant's admin list *)
Theorem C09_only_admins : forall s h m s' g tid sender,
  privileged m = Some (tid, sender) -> handle s h m = Ok (s', g) ->
  exists t, find_tenant (s_tenants s) tid = Some t /\ In sender (t_admins t).
Proof. intros. apply is_admin_spec. eapply handle_only_admin; eassumption. Qed.

(* (2) and it is accepted exactly when the sender is an admin and the kind-specific condition holds *)
Theorem C09_cancel_exactly : forall s h sender tid req,
  (exists s' g, handle s h (MCancel sender tid req) = Ok (s', g)) <->
  (is_admin s tid sender = true /\ idx_get (s_idx s) tid req <> None).
Proof. exact cancel_iff. Qed.

Theorem C09_add_admin_exactly : forall s h sender tid a,
  (exists s' g, handle s h (MAddAdmin sender tid a) = Ok (s', g)) <->
  (is_admin s tid sender = true /\ is_admin s tid a = false).
Proof. exact add_admin_iff. Qed.

Theorem C09_remove_admin_exactly : forall s h sender tid a,
  (exists s' g, handle s h (MRemoveAdmin sender tid a) = Ok (s', g)) <->
  (is_admin s tid sender = true /\ is_admin s tid a = true /\
   exists t, find_tenant (s_tenants s) tid = Some t /\ lenZ (t_admins t) <> 1).
Proof. exact remove_admin_iff. Qed.

Theorem C09_update_period_exactly : forall s h sender tid p,
  (exists s' g, handle s h (MUpdatePeriod sender tid p) = Ok (s', g)) <->
  (is_admin s tid sender = true /\ 1 <= p < two64).
Proof. exact update_period_iff. Qed.

(* (3) in every reachable state every tenant's admin list is non-empty and free of duplicates *)
Theorem C09_admin_lists : forall es bal owners chain sup h0 m' glog,
  0 <= h0 -> total_msgs es < two64 ->
  sm_run (genesis_state bal owners chain sup h0) es = (m', glog) ->
  forall t, In t (s_tenants (m_s m')) -> NoDup (t_admins t) /\ t_admins t <> [].
Proof.
  intros es bal owners chain sup h0 m' glog Hh0 Hn Hr t Hin.
  pose proof (sm_run_inv2 es 0 _ m' glog (Z.le_refl 0) ltac:(lia) (Inv2_init bal owners chain sup h0 Hh0) Hr) as HI2.
  destruct (proj1 (i2_tenants _ _ HI2) t Hin) as (H1 & H2 & _). auto.
Qed.

(* (4) a rejected transaction leaves tenants, records, index, treasuries and every balance as they were
   (the message branch is written only when all messages succeed) *)
Theorem C09_rejected_changes_nothing : forall m msgs,
  (forall s g, handle_all (m_s m) (m_h m) msgs <> Ok (s, g)) ->
  sm_step m (STx msgs) = (m, []).
Proof. exact rejected_noop. Qed.

Example C09_nonvacuous :
  let s := mkS [mkTenant 1 [5; 6] [117;116;111;107] 3 0] [] [] [] [] [] [] [] in
  is_admin s 1 5 = true /\ is_admin s 1 7 = false /\ is_admin s 2 5 = false /\
  (exists s' g, handle s 1 (MRemoveAdmin 5 1 6) = Ok (s', g)) /\
  handle s 1 (MRemoveAdmin 7 1 6) = Rejected.
Proof. vm_compute. repeat split; try reflexivity. eexists; eexists; reflexivity. Qed.

Print Assumptions C09_only_admins.
Print Assumptions C09_cancel_exactly.
Print Assumptions C09_add_admin_exactly.
Print Assumptions C09_remove_admin_exactly.
Print Assumptions C09_update_period_exactly.
Print Assumptions C09_admin_lists.
Print Assumptions C09_rejected_changes_nothing.
