(* C13 - Tenants are isolated from one another. *)
From Settlus Require Import Base.Prelude Base.Hex Settlement.Model Settlement.Machine
  Proofs.StoreLemmas Proofs.SettlementInv Proofs.SettlementEnd Proofs.SettlementAuth Proofs.SettlementRun
  Proofs.Payout Proofs.Isolation.

(* (1) nothing another tenant's transaction does is visible to tenant t: its tenant record, pending records,
   request-id index, id counter, treasury and token supply are exactly as before *)
Theorem C13_other_transactions_invisible : forall t msgs s h s' g,
  0 <= t -> (forall m, In m msgs -> exists t', msg_tenant m = Some t' /\ t' <> t /\ 0 <= t' /\ is_account (msg_sender m)) ->
  handle_all s h msgs = Ok (s', g) -> agree t s s'.
Proof. intros t msgs s h s' g Ht Hall H. eapply other_tx_frame; eassumption. Qed.

(* (2) tenant t's own message gets the same verdict and has the same effect in any two states that show
   tenant t the same things - whatever else those states contain *)
Theorem C13_own_message_depends_on_own_view : forall t s1 s2 h m,
  agree t s1 s2 -> msg_tenant m = Some t -> 0 <= t -> is_account (msg_sender m) ->
  (forall sender tid denom amount, m = MDeposit sender tid denom amount ->
     (bal_get (s_bal s1) sender denom <? amount) = (bal_get (s_bal s2) sender denom <? amount)) ->
  same_outcome t (handle s1 h m) (handle s2 h m).
Proof. exact own_message_congruence. Qed.

(* (3) the end-block: other tenants' queues - however long, funded or not, with whatever payout method -
   change neither WHETHER nor WHEN nor HOW MUCH tenant t's records are paid *)
Theorem C13_end_block : forall t h s1 s2,
  0 <= t -> agree t s1 s2 -> state_ok s1 -> state_ok s2 ->
  agree t (fst (settlement_end_block s1 h [])) (fst (settlement_end_block s2 h [])) /\
  tev t (snd (settlement_end_block s1 h [])) = tev t (snd (settlement_end_block s2 h [])).
Proof. exact end_block_isolation. Qed.

(* ---------- (4) whole histories ----------
   [paired t m1 es m2 es']: es' is es with the transactions of the OTHER tenants removed (create-tenant
   transactions are kept, so that ids are the same); block boundaries, NFT transfers and oracle fills are the
   same.  Premises that are about the environment, not about tenants: recipients are 20-byte addresses
   (state_ok), a depositor's wallet covers (or fails to cover) its deposit equally in both runs. *)
Definition own (t : Z) (m : smsg) : Prop :=
  (msg_tenant m = Some t \/ msg_tenant m = None) /\ is_account (msg_sender m).
Definition other (t : Z) (m : smsg) : Prop :=
  exists t', msg_tenant m = Some t' /\ t' <> t /\ 0 <= t' /\ is_account (msg_sender m).
Definition equally_funded (m : smsg) (s1 s2 : sstate) : Prop :=
  forall sender tid denom amount, m = MDeposit sender tid denom amount ->
    (bal_get (s_bal s1) sender denom <? amount) = (bal_get (s_bal s2) sender denom <? amount).
Definition nft_only (envs : list senv) : Prop := forall e, In e envs -> exists c k o, e = EnvNftSet c k o.
Definition after_fill (s : sstate) (fill : option (list (nft * Z) * Z)) : sstate :=
  match fill with Some (res, before) => fst (set_recipients s res before) | None => s end.

Inductive paired (t : Z) : mstate -> list sevent -> mstate -> list sevent -> Prop :=
| P_nil m1 m2 : paired t m1 [] m2 []
| P_begin envs m1 m2 es es' : nft_only envs ->
    paired t (fst (sm_step m1 (SBegin envs))) es (fst (sm_step m2 (SBegin envs))) es' ->
    paired t m1 (SBegin envs :: es) m2 (SBegin envs :: es')
| P_own m m1 m2 es es' : own t m -> equally_funded m (m_s m1) (m_s m2) ->
    paired t (fst (sm_step m1 (STx [m]))) es (fst (sm_step m2 (STx [m]))) es' ->
    paired t m1 (STx [m] :: es) m2 (STx [m] :: es')
| P_other msgs m1 m2 es es' : (forall m, In m msgs -> other t m) ->
    paired t (fst (sm_step m1 (STx msgs))) es m2 es' ->
    paired t m1 (STx msgs :: es) m2 es'
| P_end fill m1 m2 es es' :
    ksorted (s_utxrs (m_s m1)) -> ksorted (s_utxrs (m_s m2)) ->
    state_ok (after_fill (m_s m1) fill) -> state_ok (after_fill (m_s m2) fill) ->
    paired t (fst (sm_step m1 (SEnd fill []))) es (fst (sm_step m2 (SEnd fill []))) es' ->
    paired t m1 (SEnd fill [] :: es) m2 (SEnd fill [] :: es').

Definition tlog (t : Z) (l : list (Z * gev)) : list (Z * gev) := filter (fun x => gev_tid (snd x) =? t) l.

Lemma tlog_app t a b : tlog t (a ++ b) = tlog t a ++ tlog t b.
Proof. unfold tlog. apply filter_app. Qed.

Lemma tlog_map t h g : tlog t (map (fun x => (h, x)) g) = map (fun x => (h, x)) (tev t g).
Proof.
  induction g as [|e g IH]; [reflexivity|]. simpl. destruct (gev_tid e =? t); simpl; rewrite IH; reflexivity.
Qed.

Lemma nft_only_step t envs : nft_only envs -> forall s1 s2, agree t s1 s2 ->
  agree t (fst (apply_senvs s1 envs)) (fst (apply_senvs s2 envs)) /\
  snd (apply_senvs s1 envs) = [] /\ snd (apply_senvs s2 envs) = [].
Proof.
  induction envs as [|e envs IH]; intros Hn s1 s2 HA; simpl; [auto|].
  destruct (Hn e (or_introl eq_refl)) as (c & k & o & ->). simpl.
  assert (HA' : agree t (set_owners s1 (owner_set (s_owners s1) c k o)) (set_owners s2 (owner_set (s_owners s2) c k o))).
  { destruct HA as [A B C D E F G H I J]. constructor; simpl; try assumption. rewrite G. reflexivity. }
  destruct (IH (fun e' He' => Hn e' (or_intror He')) _ _ HA') as (A1 & A2 & A3).
  destruct (apply_senvs (set_owners s1 (owner_set (s_owners s1) c k o)) envs) as [x1 y1].
  destruct (apply_senvs (set_owners s2 (owner_set (s_owners s2) c k o)) envs) as [x2 y2].
  simpl in *. subst. auto.
Qed.

(* the fill events of tenant t are determined by its own pending records *)
Fixpoint fill_evs (t : Z) (recs : list (Z * utxr)) (fill : list (nft * Z)) (before : Z) : list gev :=
  match recs with
  | [] => []
  | (i, u) :: recs' =>
      match u_recips u with
      | [] => if u_created u <? before then
                match fill_get fill (u_nft u) with
                | Some o => GFilled t i o :: fill_evs t recs' fill before
                | None => fill_evs t recs' fill before
                end
              else fill_evs t recs' fill before
      | _ :: _ => fill_evs t recs' fill before
      end
  end.

Lemma fill_events_of_tenant t fill before : forall l,
  tev t (snd (set_recipients_list l fill before)) = fill_evs t (utxrs_of l t) fill before.
Proof.
  induction l as [|[[t0 i] u] l IH]; [reflexivity|]. simpl.
  destruct (set_recipients_list l fill before) as [r g] eqn:E. simpl in IH.
  unfold utxrs_of in *. simpl. destruct (t0 =? t) eqn:Et; simpl.
  - assert (t0 = t) by lia. subst t0.
    destruct (u_recips u); simpl; [|exact IH].
    destruct (u_created u <? before); simpl; [|exact IH].
    destruct (fill_get fill (u_nft u)); simpl; [|exact IH]. rewrite Z.eqb_refl. f_equal. exact IH.
  - destruct (u_recips u); simpl; [|exact IH].
    destruct (u_created u <? before); simpl; [|exact IH].
    destruct (fill_get fill (u_nft u)); simpl; [|exact IH]. rewrite Et. exact IH.
Qed.

(* the events of other tenants' transactions are not tenant t's *)
Lemma other_msg_no_events t s h m s' g : handle s h m = Ok (s', g) -> other t m -> tev t g = [].
Proof.
  intros E1 (t' & Hm & Hne & _). unfold handle in E1. destruct (negb (validate_basic m)); [discriminate|].
  destruct m; simpl in Hm; try discriminate; inversion Hm; subst.
  - destruct (negb (is_admin s t' sender)); [discriminate|]. destruct (find_tenant (s_tenants s) t') as [tn|]; [|discriminate].
    destruct (memZ admin (t_admins tn)); [discriminate|]. inversion E1; reflexivity.
  - destruct (negb (is_admin s t' sender)); [discriminate|]. destruct (find_tenant (s_tenants s) t') as [tn|]; [|discriminate].
    destruct (negb (memZ admin (t_admins tn))); [discriminate|]. destruct (lenZ (t_admins tn) =? 1); [discriminate|]. inversion E1; reflexivity.
  - destruct (negb (is_admin s t' sender)); [discriminate|]. destruct (find_tenant (s_tenants s) t') as [tn|]; [|discriminate]. inversion E1; reflexivity.
  - destruct (find_tenant (s_tenants s) t') as [tn|]; [|discriminate]. destruct (negb (t_method tn =? 0)); [discriminate|].
    destruct (bal_get (s_bal s) sender denom <? amount); [discriminate|]. inversion E1; subst. simpl. destruct (t' =? t) eqn:Et; [lia|reflexivity].
  - destruct (negb (is_admin s t' sender)); [discriminate|]. destruct (find_tenant (s_tenants s) t') as [tn|]; [|discriminate].
    destruct (negb (bytes_eqb (t_denom tn) denom)); [discriminate|]. destruct (t_period tn =? 0); [discriminate|].
    destruct (get_recipients s chain contract tokhex) as [rs| |]; try discriminate.
    unfold create_utxr in E1. destruct (idx_get (s_idx s) t' _); [discriminate|]. inversion E1; subst. simpl. destruct (t' =? t) eqn:Et; [lia|reflexivity].
  - destruct (find_tenant (s_tenants s) t') as [tn|]; [|discriminate]. destruct (negb (is_admin s t' sender)); [discriminate|].
    destruct (idx_get (s_idx s) t' req); [|discriminate]. inversion E1; subst. simpl. destruct (t' =? t) eqn:Et; [lia|reflexivity].
Qed.

Lemma other_tx_no_events t : forall msgs s h s' g, handle_all s h msgs = Ok (s', g) ->
  (forall m, In m msgs -> other t m) -> tev t g = [].
Proof.
  induction msgs as [|m0 msgs IHm]; intros s h s' g E Ho; simpl in E.
  - inversion E; subst. reflexivity.
  - destruct (handle s h m0) as [[sx gx]| |] eqn:E1; try discriminate.
    destruct (handle_all sx h msgs) as [[sy gy]| |] eqn:E2; try discriminate. inversion E; subst.
    rewrite tev_app. rewrite (IHm _ _ _ _ E2 (fun m Hm => Ho m (or_intror Hm))), app_nil_r.
    eapply other_msg_no_events; [eassumption|]. apply Ho. left. reflexivity.
Qed.

(* the isolation theorem: along ANY pair of such histories, everything observable about tenant t is the
   same - its state after every prefix, and the log of what happened to its records with the heights *)
Theorem C13_isolation : forall t m1 es m2 es', paired t m1 es m2 es' ->
  0 <= t -> m_h m1 = m_h m2 -> agree t (m_s m1) (m_s m2) ->
  agree t (m_s (fst (sm_run m1 es))) (m_s (fst (sm_run m2 es'))) /\
  m_h (fst (sm_run m1 es)) = m_h (fst (sm_run m2 es')) /\
  tlog t (snd (sm_run m1 es)) = tlog t (snd (sm_run m2 es')).
Proof.
  intros t m1 es m2 es' HP. induction HP as [m1 m2|envs m1 m2 es es' Hn HP IH|m m1 m2 es es' Ho Hf HP IH|msgs m1 m2 es es' Ho HP IH|fill m1 m2 es es' S1 S2 K1 K2 HP IH];
    intros Ht Hh HA.
  - simpl. auto.
  - (* begin *)
    simpl sm_run. simpl in IH.
    destruct (nft_only_step t envs Hn _ _ HA) as (A1 & A2 & A3).
    destruct (apply_senvs (m_s m1) envs) as [x1 y1]. destruct (apply_senvs (m_s m2) envs) as [x2 y2]. simpl in *. subst y1 y2.
    specialize (IH Ht ltac:(lia) A1).
    destruct (sm_run {| m_h := m_h m1 + 1; m_s := x1 |} es) as [r1 l1].
    destruct (sm_run {| m_h := m_h m2 + 1; m_s := x2 |} es') as [r2 l2]. simpl in *. exact IH.
  - (* tenant t's own transaction (or a create-tenant) *)
    simpl sm_run. simpl in IH. rewrite Hh in *.
    assert (Hsame : same_outcome t (handle (m_s m1) (m_h m2) m) (handle (m_s m2) (m_h m2) m)).
    { destruct Ho as [[Hm|Hm] Hacc]; [apply own_message_congruence; assumption|apply create_tenant_congruence; assumption]. }
    destruct (handle (m_s m1) (m_h m2) m) as [[a1 g1]| |]; destruct (handle (m_s m2) (m_h m2) m) as [[a2 g2]| |]; simpl in Hsame; try contradiction.
    + destruct Hsame as [HA' ->]. simpl in IH. specialize (IH Ht eq_refl HA').
      destruct (sm_run {| m_h := m_h m2; m_s := a1 |} es) as [r1 l1].
      destruct (sm_run {| m_h := m_h m2; m_s := a2 |} es') as [r2 l2]. simpl in *.
      destruct IH as (I1 & I2 & I3). split; [assumption|]. split; [assumption|].
      rewrite app_nil_r. rewrite !tlog_app, I3. reflexivity.
    + simpl in IH. destruct m1 as [h1 s1], m2 as [h2 s2]. simpl in *. subst h1. specialize (IH Ht eq_refl HA).
      destruct (sm_run {| m_h := h2; m_s := s1 |} es) as [r1 l1]. destruct (sm_run {| m_h := h2; m_s := s2 |} es') as [r2 l2]. simpl in *. exact IH.
    + simpl in IH. destruct m1 as [h1 s1], m2 as [h2 s2]. simpl in *. subst h1. specialize (IH Ht eq_refl HA).
      destruct (sm_run {| m_h := h2; m_s := s1 |} es) as [r1 l1]. destruct (sm_run {| m_h := h2; m_s := s2 |} es') as [r2 l2]. simpl in *. exact IH.
  - (* another tenant's transaction: present in the first history only *)
    simpl sm_run. simpl in IH.
    destruct (handle_all (m_s m1) (m_h m1) msgs) as [[a1 g1]| |] eqn:E.
    + assert (HA1 : agree t (m_s m1) a1) by (eapply other_tx_frame; eassumption).
      simpl in IH. specialize (IH Ht Hh (agree_trans _ _ _ _ (agree_sym _ _ _ HA1) HA)).
      destruct (sm_run {| m_h := m_h m1; m_s := a1 |} es) as [r1 l1]. simpl in *.
      destruct IH as (I1 & I2 & I3). split; [assumption|]. split; [assumption|].
      rewrite tlog_app, I3.
      assert (Hnil : tlog t (map (fun x => (m_h m1, x)) g1) = []).
      { rewrite tlog_map.
        assert (Hg : tev t g1 = []) by (eapply other_tx_no_events; eassumption).
        rewrite Hg. reflexivity. }
      rewrite Hnil. reflexivity.
    + simpl in IH. destruct m1 as [h1 s1]. simpl in *. specialize (IH Ht Hh HA).
      destruct (sm_run {| m_h := h1; m_s := s1 |} es) as [r1 l1]. simpl in *. exact IH.
    + simpl in IH. destruct m1 as [h1 s1]. simpl in *. specialize (IH Ht Hh HA).
      destruct (sm_run {| m_h := h1; m_s := s1 |} es) as [r1 l1]. simpl in *. exact IH.
  - (* end-block *)
    simpl sm_run. simpl in IH. unfold sm_end in *. unfold after_fill in K1, K2.
    set (F1 := match fill with Some (res, before) => set_recipients (m_s m1) res before | None => (m_s m1, []) end) in *.
    set (F2 := match fill with Some (res, before) => set_recipients (m_s m2) res before | None => (m_s m2, []) end) in *.
    assert (HF : agree t (fst F1) (fst F2) /\ tev t (snd F1) = tev t (snd F2)).
    { subst F1 F2. destruct fill as [[res before]|]; [|simpl; auto].
      destruct (set_recipients (m_s m1) res before) as [x1 y1] eqn:E1. destruct (set_recipients (m_s m2) res before) as [x2 y2] eqn:E2.
      simpl. split; [eapply fill_congruence; eassumption|].
      unfold set_recipients in E1, E2.
      pose proof (fill_events_of_tenant t res before (s_utxrs (m_s m1))) as V1.
      pose proof (fill_events_of_tenant t res before (s_utxrs (m_s m2))) as V2.
      destruct (set_recipients_list (s_utxrs (m_s m1)) res before) as [l1 e1].
      destruct (set_recipients_list (s_utxrs (m_s m2)) res before) as [l2 e2].
      inversion E1; subst. inversion E2; subst. simpl in V1, V2. rewrite V1, V2.
      rewrite (utxrs_of_ext _ _ t S1 S2 (ag_rec _ _ _ HA)). reflexivity. }
    destruct HF as [HAF HEF].
    assert (K1' : state_ok (fst F1)) by (subst F1; destruct fill as [[res before]|]; exact K1).
    assert (K2' : state_ok (fst F2)) by (subst F2; destruct fill as [[res before]|]; exact K2).
    destruct F1 as [x1 y1]. destruct F2 as [x2 y2]. simpl in HAF, HEF, K1', K2'.
    destruct (end_block_isolation t (m_h m1) x1 x2 Ht HAF K1' K2') as [HE1 HE2].
    rewrite <- Hh in *.
    destruct (settlement_end_block x1 (m_h m1) []) as [z1 w1]. destruct (settlement_end_block x2 (m_h m1) []) as [z2 w2].
    simpl in HE1, HE2, IH. specialize (IH Ht eq_refl HE1).
    destruct (sm_run {| m_h := m_h m1; m_s := z1 |} es) as [r1 l1].
    destruct (sm_run {| m_h := m_h m1; m_s := z2 |} es') as [r2 l2]. simpl in *.
    destruct IH as (I1 & I2 & I3). split; [assumption|]. split; [assumption|].
    rewrite !tlog_app, !tlog_map, !tev_app, HEF, HE2, I3. reflexivity.
Qed.

(* non-vacuity: tenant 2 records, runs dry and is dropped around tenant 1, whose record is paid identically *)
Example C13_nonvacuous :
  let d := [117; 116; 111; 107] in
  let t1 := mkTenant 1 [5] d 1 0 in let t2 := mkTenant 2 [6] d 1 0 in
  let u1 := mkUtxr [1] [mkRecip 7 1] d 10 (mkNft [49] 1 1) 0 in
  let u2 := mkUtxr [2] [mkRecip 8 1] d 99 (mkNft [49] 1 2) 0 in
  let s_with := mkS [t1; t2] [(1, 0, u1); (2, 0, u2)] [(1, [1], 0); (2, [2], 0)] [(1, 0); (2, 0)] [(treasury 1, d, 15)] [] [] [] in
  let s_without := mkS [t1; t2] [(1, 0, u1)] [(1, [1], 0)] [(1, 0)] [(treasury 1, d, 15)] [] [] [] in
  tev 1 (snd (settlement_end_block s_with 5 [])) = tev 1 (snd (settlement_end_block s_without 5 [])) /\
  tev 1 (snd (settlement_end_block s_with 5 [])) = [GPaid 1 0 0 d [(7, 10)] 0 1].
Proof. vm_compute. split; reflexivity. Qed.

Print Assumptions C13_other_transactions_invisible.
Print Assumptions C13_own_message_depends_on_own_view.
Print Assumptions C13_end_block.
Print Assumptions C13_isolation.
