(* C03 - Only a validator or its consented feeder can change that validator's ballot. *)
From Settlus Require Import Base.Prelude Base.Hex Base.Dec Settlement.Model Oracle.Model Ante.Fee Ante.Model Proofs.AnteProofs.

(* the accounts allowed to speak for validator v: its operator account, or the feeder it has delegated to *)
Definition speaks_for (o : ostate) (a v : Z) : Prop :=
  (exists x, find_val (o_vals o) v = Some x /\ v_bonded x = true) /\
  (a = v \/ zlookup v (o_deleg o) = Some a).

Lemma validate_feeder_spec o a v : validate_feeder o a v = true <-> speaks_for o a v.
Proof.
  unfold validate_feeder, speaks_for. destruct (find_val (o_vals o) v) as [x|].
  - rewrite andb_true_iff, orb_true_iff. split.
    + intros [Hb Hor]. split; [exists x; auto|].
      destruct Hor as [He|Hd]; [left; lia|].
      destruct (zlookup v (o_deleg o)) as [f|]; [|discriminate]. right. f_equal. lia.
    + intros [(x' & Hx & Hb) Hor]. inversion Hx; subst x'. split; [assumption|].
      destruct Hor as [->|Hd]; [left; lia|]. right. rewrite Hd. lia.
  - split; [discriminate|]. intros [(x & Hx & _) _]. discriminate.
Qed.

(* a transaction is well formed when the fee payer and the signers of its top-level messages are
   among the accounts whose signatures were verified (what the signature decorators guarantee) *)
Definition tx_wf (tx : txctx) : Prop :=
  In (tx_fee_payer tx) (tx_signers tx) /\
  forall l a, In (TLeaf l) (tx_msgs tx) -> leaf_signer l = Some a -> In a (tx_signers tx).

(* when may an executed oracle message change validator v's ballot or delegation *)
Definition authorised (o : ostate) (signers : list Z) (m : omsg) : Prop :=
  match m with
  | MPrevote _ v _ _ | MVote _ v _ _ _ => exists a, In a signers /\ speaks_for o a v
  | MConsent v _ => In v signers
  end.

(* (1) for EVERY transaction shape the chain admits - message lists mixing oracle messages with others,
   oracle messages nested in authz exec to any depth, explicit fee payers - every oracle message that is
   executed is covered by the signature of the validator's operator or of its current feeder; a former
   feeder or a stranger never qualifies, whatever the delegation history that led to [o] *)
Theorem C03_only_operator_or_feeder : forall o h tx, tx_wf tx -> admits o h tx = true ->
  forall x m, In x (leaves_list (tx_msgs tx)) -> x = LOracle m -> authorised o (tx_signers tx) m.
Proof.
  intros o h tx [Hfp Hsig] Ha x m Hx ->. unfold admits, admits_with in Ha.
  destruct (tx_msgs tx) as [|m0 ms0] eqn:Em; [discriminate|]. rewrite <- Em in *.
  unfold route_of in Ha.
  destruct (is_oracle_tx (tx_msgs tx)) eqn:Eo; simpl in Ha.
  - unfold settlus_admits in Ha. apply andb_true_iff in Ha as [_ Ha]. rewrite Eo in Ha.
    destruct (tx_msgs tx) as [|[l|g ms|g u] [|m1 ms1]] eqn:E2; simpl in Ha; try discriminate;
      destruct l as [sm|om|a|a|a| |a]; simpl in Ha; try discriminate.
    unfold leaves_list in Hx. simpl in Hx. destruct Hx as [Hx|[]]. inversion Hx; subst om.
    apply validate_feeder_spec in Ha.
    destruct m as [f v c r|f v vd s r|v f]; simpl in *.
    + exists (tx_fee_payer tx). auto.
    + exists (tx_fee_payer tx). auto.
    + apply (Hsig (LOracle (MConsent v f)) v); [left; reflexivity|reflexivity].
  - destruct (is_settlement_tx (tx_msgs tx)) eqn:Es; simpl in Ha.
    + destruct (settlement_tx_leaves _ Es _ Hx) as (m' & Heq & _). discriminate.
    + pose proof (cosmos_no_restricted h tx Ha _ Hx) as Hr. unfold restricted in Hr. simpl in Hr. discriminate.
Qed.

(* (2) in particular no oracle message is ever executed from inside an authz exec or next to a message
   of another module: an admitted transaction that executes an oracle message consists of exactly that
   message *)
Theorem C03_oracle_message_alone : forall o h tx, admits o h tx = true ->
  forall x m, In x (leaves_list (tx_msgs tx)) -> x = LOracle m -> tx_msgs tx = [TLeaf x].
Proof.
  intros o h tx Ha x m Hx ->. unfold admits, admits_with in Ha.
  destruct (tx_msgs tx) as [|m0 ms0] eqn:Em; [discriminate|]. rewrite <- Em in *.
  unfold route_of in Ha.
  destruct (is_oracle_tx (tx_msgs tx)) eqn:Eo; simpl in Ha.
  - unfold settlus_admits in Ha. apply andb_true_iff in Ha as [_ Ha]. rewrite Eo in Ha.
    destruct (tx_msgs tx) as [|[l|g ms|g u] [|m1 ms1]] eqn:E2; simpl in Ha; try discriminate;
      destruct l as [sm|om|a|a|a| |a]; simpl in Ha; try discriminate.
    unfold leaves_list in Hx. simpl in Hx. destruct Hx as [Hx|[]]. inversion Hx; subst. reflexivity.
  - destruct (is_settlement_tx (tx_msgs tx)) eqn:Es; simpl in Ha.
    + destruct (settlement_tx_leaves _ Es _ Hx) as (m' & Heq & _). discriminate.
    + pose proof (cosmos_no_restricted h tx Ha _ Hx) as Hr. unfold restricted in Hr. simpl in Hr. discriminate.
Qed.

(* (3) the handlers change only the ballot of the validator the message names (so "that validator's") *)
Theorem C03_only_named_validator : forall o chains h m o' v, ohandle o chains h m = Ok o' ->
  v <> oracle_validator m ->
  zlookup v (o_prevotes o') = zlookup v (o_prevotes o) /\ zlookup v (o_votes o') = zlookup v (o_votes o) /\
  zlookup v (o_deleg o') = zlookup v (o_deleg o).
Proof.
  intros o chains h m o' v. unfold ohandle. destruct m as [f w c rid|f w vd salt rid|w f]; simpl; intros H Hv.
  - destruct (negb (validate_feeder o f w)); [discriminate|].
    destruct (o_round o) as [r|]; [|discriminate].
    destruct (negb (rd_id r =? rid)); [discriminate|].
    destruct (rd_prevote_end r <? h); [discriminate|]. inversion H; subst. simpl.
    rewrite zlookup_zinsert_other by assumption. auto.
  - destruct (negb (validate_feeder o f w)); [discriminate|].
    destruct (o_round o) as [r|]; [|discriminate].
    destruct (negb (rd_id r =? rid)); [discriminate|].
    destruct (rd_vote_end r <? h); [discriminate|].
    destruct (negb (validate_vote_data vd chains)); [discriminate|].
    destruct (zlookup w (o_prevotes o)) as [c|]; [|discriminate].
    destruct (negb (bytes_eqb c (preimage salt vd))); [discriminate|]. inversion H; subst. simpl.
    rewrite zlookup_zinsert_other, zlookup_zremove_other by assumption. auto.
  - destruct (find_val (o_vals o) w) as [x|]; [|discriminate].
    destruct (v_bonded x); [|discriminate]. inversion H; subst. simpl.
    rewrite zlookup_zinsert_other by assumption. auto.
Qed.

(* the defect that was repaired (F03): the generic chain let oracle messages through, so a stranger
   (account 7) set validator 1's prevote in a mixed transaction and from inside an authz exec *)
Example C03_old_rules_refuted :
  let o := mkO (mkOP 1 0 0 2 1 false) None [] [] [] [] [mkVal 1 1000000 true false 0] [] [] in
  let mixed := mkTx [TLeaf (LOracle (MPrevote 7 1 [1] 0)); TLeaf (LSend 7)] 7 [7] false true in
  let nested := mkTx [TExec 7 [TLeaf (LOracle (MPrevote 7 1 [1] 0))]] 7 [7] false true in
  let alone := mkTx [TLeaf (LOracle (MPrevote 7 1 [1] 0))] 7 [7] false true in
  admits_old o 5 mixed = true /\ admits_old o 5 nested = true /\ admits_old o 5 alone = false /\
  admits o 5 mixed = false /\ admits o 5 nested = false /\ admits o 5 alone = false /\
  admits o 5 (mkTx [TLeaf (LOracle (MPrevote 1 1 [1] 0))] 1 [1] false true) = true.
Proof. vm_compute. repeat split; reflexivity. Qed.

Print Assumptions C03_only_operator_or_feeder.
Print Assumptions C03_oracle_message_alone.
Print Assumptions C03_only_named_validator.
