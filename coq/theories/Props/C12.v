(* C12 - One pending record per request id; record ids strictly increase, never reused. *)
From Coq Require Import Sorting.Sorted.
From Settlus Require Import Base.Prelude Base.Hex Base.Keys Settlement.Model Settlement.Machine
  Proofs.StoreLemmas Proofs.SettlementInv Proofs.SettlementEnd.
From Settlus Require Import Props.C01.

(* by-request-id lookup as the query does it: index entry, then the record it points to *)
Definition lookup_by_request (s : sstate) (tid : Z) (req : bytes) : option (Z * utxr) :=
  match idx_get (s_idx s) tid req with
  | Some u => match utxr_get (s_utxrs s) tid u with Some rc => Some (u, rc) | None => None end
  | None => None
  end.

(* (1) recording a request id that is still pending is rejected *)
Theorem C12_duplicate_rejected : forall B s log h sender tid req denom amount chain contract tok uid rc,
  Inv B s log -> utxr_get (s_utxrs s) tid uid = Some rc -> u_req rc = req ->
  forall s' g, handle s h (MRecord sender tid req denom amount chain contract tok) <> Ok (s', g).
Proof.
  intros B s log h sender tid req denom amount chain contract tok uid rc HI Hget Hreq s' g Hh. subst req.
  pose proof (inv_idx2 _ _ _ HI _ _ _ Hget) as Hidx.
  unfold handle in Hh. destruct (negb (validate_basic _)); [discriminate|].
  destruct (negb (is_admin s tid sender)); [discriminate|].
  destruct (find_tenant (s_tenants s) tid); [|discriminate].
  destruct (negb (bytes_eqb (t_denom t) denom)); [discriminate|].
  destruct (t_period t =? 0); [discriminate|].
  destruct (get_recipients s chain contract tok); try discriminate.
  unfold create_utxr in Hh. simpl in Hh. rewrite Hidx in Hh. discriminate.
Qed.

(* (2) the lookup returns exactly the pending record with that request id, and the index and the
   list of pending records describe the same set *)
Theorem C12_lookup_exact : forall B s log tid req u rc,
  Inv B s log ->
  (lookup_by_request s tid req = Some (u, rc) <->
   (utxr_get (s_utxrs s) tid u = Some rc /\ u_req rc = req)).
Proof.
  intros B s log tid req u rc HI. unfold lookup_by_request. split.
  - destruct (idx_get (s_idx s) tid req) as [u0|] eqn:E; [|discriminate].
    destruct (inv_idx1 _ _ _ HI _ _ _ E) as (rc0 & Hrc0 & Hreq). rewrite Hrc0.
    intros H; inversion H; subst. auto.
  - intros [Hget Hreq]. subst req. rewrite (inv_idx2 _ _ _ HI _ _ _ Hget), Hget. reflexivity.
Qed.

Theorem C12_one_per_request : forall B s log tid u1 u2 rc1 rc2,
  Inv B s log -> utxr_get (s_utxrs s) tid u1 = Some rc1 -> utxr_get (s_utxrs s) tid u2 = Some rc2 ->
  u_req rc1 = u_req rc2 -> u1 = u2.
Proof.
  intros B s log tid u1 u2 rc1 rc2 HI H1 H2 Heq.
  pose proof (inv_idx2 _ _ _ HI _ _ _ H1) as I1. pose proof (inv_idx2 _ _ _ HI _ _ _ H2) as I2.
  rewrite Heq in I1. congruence.
Qed.

(* the invariant these rely on holds in every reachable state *)
Theorem C12_invariant_reachable : forall es bal owners chain sup h0 m' glog,
  total_msgs es < two64 ->
  sm_run (genesis_state bal owners chain sup h0) es = (m', glog) ->
  Inv (total_msgs es) (m_s m') (map snd glog).
Proof.
  intros es bal owners chain sup h0 m' glog Hn Hr.
  exact (sm_run_inv es 0 (genesis_state bal owners chain sup h0) [] m' glog (Z.le_refl 0) ltac:(lia)
           (Inv_init bal owners chain sup 0 (Z.le_refl 0)) Hr).
Qed.

(* (3) ids handed out for a tenant strictly increase along the history, hence are never reused *)
Theorem C12_ids_increase : forall es bal owners chain sup h0 m' glog t,
  total_msgs es < two64 ->
  sm_run (genesis_state bal owners chain sup h0) es = (m', glog) ->
  StronglySorted Z.lt (ids_of t (recorded (map snd glog))).
Proof.
  intros es bal owners chain sup h0 m' glog t Hn Hr.
  apply (inv_inc _ _ _ (C12_invariant_reachable es bal owners chain sup h0 m' glog Hn Hr)).
Qed.

(* (4) byte level: the index key is injective for arbitrary request-id strings (empty, prefixes of each
   other, binary, shared between tenants), and the four key spaces never collide *)
Theorem C12_reqid_key_injective : forall t r t' r', 0 <= t < two64 -> 0 <= t' < two64 ->
  reqid_key t r = reqid_key t' r' -> t = t' /\ r = r'.
Proof. exact reqid_key_inj. Qed.

Theorem C12_utxr_key_injective : forall t u t' u',
  0 <= t < two64 -> 0 <= t' < two64 -> 0 <= u < two64 -> 0 <= u' < two64 ->
  utxr_key t u = utxr_key t' u' -> t = t' /\ u = u'.
Proof. exact utxr_key_inj. Qed.

Example C12_nonvacuous :
  reqid_key 1 [] <> reqid_key 1 [0] /\ reqid_key 1 [114] <> reqid_key 256 [114]
  /\ reqid_key 1 [114; 49] <> reqid_key 1 [114].
Proof. repeat split; vm_compute; discriminate. Qed.

Print Assumptions C12_duplicate_rejected.
Print Assumptions C12_lookup_exact.
Print Assumptions C12_one_per_request.
Print Assumptions C12_invariant_reachable.
Print Assumptions C12_ids_increase.
Print Assumptions C12_reqid_key_injective.
Print Assumptions C12_utxr_key_injective.
