(* C05 - NFT owner accepted only with threshold voting power; one validator, one voice. *)
From Settlus Require Import Base.Prelude Base.Hex Base.Dec Oracle.Arith Settlement.Model Settlement.Machine Oracle.Model
  Proofs.StoreLemmas Proofs.SettlementInv Proofs.SettlementEnd Proofs.OracleEnd Proofs.Tally.

(* what the tally of state [o] accepts for NFT [n] *)
Definition accepted (o : ostate) (n : nft) : option Z :=
  fill_get (tally_results (claims o) (all_ballots o) (threshold_votes o)) n.

Definition some_revealed (o : ostate) (n : nft) (ow : Z) : Prop :=
  exists b, In b (all_ballots o) /\ b_nft b = n /\ b_owner b = ow.

(* the power behind (n, ow): each bonded, unjailed validator that revealed it counts ONCE, with its own power *)
Definition power_for (o : ostate) (n : nft) (ow : Z) : Z := power_behind (claims o) (all_ballots o) n ow.

Definition vals_ok (o : ostate) : Prop :=
  NoDup (map v_addr (o_vals o)) /\ (forall v, In v (o_vals o) -> 0 <= v_tokens v) /\ 0 <= op_threshold (o_params o).

Lemma total_power_nonneg o : (forall v, In v (o_vals o) -> 0 <= v_tokens v) -> 0 <= total_bonded_power o.
Proof.
  intros H. unfold total_bonded_power, claims. rewrite map_map. simpl. apply sumZ_nonneg.
  intros x Hx. apply in_map_iff in Hx as (v & <- & Hv). apply filter_In in Hv as [Hv _].
  unfold power, power_c. specialize (H v Hv).
  assert (0 <= v_tokens v / power_reduction) by (apply Z.div_pos; [assumption|reflexivity]).
  destruct (op_const (o_params o) && (0 <? v_tokens v / power_reduction)); lia.
Qed.

(* (1) the whole decision: an owner is accepted for an NFT exactly when the distinct active validators
   that revealed it hold at least threshold x total bonded power, and no other revealed owner does *)
Theorem C05_accept_iff : forall o n ow, vals_ok o ->
  (accepted o n = Some ow <->
   (some_revealed o n ow /\
    op_threshold (o_params o) * total_bonded_power o <= power_for o n ow * prec /\
    forall ow', some_revealed o n ow' ->
      op_threshold (o_params o) * total_bonded_power o <= power_for o n ow' * prec -> ow' = ow)).
Proof.
  intros o n ow (Hnd & Htok & Hthr). unfold accepted, some_revealed, power_for.
  rewrite tally_results_spec, pick_spec.
  assert (Hsup : forall x, support (claims o) (all_ballots o) n x = power_behind (claims o) (all_ballots o) n x).
  { intros x. apply support_is_power_behind; [apply claims_NoDup; assumption|apply all_ballots_NoDup]. }
  assert (Hc : forall x, threshold_votes o <= x <-> op_threshold (o_params o) * total_bonded_power o <= x * prec).
  { intros x. unfold threshold_votes, dec_mul_int. apply ceil_threshold.
    pose proof (total_power_nonneg o Htok). nia. }
  split.
  - intros (A & B & C). split; [apply owners_for_In; assumption|]. split; [apply Hc; rewrite <- Hsup; assumption|].
    intros ow' Hr Hp. apply C; [apply owners_for_In; assumption|rewrite Hsup; apply Hc; assumption].
  - intros (A & B & C). split; [apply owners_for_In; assumption|]. split; [rewrite Hsup; apply Hc; assumption|].
    intros ow' Hr Hp. apply C; [apply owners_for_In; assumption|apply Hc; rewrite <- Hsup; assumption].
Qed.

(* (2) one validator, one voice: the decision depends only on WHICH (validator, NFT, owner) triples were
   revealed, not on how often an entry is repeated, nor on the order of votes and entries *)
Lemma power_behind_ext cl bs1 bs2 n ow : (forall b, In b bs1 <-> In b bs2) ->
  power_behind cl bs1 n ow = power_behind cl bs2 n ow.
Proof.
  intros H. unfold power_behind. f_equal. apply map_ext. intros c. unfold revealed.
  destruct (ballot_mem _ bs1) eqn:E1, (ballot_mem _ bs2) eqn:E2; try reflexivity.
  - apply ballot_mem_In in E1. apply H in E1. apply ballot_mem_In in E1. congruence.
  - apply ballot_mem_In in E2. apply H in E2. apply ballot_mem_In in E2. congruence.
Qed.

Theorem C05_repetition_irrelevant : forall o1 o2 n, vals_ok o1 -> vals_ok o2 ->
  o_vals o1 = o_vals o2 -> o_params o1 = o_params o2 ->
  (forall b, In b (all_ballots o1) <-> In b (all_ballots o2)) ->
  accepted o1 n = accepted o2 n.
Proof.
  intros o1 o2 n H1 H2 Hv Hp Hb.
  assert (Hcl : claims o1 = claims o2) by (unfold claims, power; rewrite Hv, Hp; reflexivity).
  assert (Htot : total_bonded_power o1 = total_bonded_power o2) by (unfold total_bonded_power; rewrite Hcl; reflexivity).
  assert (Hiff : forall ow, accepted o1 n = Some ow <-> accepted o2 n = Some ow).
  { intros ow. rewrite (C05_accept_iff o1 n ow H1), (C05_accept_iff o2 n ow H2).
    unfold some_revealed, power_for. rewrite Hcl, Htot, Hp.
    assert (Hpb : forall x, power_behind (claims o2) (all_ballots o1) n x = power_behind (claims o2) (all_ballots o2) n x)
      by (intros; apply power_behind_ext; assumption).
    split; intros (A & B & C).
    - split; [destruct A as (b & Hin & Hx); exists b; split; [apply Hb; assumption|assumption]|].
      split; [rewrite <- Hpb; assumption|].
      intros ow' (b & Hin & Hx) Hle. apply C; [exists b; split; [apply Hb; assumption|assumption]|rewrite Hpb; assumption].
    - split; [destruct A as (b & Hin & Hx); exists b; split; [apply Hb; assumption|assumption]|].
      split; [rewrite Hpb; assumption|].
      intros ow' (b & Hin & Hx) Hle. apply C; [exists b; split; [apply Hb; assumption|assumption]|rewrite <- Hpb; assumption]. }
  destruct (accepted o1 n) as [a|] eqn:E1, (accepted o2 n) as [b|] eqn:E2; try reflexivity.
  - symmetry. apply (Hiff a). reflexivity.
  - pose proof (proj1 (Hiff a) eq_refl). discriminate.
  - pose proof (proj2 (Hiff b) eq_refl). discriminate.
Qed.

(* (3) only bonded, unjailed validators have a voice, each with its own power *)
Theorem C05_only_active_count : forall o a w, In (a, w) (claims o) ->
  exists v, In v (o_vals o) /\ v_addr v = a /\ v_bonded v = true /\ v_jailed v = false /\ w = power o v.
Proof.
  intros o a w Hin. unfold claims in Hin. apply in_map_iff in Hin as (v & Heq & Hf).
  apply filter_In in Hf as [Hv Ha]. inversion Heq; subst. exists v.
  unfold active in Ha. apply andb_true_iff in Ha as [Hb Hj].
  repeat split; try assumption. destruct (v_jailed v); [discriminate|reflexivity].
Qed.

Theorem C05_inactive_no_voice : forall o a,
  (forall v, In v (o_vals o) -> v_addr v = a -> active v = false) -> weight_of (claims o) a = 0.
Proof. exact inactive_weight_zero. Qed.

(* (4) what the accepted owners do to the pending records: exactly the records without recipients that
   were created before the cut-off and whose NFT has an accepted owner get [(owner, 1)]; every other
   record, and everything else in the settlement state, stays as it was *)
Theorem C05_fill : forall s fill before s' g, set_recipients s fill before = (s', g) ->
  s_utxrs s' = map (fun e : Z * Z * utxr => (fst (fst e), snd (fst e), fill_rec fill before (snd e))) (s_utxrs s) /\
  s_tenants s' = s_tenants s /\ s_idx s' = s_idx s /\ s_bal s' = s_bal s /\ s_last s' = s_last s.
Proof.
  intros s fill before s' g H. unfold set_recipients in H.
  pose proof (set_recipients_list_map (s_utxrs s) fill before) as Hm.
  destruct (set_recipients_list (s_utxrs s) fill before) as [l g0]. inversion H; subst. simpl in *. subst l. auto.
Qed.

Theorem C05_fill_rec : forall fill before u,
  fill_rec fill before u =
    match u_recips u, fill_get fill (u_nft u) with
    | [], Some ow => if u_created u <? before then with_owner u ow else u
    | _, _ => u
    end.
Proof.
  intros. unfold fill_rec, fill_owner. destruct (u_recips u); [|reflexivity].
  destruct (u_created u <? before); destruct (fill_get fill (u_nft u)); reflexivity.
Qed.

(* non-vacuity: three validators of power 2, 2, 1 and threshold 0.5: total 5, ceil(2.5) = 3.
   Validator 1 alone (power 2, repeating its entry three times) does not reach it; 1 and 3 do. *)
From Coq Require Import String.
Open Scope string_scope.
Example C05_nonvacuous :
  let n := mkNft [49] 1 1 in
  let e := bs "1/0x1/0x1:0xa1"%string in
  let vals := [mkVal 1 2000000 true false 0; mkVal 2 2000000 true false 0; mkVal 3 1000000 true false 0] in
  let p := mkOP 1 500000000000000000 0 2 1 false in
  let o1 := mkO p None [] [(1, [(1, [e; e; e])])] [] [] vals [] [] in
  let o2 := mkO p None [] [(1, [(1, [e; e; e])]); (3, [(1, [e])])] [] [] vals [] [] in
  threshold_votes o1 = 3 /\ accepted o1 n = None /\ power_for o1 n 161 = 2 /\
  accepted o2 n = Some 161 /\ power_for o2 n 161 = 3.
Proof. vm_compute. repeat split; reflexivity. Qed.

Print Assumptions C05_accept_iff.
Print Assumptions C05_repetition_irrelevant.
Print Assumptions C05_only_active_count.
Print Assumptions C05_inactive_no_voice.
Print Assumptions C05_fill.
Print Assumptions C05_fill_rec.
