(* C11 - Per-tenant FIFO payout; shortage or backend failure defers, never loses or doubles. *)
From Settlus Require Import Base.Prelude Base.Hex Settlement.Model Settlement.Machine
  Proofs.StoreLemmas Proofs.SettlementInv Proofs.SettlementEnd Proofs.SettlementAuth
  Proofs.SettlementRun Proofs.Payout.
From Settlus Require Import Props.C01.

(* what stops the loop at a record *)
Definition blocked (t : tenant) (h : Z) (l : ledger) (faults : list bool) (u : utxr) : Prop :=
  mature u (t_period t) h = false \/
  (valid_recips (u_recips u) <> [] /\
   (payable_method (t_method t) = false \/
    fst (pay_all (t_method t) (t_id t) (u_denom u) l faults (payout_amounts u)) = None)).

(* (1) for EVERY fault plan: the loop resolves a prefix of the tenant's queue (ascending id), in
   order; the record it stops at is immature, or its payout failed; that record and all later ones
   are still stored unchanged, and the ledger is the one reached after the last successful payout
   (nothing of the failed payout remains) *)
Theorem C11_prefix : forall t h recs s faults s' f' g,
  settle_loop t h recs s faults = (s', f', g) ->
  exists k, (k <= length recs)%nat /\
    resolved g = map (fun x : Z * utxr => (t_id t, fst x)) (firstn k recs) /\
    s_utxrs s' = fold_left (fun l (x : Z * utxr) => utxr_del l (t_id t) (fst x)) (firstn k recs) (s_utxrs s) /\
    match nth_error recs k with
    | None => True
    | Some (uid, u) => exists fl, blocked t h (s_bal s') fl u
    end.
Proof.
  intros t h. induction recs as [|[uid u] recs IH]; intros s faults s' f' g Hsl; simpl in Hsl.
  - inversion Hsl; subst. exists 0%nat. simpl. auto.
  - destruct (mature u (t_period t) h) eqn:Em; simpl in Hsl.
    2:{ inversion Hsl; subst. exists 0%nat. simpl. repeat split; auto; [lia|]. exists []. left. assumption. }
    destruct (valid_recips (u_recips u)) as [|vr0 vrs] eqn:Evr.
    + destruct (settle_loop t h recs _ faults) as [[s3 f3] g3] eqn:E3. inversion Hsl; subst.
      destruct (IH _ _ _ _ _ E3) as (k & Hk & Hres & Hut & Hnth).
      exists (S k). simpl. repeat split; [lia| | |assumption].
      * unfold resolved in *. simpl. f_equal. assumption.
      * rewrite Hut. reflexivity.
    + destruct (payable_method (t_method t)) eqn:Emeth; simpl in Hsl.
      2:{ inversion Hsl; subst. exists 0%nat. simpl. repeat split; auto; [lia|]. exists []. right.
          split; [rewrite Evr; discriminate|]. left. assumption. }
      destruct (pay_all (t_method t) (t_id t) (u_denom u) (s_bal s) faults (payout_amounts u)) as [[l'|] faults'] eqn:Ep.
      * destruct (settle_loop t h recs _ faults') as [[s4 f4] g4] eqn:E4. inversion Hsl; subst.
        destruct (IH _ _ _ _ _ E4) as (k & Hk & Hres & Hut & Hnth).
        exists (S k). simpl. repeat split; [lia| | |assumption].
        -- unfold resolved in *. simpl. f_equal. assumption.
        -- rewrite Hut. reflexivity.
      * inversion Hsl; subst. exists 0%nat. simpl. repeat split; auto; [lia|]. eexists. right.
        split; [rewrite Evr; discriminate|]. right. exact (f_equal fst Ep).
Qed.

(* (2) the queue is in ascending id order, so "prefix" means: strictly in the order recorded *)
Theorem C11_queue_order : forall B s log tid,
  Inv B s log ->
  NoDup (map fst (utxrs_of (s_utxrs s) tid)) /\
  (forall a b rest pre, utxrs_of (s_utxrs s) tid = pre ++ a :: rest -> In b rest -> fst a < fst b).
Proof. intros B s log tid HI. apply utxrs_of_sorted. apply (inv_sorted _ _ _ HI). Qed.

(* (3) a failed payout leaves the whole state as it was (deferred, nothing lost, nothing paid) *)
Theorem C11_failure_defers : forall t h uid u recs s faults,
  mature u (t_period t) h = true -> valid_recips (u_recips u) <> [] ->
  fst (pay_all (t_method t) (t_id t) (u_denom u) (s_bal s) faults (payout_amounts u)) = None ->
  exists f', settle_loop t h ((uid, u) :: recs) s faults = (s, f', []).
Proof.
  intros t h uid u recs s faults Hm Hv Hp. simpl. rewrite Hm. simpl.
  destruct (valid_recips (u_recips u)) eqn:Evr; [congruence|].
  destruct (payable_method (t_method t)); simpl; [|eauto].
  destruct (pay_all _ _ _ _ _ _) as [[l'|] faults']; simpl in Hp; [discriminate|eauto].
Qed.

(* (3') the same for a back end that never works: a tenant whose own token contract fails every call (method 3: a
   reserved address, F25) has its mature records deferred for ever - for every fault plan, none is lost, none is
   reported paid *)
Theorem C11_failing_contract_defers : forall t h uid u recs s faults,
  t_method t = 3 -> mature u (t_period t) h = true -> valid_recips (u_recips u) <> [] ->
  exists f', settle_loop t h ((uid, u) :: recs) s faults = (s, f', []).
Proof.
  intros t h uid u recs s faults Hmeth Hm Hv. apply C11_failure_defers; [assumption|assumption|].
  rewrite Hmeth. unfold payout_amounts.
  destruct (valid_recips (u_recips u)) as [|r0 rs] eqn:Evr; [congruence|].
  cbn [map pay_all]. unfold pay_one.
  destruct (match faults with [] => false | f :: _ => f end); reflexivity.
Qed.

(* (3'') and for a token contract without code (method 4): the call succeeds, the record is resolved, and nothing the
   module can see has moved - no treasury, no balance, no token supply *)
Theorem C11_foreign_contract_moves_nothing : forall tid denom outs l faults l' f',
  pay_all 4 tid denom l faults outs = (Some l', f') -> l' = l.
Proof.
  intros tid denom. induction outs as [|o outs IH]; intros l faults l' f' H; cbn [pay_all] in H.
  - inversion H; reflexivity.
  - destruct o as [addr amt]. unfold pay_one in H.
    destruct (match faults with [] => false | f :: _ => f end); [discriminate|].
    cbn in H. apply IH in H. exact H.
Qed.

(* (4) the block always completes: the loop, the per-tenant fold and the end-block are total
   functions (no Panic outcome exists for them), for every fault plan *)
Theorem C11_block_completes : forall s h faults, exists s' g, settlement_end_block s h faults = (s', g).
Proof. intros. destruct (settlement_end_block s h faults) as [s' g]. eauto. Qed.

(* (5) recovery: once the cause is removed (no fault, the treasury covers the record) the record at
   the head of the queue is paid in full in that block *)
Theorem C11_recovers : forall t h uid u recs s,
  t_method t = 0 ->
  mature u (t_period t) h = true -> valid_recips (u_recips u) <> [] ->
  0 <= u_amount u -> (forall r, In r (u_recips u) -> 0 <= r_weight r /\ r_addr r < two160) ->
  outs_total (payout_amounts u) <= bal_get (s_bal s) (treasury (t_id t)) (u_denom u) ->
  0 <= t_id t ->
  exists s' f' g', settle_loop t h ((uid, u) :: recs) s [] =
     (s', f', GPaid (t_id t) uid 0 (u_denom u) (payout_amounts u) (u_created u) (t_period t) :: g').
Proof.
  intros t h uid u recs s Hmeth Hm Hv Ha Hr Hbal Htid. simpl. rewrite Hm. simpl.
  destruct (valid_recips (u_recips u)) eqn:Evr; [congruence|]. rewrite Hmeth. simpl.
  assert (Hok : forall o, In o (payout_amounts u) -> 0 <= snd o /\ fst o <> treasury (t_id t)).
  { intros [a x] Ho. destruct (payout_amounts_each _ _ _ Ho) as (r0 & Hr0 & Ha0 & Hx). simpl.
    assert (Hin : In r0 (u_recips u)) by (unfold valid_recips in Hr0; apply filter_In in Hr0; tauto).
    destruct (Hr _ Hin) as [Hw Hadr]. split.
    - subst x. cbv zeta.
      assert (Htw : 0 <= total_weight (valid_recips (u_recips u))).
      { unfold total_weight. apply sumZ_nonneg. intros y Hy. apply in_map_iff in Hy as (r1 & <- & Hr1).
        unfold valid_recips in Hr1. apply filter_In in Hr1. apply Hr. tauto. }
      destruct (total_weight (valid_recips (u_recips u)) =? 0) eqn:E0.
      + apply Z.div_pos; [assumption|]. rewrite Evr. unfold lenZ. simpl length. lia.
      + apply Z.div_pos; [nia|lia].
    - subst a. unfold treasury, two160 in *. lia. }
  destruct (pay_all_succeeds (t_id t) (u_denom u) (payout_amounts u) (s_bal s) Hok Hbal) as (l' & Hl').
  rewrite Hl'.
  destruct (settle_loop t h recs _ []) as [[s4 f4] g4]. eauto.
Qed.

Example C11_nonvacuous :
  let t := mkTenant 1 [5] [117;116;111;107] 1 0 in
  let u1 := mkUtxr [1] [mkRecip 7 1] [117;116;111;107] 10 (mkNft [49] 1 1) 0 in
  let u2 := mkUtxr [2] [mkRecip 8 1] [117;116;111;107] 10 (mkNft [49] 1 2) 0 in
  let s := mkS [t] [(1,0,u1);(1,1,u2)] [(1,[1],0);(1,[2],1)] [(1,1)] [(treasury 1, [117;116;111;107], 15)] [] [] [] in
  (* enough for the first record only: the second is deferred and stays pending *)
  map (fun x => fst (fst x)) (s_utxrs (fst (settlement_end_block s 5 []))) = [1] /\
  resolved (snd (settlement_end_block s 5 [])) = [(1, 0)] /\
  (* a fault on the first back-end call defers both *)
  resolved (snd (settlement_end_block s 5 [true])) = [].
Proof. vm_compute. repeat split; reflexivity. Qed.

Print Assumptions C11_prefix.
Print Assumptions C11_queue_order.
Print Assumptions C11_failure_defers.
Print Assumptions C11_failing_contract_defers.
Print Assumptions C11_foreign_contract_moves_nothing.
Print Assumptions C11_block_completes.
Print Assumptions C11_recovers.
