(* C14 - Accounting invariants hold after every block; oracle rewards are conserved. *)
From Settlus Require Import Base.Prelude Base.Hex Base.Dec Oracle.Arith Settlement.Model Oracle.Model
  Proofs.Payout Proofs.OracleEnd Proofs.Reward.

(* (1) conservation, per denomination: the reward pool loses exactly what is credited (to validators'
   outstanding rewards and to the community pool together).  [books] = pool x 10^18 + credited (Dec). *)
Theorem C14_conserved : forall o cl miss d,
  coin_get (o_pool (reward o cl miss)) d * prec + coin_get (o_credited (reward o cl miss)) d =
  coin_get (o_pool o) d * prec + coin_get (o_credited o) d.
Proof. exact reward_conserves. Qed.

(* (2) never more than the pool holds: for every pool amount and every set of rewarded validators the
   integer shares are non-negative and sum to at most the pool *)
Theorem C14_never_more_than_pool : forall amt (ws : list (Z * Z)), 0 <= amt ->
  (forall c, In c ws -> 0 <= snd c) -> 0 < sumZ (map snd ws) ->
  0 <= sumZ (map (fun c : Z * Z => reward_of amt (sumZ (map snd ws)) (snd c)) ws) <= amt.
Proof. exact paid_bounds. Qed.

(* (3) each rewarded validator's share is proportional to its voting power, rounded down:
   share = floor(pool * floor(10^18 * w / W) / 10^18), so share <= pool*w/W < share + 1 + pool/10^18 *)
Theorem C14_share : forall amt wsum w, 0 <= amt -> 0 <= w -> 0 < wsum ->
  reward_of amt wsum w = (amt * ((w * prec) / wsum)) / prec /\
  0 <= reward_of amt wsum w /\
  reward_of amt wsum w * wsum <= amt * w /\
  amt * w * prec < (reward_of amt wsum w + 1) * wsum * prec + amt * wsum.
Proof.
  intros amt wsum w Ha Hw Hs. split; [apply reward_of_formula; assumption|].
  apply reward_of_proportional; assumption.
Qed.

(* (4) who is credited: one line per rewarded validator (in the claim map, not charged a miss) and pool
   denomination with a non-zero share; the validator's own credit plus its pro-bono contribution is
   exactly the integer share; the contribution is share x rate *)
Theorem C14_credit_lines : forall o cl miss a d fin con,
  In (a, d, fin, con) (reward_lines o cl miss) ->
  let ws := winners cl miss in
  let wsum := sumZ (map snd ws) in
  exists w amt, In (a, w) cl /\ ~ In a miss /\ In (d, amt) (o_pool o) /\
    fin + con = reward_of amt wsum w * prec /\
    con = dec_mul_trunc (reward_of amt wsum w * prec) (rate_of o a).
Proof.
  intros o cl miss a d fin con H ws wsum.
  destruct (reward_line_spec o cl miss a d fin con H) as (w & amt & Hw & Hd & Hsum & Hcon & _).
  apply winners_In in Hw as [Hw1 Hw2]. exists w, amt. unfold dec_of_int in *. auto.
Qed.

Theorem C14_contribution_exact : forall rew rate, 0 <= rew -> 0 <= rate ->
  dec_mul_trunc (rew * prec) rate = rew * rate.
Proof. intros. apply (dec_mul_trunc_int rew rate); assumption. Qed.

(* (5) the reward step touches nothing but the pool and the credit ledger *)
Theorem C14_reward_frame : forall o cl miss,
  o_vals (reward o cl miss) = o_vals o /\ o_miss (reward o cl miss) = o_miss o /\
  o_params (reward o cl miss) = o_params o /\ o_prevotes (reward o cl miss) = o_prevotes o /\
  o_votes (reward o cl miss) = o_votes o /\ o_deleg (reward o cl miss) = o_deleg o.
Proof.
  intros. destruct (reward_ballots o cl miss) as (A & B & C & _).
  rewrite reward_vals, reward_miss, reward_params. auto 10.
Qed.

(* the defect that was repaired (F15), kept as a refutation of the old computation: truncating the
   validator's part and the contribution separately moves fewer coins than are credited *)
Example C14_old_computation_refuted :
  let rew := 3 in let rate := 500000000000000000 in
  let contribution := dec_mul_trunc (dec_of_int rew) rate in
  let final := dec_of_int rew - contribution in
  dec_truncate_int final + dec_truncate_int contribution = 2 /\ final + contribution = dec_of_int 3.
Proof. vm_compute. split; reflexivity. Qed.

Example C14_nonvacuous :
  reward_of 7 3 1 = 2 /\ reward_of 7 3 2 = 4 /\ reward_of 10 4 1 = 2 /\
  (let o := mkO (mkOP 1 0 0 2 1 false) None [] [] [] []
              [mkVal 1 1000000 true false 500000000000000000; mkVal 2 1000000 true false 0] [([117], 7)] [] in
   reward_lines o [(1, 1); (2, 1)] [] =
     [(1, [117], 1500000000000000000, 1500000000000000000); (2, [117], 3000000000000000000, 0)]
   /\ coin_get (o_pool (reward o [(1, 1); (2, 1)] [])) [117] = 1).
Proof. vm_compute. repeat split; reflexivity. Qed.

Print Assumptions C14_conserved.
Print Assumptions C14_never_more_than_pool.
Print Assumptions C14_share.
Print Assumptions C14_credit_lines.
Print Assumptions C14_contribution_exact.
Print Assumptions C14_reward_frame.
