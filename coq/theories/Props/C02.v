(* C02 - No payout before the payout period ends; cancel works only while pending. *)
From Settlus Require Import Base.Prelude Base.Hex Settlement.Model Settlement.Machine
  Proofs.StoreLemmas Proofs.SettlementInv Proofs.SettlementEnd Proofs.SettlementAuth
  Proofs.SettlementRun Proofs.RunEvents.
From Settlus Require Import Props.C01.

(* (1) the maturity test of the end-blocker, computed in uint64 as coded, is the inequality in Z:
   for EVERY payout period the chain accepts, including those whose sum with the creation height
   overflows *)
Theorem C02_maturity_test : forall u period h,
  0 <= u_created u < two64 -> 1 <= period < two64 -> 0 <= h < two63 ->
  (mature u period h = true <-> u_created u + period <= h).
Proof. exact mature_iff. Qed.

(* (2) in every history: a record is paid (or dropped) at height H only if its creation height plus
   the tenant's payout period in force in that block is at most H *)
Theorem C02_not_early : forall es bal owners chain sup h0 m' glog,
  0 <= h0 -> total_msgs es < two64 -> m_h m' < two63 ->
  sm_run (genesis_state bal owners chain sup h0) es = (m', glog) ->
  forall H tid uid m d outs c p, In (H, GPaid tid uid m d outs c p) glog -> c + p <= H.
Proof.
  intros es bal owners chain sup h0 m' glog Hh0 Hn Hfin Hr H tid uid m d outs c p Hin.
  destruct (sm_run_event _ _ _ _ _ _ Hr Hin) as (es1 & e & es2 & m1 & m2 & gs & Hes & Hm1 & Hst & Hg & HH).
  (* state before the step satisfies the second invariant *)
  destruct (sm_run (genesis_state bal owners chain sup h0) es1) as [m1' g1] eqn:Er1. simpl in Hm1. subst m1'.
  assert (Hle1 : total_msgs es1 < two64).
  { subst es. unfold total_msgs in *. rewrite map_app, sumZ_app in Hn. simpl in Hn.
    pose proof (total_msgs_nonneg es2). unfold total_msgs in H0.
    assert (0 <= ev_msgs e) by (destruct e; simpl; try lia; apply lenZ_nonneg). lia. }
  pose proof (sm_run_inv2 es1 0 _ m1 g1 (Z.le_refl 0) ltac:(lia) (Inv2_init bal owners chain sup h0 Hh0) Er1) as HI2.
  (* heights only grow: m_h m2 <= m_h m' *)
  assert (Hmono : forall es m ma ga, sm_run m es = (ma, ga) -> m_h m <= m_h ma).
  { induction es0 as [|e0 es0 IH]; intros mm ma ga Hrr; simpl in Hrr.
    - inversion Hrr; subst. lia.
    - destruct (sm_step mm e0) as [mx gx] eqn:Ex. destruct (sm_run mx es0) as [my gy] eqn:Ey.
      inversion Hrr; subst. apply sm_step_height in Ex. apply IH in Ey. lia. }
  assert (Hm2 : m_h m2 <= m_h m').
  { subst es. rewrite sm_run_app in Hr. rewrite Er1 in Hr. simpl in Hr. rewrite Hst in Hr.
    destruct (sm_run m2 es2) as [m3 g3] eqn:E3. inversion Hr; subst. eapply Hmono; eassumption. }
  destruct e as [envs|msgs|fill faults]; simpl in Hst.
  - destruct (apply_senvs (m_s m1) envs) as [s g0] eqn:E. inversion Hst; subst.
    pose proof (apply_senvs_log _ _ _ _ E _ Hg). discriminate.
  - destruct (handle_all (m_s m1) (m_h m1) msgs) as [[s g0]| |] eqn:E; inversion Hst; subst; try destruct Hg.
    pose proof (handle_all_log _ _ _ _ _ E _ Hg). discriminate.
  - unfold sm_end in Hst.
    destruct (match fill with Some (res, before) => set_recipients (m_s m1) res before | None => (m_s m1, []) end) as [s1 g1'] eqn:E1.
    destruct (settlement_end_block s1 (m_h m1) faults) as [s2 g2] eqn:E2. inversion Hst; subst. simpl in *.
    apply in_app_iff in Hg as [Hg|Hg].
    + destruct fill as [[res before]|]; [|inversion E1; subst; destruct Hg].
      pose proof (set_recipients_log_kind _ _ _ _ _ E1 _ Hg). discriminate.
    + destruct (end_block_paid _ _ _ _ _ E2 _ Hg) as (H1 & _).
      destruct (H1 _ _ _ _ _ _ _ eq_refl) as (t & u & Ht & Htid & Hp & Hm & Hu & Hc & Hd & Hmat & Ho).
      destruct HI2 as [Hten _ Hh Hcr].
      assert (Hs1 : s_tenants s1 = s_tenants (m_s m1) /\
                    forall e, In e (s_utxrs s1) -> 0 <= u_created (snd e) <= m_h m1).
      { destruct fill as [[res before]|].
        - apply set_recipients_frame in E1 as [Ha Hb]. split; [assumption|].
          intros e He. destruct (Hb e He) as (e0 & Hin0 & Heq). rewrite Heq. auto.
        - inversion E1; subst. auto. }
      destruct Hs1 as [Hts Hcs]. rewrite Hts in Ht.
      destruct (proj1 Hten t Ht) as (_ & _ & Hper & _).
      specialize (Hcs _ Hu). simpl in Hcs. subst c p.
      apply (proj1 (mature_iff u (t_period t) (m_h m1) ltac:(unfold two64, two63 in *; lia) Hper ltac:(lia))). assumption.
Qed.

(* (3) while a record is pending an admin can cancel it: the cancel succeeds, reports exactly that
   record as cancelled and removes it ... *)
Theorem C02_cancel_pending : forall B s log h sender tid req uid rc,
  Inv B s log -> is_admin s tid sender = true ->
  utxr_get (s_utxrs s) tid uid = Some rc -> u_req rc = req ->
  exists s', handle s h (MCancel sender tid req) = Ok (s', [GCancelled tid uid]) /\
             utxr_get (s_utxrs s') tid uid = None /\ idx_get (s_idx s') tid req = None /\
             s_bal s' = s_bal s.
Proof.
  intros B s log h sender tid req uid rc HI Had Hget Hreq. subst req.
  pose proof (inv_idx2 _ _ _ HI _ _ _ Hget) as Hidx.
  unfold handle. simpl.
  assert (Hex : find_tenant (s_tenants s) tid <> None).
  { unfold is_admin in Had. destruct (find_tenant (s_tenants s) tid); [discriminate|discriminate]. }
  destruct (find_tenant (s_tenants s) tid) as [t|]; [|congruence].
  rewrite Had. simpl. rewrite Hidx.
  eexists. split; [reflexivity|]. simpl. rewrite utxr_get_del_same, idx_get_del_same. auto.
Qed.

(* ... and then no funds ever move for it: a record id that was cancelled is never paid, in any
   continuation of the history (resolved at most once) *)
Lemma NoDup_app_inv {A} (a b : list A) : NoDup (a ++ b) -> NoDup b /\ (forall x, In x a -> ~ In x b).
Proof.
  induction a as [|x a IH]; simpl; intros H; [split; [assumption|intros ? []]|].
  inversion H as [|? ? Hn Hnd]; subst. destruct (IH Hnd) as [H1 H2]. split; [assumption|].
  intros y [->|Hy]; [intro; apply Hn; apply in_or_app; right; assumption|auto].
Qed.

Lemma two_resolutions : forall l g1 g2 k,
  NoDup (resolved l) -> In g1 l -> In g2 l -> g1 <> g2 -> In k (res_key g1) -> In k (res_key g2) -> False.
Proof.
  induction l as [|g l IH]; intros g1 g2 k Hnd H1 H2 Hne Hk1 Hk2; [destruct H1|].
  unfold resolved in Hnd. simpl in Hnd. fold (resolved l) in Hnd.
  apply NoDup_app_inv in Hnd as [Hnd Hdis].
  assert (Hin_res : forall g0, In g0 l -> forall k0, In k0 (res_key g0) -> In k0 (resolved l)).
  { intros g0 H0 k0 Hk0. unfold resolved. apply in_concat. exists (res_key g0). split; [apply in_map; assumption|assumption]. }
  destruct H1 as [H1|H1]; destruct H2 as [H2|H2]; subst.
  - congruence.
  - apply (Hdis k Hk1). eapply Hin_res; eassumption.
  - apply (Hdis k Hk2). eapply Hin_res; eassumption.
  - apply (IH g1 g2 k Hnd H1 H2 Hne Hk1 Hk2).
Qed.

Theorem C02_cancelled_never_paid : forall es bal owners chain sup h0 m' glog tid uid,
  total_msgs es < two64 ->
  sm_run (genesis_state bal owners chain sup h0) es = (m', glog) ->
  In (GCancelled tid uid) (map snd glog) ->
  forall m d outs c p, ~ In (GPaid tid uid m d outs c p) (map snd glog).
Proof.
  intros es bal owners chain sup h0 m' glog tid uid Hn Hr Hc m d outs c p Hp.
  destruct (C01_exactly_once es bal owners chain sup h0 m' glog Hn Hr) as (_ & Hnd & _).
  apply (two_resolutions _ _ _ (tid, uid) Hnd Hc Hp); [discriminate|left; reflexivity|left; reflexivity].
Qed.

(* (4) once the record has been resolved (paid, dropped or cancelled), or was never recorded, a cancel
   for its request id is rejected and reports nothing *)
Theorem C02_cancel_not_pending : forall B s log h sender tid req,
  Inv B s log ->
  (forall uid rc, utxr_get (s_utxrs s) tid uid = Some rc -> u_req rc <> req) ->
  handle s h (MCancel sender tid req) = Rejected.
Proof.
  intros B s log h sender tid req HI Hnone. unfold handle. simpl.
  destruct (find_tenant (s_tenants s) tid); [|reflexivity].
  destruct (negb (is_admin s tid sender)); [reflexivity|].
  destruct (idx_get (s_idx s) tid req) as [uid|] eqn:E; [|reflexivity].
  destruct (inv_idx1 _ _ _ HI _ _ _ E) as (rc & Hrc & Hreq). exfalso. eapply Hnone; eassumption.
Qed.

(* after a payout the request id is no longer pending, so (4) applies *)
Theorem C02_paid_not_pending : forall B s log tid uid rc,
  Inv B s log -> utxr_get (s_utxrs s) tid uid = Some rc ->
  let s' := set_idx (set_utxrs s (utxr_del (s_utxrs s) tid uid)) (idx_del (s_idx s) tid (u_req rc)) in
  forall uid' rc', utxr_get (s_utxrs s') tid uid' = Some rc' -> u_req rc' <> u_req rc.
Proof.
  intros B s log tid uid rc HI Hget s' uid' rc' Hget' Heq.
  subst s'. simpl in Hget'.
  destruct (Z.eq_dec uid' uid) as [->|Hne]; [rewrite utxr_get_del_same in Hget'; discriminate|].
  rewrite utxr_get_del_other in Hget' by congruence.
  pose proof (inv_idx2 _ _ _ HI _ _ _ Hget) as H1. pose proof (inv_idx2 _ _ _ HI _ _ _ Hget') as H2.
  rewrite Heq in H2. congruence.
Qed.

Example C02_nonvacuous :
  mature (mkUtxr [] [] [] 1 (mkNft [] 0 0) 5) 18446744073709551615 9 = false /\
  mature (mkUtxr [] [] [] 1 (mkNft [] 0 0) 5) 4 9 = true /\
  mature (mkUtxr [] [] [] 1 (mkNft [] 0 0) 5) 5 9 = false.
Proof. vm_compute. repeat split; reflexivity. Qed.

Print Assumptions C02_maturity_test.
Print Assumptions C02_not_early.
Print Assumptions C02_cancel_pending.
Print Assumptions C02_cancelled_never_paid.
Print Assumptions C02_cancel_not_pending.
Print Assumptions C02_paid_not_pending.
