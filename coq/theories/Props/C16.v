(* C16 - Settlement transactions pay exactly the fixed fee, split with the oracle pool. *)
From Settlus Require Import Base.Prelude Base.Hex Base.Dec Settlement.Model Oracle.Model Ante.Fee Ante.Model Chain.Model
  Proofs.Payout Proofs.Reward Proofs.ChainInv.
From Coq Require Import Psatz.

(* (1) the fixed gas cost: 10 000 per message plus 10^12 for the two create-tenant kinds, nothing else *)
Theorem C16_gas_cost : forall ms, sumZ (map msg_gas ms) < two64 ->
  gas_cost ms = sumZ (map msg_gas ms) /\
  forall m, In m ms -> msg_gas m = basic_gas \/ msg_gas m = basic_gas + create_tenant_gas.
Proof.
  intros ms Hlt. split.
  - unfold gas_cost. apply wrap64_small. split; [|assumption].
    apply sumZ_nonneg. intros x Hx. apply in_map_iff in Hx as (m & <- & _). destruct m; unfold msg_gas, basic_gas, create_tenant_gas; lia.
  - intros m _. destruct m; simpl; auto.
Qed.

(* (2) the requirement for one configured price: floor(price x gas), price a Dec with 18 decimals *)
Theorem C16_required_fee : forall price gas, 0 <= price -> 0 <= gas < two63 ->
  required_fee price gas = (price * gas) / prec.
Proof.
  intros price gas Hp Hg. unfold required_fee, dec_mul, dec_of_int, dec_truncate_int.
  rewrite to_int64_small by assumption.
  assert (Hex : chop_round (price * (gas * prec)) = price * gas).
  { rewrite chop_round_exact.
    - replace (price * (gas * prec)) with (price * gas * prec) by ring. apply Z.div_mul. unfold prec; lia.
    - pose proof prec_pos. nia.
    - replace (price * (gas * prec)) with (price * gas * prec) by ring. apply Z.mod_mul. unfold prec; lia. }
  rewrite Hex. apply Z.quot_div_nonneg; [nia|apply prec_pos].
Qed.

(* (3) the charge: the FIRST configured denomination whose requirement the offered fee covers, and
   exactly the requirement - never the offered amount *)
Theorem C16_first_covered : forall prices offered gas d f,
  pick_fee prices offered gas = Some (d, f) <->
  exists pre price post, prices = pre ++ (d, price) :: post /\ f = required_fee price gas /\
    f <= coin_get offered d /\
    forall d' p', In (d', p') pre -> coin_get offered d' < required_fee p' gas.
Proof.
  induction prices as [|[d0 p0] prices IH]; intros offered gas d f; simpl.
  - split; [discriminate|]. intros (pre & price & post & H & _). destruct pre; discriminate.
  - destruct (required_fee p0 gas <=? coin_get offered d0) eqn:E.
    + split.
      * intros H; inversion H; subst. exists [], p0, prices. simpl. split; [reflexivity|]. split; [reflexivity|]. split; [lia|]. intros ? ? [].
      * intros (pre & price & post & Hp & Hf & Hle & Hpre). destruct pre as [|[d1 p1] pre].
        -- simpl in Hp. inversion Hp; subst. reflexivity.
        -- simpl in Hp. inversion Hp; subst. pose proof (Hpre _ _ (or_introl eq_refl)) as Hc. lia.
    + rewrite IH. split.
      * intros (pre & price & post & Hp & Hf & Hle & Hpre). exists ((d0, p0) :: pre), price, post.
        subst prices. simpl. repeat split; try assumption.
        intros d' p' [H|H]; [inversion H; subst; lia|eauto].
      * intros (pre & price & post & Hp & Hf & Hle & Hpre). destruct pre as [|[d1 p1] pre].
        -- simpl in Hp. inversion Hp; subst. lia.
        -- simpl in Hp. inversion Hp; subst. exists pre, price, post. repeat split; try assumption.
           intros d' p' H. apply Hpre. right. assumption.
Qed.

(* (4) independent of how much more is offered: only WHICH requirements are covered matters *)
Theorem C16_surplus_irrelevant : forall prices offered offered' gas,
  (forall d p, In (d, p) prices ->
     (required_fee p gas <=? coin_get offered d) = (required_fee p gas <=? coin_get offered' d)) ->
  pick_fee prices offered gas = pick_fee prices offered' gas.
Proof.
  induction prices as [|[d0 p0] prices IH]; intros offered offered' gas H; simpl; [reflexivity|].
  rewrite <- (H d0 p0 (or_introl eq_refl)).
  destruct (required_fee p0 gas <=? coin_get offered d0); [reflexivity|].
  apply IH. intros d p Hin. apply H. right. assumption.
Qed.

(* ... and of everything but the message kinds: two message lists with the same kinds cost the same *)
Theorem C16_only_kinds_matter : forall ms ms', map msg_gas ms = map msg_gas ms' -> gas_cost ms = gas_cost ms'.
Proof. intros ms ms' H. unfold gas_cost. rewrite H. reflexivity. Qed.

(* (5) the split: collector floor(f(1-q)), pool floor(f q); nothing is created, at most one unit of the
   charged amount is not taken from the payer at all *)
Theorem C16_split : forall q fee, 0 <= q <= prec -> 0 <= fee ->
  let '(coll, pool) := split_fee q fee in
  coll = (fee * (prec - q)) / prec /\ pool = (fee * q) / prec /\
  0 <= coll /\ 0 <= pool /\ fee - 1 <= coll + pool <= fee.
Proof.
  intros q fee Hq Hf. unfold split_fee, dec_mul, dec_of_int, dec_sub, dec_truncate_int.
  pose proof prec_pos as HP.
  assert (E1 : chop_round (fee * prec * (1 * prec - q)) = fee * (prec - q)).
  { rewrite chop_round_exact.
    - replace (fee * prec * (1 * prec - q)) with (fee * (prec - q) * prec) by ring. apply Z.div_mul. lia.
    - nia.
    - replace (fee * prec * (1 * prec - q)) with (fee * (prec - q) * prec) by ring. apply Z.mod_mul. lia. }
  assert (E2 : chop_round (fee * prec * q) = fee * q).
  { rewrite chop_round_exact.
    - replace (fee * prec * q) with (fee * q * prec) by ring. apply Z.div_mul. lia.
    - nia.
    - replace (fee * prec * q) with (fee * q * prec) by ring. apply Z.mod_mul. lia. }
  rewrite E1, E2. rewrite !Z.quot_div_nonneg by (try nia; assumption).
  set (a := fee * (prec - q)). set (b := fee * q).
  assert (Ha : 0 <= a) by (unfold a; nia). assert (Hb : 0 <= b) by (unfold b; nia).
  assert (Hab : a + b = fee * prec) by (unfold a, b; ring).
  pose proof (Z.div_mod a prec ltac:(lia)). pose proof (Z.mod_pos_bound a prec HP).
  pose proof (Z.div_mod b prec ltac:(lia)). pose proof (Z.mod_pos_bound b prec HP).
  assert (0 <= a / prec) by (apply Z.div_pos; lia). assert (0 <= b / prec) by (apply Z.div_pos; lia).
  repeat split; try reflexivity; try assumption; nia.
Qed.

(* (6) charged whether or not the messages succeed: the ante branch is written before the messages run.
   In the chain model the pool share is credited in all three outcomes of the message handlers. *)
Theorem C16_charged_regardless : forall c offered msgs d fee,
  msgs <> [] -> forallb validate_basic msgs = true ->
  pick_fee (fp_prices (c_fp c)) offered (gas_cost msgs) = Some (d, fee) ->
  o_pool (c_o (step_state c (EvTx offered msgs))) =
  coin_add (o_pool (c_o c)) d (snd (split_fee (fp_q (c_fp c)) fee)).
Proof.
  intros c offered msgs d fee Hne Hvb Hp. unfold step_state. simpl.
  destruct msgs as [|m0 ms]; [congruence|]. rewrite Hvb. simpl negb. cbv iota.
  rewrite Hp. destruct (handle_all (c_s c) (c_h c) (m0 :: ms)) as [[s' g]| |]; reflexivity.
Qed.

(* and a transaction that does not cover any configured requirement is not executed at all *)
Theorem C16_uncovered_rejected : forall c offered msgs,
  pick_fee (fp_prices (c_fp c)) offered (gas_cost msgs) = None ->
  step_state c (EvTx offered msgs) = c.
Proof.
  intros c offered msgs Hp. unfold step_state. simpl. destruct msgs as [|m0 ms]; [reflexivity|].
  destruct (negb (forallb validate_basic (m0 :: ms))); [reflexivity|]. rewrite Hp. reflexivity.
Qed.

(* (7) somebody else's account is charged only with its consent: a transaction of the settlus route that names a fee
   granter other than the payer is admitted only if the granter's allowance for the payer covers the fee charged *)
Theorem C16_granter_consents : forall o h tx, admits o h tx = true ->
  route_of (tx_msgs tx) = RSettlus -> tx_grant_ok tx = true.
Proof.
  intros o h tx Ha Hr. unfold admits, admits_with in Ha. rewrite Hr in Ha.
  destruct (tx_msgs tx); [discriminate|]. unfold settlus_admits in Ha.
  apply andb_true_iff in Ha as [Hg _]. exact Hg.
Qed.

Example C16_nonvacuous :
  let prices := [([115], 100000000000000); ([117], 2333333333333333333)] in   (* 10^-4 and 2.333.. *)
  let ms := [MCancel 1 1 []; MCreateTenant 1 [117; 116; 111; 107] 3] in
  gas_cost ms = 1000000020000 /\
  pick_fee prices [([117], 2333333380000)] (gas_cost ms) = Some ([117], 2333333379999) /\
  pick_fee prices [([117], 2333333379998)] (gas_cost ms) = None /\
  pick_fee prices [([117], 9999999999999); ([115], 100000002)] (gas_cost ms) = Some ([115], 100000002) /\
  split_fee 333333333333333333 10 = (6, 3) /\ split_fee prec 7 = (0, 7) /\ split_fee 0 7 = (7, 0).
Proof. vm_compute. repeat split; reflexivity. Qed.

Print Assumptions C16_gas_cost.
Print Assumptions C16_required_fee.
Print Assumptions C16_first_covered.
Print Assumptions C16_surplus_irrelevant.
Print Assumptions C16_only_kinds_matter.
Print Assumptions C16_split.
Print Assumptions C16_charged_regardless.
Print Assumptions C16_granter_consents.
Print Assumptions C16_uncovered_rejected.
