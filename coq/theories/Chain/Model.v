(* Composition: one block = begin (environment) ; transactions ; end-block
   (staking, then oracle, then settlement - the order of app/modules.go). *)
From Settlus Require Import Base.Prelude Base.Hex Base.Dec Oracle.Arith Settlement.Model Oracle.Model Ante.Fee.

(* settlement fee parameters: configured gas prices (Dec) in order, oracle fee percentage (Dec) *)
Record feeparams := mkFP { fp_prices : list (bytes * Z); fp_q : Z }.

Record cstate := mkC { c_h : Z; c_s : sstate; c_o : ostate; c_fp : feeparams }.

Inductive cenv :=
| ES (e : senv)
| EO (e : oenv).

Inductive event :=
| EvBegin (envs : list cenv)          (* BeginBlock of the next height, then environment changes *)
| EvTx (offered : list (bytes * Z)) (msgs : list smsg)   (* a settlement transaction and the fee it offers *)
| EvOTx (m : omsg)                    (* an oracle transaction (one message, signed by its feeder/operator) *)
| EvEnd (faults : list bool).         (* EndBlock with a payout-backend fault plan; Commit *)

Inductive tclass := COk | CRejected | CPanic.
Definition tclass_eqb (a b : tclass) : bool :=
  match a, b with COk, COk | CRejected, CRejected | CPanic, CPanic => true | _, _ => false end.

Inductive obs :=
| OBegin
| OTx (c : tclass)
| OEnd (c : tclass) (st : cstate).

Definition apply_cenv (c : cstate) (e : cenv) : cstate * list gev :=
  match e with
  | ES e' => let '(s, g) := apply_senv (c_s c) e' in (mkC (c_h c) s (c_o c) (c_fp c), g)
  | EO e' => (mkC (c_h c) (c_s c) (apply_oenv (c_o c) e') (c_fp c), [])
  end.

Fixpoint apply_cenvs (c : cstate) (es : list cenv) : cstate * list gev :=
  match es with
  | [] => (c, [])
  | e :: es' => let '(c1, g1) := apply_cenv c e in
                let '(c2, g2) := apply_cenvs c1 es' in (c2, g1 ++ g2)
  end.

Definition end_block (c : cstate) (faults : list bool) : cstate * list gev :=
  let h := c_h c in
  let o0 := staking_end (c_o c) in
  let '(o1, fill) := oracle_end_block o0 (c_s c) h in
  let '(s1, g1) := match fill with
                   | Some (res, before) => set_recipients (c_s c) res before
                   | None => (c_s c, [])
                   end in
  let '(s2, g2) := settlement_end_block s1 h faults in
  (mkC h s2 o1 (c_fp c), g1 ++ g2).

Definition step (c : cstate) (e : event) : cstate * obs * list gev :=
  match e with
  | EvBegin envs =>
      let '(c1, g) := apply_cenvs (mkC (c_h c + 1) (c_s c) (c_o c) (c_fp c)) envs in (c1, OBegin, g)
  | EvTx offered msgs =>
      match msgs with
      | [] => (c, OTx CRejected, [])
      | _ :: _ =>
          if negb (forallb validate_basic msgs) then (c, OTx CRejected, [])
          else match pick_fee (fp_prices (c_fp c)) offered (gas_cost msgs) with
               | None => (c, OTx CRejected, [])
               | Some (d, fee) =>
                   (* the fee is taken by the ante handler whether or not the messages succeed *)
                   let o' := set_pool (c_o c) (coin_add (o_pool (c_o c)) d (snd (split_fee (fp_q (c_fp c)) fee))) in
                   let c' := mkC (c_h c) (c_s c) o' (c_fp c) in
                   match handle_all (c_s c) (c_h c) msgs with
                   | Ok (s', g) => (mkC (c_h c) s' o' (c_fp c), OTx COk, g)
                   | Rejected => (c', OTx CRejected, [])
                   | Panic => (c', OTx CPanic, [])
                   end
               end
      end
  | EvOTx m =>
      match ohandle (c_o c) (s_supported (c_s c)) (c_h c) m with
      | Ok o' => (mkC (c_h c) (c_s c) o' (c_fp c), OTx COk, [])
      | Rejected => (c, OTx CRejected, [])
      | Panic => (c, OTx CPanic, [])
      end
  | EvEnd faults =>
      let '(c1, g) := end_block c faults in (c1, OEnd COk c1, g)
  end.

Fixpoint run (c : cstate) (es : list event) : list obs * list gev * cstate :=
  match es with
  | [] => ([], [], c)
  | e :: es' =>
      let '(c1, o, g) := step c e in
      let '(os, gs, c2) := run c1 es' in
      (o :: os, g ++ gs, c2)
  end.

(* the oracle state right after genesis (InitGenesis stores the round info of the first block) *)
Definition init_ostate (p : oparams) (vals : list validator) (pool : list (bytes * Z)) : ostate :=
  mkO p (Some (mkRound (rstart 1 (op_period p)) (prevote_end 1 (op_period p)) (vote_end 1 (op_period p)) []))
      [] [] [] [] vals pool [].
