(* Hand-written dispositions for the generated source inventory (harness inventory): every potential
   panic site, every range over a Go map and every clock / randomness use in the consensus code must be
   accounted for here.  A site that is not listed breaks the obligation [unaccounted ... = []] that the
   checks of C06 / C07 compile on every run against the inventory of the CURRENT source. *)
From Coq Require Import String Ascii List Bool Arith.
Import ListNotations.
Open Scope string_scope.

(* A site is "file|function|kind|expression".  It is matched on package directory, kind and expression: extracting a
   helper, renaming a function or moving it to another file of the package does not change what can panic / iterate.  Counting keeps a NEW site with the
   text of an old one visible: the source may not contain more sites of a key than the table accounts for. *)
Fixpoint drop_to_bar (s : string) : string :=
  match s with
  | EmptyString => EmptyString
  | String c r => if Ascii.eqb c "|" then r else drop_to_bar r
  end.
Fixpoint take_to_bar (s : string) : string :=
  match s with
  | EmptyString => EmptyString
  | String c r => if Ascii.eqb c "|" then EmptyString else String c (take_to_bar r)
  end.
(* the directory of "dir/file.go" with its final slash: moving code to another file of the same package changes
   nothing either *)
Fixpoint has_slash (s : string) : bool :=
  match s with
  | EmptyString => false
  | String c r => if Ascii.eqb c "/" then true else has_slash r
  end.
Fixpoint dir_of (s : string) : string :=
  match s with
  | EmptyString => EmptyString
  | String c r => if has_slash s then String c (dir_of r) else EmptyString
  end.
Definition site_key (s : string) : string := dir_of (take_to_bar s) ++ "|" ++ drop_to_bar (drop_to_bar s).
Definition count_key (k : string) (l : list string) : nat := length (filter (String.eqb k) l).

Definition unaccounted (sites : list string) (table : list (string * string)) : list string :=
  let tk := map (fun e : string * string => site_key (fst e)) table in
  let sk := map site_key sites in
  filter (fun s => Nat.ltb (count_key (site_key s) tk) (count_key (site_key s) sk)) sites.

Definition panic_table : list (string * string) := [
  ("app/ante/ante.go|NewAnteHandler|assert|_.(authante.HasExtensionOptionsTx)",
   "type fixed by the caller: parameter key table, or the transaction type checked earlier in the ante chain");
  ("app/ante/ante.go|NewAnteHandler|index|_[0]",
   "guarded by len(..) > 0 on the same line / by isOracleTx (at least one message: validateBasicTxMsgs)");
  ("app/ante/fee.go|DeductFeeDecorator.AnteHandle|assert|_.(sdk.FeeTx)",
   "type fixed by the caller: parameter key table, or the transaction type checked earlier in the ante chain");
  ("app/ante/fee.go|DeductFeeDecorator.checkDeductFee|assert|_.(sdk.FeeTx)",
   "type fixed by the caller: parameter key table, or the transaction type checked earlier in the ante chain");
  ("app/ante/fee.go|SettlusSetUpContextDecorator.AnteHandle|assert|_.(authante.GasTx)",
   "type fixed by the caller: parameter key table, or the transaction type checked earlier in the ante chain");
  ("app/ante/fee.go|SettlusValidatorCheckDecorator.AnteHandle|assert|_.(sdk.FeeTx)",
   "type fixed by the caller: parameter key table, or the transaction type checked earlier in the ante chain");
  ("app/ante/fee.go|SettlusValidatorCheckDecorator.AnteHandle|index|_[0]",
   "guarded by len(..) > 0 on the same line / by isOracleTx (at least one message: validateBasicTxMsgs)");
  ("app/ante/fee.go|getValidatorFromOracleMsg|assert|_.(interface{ GetValidator() string })",
   "type fixed by the caller: parameter key table, or the transaction type checked earlier in the ante chain");
  ("app/ante/fee.go|getValidatorFromOracleMsg|assert|_.(type)",
   "type fixed by the caller: parameter key table, or the transaction type checked earlier in the ante chain");
  ("app/ante/settlement_fee_checker.go|newSettlementFeeChecker|assert|_.(sdk.FeeTx)",
   "type fixed by the caller: parameter key table, or the transaction type checked earlier in the ante chain");
  ("app/ante/settlement_fee_checker.go|newSettlementFeeChecker|call:NewCoins|NewCoins",
   "gas price denominations are validated by the settlement parameter set (C16); requiredFees is a truncated non-negative Dec");
  ("app/ante/settlement_fee_checker.go|newSettlementFeeChecker|call:NewCoin|NewCoin",
   "gas price denominations are validated by the settlement parameter set (C16); requiredFees is a truncated non-negative Dec");
  ("types/nft.go|ParseNftId|index|_[0]",
   "MODELLED parse_nft_id_go: guarded by len(data) != 3 (C06_entry_parser_total)");
  ("types/nft.go|ParseNftId|index|_[1]",
   "MODELLED parse_nft_id_go: guarded by len(data) != 3 (C06_entry_parser_total)");
  ("types/nft.go|ParseNftId|index|_[2]",
   "MODELLED parse_nft_id_go: guarded by len(data) != 3 (C06_entry_parser_total)");
  ("x/oracle/genesis.go|InitGenesis|panic|panic",
   "start-up / genesis / export path, outside block processing (genesis round trip is C17)");
  ("x/oracle/genesis.go|InitGenesis|panic|panic",
   "start-up / genesis / export path, outside block processing (genesis round trip is C17)");
  ("x/oracle/keeper/feeder.go|Keeper.GetAggregatePrevotes|call:MustUnmarshal|MustUnmarshal",
   "codec round trip of a value this module wrote itself (protobuf codec trusted)");
  ("x/oracle/keeper/feeder.go|Keeper.GetAggregatePrevote|call:MustUnmarshal|MustUnmarshal",
   "codec round trip of a value this module wrote itself (protobuf codec trusted)");
  ("x/oracle/keeper/feeder.go|Keeper.GetAggregateVotes|call:MustUnmarshal|MustUnmarshal",
   "codec round trip of a value this module wrote itself (protobuf codec trusted)");
  ("x/oracle/keeper/feeder.go|Keeper.GetAggregateVote|call:MustUnmarshal|MustUnmarshal",
   "codec round trip of a value this module wrote itself (protobuf codec trusted)");
  ("x/oracle/keeper/feeder.go|Keeper.GetFeederDelegations|slice|_.Key()[1:]",
   "store keys written by this module: 1 prefix byte / two big-endian uint64 (Base/Keys.v)");
  ("x/oracle/keeper/feeder.go|Keeper.GetRewardPool|panic|panic",
   "the oracle module account is created at start-up (NewKeeper panics otherwise)");
  ("x/oracle/keeper/feeder.go|Keeper.IterateAggregatePrevotes|call:MustUnmarshal|MustUnmarshal",
   "codec round trip of a value this module wrote itself (protobuf codec trusted)");
  ("x/oracle/keeper/feeder.go|Keeper.IterateAggregatePrevotes|slice|_.Key()[1:]",
   "store keys written by this module: 1 prefix byte / two big-endian uint64 (Base/Keys.v)");
  ("x/oracle/keeper/feeder.go|Keeper.IterateAggregateVotes|call:MustUnmarshal|MustUnmarshal",
   "codec round trip of a value this module wrote itself (protobuf codec trusted)");
  ("x/oracle/keeper/feeder.go|Keeper.IterateAggregateVotes|slice|_.Key()[1:]",
   "store keys written by this module: 1 prefix byte / two big-endian uint64 (Base/Keys.v)");
  ("x/oracle/keeper/feeder.go|Keeper.IterateMissCount|slice|_.Key()[1:]",
   "store keys written by this module: 1 prefix byte / two big-endian uint64 (Base/Keys.v)");
  ("x/oracle/keeper/feeder.go|Keeper.SetAggregatePrevote|call:MustMarshal|MustMarshal",
   "codec round trip of a value this module wrote itself (protobuf codec trusted)");
  ("x/oracle/keeper/feeder.go|Keeper.SetAggregateVote|call:MustMarshal|MustMarshal",
   "codec round trip of a value this module wrote itself (protobuf codec trusted)");
  ("x/oracle/keeper/feeder.go|Keeper.SlashValidatorsAndResetMissCount|panic|panic",
   "miss-counter keys are written from validator addresses of the claim map; GetConsAddr of a stored validator");
  ("x/oracle/keeper/feeder.go|Keeper.SlashValidatorsAndResetMissCount|panic|panic",
   "miss-counter keys are written from validator addresses of the claim map; GetConsAddr of a stored validator");
  ("x/oracle/keeper/keeper.go|Keeper.GetCurrentRoundInfo|call:MustUnmarshal|MustUnmarshal",
   "codec round trip of a value this module wrote itself (protobuf codec trusted)");
  ("x/oracle/keeper/keeper.go|Keeper.SetCurrentRoundInfo|call:MustMarshal|MustMarshal",
   "codec round trip of a value this module wrote itself (protobuf codec trusted)");
  ("x/oracle/keeper/keeper.go|Keeper.ownershipOracleData|index|_[_]",
   "sources has len(nfts) elements and i ranges over nfts");
  ("x/oracle/keeper/keeper.go|NewKeeper|panic|panic",
   "start-up / genesis / export path, outside block processing (genesis round trip is C17)");
  ("x/oracle/keeper/query.go|Keeper.AggregatePrevotes|call:MustUnmarshal|MustUnmarshal",
   "codec round trip of a value this module wrote itself (protobuf codec trusted)");
  ("x/oracle/module.go|AppModule.ExportGenesis|call:MustMarshalJSON|MustMarshalJSON",
   "start-up / genesis / export path, outside block processing (genesis round trip is C17)");
  ("x/oracle/module.go|AppModule.InitGenesis|call:MustUnmarshalJSON|MustUnmarshalJSON",
   "start-up / genesis / export path, outside block processing (genesis round trip is C17)");
  ("x/oracle/module.go|AppModuleBasic.DefaultGenesis|call:MustMarshalJSON|MustMarshalJSON",
   "start-up / genesis / export path, outside block processing (genesis round trip is C17)");
  ("x/oracle/module.go|AppModuleBasic.RegisterGRPCGatewayRoutes|panic|panic",
   "start-up / genesis / export path, outside block processing (genesis round trip is C17)");
  ("x/oracle/types/messages.go|*MsgFeederDelegationConsent.GetSignBytes|call:MustMarshalJSON|MustMarshalJSON",
   "amino JSON of a decoded message; legacy sign bytes, not used in block processing");
  ("x/oracle/types/messages.go|*MsgFeederDelegationConsent.GetSignBytes|call:MustSortJSON|MustSortJSON",
   "amino JSON of a decoded message; legacy sign bytes, not used in block processing");
  ("x/oracle/types/messages.go|*MsgFeederDelegationConsent.GetSigners|panic|panic",
   "the signer address was checked by ValidateBasic, which the ante handler runs before GetSigners is used");
  ("x/oracle/types/messages.go|*MsgPrevote.GetSignBytes|call:MustMarshalJSON|MustMarshalJSON",
   "amino JSON of a decoded message; legacy sign bytes, not used in block processing");
  ("x/oracle/types/messages.go|*MsgPrevote.GetSignBytes|call:MustSortJSON|MustSortJSON",
   "amino JSON of a decoded message; legacy sign bytes, not used in block processing");
  ("x/oracle/types/messages.go|*MsgPrevote.GetSigners|panic|panic",
   "the signer address was checked by ValidateBasic, which the ante handler runs before GetSigners is used");
  ("x/oracle/types/messages.go|*MsgVote.GetSignBytes|call:MustMarshalJSON|MustMarshalJSON",
   "amino JSON of a decoded message; legacy sign bytes, not used in block processing");
  ("x/oracle/types/messages.go|*MsgVote.GetSignBytes|call:MustSortJSON|MustSortJSON",
   "amino JSON of a decoded message; legacy sign bytes, not used in block processing");
  ("x/oracle/types/messages.go|*MsgVote.GetSigners|panic|panic",
   "the signer address was checked by ValidateBasic, which the ante handler runs before GetSigners is used");
  ("x/oracle/types/params.go|CalculateRoundStartHeight|div|%",
   "MODELLED round_start_u / vote_period_i (None = divide by zero); excluded by Params.Validate 1 <= p <= MaxVotePeriod (C06_round_arithmetic_total)");
  ("x/oracle/types/params.go|CalculateVotePeriod|div|%",
   "MODELLED round_start_u / vote_period_i (None = divide by zero); excluded by Params.Validate 1 <= p <= MaxVotePeriod (C06_round_arithmetic_total)");
  ("x/oracle/types/params.go|Params.Validate|div|%",
   "MODELLED valid_params: VotePeriod = 0 is rejected on the line above");
  ("x/oracle/types/params.go|validateMaxMissCountPerSlashWindow|assert|_.(uint64)",
   "type fixed by the caller: parameter key table, or the transaction type checked earlier in the ante chain");
  ("x/oracle/types/params.go|validateSlashFraction|assert|_.(sdk.Dec)",
   "type fixed by the caller: parameter key table, or the transaction type checked earlier in the ante chain");
  ("x/oracle/types/params.go|validateSlashWindow|assert|_.(uint64)",
   "type fixed by the caller: parameter key table, or the transaction type checked earlier in the ante chain");
  ("x/oracle/types/params.go|validateVotePeriod|assert|_.(uint64)",
   "type fixed by the caller: parameter key table, or the transaction type checked earlier in the ante chain");
  ("x/oracle/types/params.go|validateVoteThreshold|assert|_.(sdk.Dec)",
   "type fixed by the caller: parameter key table, or the transaction type checked earlier in the ante chain");
  ("x/oracle/types/vote.go|IsLastBlockOfSlashWindow|div|%",
   "MODELLED window_closing: slashWindow = 0 returns false before the division");
  ("x/oracle/types/vote.go|IsSlashWindowClosing|div|%",
   "MODELLED window_closing: slashWindow = 0 returns false before the division");
  ("x/oracle/types/vote_data.go|StringToOwnershipData|index|_[0]",
   "MODELLED parse_entry_go: guarded by len(data) != 2 since the repair of F07 (C06_entry_parser_total)");
  ("x/oracle/types/vote_data.go|StringToOwnershipData|index|_[1]",
   "MODELLED parse_entry_go: guarded by len(data) != 2 since the repair of F07 (C06_entry_parser_total)");
  ("x/oracle/types/vote_data.go|isValidHex|slice|_[2:]",
   "guarded by len(s) > 2");
  ("x/oracle/types/vote_data.go|isValidHex|slice|_[:2]",
   "guarded by len(s) > 2");
  ("x/oracle/voteprocessor/voteprocessor.go|*VoteProcessor[Source, Data].TallyVotes|index|_[_]",
   "generic type instantiation, not an index expression");
  ("x/oracle/voteprocessor/voteprocessor.go|*VoteProcessor[Source, Data].groupVotes|index|_[_]",
   "generic type instantiation, not an index expression");
  ("x/settlement/genesis.go|InitGenesis|panic|panic",
   "start-up / genesis / export path, outside block processing (genesis round trip is C17)");
  ("x/settlement/keeper/grpc_query.go|SettlementKeeper.Tenants|call:MustUnmarshal|MustUnmarshal",
   "codec round trip of a value this module wrote itself (protobuf codec trusted)");
  ("x/settlement/keeper/grpc_query.go|SettlementKeeper.UTXRs|call:MustUnmarshal|MustUnmarshal",
   "codec round trip of a value this module wrote itself (protobuf codec trusted)");
  ("x/settlement/keeper/grpc_query.go|SettlementKeeper.buildTenantWithTreasury|call:NewCoin|NewCoin",
   "query path; tenant denominations are validated at creation since the repair of F08");
  ("x/settlement/keeper/msg_server.go|msgServer.DepositToTreasury|call:NewCoins|NewCoins",
   "msg.Amount was validated by ValidateBasic (valid_coin) since the repair of F08");
  ("x/settlement/keeper/msg_server.go|msgServer.RemoveTenantAdmin|slice|_[:_]",
   "i is the index of the loop over tenant.Admins");
  ("x/settlement/keeper/msg_server.go|msgServer.RemoveTenantAdmin|slice|_[_+ 1:]",
   "i is the index of the loop over tenant.Admins");
  ("x/settlement/keeper/keeper.go|SettlementKeeper.callContract|call:CallEVM|CallEVM",
   "the one call to a user-chosen address: inside the recover of callContract, a panic of the EVM becomes an error (F25)");
  ("x/settlement/keeper/tenant.go|SettlementKeeper.deployTokenContract|call:CallEVMWithData|CallEVMWithData",
   "contract creation (callee nil): the new address is derived from the treasury account and its nonce, no user-chosen callee");
  ("x/settlement/keeper/keeper.go|SettlementKeeper.callContract|panic|panic",
   "inside a recover: re-raises only the out-of-gas / gas-overflow panics of the transaction's gas meter, which baseapp turns into an out-of-gas result; begin- and end-block run on an infinite gas meter; every other panic of the EVM call becomes an error (F25)");
  ("x/settlement/keeper/settle.go|SettlementKeeper.Settle|panic|panic",
   "settleUTXRs returns an error only if deleteUTXR does not find the record it has just read from the iterator: unreachable");
  ("x/settlement/keeper/settle.go|SettlementKeeper.settleUTXRs|call:MustUnmarshal|MustUnmarshal",
   "codec round trip of a value this module wrote itself (protobuf codec trusted)");
  ("x/settlement/keeper/settle.go|SettlementKeeper.tryPayout|call:NewCoins|NewCoins",
   "MODELLED payout_panics: valid denomination and 0 <= share < 2^256 for every stored record (C06_payout_cannot_panic, C06_records_stay_safe)");
  ("x/settlement/keeper/tenant.go|SettlementKeeper.GetAllTenants|call:MustUnmarshal|MustUnmarshal",
   "codec round trip of a value this module wrote itself (protobuf codec trusted)");
  ("x/settlement/keeper/tenant.go|SettlementKeeper.GetTenant|call:MustUnmarshal|MustUnmarshal",
   "codec round trip of a value this module wrote itself (protobuf codec trusted)");
  ("x/settlement/keeper/tenant.go|SettlementKeeper.SetTenant|call:MustMarshal|MustMarshal",
   "codec round trip of a value this module wrote itself (protobuf codec trusted)");
  ("x/settlement/keeper/tenant.go|SettlementKeeper.deployTokenContract|slice|_[:len(contracts.SBTContract.Bin)]",
   "data was built as Bin ++ ctor two lines above");
  ("x/settlement/keeper/tenant.go|SettlementKeeper.deployTokenContract|slice|_[len(contracts.SBTContract.Bin):]",
   "data was built as Bin ++ ctor two lines above");
  ("x/settlement/keeper/utxr.go|SettlementKeeper.CreateUTXR|call:MustMarshal|MustMarshal",
   "codec round trip of a value this module wrote itself (protobuf codec trusted)");
  ("x/settlement/keeper/utxr.go|SettlementKeeper.GetAllUTXRWithTenantAndID|call:MustUnmarshal|MustUnmarshal",
   "codec round trip of a value this module wrote itself (protobuf codec trusted)");
  ("x/settlement/keeper/utxr.go|SettlementKeeper.GetAllUTXRWithTenantAndID|slice|_[0:8]",
   "store keys written by this module: 1 prefix byte / two big-endian uint64 (Base/Keys.v)");
  ("x/settlement/keeper/utxr.go|SettlementKeeper.GetAllUTXRWithTenantAndID|slice|_[8:]",
   "store keys written by this module: 1 prefix byte / two big-endian uint64 (Base/Keys.v)");
  ("x/settlement/keeper/utxr.go|SettlementKeeper.GetAllUniqueNftToVerify|call:MustUnmarshal|MustUnmarshal",
   "codec round trip of a value this module wrote itself (protobuf codec trusted)");
  ("x/settlement/keeper/utxr.go|SettlementKeeper.GetUTXRByRequestId|call:MustUnmarshal|MustUnmarshal",
   "codec round trip of a value this module wrote itself (protobuf codec trusted)");
  ("x/settlement/keeper/utxr.go|SettlementKeeper.ImportUTXR|call:MustMarshal|MustMarshal",
   "codec round trip of a value this module wrote itself (protobuf codec trusted)");
  ("x/settlement/keeper/utxr.go|SettlementKeeper.SetRecipients|call:MustMarshal|MustMarshal",
   "codec round trip of a value this module wrote itself (protobuf codec trusted)");
  ("x/settlement/keeper/utxr.go|SettlementKeeper.SetRecipients|call:MustUnmarshal|MustUnmarshal",
   "codec round trip of a value this module wrote itself (protobuf codec trusted)");
  ("x/settlement/keeper/utxr.go|SettlementKeeper.SetRecipients|slice|_[0:8]",
   "store keys written by this module: 1 prefix byte / two big-endian uint64 (Base/Keys.v)");
  ("x/settlement/keeper/utxr.go|SettlementKeeper.SetRecipients|slice|_[8:]",
   "store keys written by this module: 1 prefix byte / two big-endian uint64 (Base/Keys.v)");
  ("x/settlement/keeper/utxr.go|SettlementKeeper.deleteUTXR|call:MustUnmarshal|MustUnmarshal",
   "codec round trip of a value this module wrote itself (protobuf codec trusted)");
  ("x/settlement/module.go|AppModule.ExportGenesis|call:MustMarshalJSON|MustMarshalJSON",
   "start-up / genesis / export path, outside block processing (genesis round trip is C17)");
  ("x/settlement/module.go|AppModule.InitGenesis|call:MustUnmarshalJSON|MustUnmarshalJSON",
   "start-up / genesis / export path, outside block processing (genesis round trip is C17)");
  ("x/settlement/module.go|AppModuleBasic.DefaultGenesis|call:MustMarshalJSON|MustMarshalJSON",
   "start-up / genesis / export path, outside block processing (genesis round trip is C17)");
  ("x/settlement/types/genesis.go|GenesisState.Validate|index|_[_]",
   "start-up / genesis / export path, outside block processing (genesis round trip is C17)");
  ("x/settlement/types/msg.go|*MsgAddTenantAdmin.GetSignBytes|call:MustMarshalJSON|MustMarshalJSON",
   "amino JSON of a decoded message; legacy sign bytes, not used in block processing");
  ("x/settlement/types/msg.go|*MsgAddTenantAdmin.GetSignBytes|call:MustSortJSON|MustSortJSON",
   "amino JSON of a decoded message; legacy sign bytes, not used in block processing");
  ("x/settlement/types/msg.go|*MsgAddTenantAdmin.GetSigners|panic|panic",
   "the signer address was checked by ValidateBasic, which the ante handler runs before GetSigners is used");
  ("x/settlement/types/msg.go|*MsgCancel.GetSignBytes|call:MustMarshalJSON|MustMarshalJSON",
   "amino JSON of a decoded message; legacy sign bytes, not used in block processing");
  ("x/settlement/types/msg.go|*MsgCancel.GetSignBytes|call:MustSortJSON|MustSortJSON",
   "amino JSON of a decoded message; legacy sign bytes, not used in block processing");
  ("x/settlement/types/msg.go|*MsgCancel.GetSigners|panic|panic",
   "the signer address was checked by ValidateBasic, which the ante handler runs before GetSigners is used");
  ("x/settlement/types/msg.go|*MsgCreateTenant.GetSignBytes|call:MustMarshalJSON|MustMarshalJSON",
   "amino JSON of a decoded message; legacy sign bytes, not used in block processing");
  ("x/settlement/types/msg.go|*MsgCreateTenant.GetSignBytes|call:MustSortJSON|MustSortJSON",
   "amino JSON of a decoded message; legacy sign bytes, not used in block processing");
  ("x/settlement/types/msg.go|*MsgCreateTenant.GetSigners|panic|panic",
   "the signer address was checked by ValidateBasic, which the ante handler runs before GetSigners is used");
  ("x/settlement/types/msg.go|*MsgCreateTenantWithMintableContract.GetSignBytes|call:MustMarshalJSON|MustMarshalJSON",
   "amino JSON of a decoded message; legacy sign bytes, not used in block processing");
  ("x/settlement/types/msg.go|*MsgCreateTenantWithMintableContract.GetSignBytes|call:MustSortJSON|MustSortJSON",
   "amino JSON of a decoded message; legacy sign bytes, not used in block processing");
  ("x/settlement/types/msg.go|*MsgCreateTenantWithMintableContract.GetSigners|panic|panic",
   "the signer address was checked by ValidateBasic, which the ante handler runs before GetSigners is used");
  ("x/settlement/types/msg.go|*MsgDepositToTreasury.GetSignBytes|call:MustMarshalJSON|MustMarshalJSON",
   "amino JSON of a decoded message; legacy sign bytes, not used in block processing");
  ("x/settlement/types/msg.go|*MsgDepositToTreasury.GetSignBytes|call:MustSortJSON|MustSortJSON",
   "amino JSON of a decoded message; legacy sign bytes, not used in block processing");
  ("x/settlement/types/msg.go|*MsgDepositToTreasury.GetSigners|panic|panic",
   "the signer address was checked by ValidateBasic, which the ante handler runs before GetSigners is used");
  ("x/settlement/types/msg.go|*MsgRecord.GetSignBytes|call:MustMarshalJSON|MustMarshalJSON",
   "amino JSON of a decoded message; legacy sign bytes, not used in block processing");
  ("x/settlement/types/msg.go|*MsgRecord.GetSignBytes|call:MustSortJSON|MustSortJSON",
   "amino JSON of a decoded message; legacy sign bytes, not used in block processing");
  ("x/settlement/types/msg.go|*MsgRecord.GetSigners|panic|panic",
   "the signer address was checked by ValidateBasic, which the ante handler runs before GetSigners is used");
  ("x/settlement/types/msg.go|*MsgRecord.ValidateBasic|slice|_[2:]",
   "guarded by HasPrefix(TokenIdHex, 0x) on the previous line");
  ("x/settlement/types/msg.go|*MsgRemoveTenantAdmin.GetSignBytes|call:MustMarshalJSON|MustMarshalJSON",
   "amino JSON of a decoded message; legacy sign bytes, not used in block processing");
  ("x/settlement/types/msg.go|*MsgRemoveTenantAdmin.GetSignBytes|call:MustSortJSON|MustSortJSON",
   "amino JSON of a decoded message; legacy sign bytes, not used in block processing");
  ("x/settlement/types/msg.go|*MsgRemoveTenantAdmin.GetSigners|panic|panic",
   "the signer address was checked by ValidateBasic, which the ante handler runs before GetSigners is used");
  ("x/settlement/types/msg.go|*MsgUpdateTenantPayoutPeriod.GetSignBytes|call:MustMarshalJSON|MustMarshalJSON",
   "amino JSON of a decoded message; legacy sign bytes, not used in block processing");
  ("x/settlement/types/msg.go|*MsgUpdateTenantPayoutPeriod.GetSignBytes|call:MustSortJSON|MustSortJSON",
   "amino JSON of a decoded message; legacy sign bytes, not used in block processing");
  ("x/settlement/types/msg.go|*MsgUpdateTenantPayoutPeriod.GetSigners|panic|panic",
   "the signer address was checked by ValidateBasic, which the ante handler runs before GetSigners is used");
  ("x/settlement/types/params.go|DefaultParams|call:NewDecCoins|NewDecCoins",
   "start-up / genesis / export path, outside block processing (genesis round trip is C17)");
  ("x/settlement/types/params.go|validateGasPrices|assert|_.(sdk.DecCoins)",
   "type fixed by the caller: parameter key table, or the transaction type checked earlier in the ante chain");
  ("x/settlement/types/params.go|validateOracleFeePercentage|assert|_.(sdk.Dec)",
   "type fixed by the caller: parameter key table, or the transaction type checked earlier in the ante chain");
  ("x/settlement/types/params.go|validateSupportedChains|assert|_.([]*ctypes.Chain)",
   "type fixed by the caller: parameter key table, or the transaction type checked earlier in the ante chain");
  ("x/oracle/types/params.go|CalculateRoundStartHeight|div|%",
   "MODELLED round_start_u / vote_period_i (None = divide by zero); excluded by Params.Validate 1 <= p <= MaxVotePeriod (C06_round_arithmetic_total)");
  ("x/oracle/types/vote_data.go|StringToOwnershipData|index|_[0]",
   "MODELLED parse_entry_go: guarded by len(data) != 2 since the repair of F07 (C06_entry_parser_total)");
  ("x/oracle/voteprocessor/voteprocessor.go|*VoteProcessor[Source, Data].TallyVotes|index|_[_]",
   "generic type instantiation, not an index expression");
  ("x/oracle/voteprocessor/voteprocessor.go|*VoteProcessor[Source, Data].TallyVotes|index|_[_]",
   "generic type instantiation, not an index expression")].

Definition range_table : list (string * string) := [
  ("x/oracle/abci.go|EndBlocker|range|_ exits=0 calls=SetMissCount assigns=0",
   "miss counting: one independent store write per validator address, no shared state, no early exit; MODELLED as fold_left bump_miss over missers (order irrelevance: C07_miss_order_free)");
  ("x/oracle/keeper/feeder.go|Keeper.RewardBallotWinners|range|_ exits=0 calls= assigns=0",
   "weight sum: integer addition is commutative, no effectful call, no exit; MODELLED as sumZ over the winners (C07_reward_order_free)");
  ("x/oracle/keeper/feeder.go|Keeper.RewardBallotWinners|range|_ exits=1 calls=AllocateTokensToValidator assigns=2",
   "per-validator AllocateTokensToValidator / DecCoins.Add commute; the one exit is 'validator not found', impossible for a member of the claim map built from the staking store in the same block; the bank transfer happens ONCE, after the loop; MODELLED as sums over the claim list (C07_reward_order_free)");
  ("x/oracle/voteprocessor/voteprocessor.go|*VoteProcessor[Source, Data].TallyVotes|range|_ exits=0 calls= assigns=0",
   "per-source decision written into a result map keyed by the source, no exit; MODELLED as tally_results (C07_tally_order_free)");
  ("x/oracle/voteprocessor/voteprocessor.go|*VoteProcessor[Source, Data].TallyVotes|range|_ exits=0 calls= assigns=0",
   "the inner loop over the votes of ONE source is a slice (the scanner keys on the variable name, which shadows the map): ordered");
  ("x/oracle/voteprocessor/voteprocessor.go|*VoteProcessor[Source, Data].TallyVotes|range|_ exits=0 calls= assigns=0",
   "Miss flags only ever set to true (idempotent), no exit; MODELLED as missers (C07_missers_order_free)");
  ("x/oracle/voteprocessor/voteprocessor.go|*VoteProcessor[Source, Data].pickMostVoted|range|_ exits=0 calls= assigns=0",
   "filters the counts above the threshold into another map: set semantics (pick_spec)");
  ("x/oracle/voteprocessor/voteprocessor.go|*VoteProcessor[Source, Data].pickMostVoted|range|_ exits=1 calls= assigns=0",
   "executed only when that map has exactly one entry: the early return takes that entry (pick_spec)")].

(* a time.Now() whose value can only reach a telemetry.* call (metrics sink) is not listed by the scanner at all *)
Definition clock_table : list (string * string) := [].

(* Process-local state: every struct field and every package-level variable of the consensus packages.
   State that matters to consensus has to live in the multistore: that is what baseapp rolls back when a transaction
   is rejected or only simulated (C09 "a rejected message changes nothing", C02 / C03 / C13 rely on it) and what every
   node shares (C07).  A new field or variable - a cache, a memo, a counter - is not in this table and breaks the
   obligation until it is shown to be harmless. *)
Definition state_table : list (string * string) := [
  ("app/ante/fee.go|DeductFeeDecorator|field|authante.AccountKeeper",
   "decorator wiring set by its constructor: keeper interfaces and the fee checker closure, no mutable value");
  ("app/ante/fee.go|DeductFeeDecorator|field|authtypes.BankKeeper",
   "decorator wiring set by its constructor: keeper interfaces and the fee checker closure, no mutable value");
  ("app/ante/fee.go|DeductFeeDecorator|field|authante.FeegrantKeeper",
   "decorator wiring set by its constructor: keeper interfaces and the fee checker closure, no mutable value");
  ("app/ante/fee.go|DeductFeeDecorator|field|SettlementKeeper",
   "decorator wiring set by its constructor: keeper interfaces and the fee checker closure, no mutable value");
  ("app/ante/fee.go|DeductFeeDecorator|field|authante.TxFeeChecker",
   "decorator wiring set by its constructor: keeper interfaces and the fee checker closure, no mutable value");
  ("app/ante/fee.go|SettlusValidatorCheckDecorator|field|OracleKeeper",
   "decorator wiring set by its constructor: keeper interfaces and the fee checker closure, no mutable value");
  ("app/ante/handler_options.go|HandlerOptions|field|evmtypes.AccountKeeper",
   "wiring handed to NewAnteHandler once at application start: keepers, codec and constants, never written afterwards");
  ("app/ante/handler_options.go|HandlerOptions|field|evmtypes.BankKeeper",
   "wiring handed to NewAnteHandler once at application start: keepers, codec and constants, never written afterwards");
  ("app/ante/handler_options.go|HandlerOptions|field|codec.BinaryCodec",
   "wiring handed to NewAnteHandler once at application start: keepers, codec and constants, never written afterwards");
  ("app/ante/handler_options.go|HandlerOptions|field|anteutils.DistributionKeeper",
   "wiring handed to NewAnteHandler once at application start: keepers, codec and constants, never written afterwards");
  ("app/ante/handler_options.go|HandlerOptions|field|evmante.EVMKeeper",
   "wiring handed to NewAnteHandler once at application start: keepers, codec and constants, never written afterwards");
  ("app/ante/handler_options.go|HandlerOptions|field|ante.ExtensionOptionChecker",
   "wiring handed to NewAnteHandler once at application start: keepers, codec and constants, never written afterwards");
  ("app/ante/handler_options.go|HandlerOptions|field|evmante.FeeMarketKeeper",
   "wiring handed to NewAnteHandler once at application start: keepers, codec and constants, never written afterwards");
  ("app/ante/handler_options.go|HandlerOptions|field|ante.FeegrantKeeper",
   "wiring handed to NewAnteHandler once at application start: keepers, codec and constants, never written afterwards");
  ("app/ante/handler_options.go|HandlerOptions|field|*ibckeeper.Keeper",
   "wiring handed to NewAnteHandler once at application start: keepers, codec and constants, never written afterwards");
  ("app/ante/handler_options.go|HandlerOptions|field|uint64",
   "wiring handed to NewAnteHandler once at application start: keepers, codec and constants, never written afterwards");
  ("app/ante/handler_options.go|HandlerOptions|field|OracleKeeper",
   "wiring handed to NewAnteHandler once at application start: keepers, codec and constants, never written afterwards");
  ("app/ante/handler_options.go|HandlerOptions|field|SettlementKeeper",
   "wiring handed to NewAnteHandler once at application start: keepers, codec and constants, never written afterwards");
  ("app/ante/handler_options.go|HandlerOptions|field|func(meter sdk.GasMeter, sig signing.SignatureV2, params authtypes.Params) error",
   "wiring handed to NewAnteHandler once at application start: keepers, codec and constants, never written afterwards");
  ("app/ante/handler_options.go|HandlerOptions|field|authsigning.SignModeHandler",
   "wiring handed to NewAnteHandler once at application start: keepers, codec and constants, never written afterwards");
  ("app/ante/handler_options.go|HandlerOptions|field|anteutils.StakingKeeper",
   "wiring handed to NewAnteHandler once at application start: keepers, codec and constants, never written afterwards");
  ("app/ante/handler_options.go|HandlerOptions|field|ante.TxFeeChecker",
   "wiring handed to NewAnteHandler once at application start: keepers, codec and constants, never written afterwards");
  ("app/post/settlement.go|-|var|_ sdk.PostDecorator",
   "compile-time interface assertion: holds no value");
  ("x/oracle/keeper/keeper.go|Keeper|field|types.AccountKeeper",
   "interface to another module keeper, set by NewKeeper: that module keeps its state in the multistore");
  ("x/oracle/keeper/keeper.go|Keeper|field|types.BankKeeper",
   "interface to another module keeper, set by NewKeeper: that module keeps its state in the multistore");
  ("x/oracle/keeper/keeper.go|Keeper|field|types.DistributionKeeper",
   "interface to another module keeper, set by NewKeeper: that module keeps its state in the multistore");
  ("x/oracle/keeper/keeper.go|Keeper|field|types.SettlementKeeper",
   "interface to another module keeper, set by NewKeeper: that module keeps its state in the multistore");
  ("x/oracle/keeper/keeper.go|Keeper|field|types.StakingKeeper",
   "interface to another module keeper, set by NewKeeper: that module keeps its state in the multistore");
  ("x/oracle/keeper/keeper.go|Keeper|field|codec.BinaryCodec",
   "immutable handle set by NewKeeper: codec / store key / parameter subspace / module name; all state behind it lives in the multistore");
  ("x/oracle/keeper/keeper.go|Keeper|field|string",
   "immutable handle set by NewKeeper: codec / store key / parameter subspace / module name; all state behind it lives in the multistore");
  ("x/oracle/keeper/keeper.go|Keeper|field|paramtypes.Subspace",
   "immutable handle set by NewKeeper: codec / store key / parameter subspace / module name; all state behind it lives in the multistore");
  ("x/oracle/keeper/keeper.go|Keeper|field|storetypes.StoreKey",
   "immutable handle set by NewKeeper: codec / store key / parameter subspace / module name; all state behind it lives in the multistore");
  ("x/oracle/keeper/msg_server.go|-|var|_ types.MsgServer",
   "compile-time interface assertion: holds no value");
  ("x/oracle/keeper/msg_server.go|msgServer|field|Keeper",
   "embeds the keeper: no state of its own");
  ("x/oracle/keeper/query.go|-|var|_ types.QueryServer",
   "compile-time interface assertion: holds no value");
  ("x/oracle/module.go|-|var|_ module.AppModule",
   "compile-time interface assertion: holds no value");
  ("x/oracle/module.go|-|var|_ module.AppModuleBasic",
   "compile-time interface assertion: holds no value");
  ("x/oracle/module.go|-|var|_ module.AppModuleGenesis",
   "compile-time interface assertion: holds no value");
  ("x/oracle/module.go|-|var|_ module.BeginBlockAppModule",
   "compile-time interface assertion: holds no value");
  ("x/oracle/module.go|-|var|_ module.EndBlockAppModule",
   "compile-time interface assertion: holds no value");
  ("x/oracle/module.go|AppModule|field|AppModuleBasic",
   "module wiring set by NewAppModule: keepers only");
  ("x/oracle/module.go|AppModule|field|types.AccountKeeper",
   "module wiring set by NewAppModule: keepers only");
  ("x/oracle/module.go|AppModule|field|types.BankKeeper",
   "module wiring set by NewAppModule: keepers only");
  ("x/oracle/module.go|AppModule|field|keeper.Keeper",
   "module wiring set by NewAppModule: keepers only");
  ("x/oracle/types/errors.go|-|var|ErrChainNotFound = errorsmod.Register(ModuleName, 1000, 'chain not found')",
   "registered error value: assigned once at package initialisation, never written afterwards");
  ("x/oracle/types/errors.go|-|var|ErrInvalidFeeder = errorsmod.Register(ModuleName, 1010, 'invalid feeder')",
   "registered error value: assigned once at package initialisation, never written afterwards");
  ("x/oracle/types/errors.go|-|var|ErrInvalidParams = errorsmod.Register(ModuleName, 1008, 'invalid params')",
   "registered error value: assigned once at package initialisation, never written afterwards");
  ("x/oracle/types/errors.go|-|var|ErrInvalidValidator = errorsmod.Register(ModuleName, 1009, 'invalid validator')",
   "registered error value: assigned once at package initialisation, never written afterwards");
  ("x/oracle/types/errors.go|-|var|ErrInvalidVote = errorsmod.Register(ModuleName, 1005, 'invalid vote')",
   "registered error value: assigned once at package initialisation, never written afterwards");
  ("x/oracle/types/errors.go|-|var|ErrNoVotingPermission = errorsmod.Register(ModuleName, 1002, 'no voting permission')",
   "registered error value: assigned once at package initialisation, never written afterwards");
  ("x/oracle/types/errors.go|-|var|ErrPrevotesNotAccepted = errorsmod.Register(ModuleName, 1007, 'prevotes are not accepted in this period')",
   "registered error value: assigned once at package initialisation, never written afterwards");
  ("x/oracle/types/errors.go|-|var|ErrRevealPeriodMissMatch = errorsmod.Register(ModuleName, 1004, 'reveal period of submitted vote do not match with re",
   "registered error value: assigned once at package initialisation, never written afterwards");
  ("x/oracle/types/errors.go|-|var|ErrValidatorNotFound = errorsmod.Register(ModuleName, 1003, 'invalid validator')",
   "registered error value: assigned once at package initialisation, never written afterwards");
  ("x/oracle/types/errors.go|-|var|ErrVotePeriodIsZero = errorsmod.Register(ModuleName, 1006, 'vote period is zero')",
   "registered error value: assigned once at package initialisation, never written afterwards");
  ("x/oracle/types/keys.go|-|var|AggregatePrevoteKeyPrefix = []byte{0x03}",
   "store key prefix / parameter key: assigned once at package initialisation, only read (append copies: len = cap)");
  ("x/oracle/types/keys.go|-|var|AggregateVoteKeyPrefix = []byte{0x04}",
   "store key prefix / parameter key: assigned once at package initialisation, only read (append copies: len = cap)");
  ("x/oracle/types/keys.go|-|var|FeederDelegationKeyPrefix = []byte{0x01}",
   "store key prefix / parameter key: assigned once at package initialisation, only read (append copies: len = cap)");
  ("x/oracle/types/keys.go|-|var|MissCountKeyPrefix = []byte{0x02}",
   "store key prefix / parameter key: assigned once at package initialisation, only read (append copies: len = cap)");
  ("x/oracle/types/keys.go|-|var|RoundKeyPrefix = []byte{0x05}",
   "store key prefix / parameter key: assigned once at package initialisation, only read (append copies: len = cap)");
  ("x/oracle/types/messages.go|-|var|_ sdk.Msg",
   "compile-time interface assertion: holds no value");
  ("x/oracle/types/messages.go|-|var|_ sdk.Msg",
   "compile-time interface assertion: holds no value");
  ("x/oracle/types/messages.go|-|var|_ sdk.Msg",
   "compile-time interface assertion: holds no value");
  ("x/oracle/types/params.go|-|var|DefaultMaxMissCountPerSlashWindow = uint64(60)",
   "default parameter value: assigned once at package initialisation, only read");
  ("x/oracle/types/params.go|-|var|DefaultSlashFraction = sdk.NewDecWithPrec(1, 2)",
   "default parameter value: assigned once at package initialisation, only read");
  ("x/oracle/types/params.go|-|var|DefaultSlashWindow = uint64(100000)",
   "default parameter value: assigned once at package initialisation, only read");
  ("x/oracle/types/params.go|-|var|DefaultVotePeriod = uint64(10)",
   "default parameter value: assigned once at package initialisation, only read");
  ("x/oracle/types/params.go|-|var|DefaultVoteThreshold = sdk.NewDecWithPrec(50, 2)",
   "default parameter value: assigned once at package initialisation, only read");
  ("x/oracle/types/params.go|-|var|KeyMaxMissCountPerSlashWindow = []byte('MaxMissCountPerSlashWindow')",
   "store key prefix / parameter key: assigned once at package initialisation, only read (append copies: len = cap)");
  ("x/oracle/types/params.go|-|var|KeySlashFraction = []byte('SlashFraction')",
   "store key prefix / parameter key: assigned once at package initialisation, only read (append copies: len = cap)");
  ("x/oracle/types/params.go|-|var|KeySlashWindow = []byte('SlashWindow')",
   "store key prefix / parameter key: assigned once at package initialisation, only read (append copies: len = cap)");
  ("x/oracle/types/params.go|-|var|KeyToleratedErrorBand = []byte('ToleratedErrorBand')",
   "store key prefix / parameter key: assigned once at package initialisation, only read (append copies: len = cap)");
  ("x/oracle/types/params.go|-|var|KeyVotePeriod = []byte('VotePeriod')",
   "store key prefix / parameter key: assigned once at package initialisation, only read (append copies: len = cap)");
  ("x/oracle/types/params.go|-|var|KeyVoteThreshold = []byte('VoteThreshold')",
   "store key prefix / parameter key: assigned once at package initialisation, only read (append copies: len = cap)");
  ("x/oracle/types/params.go|-|var|KeyWhitelist = []byte('Whitelist')",
   "store key prefix / parameter key: assigned once at package initialisation, only read (append copies: len = cap)");
  ("x/oracle/types/params.go|-|var|_ paramtypes.ParamSet",
   "compile-time interface assertion: holds no value");
  ("x/oracle/types/vote.go|Claim|field|bool",
   "plain value type built and dropped inside one end-blocker call");
  ("x/oracle/types/vote.go|Claim|field|bool",
   "plain value type built and dropped inside one end-blocker call");
  ("x/oracle/types/vote.go|Claim|field|int64",
   "plain value type built and dropped inside one end-blocker call");
  ("x/oracle/voteprocessor/types.go|DataWithVoter|field|T",
   "plain value type built and dropped inside one end-blocker call");
  ("x/oracle/voteprocessor/types.go|DataWithVoter|field|sdk.ValAddress",
   "plain value type built and dropped inside one end-blocker call");
  ("x/oracle/voteprocessor/types.go|DataWithWeight|field|T",
   "plain value type built and dropped inside one end-blocker call");
  ("x/oracle/voteprocessor/types.go|DataWithWeight|field|int64",
   "plain value type built and dropped inside one end-blocker call");
  ("x/oracle/voteprocessor/voteprocessor.go|VoteProcessor|field|[]types.AggregateVote",
   "built by NewSettlusVoteProcessors inside one end-blocker call and dropped after the tally");
  ("x/oracle/voteprocessor/voteprocessor.go|VoteProcessor|field|DataConverter[Source, Data]",
   "built by NewSettlusVoteProcessors inside one end-blocker call and dropped after the tally");
  ("x/oracle/voteprocessor/voteprocessor.go|VoteProcessor|field|ConsensusHook[Source, Data]",
   "built by NewSettlusVoteProcessors inside one end-blocker call and dropped after the tally");
  ("x/oracle/voteprocessor/voteprocessor.go|VoteProcessor|field|math.Int",
   "built by NewSettlusVoteProcessors inside one end-blocker call and dropped after the tally");
  ("x/oracle/voteprocessor/voteprocessor.go|VoteProcessor|field|types.OracleTopic",
   "built by NewSettlusVoteProcessors inside one end-blocker call and dropped after the tally");
  ("x/settlement/keeper/grpc_query.go|-|var|_ types.QueryServer",
   "compile-time interface assertion: holds no value");
  ("x/settlement/keeper/grpc_query.go|Querier|field|*SettlementKeeper",
   "embeds the keeper: no state of its own");
  ("x/settlement/keeper/keeper.go|SettlementKeeper|field|types.AccountKeeper",
   "interface to another module keeper, set by NewKeeper: that module keeps its state in the multistore");
  ("x/settlement/keeper/keeper.go|SettlementKeeper|field|types.BankKeeper",
   "interface to another module keeper, set by NewKeeper: that module keeps its state in the multistore");
  ("x/settlement/keeper/keeper.go|SettlementKeeper|field|codec.BinaryCodec",
   "immutable handle set by NewKeeper: codec / store key / parameter subspace / module name; all state behind it lives in the multistore");
  ("x/settlement/keeper/keeper.go|SettlementKeeper|field|types.Erc20Keeper",
   "interface to another module keeper, set by NewKeeper: that module keeps its state in the multistore");
  ("x/settlement/keeper/keeper.go|SettlementKeeper|field|types.EvmKeeper",
   "interface to another module keeper, set by NewKeeper: that module keeps its state in the multistore");
  ("x/settlement/keeper/keeper.go|SettlementKeeper|field|paramtypes.Subspace",
   "immutable handle set by NewKeeper: codec / store key / parameter subspace / module name; all state behind it lives in the multistore");
  ("x/settlement/keeper/keeper.go|SettlementKeeper|field|storetypes.StoreKey",
   "immutable handle set by NewKeeper: codec / store key / parameter subspace / module name; all state behind it lives in the multistore");
  ("x/settlement/keeper/msg_server.go|-|var|_ types.MsgServer",
   "compile-time interface assertion: holds no value");
  ("x/settlement/keeper/msg_server.go|msgServer|field|*SettlementKeeper",
   "embeds the keeper: no state of its own");
  ("x/settlement/module.go|-|var|_ module.AppModule",
   "compile-time interface assertion: holds no value");
  ("x/settlement/module.go|-|var|_ module.AppModuleBasic",
   "compile-time interface assertion: holds no value");
  ("x/settlement/module.go|AppModule|field|AppModuleBasic",
   "module wiring set by NewAppModule: keepers only");
  ("x/settlement/module.go|AppModule|field|types.AccountKeeper",
   "module wiring set by NewAppModule: keepers only");
  ("x/settlement/module.go|AppModule|field|types.BankKeeper",
   "module wiring set by NewAppModule: keepers only");
  ("x/settlement/module.go|AppModule|field|*keeper.SettlementKeeper",
   "module wiring set by NewAppModule: keepers only");
  ("x/settlement/types/errors.go|-|var|ErrCannotRemoveAdmin = sdkerrors.Register(ModuleName, 1115, 'cannot remove admin')",
   "registered error value: assigned once at package initialisation, never written afterwards");
  ("x/settlement/types/errors.go|-|var|ErrDuplicateRequestId = sdkerrors.Register(ModuleName, 1112, 'duplicate request id')",
   "registered error value: assigned once at package initialisation, never written afterwards");
  ("x/settlement/types/errors.go|-|var|ErrEVMCallFailed = sdkerrors.Register(ModuleName, 1110, 'evm call failed')",
   "registered error value: assigned once at package initialisation, never written afterwards");
  ("x/settlement/types/errors.go|-|var|ErrEventCreationFailed = sdkerrors.Register(ModuleName, 1111, 'failed to emit event')",
   "registered error value: assigned once at package initialisation, never written afterwards");
  ("x/settlement/types/errors.go|-|var|ErrInvalidAccount = sdkerrors.Register(ModuleName, 1104, 'invalid account')",
   "registered error value: assigned once at package initialisation, never written afterwards");
  ("x/settlement/types/errors.go|-|var|ErrInvalidAdmin = sdkerrors.Register(ModuleName, 1114, 'invalid admin')",
   "registered error value: assigned once at package initialisation, never written afterwards");
  ("x/settlement/types/errors.go|-|var|ErrInvalidChainId = sdkerrors.Register(ModuleName, 1107, 'invalid chain id')",
   "registered error value: assigned once at package initialisation, never written afterwards");
  ("x/settlement/types/errors.go|-|var|ErrInvalidContractAddress = sdkerrors.Register(ModuleName, 1108, 'invalid contract address')",
   "registered error value: assigned once at package initialisation, never written afterwards");
  ("x/settlement/types/errors.go|-|var|ErrInvalidRequest = sdkerrors.Register(ModuleName, 1106, 'invalid request')",
   "registered error value: assigned once at package initialisation, never written afterwards");
  ("x/settlement/types/errors.go|-|var|ErrInvalidTenant = sdkerrors.Register(ModuleName, 1102, 'invalid tenant')",
   "registered error value: assigned once at package initialisation, never written afterwards");
  ("x/settlement/types/errors.go|-|var|ErrInvalidTokenId = sdkerrors.Register(ModuleName, 1109, 'invalid token id')",
   "registered error value: assigned once at package initialisation, never written afterwards");
  ("x/settlement/types/errors.go|-|var|ErrInvalidTxId = sdkerrors.Register(ModuleName, 1103, 'invalid tx id')",
   "registered error value: assigned once at package initialisation, never written afterwards");
  ("x/settlement/types/errors.go|-|var|ErrNotAuthorized = sdkerrors.Register(ModuleName, 1100, 'not authorized')",
   "registered error value: assigned once at package initialisation, never written afterwards");
  ("x/settlement/types/errors.go|-|var|ErrNotEnoughBalance = sdkerrors.Register(ModuleName, 1101, 'not enough balance')",
   "registered error value: assigned once at package initialisation, never written afterwards");
  ("x/settlement/types/errors.go|-|var|ErrNotFound = sdkerrors.Register(ModuleName, 1105, 'account not found')",
   "registered error value: assigned once at package initialisation, never written afterwards");
  ("x/settlement/types/errors.go|-|var|ErrUTXRNotFound = sdkerrors.Register(ModuleName, 1113, 'utxr not found')",
   "registered error value: assigned once at package initialisation, never written afterwards");
  ("x/settlement/types/keys.go|-|var|LastUtxrIdPrefix = []byte{0x03}",
   "store key prefix / parameter key: assigned once at package initialisation, only read (append copies: len = cap)");
  ("x/settlement/types/keys.go|-|var|ModuleAddress common.Address",
   "module account address: computed once in init(), only read");
  ("x/settlement/types/keys.go|-|var|TenantPrefix = []byte{0x02}",
   "store key prefix / parameter key: assigned once at package initialisation, only read (append copies: len = cap)");
  ("x/settlement/types/keys.go|-|var|UTXRPrefix = []byte{0x00}",
   "store key prefix / parameter key: assigned once at package initialisation, only read (append copies: len = cap)");
  ("x/settlement/types/keys.go|-|var|UTXRRequestIdPrefix = []byte{0x01}",
   "store key prefix / parameter key: assigned once at package initialisation, only read (append copies: len = cap)");
  ("x/settlement/types/msg.go|-|var|_ sdk.Msg",
   "compile-time interface assertion: holds no value");
  ("x/settlement/types/msg.go|-|var|_ sdk.Msg",
   "compile-time interface assertion: holds no value");
  ("x/settlement/types/msg.go|-|var|_ sdk.Msg",
   "compile-time interface assertion: holds no value");
  ("x/settlement/types/msg.go|-|var|_ sdk.Msg",
   "compile-time interface assertion: holds no value");
  ("x/settlement/types/msg.go|-|var|_ sdk.Msg",
   "compile-time interface assertion: holds no value");
  ("x/settlement/types/msg.go|-|var|_ sdk.Msg",
   "compile-time interface assertion: holds no value");
  ("x/settlement/types/msg.go|-|var|_ sdk.Msg",
   "compile-time interface assertion: holds no value");
  ("x/settlement/types/params.go|-|var|KeyGasPrices = []byte('GasPrices')",
   "store key prefix / parameter key: assigned once at package initialisation, only read (append copies: len = cap)");
  ("x/settlement/types/params.go|-|var|KeyOracleFeePercentage = []byte('OracleFeePercentage')",
   "store key prefix / parameter key: assigned once at package initialisation, only read (append copies: len = cap)");
  ("x/settlement/types/params.go|-|var|KeySupportedChains = []byte('SupportedChains')",
   "store key prefix / parameter key: assigned once at package initialisation, only read (append copies: len = cap)");
  ("x/settlement/types/params.go|-|var|_ paramtypes.ParamSet",
   "compile-time interface assertion: holds no value")].
