(* The generalised settlement machine SM: transactions, environment changes and end-blocks whose
   oracle input (fill map, cut-off) and fault plan are ARBITRARY.  Every behaviour of the real
   chain is an instance (Proofs/Refinement.v), so what is proved here holds for every oracle. *)
From Settlus Require Import Base.Prelude Base.Hex Settlement.Model.

Record mstate := mkM { m_h : Z; m_s : sstate }.

Inductive sevent :=
| SBegin (envs : list senv)                                   (* next height; environment changes *)
| STx (msgs : list smsg)                                       (* a transaction that passed the ante handler *)
| SEnd (fill : option (list (nft * Z) * Z)) (faults : list bool).  (* oracle fill (if a tally), then payouts *)

Fixpoint apply_senvs (s : sstate) (es : list senv) : sstate * list gev :=
  match es with
  | [] => (s, [])
  | e :: es' => let '(s1, g1) := apply_senv s e in
                let '(s2, g2) := apply_senvs s1 es' in (s2, g1 ++ g2)
  end.

Definition sm_end (s : sstate) (h : Z) (fill : option (list (nft * Z) * Z)) (faults : list bool) : sstate * list gev :=
  let '(s1, g1) := match fill with
                   | Some (res, before) => set_recipients s res before
                   | None => (s, [])
                   end in
  let '(s2, g2) := settlement_end_block s1 h faults in
  (s2, g1 ++ g2).

Definition sm_step (m : mstate) (e : sevent) : mstate * list gev :=
  match e with
  | SBegin envs => let '(s, g) := apply_senvs (m_s m) envs in (mkM (m_h m + 1) s, g)
  | STx msgs =>
      match handle_all (m_s m) (m_h m) msgs with
      | Ok (s, g) => (mkM (m_h m) s, g)
      | _ => (m, [])
      end
  | SEnd fill faults => let '(s, g) := sm_end (m_s m) (m_h m) fill faults in (mkM (m_h m) s, g)
  end.

(* the log carries the height at which each ghost event happened *)
Fixpoint sm_run (m : mstate) (es : list sevent) : mstate * list (Z * gev) :=
  match es with
  | [] => (m, [])
  | e :: es' =>
      let '(m1, g) := sm_step m e in
      let '(m2, gs) := sm_run m1 es' in
      (m2, map (fun x => (m_h m1, x)) g ++ gs)
  end.

Definition empty_sstate (bal : ledger) (owners : list (Z * Z * Z)) (chain : bytes) (supported : list bytes) : sstate :=
  mkS [] [] [] [] bal owners chain supported.

(* projections of the log *)
Definition rec_key (g : gev) : list (Z * Z) := match g with GRecorded t u _ => [(t, u)] | _ => [] end.
Definition res_key (g : gev) : list (Z * Z) :=
  match g with
  | GPaid t u _ _ _ _ _ => [(t, u)]
  | GCancelled t u => [(t, u)]
  | GDropped t u => [(t, u)]
  | _ => []
  end.
Definition recorded (log : list gev) : list (Z * Z) := concat (map rec_key log).
Definition resolved (log : list gev) : list (Z * Z) := concat (map res_key log).
