(* Executable model of x/settlement (state, message handlers, end-block payout loop).
   It mirrors the Go control flow of keeper/msg_server.go, keeper/utxr.go, keeper/settle.go,
   keeper/tenant.go and abci.go on the repaired tree.  Oracle behaviour enters only through
   the arguments of [set_recipients] (an arbitrary fill map and cut-off), so every theorem
   proved here holds for every oracle. *)
From Settlus Require Import Base.Prelude Base.Hex.

(* ---------- data ---------- *)
Record recipient := mkRecip { r_addr : Z; r_weight : Z }.
Record nft := mkNft { n_chain : bytes; n_contract : Z; n_token : Z }.
Record utxr := mkUtxr {
  u_req : bytes; u_recips : list recipient; u_denom : bytes; u_amount : Z;
  u_nft : nft; u_created : Z }.
(* payout method: 0 native, 1 mintable contract, anything else: unknown string *)
Record tenant := mkTenant {
  t_id : Z; t_admins : list Z; t_denom : bytes; t_period : Z; t_method : Z }.

Definition nft_eqb (a b : nft) : bool :=
  bytes_eqb (n_chain a) (n_chain b) && (n_contract a =? n_contract b) && (n_token a =? n_token b).
Definition recip_eqb (a b : recipient) : bool :=
  (r_addr a =? r_addr b) && (r_weight a =? r_weight b).
Definition utxr_eqb (a b : utxr) : bool :=
  bytes_eqb (u_req a) (u_req b) && list_eqb recip_eqb (u_recips a) (u_recips b)
  && bytes_eqb (u_denom a) (u_denom b) && (u_amount a =? u_amount b)
  && nft_eqb (u_nft a) (u_nft b) && (u_created a =? u_created b).
Definition tenant_eqb (a b : tenant) : bool :=
  (t_id a =? t_id b) && list_eqb Z.eqb (t_admins a) (t_admins b) && bytes_eqb (t_denom a) (t_denom b)
  && (t_period a =? t_period b) && (t_method a =? t_method b).

(* ledger: (account, asset) -> amount.  Bank denominations are assets; the soul-bound tokens
   minted for tenant [t] are the asset [sbt_asset t]. Treasuries live at [treasury t],
   outside the 160-bit address space (no key, no collision: trusted). *)
Definition treasury (tid : Z) : Z := two160 + tid.
Definition sbt_asset (tid : Z) : bytes := [0; tid].
(* the total supply of a tenant's soul-bound token is kept as the balance of a pseudo account:
   the ERC-20 _mint does a checked `totalSupply += amount` and reverts above 2^256-1 *)
Definition sbt_supply : Z := -1.

Definition ledger := list (Z * bytes * Z).
Fixpoint bal_get (l : ledger) (a : Z) (d : bytes) : Z :=
  match l with
  | [] => 0
  | (a', d', v) :: l' => if (a =? a') && bytes_eqb d d' then v else bal_get l' a d
  end.
Fixpoint bal_set (l : ledger) (a : Z) (d : bytes) (v : Z) : ledger :=
  match l with
  | [] => [(a, d, v)]
  | (a', d', v') :: l' =>
      if (a =? a') && bytes_eqb d d' then (a, d, v) :: l' else (a', d', v') :: bal_set l' a d v
  end.
Definition bal_add (l : ledger) (a : Z) (d : bytes) (x : Z) : ledger :=
  bal_set l a d (bal_get l a d + x).

Record sstate := mkS {
  s_tenants : list tenant;                 (* ascending id = store order *)
  s_utxrs : list (Z * Z * utxr);           (* ascending (tenant, id) = store order *)
  s_idx : list (Z * bytes * Z);            (* (tenant, request id) -> record id *)
  s_last : list (Z * Z);                   (* tenant -> last record id handed out *)
  s_bal : ledger;
  s_owners : list (Z * Z * Z);             (* NFTs of this chain: (contract, token id) -> owner *)
  s_chain : bytes;                         (* this chain's id *)
  s_supported : list bytes                 (* supported external chain ids *)
}.

Definition set_tenants s x := mkS x (s_utxrs s) (s_idx s) (s_last s) (s_bal s) (s_owners s) (s_chain s) (s_supported s).
Definition set_utxrs s x := mkS (s_tenants s) x (s_idx s) (s_last s) (s_bal s) (s_owners s) (s_chain s) (s_supported s).
Definition set_idx s x := mkS (s_tenants s) (s_utxrs s) x (s_last s) (s_bal s) (s_owners s) (s_chain s) (s_supported s).
Definition set_last s x := mkS (s_tenants s) (s_utxrs s) (s_idx s) x (s_bal s) (s_owners s) (s_chain s) (s_supported s).
Definition set_bal s x := mkS (s_tenants s) (s_utxrs s) (s_idx s) (s_last s) x (s_owners s) (s_chain s) (s_supported s).
Definition set_owners s x := mkS (s_tenants s) (s_utxrs s) (s_idx s) (s_last s) (s_bal s) x (s_chain s) (s_supported s).

(* multi-denomination amounts *)
Definition coin_add (l : list (bytes * Z)) (d : bytes) (x : Z) : list (bytes * Z) :=
  (fix go l := match l with
               | [] => [(d, x)]
               | (d', v) :: l' => if bytes_eqb d d' then (d, v + x) :: l' else (d', v) :: go l'
               end) l.
Definition coin_get (l : list (bytes * Z)) (d : bytes) : Z :=
  (fix go l := match l with
               | [] => 0
               | (d', v) :: l' => if bytes_eqb d d' then v else go l'
               end) l.

(* ---------- messages ---------- *)
Inductive smsg :=
| MCreateTenant (sender : Z) (denom : bytes) (period : Z)
(* [contract] = "": the module deploys the token contract itself (method 1).  Otherwise the tenant names any address
   as its token contract, and what a call to that address does is the EVM's business, not the module's: the
   history says which ([foreign] = 3: every call to it fails, 4: the call succeeds and moves nothing the
   module can see, e.g. an address without code). *)
| MCreateTenantMC (sender : Z) (denom : bytes) (period : Z) (contract : bytes) (foreign : Z)
| MAddAdmin (sender tid admin : Z)
| MRemoveAdmin (sender tid admin : Z)
| MUpdatePeriod (sender tid period : Z)
| MDeposit (sender tid : Z) (denom : bytes) (amount : Z)
| MRecord (sender tid : Z) (req : bytes) (denom : bytes) (amount : Z)
          (chain : bytes) (contract : bytes) (tokhex : bytes)
| MCancel (sender tid : Z) (req : bytes).

(* ghost events: what happened, for the history-level theorems *)
Inductive gev :=
| GRecorded (tid uid : Z) (u : utxr)
| GPaid (tid uid method : Z) (denom : bytes) (outs : list (Z * Z)) (created period : Z)
    (* (recipient, amount) list; creation height of the record; payout period in force *)
| GCancelled (tid uid : Z)
| GDropped (tid uid : Z)
| GFilled (tid uid : Z) (owner : Z)
| GDeposited (tid from : Z) (denom : bytes) (amount : Z)
| GCredit (tid : Z) (denom : bytes) (amount : Z).            (* plain bank send into a treasury *)

Inductive outcome (A : Type) :=
| Ok (a : A)
| Rejected
| Panic.
Arguments Ok {A} a. Arguments Rejected {A}. Arguments Panic {A}.

(* ---------- lookups ---------- *)
Fixpoint find_tenant (l : list tenant) (tid : Z) : option tenant :=
  match l with
  | [] => None
  | t :: l' => if t_id t =? tid then Some t else find_tenant l' tid
  end.

Fixpoint replace_tenant (l : list tenant) (t : tenant) : list tenant :=
  match l with
  | [] => []
  | t' :: l' => if t_id t' =? t_id t then t :: l' else t' :: replace_tenant l' t
  end.

Fixpoint remove_first (x : Z) (l : list Z) : list Z :=
  match l with
  | [] => []
  | y :: l' => if x =? y then l' else y :: remove_first x l'
  end.

Definition largest_tenant_id (l : list tenant) : Z := fold_left (fun acc t => Z.max acc (t_id t)) l 0.

Definition is_admin (s : sstate) (tid sender : Z) : bool :=
  match find_tenant (s_tenants s) tid with
  | Some t => memZ sender (t_admins t)
  | None => false
  end.

Fixpoint idx_get (l : list (Z * bytes * Z)) (tid : Z) (req : bytes) : option Z :=
  match l with
  | [] => None
  | (t, r, u) :: l' => if (t =? tid) && bytes_eqb r req then Some u else idx_get l' tid req
  end.
Fixpoint idx_del (l : list (Z * bytes * Z)) (tid : Z) (req : bytes) : list (Z * bytes * Z) :=
  match l with
  | [] => []
  | (t, r, u) :: l' => if (t =? tid) && bytes_eqb r req then idx_del l' tid req else (t, r, u) :: idx_del l' tid req
  end.

Definition key_ltb (t1 u1 t2 u2 : Z) : bool := (t1 <? t2) || ((t1 =? t2) && (u1 <? u2)).

Fixpoint utxr_ins (l : list (Z * Z * utxr)) (tid uid : Z) (u : utxr) : list (Z * Z * utxr) :=
  match l with
  | [] => [(tid, uid, u)]
  | (t, i, u') :: l' =>
      if key_ltb tid uid t i then (tid, uid, u) :: l
      else if (tid =? t) && (uid =? i) then (tid, uid, u) :: l'
      else (t, i, u') :: utxr_ins l' tid uid u
  end.
Fixpoint utxr_get (l : list (Z * Z * utxr)) (tid uid : Z) : option utxr :=
  match l with
  | [] => None
  | (t, i, u) :: l' => if (t =? tid) && (i =? uid) then Some u else utxr_get l' tid uid
  end.
Fixpoint utxr_del (l : list (Z * Z * utxr)) (tid uid : Z) : list (Z * Z * utxr) :=
  match l with
  | [] => []
  | (t, i, u) :: l' => if (t =? tid) && (i =? uid) then utxr_del l' tid uid else (t, i, u) :: utxr_del l' tid uid
  end.
Definition utxrs_of (l : list (Z * Z * utxr)) (tid : Z) : list (Z * utxr) :=
  map (fun x => (snd (fst x), snd x)) (filter (fun x => fst (fst x) =? tid) l).

Fixpoint owner_get (l : list (Z * Z * Z)) (c t : Z) : option Z :=
  match l with
  | [] => None
  | (c', t', o) :: l' => if (c =? c') && (t =? t') then Some o else owner_get l' c t
  end.
Fixpoint owner_set (l : list (Z * Z * Z)) (c t o : Z) : list (Z * Z * Z) :=
  match l with
  | [] => [(c, t, o)]
  | (c', t', o') :: l' => if (c =? c') && (t =? t') then (c, t, o) :: l' else (c', t', o') :: owner_set l' c t o
  end.

(* ---------- validation (types/msg.go, after the repair of F08) ---------- *)
(* sdk.ValidateDenom: [a-zA-Z][a-zA-Z0-9/:._-]{2,127} *)
Definition is_alpha (c : Z) : bool := ((65 <=? c) && (c <=? 90)) || ((97 <=? c) && (c <=? 122)).
Definition is_digit (c : Z) : bool := (48 <=? c) && (c <=? 57).
Definition is_denom_char (c : Z) : bool :=
  is_alpha c || is_digit c || (c =? 47) || (c =? 58) || (c =? 46) || (c =? 95) || (c =? 45).
Definition valid_denom (d : bytes) : bool :=
  match d with
  | c :: rest => is_alpha c && (2 <=? lenZ rest) && (lenZ rest <=? 127) && forallb is_denom_char rest
  | [] => false
  end.
(* Coin.Validate && !IsZero, and the 256-bit cap of sdk.Int (enforced when the tx is decoded) *)
Definition valid_coin (d : bytes) (a : Z) : bool := valid_denom d && (0 <? a) && (a <? two256).

(* token id: "0x" + optional sign + at least one hex digit (big.Int.SetString(_, 16)) *)
Definition valid_token_hex (s : bytes) : bool :=
  match s with
  | a :: b :: rest =>
      (a =? c_0) && (b =? c_x) &&
      match rest with
      | [] => false
      | c :: ds =>
          if (c =? 43) || (c =? 45) then (match ds with [] => false | _ => forallb is_hex_char ds end)
          else forallb is_hex_char rest
      end
  | _ => false
  end.

Definition valid_period_u64 (p : Z) : bool := (1 <=? p) && (p <? two64).

(* ---------- handlers ---------- *)
Definition next_uid (s : sstate) (tid : Z) : Z :=
  match zlookup tid (s_last s) with
  | Some u => wrap64 (u + 1)
  | None => 0
  end.

(* keeper.CreateUTXR *)
Definition create_utxr (s : sstate) (tid : Z) (u : utxr) : outcome (sstate * Z) :=
  match idx_get (s_idx s) tid (u_req u) with
  | Some _ => Rejected
  | None =>
      let uid := next_uid s tid in
      let s1 := set_last s (zinsert tid uid (s_last s)) in
      let s2 := set_utxrs s1 (utxr_ins (s_utxrs s1) tid uid u) in
      Ok (set_idx s2 ((tid, u_req u, uid) :: s_idx s2), uid)
  end.

(* keeper.GetRecipients *)
Definition get_recipients (s : sstate) (chain contract tokhex : bytes) : outcome (list recipient) :=
  if mem_bytes chain (s_supported s) && negb (bytes_eqb (s_chain s) chain) then Ok []
  else if negb (bytes_eqb (s_chain s) chain) then Rejected
  else match owner_get (s_owners s) (hex_to_address contract) (hex_to_hash tokhex) with
       | Some o => if o =? 0 then Rejected else Ok [mkRecip o 1]
       | None => Rejected
       end.

(* ValidateBasic: stateless, run by the ante handler and again by the message server *)
Definition validate_basic (m : smsg) : bool :=
  match m with
  | MRecord sender tid req denom amount chain contract tokhex =>
      valid_coin denom amount && is_hex_address contract && negb (hex_to_address contract =? 0)
      && valid_token_hex tokhex
  | MCancel _ _ _ => true
  | MCreateTenant _ denom period => valid_denom denom && valid_period_u64 period
  | MCreateTenantMC _ denom period contract _ =>
      valid_denom denom && valid_period_u64 period && (bytes_eqb contract [] || is_hex_address contract)
  | MAddAdmin _ _ _ => true
  | MRemoveAdmin _ _ _ => true
  | MUpdatePeriod _ _ period => valid_period_u64 period
  | MDeposit _ _ denom amount => valid_coin denom amount
  end.

Definition handle (s : sstate) (h : Z) (m : smsg) : outcome (sstate * list gev) :=
  if negb (validate_basic m) then Rejected else
  match m with
  | MRecord sender tid req denom amount chain contract tokhex =>
      if negb (is_admin s tid sender) then Rejected
      else match find_tenant (s_tenants s) tid with
           | None => Rejected
           | Some t =>
               if negb (bytes_eqb (t_denom t) denom) then Rejected
               else if t_period t =? 0 then Rejected
               else match get_recipients s chain contract tokhex with
                    | Rejected => Rejected
                    | Panic => Panic
                    | Ok recips =>
                        let u := mkUtxr req recips denom amount
                                   (mkNft chain (hex_to_address contract) (hex_to_address tokhex)) h in
                        match create_utxr s tid u with
                        | Ok (s', uid) => Ok (s', [GRecorded tid uid u])
                        | Rejected => Rejected
                        | Panic => Panic
                        end
                    end
           end
  | MCancel sender tid req =>
      match find_tenant (s_tenants s) tid with
      | None => Rejected
      | Some _ =>
          if negb (is_admin s tid sender) then Rejected
          else match idx_get (s_idx s) tid req with
               | None => Rejected
               | Some uid =>
                   let s1 := set_utxrs s (utxr_del (s_utxrs s) tid uid) in
                   Ok (set_idx s1 (idx_del (s_idx s1) tid req), [GCancelled tid uid])
               end
      end
  | MCreateTenant sender denom period =>
      let tid := wrap64 (largest_tenant_id (s_tenants s) + 1) in
           Ok (set_tenants s (s_tenants s ++ [mkTenant tid [sender] denom period 0]), [])
  | MCreateTenantMC sender denom period contract foreign =>
      let tid := wrap64 (largest_tenant_id (s_tenants s) + 1) in
      let method := if bytes_eqb contract [] then 1 else if foreign =? 3 then 3 else 4 in
           Ok (set_tenants s (s_tenants s ++ [mkTenant tid [sender] denom period method]), [])
  | MAddAdmin sender tid admin =>
      if negb (is_admin s tid sender) then Rejected
      else match find_tenant (s_tenants s) tid with
           | None => Rejected
           | Some t =>
               if memZ admin (t_admins t) then Rejected
               else Ok (set_tenants s (replace_tenant (s_tenants s)
                          (mkTenant (t_id t) (t_admins t ++ [admin]) (t_denom t) (t_period t) (t_method t))), [])
           end
  | MRemoveAdmin sender tid admin =>
      if negb (is_admin s tid sender) then Rejected
      else match find_tenant (s_tenants s) tid with
           | None => Rejected
           | Some t =>
               if negb (memZ admin (t_admins t)) then Rejected
               else if lenZ (t_admins t) =? 1 then Rejected
               else Ok (set_tenants s (replace_tenant (s_tenants s)
                          (mkTenant (t_id t) (remove_first admin (t_admins t)) (t_denom t) (t_period t) (t_method t))), [])
           end
  | MUpdatePeriod sender tid period =>
      if negb (is_admin s tid sender) then Rejected
      else match find_tenant (s_tenants s) tid with
           | None => Rejected
           | Some t =>
               Ok (set_tenants s (replace_tenant (s_tenants s)
                     (mkTenant (t_id t) (t_admins t) (t_denom t) period (t_method t))), [])
           end
  | MDeposit sender tid denom amount =>
      match find_tenant (s_tenants s) tid with
           | None => Rejected
           | Some t =>
               if negb (t_method t =? 0) then Rejected
               else if bal_get (s_bal s) sender denom <? amount then Rejected
               else Ok (set_bal s (bal_add (bal_add (s_bal s) sender denom (- amount)) (treasury tid) denom amount),
                        [GDeposited tid sender denom amount])
           end
  end.

(* a transaction: all messages or none (baseapp runs them on a branch written only on success) *)
Fixpoint handle_all (s : sstate) (h : Z) (ms : list smsg) : outcome (sstate * list gev) :=
  match ms with
  | [] => Ok (s, [])
  | m :: ms' =>
      match handle s h m with
      | Ok (s1, g1) =>
          match handle_all s1 h ms' with
          | Ok (s2, g2) => Ok (s2, g1 ++ g2)
          | Rejected => Rejected
          | Panic => Panic
          end
      | Rejected => Rejected
      | Panic => Panic
      end
  end.

(* ---------- end-block payout (keeper/settle.go) ---------- *)
Definition valid_recips (l : list recipient) : list recipient := filter (fun r => negb (r_addr r =? 0)) l.
Definition total_weight (l : list recipient) : Z := sumZ (map r_weight l).

Definition share (amount : Z) (n : Z) (w : Z) (r : recipient) : Z :=
  if w =? 0 then amount / n else (amount * r_weight r) / w.

Definition payout_amounts (u : utxr) : list (Z * Z) :=
  let vr := valid_recips (u_recips u) in
  let w := total_weight vr in
  map (fun r => (r_addr r, share (u_amount u) (lenZ vr) w r)) vr.

(* one back-end call: asset moved to the recipient.  native: from the treasury's bank balance
   (fails when short); mint: tokens are created for the recipient. [fault] = injected failure. *)
Definition pay_one (method tid : Z) (denom : bytes) (l : ledger) (fault : bool) (out : Z * Z) : option ledger :=
  let '(addr, amt) := out in
  if fault then None
  else if method =? 0 then
    if amt =? 0 then Some l
    else if bal_get l (treasury tid) denom <? amt then None
    else Some (bal_add (bal_add l (treasury tid) denom (- amt)) addr denom amt)
  else if method =? 1 then
    if two256 <=? bal_get l sbt_supply (sbt_asset tid) + amt then None
    else Some (bal_add (bal_add l addr (sbt_asset tid) amt) sbt_supply (sbt_asset tid) amt)
  else if method =? 4 then Some l
  else None.

(* the payout methods the module knows how to serve; any other value stops the tenant's queue before a back-end call *)
Definition payable_method (m : Z) : bool := (m =? 0) || (m =? 1) || (m =? 3) || (m =? 4).

(* pays all recipients of one record on a branch; returns the remaining fault plan as well *)
Fixpoint pay_all (method tid : Z) (denom : bytes) (l : ledger) (faults : list bool) (outs : list (Z * Z))
  : option ledger * list bool :=
  match outs with
  | [] => (Some l, faults)
  | o :: outs' =>
      let f := match faults with [] => false | f :: _ => f end in
      let faults' := tl faults in
      match pay_one method tid denom l f o with
      | None => (None, faults')
      | Some l' => pay_all method tid denom l' faults' outs'
      end
  end.

(* as coded (uint64): payoutBlock := created + period; skip if it wrapped around or is above the height *)
Definition mature (u : utxr) (period h : Z) : bool :=
  let pb := wrap64 (u_created u + period) in
  negb ((pb <? u_created u) || (h <? pb)).

(* settleUTXRs for one tenant over its pending records in id order *)
Fixpoint settle_loop (t : tenant) (h : Z) (recs : list (Z * utxr)) (s : sstate) (faults : list bool)
  : sstate * list bool * list gev :=
  match recs with
  | [] => (s, faults, [])
  | (uid, u) :: recs' =>
      if negb (mature u (t_period t) h) then (s, faults, [])
      else
        let vr := valid_recips (u_recips u) in
        match vr with
        | [] =>
            let s1 := set_utxrs s (utxr_del (s_utxrs s) (t_id t) uid) in
            let s2 := set_idx s1 (idx_del (s_idx s1) (t_id t) (u_req u)) in
            let '(s3, f3, g3) := settle_loop t h recs' s2 faults in
            (s3, f3, GDropped (t_id t) uid :: g3)
        | _ :: _ =>
            if negb (payable_method (t_method t)) then (s, faults, []) else
            let outs := payout_amounts u in
            match pay_all (t_method t) (t_id t) (u_denom u) (s_bal s) faults outs with
            | (None, faults') => (s, faults', [])
            | (Some l', faults') =>
                let s1 := set_bal s l' in
                let s2 := set_utxrs s1 (utxr_del (s_utxrs s1) (t_id t) uid) in
                let s3 := set_idx s2 (idx_del (s_idx s2) (t_id t) (u_req u)) in
                let '(s4, f4, g4) := settle_loop t h recs' s3 faults' in
                (s4, f4, GPaid (t_id t) uid (t_method t) (u_denom u) outs (u_created u) (t_period t) :: g4)
            end
        end
  end.

Definition settle_tenant (h : Z) (acc : sstate * list bool * list gev) (t : tenant) : sstate * list bool * list gev :=
  let '(s, faults, g) := acc in
  let '(s', faults', g') := settle_loop t h (utxrs_of (s_utxrs s) (t_id t)) s faults in
  (s', faults', g ++ g').

(* x/settlement EndBlock: tenants in id order, read at the start of the loop *)
Definition settlement_end_block (s : sstate) (h : Z) (faults : list bool) : sstate * list gev :=
  let '(s', _, g) := fold_left (settle_tenant h) (s_tenants s) (s, faults, []) in (s', g).

(* an Int product above 256 bits panics in tryPayout (only reachable with imported recipient lists) *)
Definition payout_overflows (u : utxr) : bool :=
  existsb (fun r => two256 <=? u_amount u * r_weight r) (valid_recips (u_recips u)).

(* ---------- oracle entry points (keeper/utxr.go) ---------- *)
Fixpoint fill_get (fill : list (nft * Z)) (n : nft) : option Z :=
  match fill with
  | [] => None
  | (n', o) :: fill' => if nft_eqb n n' then Some o else fill_get fill' n
  end.

(* SetRecipients(nfts, before): records without recipients created strictly before [before] *)
Fixpoint set_recipients_list (l : list (Z * Z * utxr)) (fill : list (nft * Z)) (before : Z)
  : list (Z * Z * utxr) * list gev :=
  match l with
  | [] => ([], [])
  | (t, i, u) :: l' =>
      let '(r, g) := set_recipients_list l' fill before in
      match u_recips u with
      | [] =>
          if u_created u <? before then
            match fill_get fill (u_nft u) with
            | Some o => ((t, i, mkUtxr (u_req u) [mkRecip o 1] (u_denom u) (u_amount u) (u_nft u) (u_created u)) :: r,
                         GFilled t i o :: g)
            | None => ((t, i, u) :: r, g)
            end
          else ((t, i, u) :: r, g)
      | _ :: _ => ((t, i, u) :: r, g)
      end
  end.

Definition set_recipients (s : sstate) (fill : list (nft * Z)) (before : Z) : sstate * list gev :=
  let '(l, g) := set_recipients_list (s_utxrs s) fill before in (set_utxrs s l, g).

Fixpoint nft_mem (n : nft) (l : list nft) : bool :=
  match l with [] => false | n' :: l' => nft_eqb n n' || nft_mem n l' end.

(* GetAllUniqueNftToVerify(before): first-seen order (after the repair of F13) *)
Fixpoint nfts_to_verify_acc (l : list (Z * Z * utxr)) (before : Z) (acc : list nft) : list nft :=
  match l with
  | [] => acc
  | (_, _, u) :: l' =>
      match u_recips u with
      | [] => if (u_created u <? before) && negb (nft_mem (u_nft u) acc)
              then nfts_to_verify_acc l' before (acc ++ [u_nft u])
              else nfts_to_verify_acc l' before acc
      | _ :: _ => nfts_to_verify_acc l' before acc
      end
  end.
Definition nfts_to_verify (s : sstate) (before : Z) : list nft := nfts_to_verify_acc (s_utxrs s) before [].

(* ---------- environment: things outside the modelled core ---------- *)
Inductive senv :=
| EnvBankSend (from to : Z) (denom : bytes) (amount : Z)     (* plain x/bank transfer *)
| EnvNftSet (contract token owner : Z).                      (* ERC-721 mint / transfer on this chain *)

Definition treasury_tid (a : Z) : option Z := if two160 <=? a then Some (a - two160) else None.

Definition apply_senv (s : sstate) (e : senv) : sstate * list gev :=
  match e with
  | EnvBankSend from to denom amount =>
      if (0 <? amount) && (amount <=? bal_get (s_bal s) from denom) && (from <? two160) then
        (set_bal s (bal_add (bal_add (s_bal s) from denom (- amount)) to denom amount),
         match treasury_tid to with Some tid => [GCredit tid denom amount] | None => [] end)
      else (s, [])
  | EnvNftSet c t o => (set_owners s (owner_set (s_owners s) c t o), [])
  end.
