(* Executable readings of the properties, evaluated on the IMPLEMENTATION's observations only
   (the history and the snapshots the harness took from the real application). A non-empty
   result is a concrete violation: (event index, clause). *)
From Settlus Require Import Base.Prelude Base.Hex Base.Dec Oracle.Arith Settlement.Model Oracle.Model Chain.Model Ante.Fee Exec.Run.

Definition snap_of_init (c : cstate) : snap :=
  mkSnap (c_h c) (c_s c) None (o_prevotes (c_o c)) (o_votes (c_o c)) (o_deleg (c_o c)) (o_miss (c_o c))
         (o_vals (c_o c)) (o_pool (c_o c)) [] [] true.

(* generic walk: [f k height prev block_events sn] is called at every end-block that has a snapshot,
   with the events of that block (begin .. end) *)
Fixpoint walk (f : Z -> snap -> list event -> list iobs -> snap -> list Z)
              (k : Z) (prev : snap) (blk : list event) (blko : list iobs)
              (es : list event) (os : list iobs) : list (Z * Z) :=
  match es, os with
  | e :: es', o :: os' =>
      match o with
      | IEnd _ (Some sn) =>
          map (fun c => (k, c)) (f k prev (blk ++ [e]) (blko ++ [o]) sn)
          ++ walk f (k + 1) sn [] [] es' os'
      | _ => walk f (k + 1) prev (blk ++ [e]) (blko ++ [o]) es' os'
      end
  | _, _ => []
  end.

Definition run_checker (f : case -> Z -> snap -> list event -> list iobs -> snap -> list Z) (c : case) : list (Z * Z) :=
  walk (f c) 0 (snap_of_init (cs_init c)) [] [] (cs_events c) (cs_obs c).

Definition failing (f : case -> list (Z * Z)) (cs : list case) : list (Z * list (Z * Z)) :=
  filter (fun x : Z * list (Z * Z) => match snd x with [] => false | _ => true end)
         (combine (map Z.of_nat (seq 0 (length cs))) (map f cs)).

Definition no_check (cs : list case) : list (Z * list (Z * Z)) := [].

Definition env_jailed (blk : list event) : list Z :=
  concat (map (fun e => match e with
                        | EvBegin envs => concat (map (fun x => match x with EO (EnvJail v) => [v] | _ => [] end) envs)
                        | _ => []
                        end) blk).

(* every crisis invariant holds after every block (C14, also a health check for the others) *)
Definition chk_invariants (c : case) (k : Z) (prev : snap) (blk : list event) (blko : list iobs) (sn : snap) : list Z :=
  if sn_inv sn then [] else [90].

(* ---------- C15 ---------- *)
Definition chk_C15 (c : case) (k : Z) (prev : snap) (blk : list event) (blko : list iobs) (sn : snap) : list Z :=
  let pr := o_params (c_o (cs_init c)) in
  let p := op_period pr in let w := op_window pr in let mx := op_maxmiss pr in
  let h := sn_h sn in
  let ej := env_jailed blk in
  if closes h p w then
    (match sn_miss sn with [] => [] | _ => [2] end)
    ++ (if forallb (fun v =>
            match zlookup (v_addr v) (sn_miss prev) with
            | Some m => if (mx <? m) && v_bonded v && negb (v_jailed v) && negb (memZ (v_addr v) ej)
                        then match find_val (sn_vals sn) (v_addr v) with
                             | Some v' => v_jailed v' && (v_tokens v' <=? v_tokens v)
                             | None => false
                             end
                        else true
            | None => true
            end) (sn_vals prev) then [] else [3])
  else
    (if forallb (fun v =>
          match find_val (sn_vals sn) (v_addr v) with
          | Some v' => (v_tokens v' =? v_tokens v)
                       && (implb (v_jailed v') (v_jailed v || memZ (v_addr v) ej))
          | None => false
          end) (sn_vals prev) then [] else [1])
    ++ (if forallb (fun m : Z * Z =>
              match zlookup (fst m) (sn_miss sn) with Some m' => snd m <=? m' | None => false end) (sn_miss prev)
        then [] else [4]).

Definition check_C15 := failing (run_checker chk_C15).
