(* Executable readings of the properties, evaluated on the IMPLEMENTATION's observations only
   (the history and the snapshots the harness took from the real application). A non-empty
   result is a concrete violation: (event index, clause). *)
From Settlus Require Import Base.Prelude Base.Hex Base.Dec Oracle.Arith Settlement.Model Oracle.Model Chain.Model Ante.Fee Exec.Run.

Definition snap_of_init (c : cstate) : snap :=
  mkSnap (c_h c) (c_s c) None (o_prevotes (c_o c)) (o_votes (c_o c)) (o_deleg (c_o c)) (o_miss (c_o c))
         (o_vals (c_o c)) (o_pool (c_o c)) [] [] [] [] true true.

(* generic walk: [f k height prev block_events sn] is called at every end-block that has a snapshot,
   with the events of that block (begin .. end) *)
Fixpoint walk (f : Z -> snap -> list event -> list iobs -> snap -> list Z)
              (k : Z) (prev : snap) (blk : list event) (blko : list iobs)
              (es : list event) (os : list iobs) : list (Z * Z) :=
  match es, os with
  | e :: es', o :: os' =>
      match o with
      | IEnd _ _ (Some sn) =>
          map (fun c => (k, c)) (f k prev (blk ++ [e]) (blko ++ [o]) sn)
          ++ walk f (k + 1) sn [] [] es' os'
      | _ => walk f (k + 1) prev (blk ++ [e]) (blko ++ [o]) es' os'
      end
  | _, _ => []
  end.

Definition run_checker (f : case -> Z -> snap -> list event -> list iobs -> snap -> list Z) (c : case) : list (Z * Z) :=
  walk (f c) 0 (snap_of_init (cs_init c)) [] [] (cs_events c) (cs_obs c).

Definition failing (f : case -> list (Z * Z)) (cs : list case) : list (Z * list (Z * Z)) :=
  filter (fun x : Z * list (Z * Z) => match snd x with [] => false | _ => true end)
         (combine (map Z.of_nat (seq 0 (length cs))) (map f cs)).

Definition no_check (cs : list case) : list (Z * list (Z * Z)) := [].

Definition env_jailed (blk : list event) : list Z :=
  concat (map (fun e => match e with
                        | EvBegin envs => concat (map (fun x => match x with EO (EnvJail v) => [v] | _ => [] end) envs)
                        | _ => []
                        end) blk).

(* validators whose stake the environment changed in this block (x/staking delegations: not the oracle's doing) *)
Definition env_restaked (blk : list event) : list Z :=
  concat (map (fun e => match e with
                        | EvBegin envs => concat (map (fun x => match x with EO (EnvSetTokens v _) => [v] | _ => [] end) envs)
                        | _ => []
                        end) blk).

(* validators that gave all of their stake back in this block: the staking end-block, which runs before the oracle's,
   takes them out of the bonded set - they are no longer "bonded" when a slash window closes in the same block *)
Definition env_emptied (blk : list event) : list Z :=
  concat (map (fun e => match e with
                        | EvBegin envs => concat (map (fun x => match x with EO (EnvSetTokens v t) => if t =? 0 then [v] else [] | _ => [] end) envs)
                        | _ => []
                        end) blk).

(* every crisis invariant holds after every block (C14, also a health check for the others) *)
Definition chk_invariants (c : case) (k : Z) (prev : snap) (blk : list event) (blko : list iobs) (sn : snap) : list Z :=
  if sn_inv sn then [] else [90].

(* ---------- C15 ---------- *)
Definition chk_C15 (c : case) (k : Z) (prev : snap) (blk : list event) (blko : list iobs) (sn : snap) : list Z :=
  let pr := o_params (c_o (cs_init c)) in
  let p := op_period pr in let w := op_window pr in let mx := op_maxmiss pr in
  let h := sn_h sn in
  let ej := env_jailed blk in
  if closes h p w then
    (match sn_miss sn with [] => [] | _ => [2] end)
    ++ (if forallb (fun v =>
            match zlookup (v_addr v) (sn_miss prev) with
            | Some m => if (mx <? m) && v_bonded v && negb (v_jailed v) && negb (memZ (v_addr v) ej)
                           && negb (memZ (v_addr v) (env_emptied blk))
                        then match find_val (sn_vals sn) (v_addr v) with
                             | Some v' => v_jailed v' && (v_tokens v' <=? v_tokens v)
                             | None => false
                             end
                        else true
            | None => true
            end) (sn_vals prev) then [] else [3])
  else
    (if forallb (fun v =>
          match find_val (sn_vals sn) (v_addr v) with
          | Some v' => ((v_tokens v' =? v_tokens v) || memZ (v_addr v) (env_restaked blk))
                       && (implb (v_jailed v') (v_jailed v || memZ (v_addr v) ej))
          | None => (v_tokens v =? 0) || memZ (v_addr v) (env_restaked blk)   (* x/staking removes an emptied validator *)
          end) (sn_vals prev) then [] else [1])
    ++ (if forallb (fun m : Z * Z =>
              match zlookup (fst m) (sn_miss sn) with Some m' => snd m <=? m' | None => false end) (sn_miss prev)
        then [] else [4]).

Definition check_C15 := failing (run_checker chk_C15).

(* ---------- settlement family: C01 C02 C09 C11 C12 ----------
   One pass over the implementation's observations. The picture of "what is pending / who is admin"
   is rebuilt from the implementation's OWN typed events and compared with its OWN snapshots and
   balances; the model is not consulted.  Codes:
     11 a record is resolved that is not pending (resolved twice / never recorded)
     12 a pending record (by the events) is missing from the stored records     13 a stored record was never recorded / is already resolved
     14 a settled record was not pending at the start of the block (paid in the block that recorded it)              15 treasury balance <> previous + credits - payouts
     21 paid before creation height + payout period                             22 cancel succeeded for a request id that is not pending
     31 record accepted for a request id that is still pending                  32 record id not larger than every earlier id of the tenant
     33 an accepted record / cancel reported no event                           34 by-request-id lookup disagrees with the pending set
     35 the stored request-id index and the stored records are not in bijection (an entry without its record: the request
        id can never be recorded again; or a record without its entry)
     41 privileged message accepted from a non-admin                            42 duplicate admin accepted   43 last admin removed
     44 admin list differs from the one the accepted messages produce           45 empty admin list or duplicates in it
     46 a block of rejected transactions changed tenants / records / balances
     51 records resolved in an end-block are not a prefix, in id order, of the tenant's queue
     52 head of the queue is mature and covered, no fault injected, yet it was not paid   53 mature record without recipients not dropped
     54 a record of a tenant whose token contract is a reserved address (every call to it fails) is reported settled *)
Record track := mkTr {
  tr_pend : list (Z * bytes * Z);
  tr_maxid : list (Z * Z);
  tr_admins : list (Z * list Z) }.

Definition pend_find (p : list (Z * bytes * Z)) (tid : Z) (req : bytes) : option Z := idx_get p tid req.
Definition pend_has_id (p : list (Z * bytes * Z)) (tid uid : Z) : bool :=
  existsb (fun x : Z * bytes * Z => (fst (fst x) =? tid) && (snd x =? uid)) p.
Definition pend_del_id (p : list (Z * bytes * Z)) (tid uid : Z) : list (Z * bytes * Z) :=
  filter (fun x : Z * bytes * Z => negb ((fst (fst x) =? tid) && (snd x =? uid))) p.
Definition admins_of (tr : track) (tid : Z) : list Z :=
  match zlookup tid (tr_admins tr) with Some l => l | None => [] end.
Definition tr_is_admin (tr : track) (tid sender : Z) : bool := memZ sender (admins_of tr tid).
Definition next_tid (tr : track) : Z := wrap64 (fold_left (fun acc x => Z.max acc (fst x)) (tr_admins tr) 0 + 1).

Definition init_track (c : cstate) : track :=
  let s := c_s c in
  mkTr (map (fun x : Z * Z * utxr => (fst (fst x), u_req (snd x), snd (fst x))) (s_utxrs s))
       (s_last s)
       (map (fun t => (t_id t, t_admins t)) (s_tenants s)).

(* one accepted message, with the events the transaction reported still to be consumed *)
Definition track_msg (acc : track * list iev * list Z) (m : smsg) : track * list iev * list Z :=
  let '(tr, evs, errs) := acc in
  let auth tid sender := if tr_is_admin tr tid sender then [] else [41] in
  match m with
  | MRecord sender tid req _ _ _ _ _ =>
      match evs with
      | (1, t, u) :: evs' =>
          let e := auth tid sender
                   ++ (if t =? tid then [] else [33])
                   ++ (match pend_find (tr_pend tr) tid req with Some _ => [31] | None => [] end)
                   ++ (match zlookup tid (tr_maxid tr) with Some mx => if mx <? u then [] else [32] | None => [] end) in
          (mkTr ((tid, req, u) :: tr_pend tr) (zinsert tid u (tr_maxid tr)) (tr_admins tr), evs', errs ++ e)
      | _ => (tr, evs, errs ++ [33])
      end
  | MCancel sender tid req =>
      match evs with
      | (2, t, u) :: evs' =>
          let e := auth tid sender
                   ++ (match pend_find (tr_pend tr) tid req with
                       | Some u' => if (u' =? u) && (t =? tid) then [] else [22]
                       | None => [22]
                       end)
                   ++ (if pend_has_id (tr_pend tr) t u then [] else [11]) in
          (mkTr (pend_del_id (tr_pend tr) tid u) (tr_maxid tr) (tr_admins tr), evs', errs ++ e)
      | _ => (tr, evs, errs ++ [33])
      end
  | MAddAdmin sender tid a =>
      let e := auth tid sender ++ (if tr_is_admin tr tid a then [42] else []) in
      (mkTr (tr_pend tr) (tr_maxid tr) (zinsert tid (admins_of tr tid ++ [a]) (tr_admins tr)), evs, errs ++ e)
  | MRemoveAdmin sender tid a =>
      let e := auth tid sender ++ (if lenZ (admins_of tr tid) <=? 1 then [43] else []) in
      (mkTr (tr_pend tr) (tr_maxid tr) (zinsert tid (remove_first a (admins_of tr tid)) (tr_admins tr)), evs, errs ++ e)
  | MUpdatePeriod sender tid _ => (tr, evs, errs ++ auth tid sender)
  | MCreateTenant sender _ _ | MCreateTenantMC sender _ _ _ _ =>
      (mkTr (tr_pend tr) (tr_maxid tr) (zinsert (next_tid tr) [sender] (tr_admins tr)), evs, errs)
  | MDeposit _ _ _ _ => (tr, evs, errs)
  end.

Definition track_tx (tr : track) (msgs : list smsg) (evs : list iev) : track * list Z :=
  let '(tr', rest, errs) := fold_left track_msg msgs (tr, evs, []) in
  (tr', errs ++ match rest with [] => [] | _ => [33] end).

Definition track_end_ev (acc : track * list Z) (e : iev) : track * list Z :=
  let '(tr, errs) := acc in
  let '(k, t, u) := e in
  if (k =? 3) || (k =? 4) then
    (mkTr (pend_del_id (tr_pend tr) t u) (tr_maxid tr) (tr_admins tr),
     errs ++ (if pend_has_id (tr_pend tr) t u then [] else [11]))
  else (tr, errs).

Fixpoint nodupZ (l : list Z) : bool :=
  match l with [] => true | x :: l' => negb (memZ x l') && nodupZ l' end.

Definition snap_vs_track (tr : track) (sn : snap) : list Z :=
  let s := sn_s sn in
  (if forallb (fun x : Z * bytes * Z =>
        match utxr_get (s_utxrs s) (fst (fst x)) (snd x) with
        | Some rc => bytes_eqb (u_req rc) (snd (fst x))
        | None => false
        end) (tr_pend tr) then [] else [12])
  ++ (if forallb (fun x : Z * Z * utxr =>
        match pend_find (tr_pend tr) (fst (fst x)) (u_req (snd x)) with
        | Some u => u =? snd (fst x)
        | None => false
        end) (s_utxrs s) then [] else [13])
  ++ (if forallb (fun l : Z * bytes * option Z =>
        option_eqb Z.eqb (pend_find (tr_pend tr) (fst (fst l)) (snd (fst l))) (snd l)) (sn_lookup sn) then [] else [34])
  ++ (if forallb (fun x : Z * bytes * Z =>
            match utxr_get (s_utxrs s) (fst (fst x)) (snd x) with
            | Some rc => bytes_eqb (u_req rc) (snd (fst x))
            | None => false
            end) (s_idx s)
         && forallb (fun x : Z * Z * utxr =>
              existsb (fun y : Z * bytes * Z => (fst (fst y) =? fst (fst x)) && bytes_eqb (snd (fst y)) (u_req (snd x))
                                                 && (snd y =? snd (fst x))) (s_idx s)) (s_utxrs s)
      then [] else [35])
  ++ (if forallb (fun t => list_eqb Z.eqb (t_admins t) (admins_of tr (t_id t))) (s_tenants s) then [] else [44])
  ++ (if forallb (fun t => nodupZ (t_admins t) && negb (lenZ (t_admins t) =? 0)) (s_tenants s) then [] else [45]).

Fixpoint bal_find (l : ledger) (a : Z) (d : bytes) : option Z :=
  match l with
  | [] => None
  | (a', d', v) :: l' => if (a =? a') && bytes_eqb d d' then Some v else bal_find l' a d
  end.

(* what a settled record pays in total: the split of its recipients; a record that had no
   recipients at the start of the block was filled by this block's tally with one owner *)
Definition settled_total (rc : utxr) : Z :=
  match u_recips rc with
  | [] => u_amount rc
  | _ => sumZ (map snd (payout_amounts rc))
  end.

(* the account the harness debits in the model for ERC-20 tokens minted to a treasury (an environment action):
   it is not an account of the implementation, its balance is unbounded *)
Definition erc20_minter : Z := two160 - 2.

Definition block_credits (prev : snap) (blk : list event) (blko : list iobs) (tid : Z) (d : bytes) : Z :=
  sumZ (map (fun eo : event * iobs =>
    match eo with
    | (EvBegin envs, _) =>
        sumZ (map (fun x => match x with
                            | ES (EnvBankSend from to d' a) =>
                                if (to =? treasury tid) && bytes_eqb d d' && (0 <? a)
                                   && ((a <=? bal_get (s_bal (sn_s prev)) from d') || (from =? erc20_minter))
                                   && (from <? two160) then a else 0
                            | _ => 0
                            end) envs)
    | (EvTx _ msgs, ITx COk _) =>
        sumZ (map (fun m => match m with
                            | MDeposit _ t d' a => if (t =? tid) && bytes_eqb d d' then a else 0
                            | _ => 0
                            end) msgs)
    | _ => 0
    end) (combine blk blko)).

Definition end_events_of (blko : list iobs) : list iev :=
  match last blko IBegin with IEnd _ evs _ => evs | _ => [] end.
Definition end_faults_of (blk : list event) : list bool :=
  match last blk (EvBegin []) with EvEnd f => f | _ => [] end.
Definition tx_events_of (blko : list iobs) : list iev :=
  concat (map (fun o => match o with ITx COk evs => evs | _ => [] end) blko).

Definition chk_treasury (prev : snap) (blk : list event) (blko : list iobs) (sn : snap) : list Z :=
  let h := sn_h sn in
  let evs := end_events_of blko in
  let settled := filter (fun e : iev => fst (fst e) =? 3) evs in
  (* 14 / 21 per settled record *)
  concat (map (fun e : iev =>
    let t := snd (fst e) in let u := snd e in
    match utxr_get (s_utxrs (sn_s prev)) t u with
    | None => [14]
    | Some rc =>
        match find_tenant (s_tenants (sn_s sn)) t with
        | Some tn => if u_created rc + t_period tn <=? h then [] else [21]
        | None => [14]
        end
    end) settled)
  ++ concat (map (fun tn =>
       if t_method tn =? 0 then
         concat (map (fun d =>
           match bal_find (s_bal (sn_s prev)) (treasury (t_id tn)) d, bal_find (s_bal (sn_s sn)) (treasury (t_id tn)) d with
           | Some b0, Some b1 =>
               let paid := sumZ (map (fun e : iev =>
                              if snd (fst e) =? t_id tn then
                                match utxr_get (s_utxrs (sn_s prev)) (t_id tn) (snd e) with
                                | Some rc => if bytes_eqb (u_denom rc) d then settled_total rc else 0
                                | None => 0
                                end
                              else 0) settled) in
               if b1 =? b0 + block_credits prev blk blko (t_id tn) d - paid then [] else [15]
           | _, _ => []
           end) [t_denom tn])
       else []) (s_tenants (sn_s sn))).

Definition ids_of_tenant (evs : list iev) (kinds : list Z) (tid : Z) : list Z :=
  map snd (filter (fun e : iev => memZ (fst (fst e)) kinds && (snd (fst e) =? tid)) evs).

Definition chk_fifo (prev : snap) (blk : list event) (blko : list iobs) (sn : snap) : list Z :=
  let h := sn_h sn in
  let evs := end_events_of blko in
  let faults := end_faults_of blk in
  let cancelled := tx_events_of blko in
  concat (map (fun tn =>
    let tid := t_id tn in
    let resolved_now := ids_of_tenant evs [3; 4] tid in
    let gone := ids_of_tenant cancelled [2] tid in
    let queue := filter (fun x : Z * utxr => negb (memZ (fst x) gone)) (utxrs_of (s_utxrs (sn_s prev)) tid) in
    let k := length resolved_now in
    (if list_eqb Z.eqb resolved_now (map fst (firstn k queue)) then [] else [51])
    (* 54: a tenant whose token contract fails every call (a reserved address, method 3) cannot have been paid: a record
       of it that is reported settled is lost, not deferred *)
    ++ (if (t_method tn =? 3) && negb (lenZ (ids_of_tenant evs [3] tid) =? 0) then [54] else [])
    ++ match nth_error queue k with
       | Some (uid, _) =>
           match utxr_get (s_utxrs (sn_s sn)) tid uid with
           | Some rc =>
               if forallb negb faults && mature rc (t_period tn) h then
                 match valid_recips (u_recips rc) with
                 | [] => [53]
                 | _ => if t_method tn =? 0 then
                          match bal_find (s_bal (sn_s sn)) (treasury tid) (u_denom rc) with
                          | Some b => if (sumZ (map snd (payout_amounts rc)) <=? b) && (u_amount rc * 4294967296 <? two256) then [52] else []
                          | None => []
                          end
                        else []
                 end
               else []
           | None => []
           end
       | None => []
       end) (s_tenants (sn_s sn))).

Definition block_all_rejected (blk : list event) (blko : list iobs) : bool :=
  forallb (fun eo : event * iobs =>
    match eo with
    | (EvBegin envs, _) => match envs with [] => true | _ => false end
    | (EvTx _ _, ITx c _) => negb (tclass_eqb c COk)
    | (EvOTx _, _) => true
    | (EvEnd _, IEnd _ evs _) => match evs with [] => true | _ => false end
    | _ => false
    end) (combine blk blko)
  && existsb (fun e => match e with EvTx _ _ => true | _ => false end) blk.

Definition chk_rejected_noop (prev : snap) (blk : list event) (blko : list iobs) (sn : snap) : list Z :=
  if block_all_rejected blk blko then
    if list_eqb tenant_eqb (s_tenants (sn_s prev)) (s_tenants (sn_s sn))
       && list_eqb utxr3_eqb (s_utxrs (sn_s prev)) (s_utxrs (sn_s sn))
       && forallb (fun b : Z * bytes * Z =>
             match bal_find (s_bal (sn_s sn)) (fst (fst b)) (snd (fst b)) with Some v => v =? snd b | None => true end)
           (s_bal (sn_s prev))
    then [] else [46]
  else [].

(* the walk: tracker threaded through all events; block checks at every snapshot *)
Fixpoint settle_walk (k : Z) (tr : track) (prev : snap) (first : bool) (blk : list event) (blko : list iobs)
                     (es : list event) (os : list iobs) : list (Z * Z) :=
  match es, os with
  | e :: es', o :: os' =>
      match e, o with
      | EvTx _ msgs, ITx COk evs =>
          let '(tr', errs) := track_tx tr msgs evs in
          map (fun c => (k, c)) errs ++ settle_walk (k + 1) tr' prev first (blk ++ [e]) (blko ++ [o]) es' os'
      | EvEnd _, IEnd _ evs (Some sn) =>
          let '(tr', errs) := fold_left track_end_ev evs (tr, []) in
          map (fun c => (k, c))
              (errs ++ snap_vs_track tr' sn
               ++ (if first then [] else chk_treasury prev (blk ++ [e]) (blko ++ [o]) sn
                                      ++ chk_fifo prev (blk ++ [e]) (blko ++ [o]) sn
                                      ++ chk_rejected_noop prev (blk ++ [e]) (blko ++ [o]) sn))
          ++ settle_walk (k + 1) tr' sn false [] [] es' os'
      | _, _ => settle_walk (k + 1) tr prev first (blk ++ [e]) (blko ++ [o]) es' os'
      end
  | _, _ => []
  end.

Definition settle_check (c : case) : list (Z * Z) :=
  settle_walk 0 (init_track (cs_init c)) (snap_of_init (cs_init c)) true [] [] (cs_events c) (cs_obs c).

Definition codes_in (lo hi : Z) (l : list (Z * Z)) : list (Z * Z) :=
  filter (fun x : Z * Z => (lo <=? snd x) && (snd x <=? hi)) l.

Definition check_C01 := failing (fun c => codes_in 11 19 (settle_check c)).
Definition check_C02 := failing (fun c => codes_in 21 29 (settle_check c) ++ codes_in 14 14 (settle_check c)).
Definition check_C12 := failing (fun c => codes_in 31 39 (settle_check c) ++ codes_in 12 13 (settle_check c)).
Definition check_C09 := failing (fun c => codes_in 41 49 (settle_check c)).
Definition check_C11 := failing (fun c => codes_in 51 59 (settle_check c) ++ codes_in 11 11 (settle_check c) ++ codes_in 15 15 (settle_check c)).
Definition check_settle := failing settle_check.

(* ---------- oracle family: C05 C08 C10 C14 ----------
   Ballots are rebuilt from the implementation's own accept / reject decisions; validators come from
   its own snapshots.  Codes:
     61 the set of records filled at a tally differs from: no recipients, created before the tallied round,
        owner accepted by threshold power of the distinct active validators that revealed it
     62 a filled record does not hold [(accepted owner, 1)]     63 recipients filled outside a tally block
     64 recipients that were already set were changed
     71 prevotes or votes are left after the tally block        72 stored round info is not the round of the next height
     73 prevote accepted with a wrong round id or after the prevote window
     74 vote accepted with a wrong round id, or not opening the validator's latest unopened prevote of this round
     90 a registered crisis invariant is broken                  91 credited total <> validators' credits + community pool credit
     92 credits of an end-block are not a whole number of coins (the module account cannot cover them)
     75 prevote / vote accepted from an account that is neither the validator's operator nor the feeder named by the
      validator's latest accepted consent (C03) *)
Record otrack := mkOT { ot_prevotes : list (Z * bytes); ot_votes : list (Z * votedata) }.

(* the feeder a validator currently consents to, from the accepted consent messages alone *)
Definition dtrack_ok (d : list (Z * Z)) (feeder val : Z) : bool :=
  (feeder =? val) || match zlookup val d with Some f => feeder =? f | None => false end.

Definition otrack_tx (h p : Z) (ot : otrack) (m : omsg) : otrack * list Z :=
  match m with
  | MPrevote _ val commit rid =>
      (mkOT (zinsert val commit (ot_prevotes ot)) (ot_votes ot),
       if (rid =? rstart h p) && (h <=? prevote_end h p) then [] else [73])
  | MVote _ val vd salt rid =>
      (mkOT (zremove val (ot_prevotes ot)) (zinsert val vd (ot_votes ot)),
       if (rid =? rstart h p) &&
          match zlookup val (ot_prevotes ot) with Some c => bytes_eqb c (preimage salt vd) | None => false end
       then [] else [74])
  | MConsent _ _ => (ot, [])
  end.

Definition vals_at_end (prev : snap) (blk : list event) (pr : oparams) : ostate :=
  let o0 := mkO pr None [] [] [] [] (sn_vals prev) [] [] in
  let envs := concat (map (fun e => match e with EvBegin es => es | _ => [] end) blk) in
  staking_end (fold_left (fun o e => match e with EO x => apply_oenv o x | _ => o end) envs o0).

Definition recips_eqb (a b : list recipient) : bool := list_eqb recip_eqb a b.

Definition chk_tally (pr : oparams) (ot : otrack) (prev : snap) (blk : list event) (blko : list iobs) (sn : snap) : list Z :=
  let p := op_period pr in
  let h := sn_h sn in
  let evs := end_events_of blko in
  let filled := filter (fun e : iev => fst (fst e) =? 5) evs in
  let cancelled := tx_events_of blko in
  (* never overwritten *)
  (if forallb (fun x : Z * Z * utxr =>
        match u_recips (snd x), utxr_get (s_utxrs (sn_s sn)) (fst (fst x)) (snd (fst x)) with
        | _ :: _, Some rc => recips_eqb (u_recips rc) (u_recips (snd x))
        | _, _ => true
        end) (s_utxrs (sn_s prev)) then [] else [64])
  ++
  if is_tally h p && negb (rstart h p =? 0) then
    let o := vals_at_end prev blk pr in
    let ob := set_votes o (ot_votes ot) in
    let res := tally_results (claims ob) (all_ballots ob) (threshold_votes ob) in
    let eligible := filter (fun x : Z * Z * utxr =>
          match u_recips (snd x) with
          | [] => (u_created (snd x) <? rstart h p)
                  && negb (existsb (fun e : iev => (fst (fst e) =? 2) && (snd (fst e) =? fst (fst x)) && (snd e =? snd (fst x))) cancelled)
                  && match fill_get res (u_nft (snd x)) with Some _ => true | None => false end
          | _ => false
          end) (s_utxrs (sn_s prev)) in
    (if list_eqb iev_eqb filled (map (fun x : Z * Z * utxr => (5, fst (fst x), snd (fst x))) eligible) then [] else [61])
    ++ (if forallb (fun x : Z * Z * utxr =>
            match utxr_get (s_utxrs (sn_s sn)) (fst (fst x)) (snd (fst x)), fill_get res (u_nft (snd x)) with
            | Some rc, Some ow => recips_eqb (u_recips rc) [mkRecip ow 1]
            | _, _ => true
            end) eligible then [] else [62])
  else
    match filled with [] => [] | _ => [63] end.

Definition chk_round (pr : oparams) (sn : snap) : list Z :=
  let p := op_period pr in
  let h := sn_h sn in
  (if is_tally h p then
     match sn_prevotes sn, sn_votes sn with [], [] => [] | _, _ => [71] end
   else [])
  ++ match sn_round sn with
     | Some (id, pe, ve, _) =>
         if (id =? rstart (h + 1) p) && (pe =? prevote_end (h + 1) p) && (ve =? vote_end (h + 1) p) then [] else [72]
     | None => [72]
     end.

Definition chk_books (sn : snap) : list Z :=
  (if sn_inv sn then [] else [90])
  ++ (if negb (sn_books sn) then [] else
      if forallb (fun c : bytes * Z =>
          snd c =? sumZ (map (fun x : Z * bytes * Z => if bytes_eqb (snd (fst x)) (fst c) then snd x else 0) (sn_owed_val sn))
                   + coin_get (sn_owed_comm sn) (fst c)) (sn_owed sn)
         && forallb (fun x : Z * bytes * Z =>
              existsb (fun c : bytes * Z => bytes_eqb (fst c) (snd (fst x))) (sn_owed sn) || (snd x =? 0)) (sn_owed_val sn)
      then [] else [91])
  ++ (if negb (sn_books sn) || forallb (fun c : bytes * Z => snd c mod prec =? 0) (sn_owed sn) then [] else [92]).

Fixpoint oracle_walk (pr : oparams) (k : Z) (h : Z) (ot : otrack) (prev : snap) (blk : list event) (blko : list iobs)
                     (es : list event) (os : list iobs) : list (Z * Z) :=
  match es, os with
  | e :: es', o :: os' =>
      match e, o with
      | EvBegin _, _ => oracle_walk pr (k + 1) (h + 1) ot prev (blk ++ [e]) (blko ++ [o]) es' os'
      | EvOTx m, ITx COk _ =>
          let '(ot', errs) := otrack_tx h (op_period pr) ot m in
          map (fun c => (k, c)) errs ++ oracle_walk pr (k + 1) h ot' prev (blk ++ [e]) (blko ++ [o]) es' os'
      | EvEnd _, IEnd _ _ (Some sn) =>
          map (fun c => (k, c)) (chk_tally pr ot prev (blk ++ [e]) (blko ++ [o]) sn ++ chk_round pr sn ++ chk_books sn)
          ++ oracle_walk pr (k + 1) h (if is_tally h (op_period pr) then mkOT [] [] else ot) sn [] [] es' os'
      | _, _ => oracle_walk pr (k + 1) h ot prev (blk ++ [e]) (blko ++ [o]) es' os'
      end
  | _, _ => []
  end.

(* authorisation and completeness of the oracle handlers, from the implementation's trace alone:
   d = latest accepted consent per validator, pv = latest accepted unopened prevote per validator (emptied by the tally),
   prev = the snapshot of the previous end-block (bonded status during this block, supported chains).
   75 accepted although unauthorised; 76 an authorised, in-window prevote with the current round id was rejected;
   77 an authorised vote with the current round id and well-formed entries that opens the validator's prevote was rejected *)
Definition active_val (prev : snap) (val : Z) : bool :=
  match find_val (sn_vals prev) val with Some v => v_bonded v | None => false end.

Fixpoint auth_walk (p : Z) (k h : Z) (d : list (Z * Z)) (pv : list (Z * bytes)) (prev : snap)
                   (es : list event) (os : list iobs) : list (Z * Z) :=
  match es, os with
  | e :: es', o :: os' =>
      match e, o with
      | EvBegin _, _ => auth_walk p (k + 1) (h + 1) d pv prev es' os'
      | EvEnd _, IEnd _ _ (Some sn) => auth_walk p (k + 1) h d (if is_tally h p then [] else pv) sn es' os'
      | EvOTx (MConsent val feeder), ITx COk _ => auth_walk p (k + 1) h (zinsert val feeder d) pv prev es' os'
      | EvOTx (MPrevote feeder val commit rid), ITx cl _ =>
          let auth := dtrack_ok d feeder val in
          let should := auth && active_val prev val && (rid =? rstart h p) && (h <=? prevote_end h p) in
          match cl with
          | COk => (if auth then [] else [(k, 75)]) ++ auth_walk p (k + 1) h d (zinsert val commit pv) prev es' os'
          | _ => (if should then [(k, 76)] else []) ++ auth_walk p (k + 1) h d pv prev es' os'
          end
      | EvOTx (MVote feeder val vd salt rid), ITx cl _ =>
          let auth := dtrack_ok d feeder val in
          let should := auth && active_val prev val && (rid =? rstart h p)
                        && validate_vote_data vd (s_supported (sn_s prev))
                        && match zlookup val pv with Some c => bytes_eqb c (preimage salt vd) | None => false end in
          match cl with
          | COk => (if auth then [] else [(k, 75)]) ++ auth_walk p (k + 1) h d (zremove val pv) prev es' os'
          | _ => (if should then [(k, 77)] else []) ++ auth_walk p (k + 1) h d pv prev es' os'
          end
      | _, _ => auth_walk p (k + 1) h d pv prev es' os'
      end
  | _, _ => []
  end.
Definition auth_check (c : case) : list (Z * Z) :=
  auth_walk (op_period (o_params (c_o (cs_init c)))) 0 (c_h (cs_init c)) (o_deleg (c_o (cs_init c)))
            (o_prevotes (c_o (cs_init c))) (snap_of_init (cs_init c)) (cs_events c) (cs_obs c).
Definition check_C03_chain := failing (fun c => codes_in 75 75 (auth_check c)).

Definition oracle_check (c : case) : list (Z * Z) :=
  oracle_walk (o_params (c_o (cs_init c))) 0 (c_h (cs_init c)) (mkOT [] []) (snap_of_init (cs_init c)) [] []
              (cs_events c) (cs_obs c).

Definition check_oracle := failing oracle_check.
Definition check_C05 := failing (fun c => codes_in 61 62 (oracle_check c)).
(* C10, first clause: a payment for an NFT on THIS chain gets the NFT's owner at record time as its recipient, and is
   refused when the NFT has no owner.  The owners are the environment's (mints and transfers of the history, applied in
   the begin phase of a block), the token is the one the MESSAGE names, all 256 bits of it.
     65 a record for an NFT on this chain was accepted and is pending at the end of its block with recipients other than
        [(owner of that token when the block began, 1)]
     66 a record for an NFT on this chain was accepted although nobody owns that token *)
Definition c10_one (chain : bytes) (owners : list (Z * Z * Z)) (sn : snap) (m : smsg) : list Z :=
  match m with
  | MRecord _ tid req _ _ ch contract tok =>
      if negb (bytes_eqb ch chain) then [] else
      match owner_get owners (hex_to_address contract) (hex_to_hash tok) with
      | None => [66]
      | Some o =>
          if o =? 0 then [66] else
          if forallb (fun x : Z * Z * utxr =>
               if (fst (fst x) =? tid) && bytes_eqb (u_req (snd x)) req
               then recips_eqb (u_recips (snd x)) [mkRecip o 1] else true) (s_utxrs (sn_s sn))
          then [] else [65]
      end
  | _ => []
  end.
Fixpoint c10_walk (chain : bytes) (k : Z) (owners : list (Z * Z * Z)) (pend : list (Z * smsg))
    (es : list event) (os : list iobs) : list (Z * Z) :=
  match es, os with
  | e :: es', o :: os' =>
      match e, o with
      | EvBegin envs, _ =>
          let owners' := fold_left (fun l x => match x with ES (EnvNftSet c t w) => owner_set l c t w | _ => l end) envs owners in
          c10_walk chain (k + 1) owners' pend es' os'
      | EvTx _ msgs, ITx COk _ => c10_walk chain (k + 1) owners (pend ++ map (fun m => (k, m)) msgs) es' os'
      | EvEnd _, IEnd _ _ (Some sn) =>
          concat (map (fun x : Z * smsg => map (fun code => (fst x, code)) (c10_one chain owners sn (snd x))) pend)
          ++ c10_walk chain (k + 1) owners [] es' os'
      | _, _ => c10_walk chain (k + 1) owners pend es' os'
      end
  | _, _ => []
  end.
Definition c10_check (c : case) : list (Z * Z) :=
  c10_walk (s_chain (c_s (cs_init c))) 0 (s_owners (c_s (cs_init c))) [] (cs_events c) (cs_obs c).
Definition check_C10 := failing (fun c => codes_in 61 64 (oracle_check c) ++ c10_check c).
(* 78 in the first block of a chain restarted from an export (height H), a prevote or a vote was accepted although its
      round id is not the round of H, or a prevote although H is past the prevote window: the restarted chain must
      publish the round of its first block, whatever the alignment of H with the rounds *)
Definition count_begins (es : list event) : Z := lenZ (filter (fun e => match e with EvBegin _ => true | _ => false end) es).
Definition restart_check (c : case) : list (Z * Z) :=
  let p := op_period (o_params (c_o (cs_init c))) in
  let h := c_h (cs_init c) + count_begins (cs_events c) + 1 in
  let k := lenZ (cs_events c) in
  concat (map (fun pc : omsg * tclass =>
    match pc with
    | (MPrevote _ _ _ rid, COk) => if (rid =? rstart h p) && (h <=? prevote_end h p) then [] else [(k, 78)]
    | (MVote _ _ _ _ rid, COk) => if rid =? rstart h p then [] else [(k, 78)]
    | _ => []
    end) (cs_restart c)).
Definition check_C08 := failing (fun c => codes_in 71 79 (oracle_check c ++ auth_check c ++ restart_check c)).
Definition check_C14 := failing (fun c => codes_in 90 99 (oracle_check c)).

(* ---------- C19: the NFT stored for an accepted record message is the NFT submitted ----------
   25 a record accepted in this block is pending at its end with another chain id, with a contract address other than
      the number its 40 hex digits denote (any prefix spelling, any casing), or - for a token id "0x" + digits below
      2^160 - with another token number *)
Definition spec_hexnum (s : bytes) : Z := fold_left (fun acc c => acc * 16 + match hexval c with Some v => v | None => 0 end) s 0.
Definition spec_digits (s : bytes) : bytes := if has0x s then drop2 s else s.
Definition spec_plain_token (t : bytes) : option Z :=
  match t with
  | a :: b :: ds => if (a =? c_0) && (b =? c_x) && negb (lenZ ds =? 0) && forallb is_hex_char ds && (spec_hexnum ds <? two160)
                    then Some (spec_hexnum ds) else None
  | _ => None
  end.
Definition c19_one (sn : snap) (m : smsg) : bool :=
  match m with
  | MRecord _ tid req _ _ chain contract tok =>
      forallb (fun x : Z * Z * utxr =>
        if (fst (fst x) =? tid) && bytes_eqb (u_req (snd x)) req then
          bytes_eqb (n_chain (u_nft (snd x))) chain
          && (negb (is_hex_address contract) || (n_contract (u_nft (snd x)) =? spec_hexnum (spec_digits contract)))
          && match spec_plain_token tok with Some v => n_token (u_nft (snd x)) =? v | None => true end
        else true) (s_utxrs (sn_s sn))
  | _ => true
  end.
Fixpoint c19_walk (k : Z) (pend : list (Z * smsg)) (es : list event) (os : list iobs) : list (Z * Z) :=
  match es, os with
  | e :: es', o :: os' =>
      match e, o with
      | EvTx _ msgs, ITx COk _ =>
          (* a request id that is cancelled, or cancelled and recorded again, later in the same block (or transaction):
             the record pending at the end of the block is the LAST one recorded under it *)
          let same_req (m : smsg) (x : Z * smsg) :=
            match snd x, m with
            | MRecord _ tid req _ _ _ _ _, MRecord _ tid' req' _ _ _ _ _
            | MRecord _ tid req _ _ _ _ _, MCancel _ tid' req' => (tid =? tid') && bytes_eqb req req'
            | _, _ => false
            end in
          c19_walk (k + 1) (fold_left (fun p m => filter (fun x => negb (same_req m x)) p ++ [(k, m)]) msgs pend) es' os'
      | EvEnd _, IEnd _ _ (Some sn) =>
          map (fun x : Z * smsg => (fst x, 25)) (filter (fun x : Z * smsg => negb (c19_one sn (snd x))) pend)
          ++ c19_walk (k + 1) [] es' os'
      | _, _ => c19_walk (k + 1) pend es' os'
      end
  | _, _ => []
  end.
(* 26 a record of the implementation's OWN state that is pending without recipients after an end-block and was created
      before the round that is ending is not among the NFTs presented to the feeders (the sources of the stored round
      info) under its stored identity: chain id, contract, token - two records for one contract and token on different
      chains are two NFTs.  (The settlement end-block runs after the oracle's and only removes records: what is pending
      afterwards was pending when the sources were listed.) *)
Fixpoint c19_sources (o : ostate) (k : Z) (os : list iobs) : list (Z * Z) :=
  match os with
  | [] => []
  | ob :: os' =>
      (match ob with
       | IEnd COk _ (Some sn) =>
           match sn_round sn with
           | Some (_, _, _, src) =>
               let want := rd_sources (next_round o (sn_s sn) (sn_h sn)) in
               if forallb (fun n => existsb (fun x => option_eqb nft_eqb x (Some n)) (map parse_nft_id src)) want
               then [] else [(k, 26)]
           | None => []
           end
       | _ => []
       end) ++ c19_sources o (k + 1) os'
  end.
Definition check_C19 := failing (fun c => c19_walk 0 [] (cs_events c) (cs_obs c) ++ c19_sources (c_o (cs_init c)) 0 (cs_obs c)).

(* ---------- C06: panics observed on the implementation ----------
   80 a transaction ended with the SDK panic error (a handler panicked and baseapp recovered)
   81 BeginBlock / EndBlock panicked: every node halts at this height *)
Fixpoint panic_walk (k : Z) (os : list iobs) : list (Z * Z) :=
  match os with
  | [] => []
  | o :: os' =>
      (match o with
       | ITx CPanic _ => [(k, 80)]
       | IEnd CPanic _ _ => [(k, 81)]
       | _ => []
       end) ++ panic_walk (k + 1) os'
  end.
Definition check_C06 := failing (fun c => panic_walk 0 (cs_obs c)).

(* ---------- C07: two executions of the same history on the implementation ----------
   95 the app hashes committed after this end-block differ between the two executions *)
Definition check_C07 := failing (fun c => map (fun k => (k, 95)) (cs_hashdiff c)).

(* ---------- C17: export of the final state imported into a fresh application ----------
   96 InitChain of the fresh application panicked (or the export failed)
   97 tenants / pending records / by-request-id lookups / ballots / delegations / miss counters differ
      from the state that was exported      98 exporting again gives another genesis document *)
Fixpoint last_snap (os : list iobs) (acc : option snap) : option snap :=
  match os with
  | [] => acc
  | IEnd _ _ (Some sn) :: os' => last_snap os' (Some sn)
  | _ :: os' => last_snap os' acc
  end.

Definition lookup_eqb (a b : Z * bytes * option Z) : bool :=
  (fst (fst a) =? fst (fst b)) && bytes_eqb (snd (fst a)) (snd (fst b)) && option_eqb Z.eqb (snd a) (snd b).

Definition chk_C17 (c : case) : list (Z * Z) :=
  let k := Z.of_nat (length (cs_events c)) in
  match cs_reimport c with
  | None => []
  | Some (cls, sn, same) =>
      (if tclass_eqb cls COk then [] else [(k, 96)])
      ++ (match sn, last_snap (cs_obs c) None with
          | Some a, Some b =>
              if list_eqb tenant_eqb (s_tenants (sn_s a)) (s_tenants (sn_s b))
                 && list_eqb utxr3_eqb (s_utxrs (sn_s a)) (s_utxrs (sn_s b))
                 && list_eqb lookup_eqb (sn_lookup a) (sn_lookup b)
                 && list_eqb zb_eqb (sn_prevotes a) (sn_prevotes b)
                 && list_eqb zvd_eqb (sn_votes a) (sn_votes b)
                 && list_eqb zz_eqb (sn_deleg a) (sn_deleg b)
                 && list_eqb zz_eqb (sn_miss a) (sn_miss b)
              then [] else [(k, 97)]
          | _, _ => []
          end)
      ++ (if tclass_eqb cls COk && negb same then [(k, 98)] else [])
  end.
Definition check_C17 := failing chk_C17.

(* ---------- C13: the same history executed without the other tenants' transactions ----------
   85 something observable about tenant 1 differs between the two executions *)
Definition check_C13 := failing (fun c => map (fun k => (k, 85)) (cs_isodiff c)).
