(* Correspondence for the pure functions: the harness prints (arguments, what the Go function
   returned); these comparators evaluate the model on the same arguments. *)
From Settlus Require Import Base.Prelude Base.Hex Base.Dec Oracle.Arith.

Definition indexed_failures {A} (f : A -> list Z) (l : list A) : list (Z * list (Z * Z)) :=
  filter (fun x : Z * list (Z * Z) => match snd x with [] => false | _ => true end)
         (combine (map Z.of_nat (seq 0 (length l))) (map (fun a => map (fun c => (0, c)) (f a)) l)).

(* ---------- round arithmetic / slash window ---------- *)
Record arith_case := mkAC {
  ac_h : Z; ac_p : Z; ac_w : Z; ac_mm : Z;
  ac_vp : option (Z * Z); ac_rs : option Z; ac_closing : bool; ac_valid : bool }.

Definition zz_opt_eqb (a b : option (Z * Z)) : bool :=
  match a, b with
  | None, None => true
  | Some (x, y), Some (x', y') => (x =? x') && (y =? y')
  | _, _ => false
  end.

Definition arith_cmp (c : arith_case) : list Z :=
  (if zz_opt_eqb (vote_period_i (ac_h c) (ac_p c)) (ac_vp c) then [] else [1])
  ++ (if option_eqb Z.eqb (round_start_u (ac_h c) (ac_p c)) (ac_rs c) then [] else [2])
  ++ (if Bool.eqb (window_closing_u (ac_h c) (ac_p c) (ac_w c)) (ac_closing c) then [] else [3])
  ++ (if Bool.eqb (valid_params (ac_p c) (ac_w c) (ac_mm c)) (ac_valid c) then [] else [4]).
Definition arith_mismatches := indexed_failures arith_cmp.

(* property reading on the implementation's answers alone, for parameter sets it accepts:
   the gate opens exactly when a boundary k*w (k>=1) lies in (h-2p, h]; round ends are start+p-1 / start+2p-1 *)
Definition has_boundary (h p w : Z) : bool :=
  (0 <? w) && (1 <=? h / w) && (h - 2 * p <? (h / w) * w).
Definition arith_prop (c : arith_case) : list Z :=
  if ac_valid c && (0 <=? ac_h c) && (ac_h c <? two63 / 4) then
    (if Bool.eqb (ac_closing c) (has_boundary (ac_h c) (ac_p c) (ac_w c)) then [] else [11])
    ++ (match ac_vp c, ac_rs c with
        | Some (pe, ve), Some s =>
            if (pe =? s + ac_p c - 1) && (ve =? s + 2 * ac_p c - 1) && (s <=? ac_h c) && (ac_h c <=? ve)
               && (s mod (2 * ac_p c) =? 0) then [] else [12]
        | _, _ => [13]
        end)
  else [].
Definition arith_check := indexed_failures arith_prop.

Definition nocheck {A} (l : list A) : list (Z * list (Z * Z)) := [].
