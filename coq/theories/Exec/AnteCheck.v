(* Correspondence and property checks for the ante family (C03, C04, C16): the harness prints the shape
   of a transaction, the oracle state the feeder check reads, and what the implementation did. *)
From Settlus Require Import Base.Prelude Base.Hex Base.Dec Settlement.Model Oracle.Model Chain.Model Ante.Fee Ante.Model Exec.FuncCheck.

Record acase := mkACase {
  ac_o : ostate; ac_h : Z; ac_msgs : list tmsg; ac_fee_payer : Z; ac_signers : list Z;
  ac_offered : list (bytes * Z); ac_fp : feeparams; ac_gas : Z;
  ac_expect_fail : bool;     (* the generator made the (admitted) messages fail in their handler: not an admin *)
  ac_class : tclass; ac_oracle_changed : bool; ac_settle_changed : bool; ac_val_added : bool;
  ac_payer_delta : list (bytes * Z); ac_coll_delta : list (bytes * Z); ac_pool_delta : list (bytes * Z);
  ac_gas_used : Z;
  (* the fee granter named by the transaction; the allowance it has given the payer (None: none, Some None: without
     limit, Some (Some l): spend limit l); [ac_payer_delta] is the delta of the account that has to pay (the granter
     when one is named); [ac_payer_untouched]: a payer that is not that account was not debited *)
  ac_granter : option Z; ac_allowance : option (option (list (bytes * Z))); ac_payer_untouched : bool }.

Definition smsgs_of (ms : list tmsg) : list smsg :=
  concat (map (fun m => match m with TLeaf (LSettle s) => [s] | _ => [] end) ms).

Definition charge (c : acase) : option (bytes * Z) :=
  pick_fee (fp_prices (ac_fp c)) (ac_offered c) (gas_cost (smsgs_of (ac_msgs c))).

(* UseGrantedFees is asked for the fee that is charged: the fixed fee of a settlement transaction (generated cases name
   a granter on the settlus route only) *)
Definition grant_ok (c : acase) : bool :=
  match ac_granter c with
  | None => true
  | Some g =>
      (* an oracle transaction pays nothing and skips the fee decorator altogether: a granter it names is never asked *)
      if is_oracle_tx (ac_msgs c) then true else
      if g =? ac_fee_payer c then true
      else match ac_allowance c with
           | None => false
           | Some None => true
           | Some (Some lim) =>
               match charge c with
               | Some (d, fee) => fee <=? coin_get lim d
               | None => true        (* refused by the fee rule before the allowance is looked at *)
               end
           end
  end.

Definition ac_tx (c : acase) : txctx :=
  mkTx (ac_msgs c) (ac_fee_payer c) (ac_signers c)
       (match charge c with Some _ => true | None => false end) (grant_ok c).

(* every message of a generated case is built so that its handler succeeds: admitted <-> code 0 *)
Definition ante_cmp (c : acase) : list Z :=
  let adm := admits (ac_o c) (ac_h c) (ac_tx c) in
  (if tclass_eqb (ac_class c) (if adm && negb (ac_expect_fail c) then COk else CRejected) then [] else [1])
  ++ (if adm && is_settlement_tx (ac_msgs c) then
        match charge c with
        | Some (d, fee) =>
            let '(coll, pool) := split_fee (fp_q (ac_fp c)) fee in
            (if (coin_get (ac_coll_delta c) d =? coll) && (coin_get (ac_pool_delta c) d =? pool) then [] else [6])
            ++ (if negb (tclass_eqb (ac_class c) COk) || (ac_gas_used c =? gas_cost (smsgs_of (ac_msgs c))) then [] else [8])
        | None => []
        end
      else [])
  ++ (if adm then [] else
        (if ac_oracle_changed c || ac_settle_changed c || ac_val_added c then [2] else [])).
Definition ante_mismatches := indexed_failures ante_cmp.

(* ---------- the properties, read on the implementation's answers alone ---------- *)
Definition authorised_b (o : ostate) (signers : list Z) (m : omsg) : bool :=
  match m with
  | MPrevote _ v _ _ | MVote _ v _ _ _ => existsb (fun a => validate_feeder o a v) signers
  | MConsent v _ => memZ v signers
  end.

(*  3 an oracle message was executed (code 0) in a transaction not signed by the validator's operator or feeder
    4 a create-validator message was executed after genesis
    5 a settlement message was executed in a transaction that is not a pure settlement transaction
    6 a pure settlement transaction was accepted but the payer was not charged the fixed fee in the first
      covered denomination, split floor(f(1-q)) / floor(f q) between collector and oracle pool
    7 ... or was charged although it was rejected by the fee rule      8 gas used <> fixed gas cost
    9 a fee granter was named and the fee payer was debited as well *)
Definition fee_charged_ok (c : acase) : list Z :=
  match charge c with
  | Some (d, fee) =>
      let '(coll, pool) := split_fee (fp_q (ac_fp c)) fee in
      if (coin_get (ac_coll_delta c) d =? coll) && (coin_get (ac_pool_delta c) d =? pool)
         && (coin_get (ac_payer_delta c) d =? - (coll + pool))
         && forallb (fun x : bytes * Z => bytes_eqb (fst x) d || (snd x =? 0)) (ac_coll_delta c)
         && forallb (fun x : bytes * Z => bytes_eqb (fst x) d || (snd x =? 0)) (ac_pool_delta c)
      then (if negb (tclass_eqb (ac_class c) COk) || (ac_gas_used c =? gas_cost (smsgs_of (ac_msgs c))) then [] else [8])
           ++ (if ac_payer_untouched c then [] else [9])
      else [6]
  | None => [6]
  end.

Definition ante_prop (c : acase) : list Z :=
  match ac_class c with
  | COk =>
      let ls := leaves_list (ac_msgs c) in
      (if forallb (fun x => match x with LOracle m => authorised_b (ac_o c) (ac_signers c) m | _ => true end) ls then [] else [3])
      ++ (if existsb (fun x => url_eqb (url_of x) UCreateValidator) ls && negb (ac_h c =? 0) then [4] else [])
      ++ (if existsb (fun x => is_settlement_url (url_of x)) ls && negb (is_settlement_tx (ac_msgs c)) then [5] else [])
      ++ (if is_settlement_tx (ac_msgs c) then fee_charged_ok c else [])
  | _ =>
      if is_settlement_tx (ac_msgs c) then
        match charge c with
        | None => (match ac_coll_delta c, ac_pool_delta c with [], [] => [] | _, _ => [7] end)
        | Some _ =>
            (* charged although the messages failed - unless the ante handler itself refused the transaction because
               the fee granter it names has given no sufficient allowance: then nothing may have been taken *)
            if ac_expect_fail c then
              if grant_ok c then fee_charged_ok c
              else (match ac_coll_delta c, ac_pool_delta c with [], [] => [] | _, _ => [7] end)
            else []
        end
      else []
  end.
Definition ante_check := indexed_failures ante_prop.
Definition ante_check_C03 (l : list acase) := indexed_failures (fun c => filter (fun x => x =? 3) (ante_prop c)) l.
Definition ante_check_C04 (l : list acase) := indexed_failures (fun c => filter (fun x => (x =? 4) || (x =? 5)) (ante_prop c)) l.
Definition ante_check_C16 (l : list acase) := indexed_failures (fun c => filter (fun x => (6 <=? x) && (x <=? 9)) (ante_prop c)) l.
