(* Correspondence runner: evaluates the model on a history and compares it, observation by
   observation, with what the implementation did (as printed by the harness). *)
From Settlus Require Import Base.Prelude Base.Hex Base.Dec Oracle.Arith Settlement.Model Oracle.Model Chain.Model Genesis.Model.

Record snap := mkSnap {
  sn_h : Z;
  sn_s : sstate;
  sn_round : option (Z * Z * Z * list bytes);
  sn_prevotes : list (Z * bytes);
  sn_votes : list (Z * votedata);
  sn_deleg : list (Z * Z);
  sn_miss : list (Z * Z);
  sn_vals : list validator;
  sn_pool : list (bytes * Z);
  sn_owed : list (bytes * Z);                 (* change of (outstanding + community pool) over the end-block, Dec *)
  sn_owed_val : list (Z * bytes * Z);         (* change of each validator's outstanding rewards over the end-block, Dec *)
  sn_owed_comm : list (bytes * Z);            (* change of the community pool over the end-block, Dec *)
  sn_lookup : list (Z * bytes * option Z);    (* by-request-id query for every request id ever used *)
  sn_inv : bool;                              (* all registered crisis invariants hold *)
  sn_books : bool                             (* the three sn_owed* observations show the oracle's doing only: false when
                                                 x/staking removed a validator in this end-block and the distribution hook
                                                 moved its outstanding rewards in the same ABCI call *)
}.

(* typed settlement events as (kind, tenant, record id):
   1 EventRecord, 2 EventCancel of a transaction, 3 EventSettled,
   4 EventCancel of the end-blocker (record dropped at maturity), 5 EventSetRecipients *)
Definition iev := (Z * Z * Z)%type.
Definition iev_eqb (a b : iev) : bool :=
  (fst (fst a) =? fst (fst b)) && (snd (fst a) =? snd (fst b)) && (snd a =? snd b).
Definition gev_code (g : gev) : list iev :=
  match g with
  | GRecorded t u _ => [(1, t, u)]
  | GCancelled t u => [(2, t, u)]
  | GPaid t u _ _ _ _ _ => [(3, t, u)]
  | GDropped t u => [(4, t, u)]
  | GFilled t u _ => [(5, t, u)]
  | _ => []
  end.
Definition gev_codes (g : list gev) : list iev := concat (map gev_code g).

Inductive iobs :=
| IBegin
| ITx (c : tclass) (evs : list iev)
| IEnd (c : tclass) (evs : list iev) (s : option snap).

(* cs_hashdiff: events (end-blocks) after which two independent executions of the same history on the
   implementation committed different app hashes *)
Record case := mkCase { cs_init : cstate; cs_events : list event; cs_obs : list iobs; cs_hashdiff : list Z;
  (* export of the final state imported into a fresh application: result class, module state there,
     and whether both modules export the same genesis again *)
  cs_reimport : option (tclass * option snap * bool);
  (* events at which tenant 1's view (its tenant record, pending records, treasury balances, events and the
     results of its transactions) differs between this run and the run without the other tenants *)
  cs_isodiff : list Z;
  (* oracle transactions delivered in the FIRST block of the restarted chain (after the re-import), with their results *)
  cs_restart : list (omsg * tclass) }.

Definition zz_eqb (a b : Z * Z) : bool := (fst a =? fst b) && (snd a =? snd b).
Definition zb_eqb (a b : Z * bytes) : bool := (fst a =? fst b) && bytes_eqb (snd a) (snd b).
Definition vd_eqb (a b : votedata) : bool :=
  list_eqb (fun x y : Z * list bytes => (fst x =? fst y) && list_eqb bytes_eqb (snd x) (snd y)) a b.
Definition zvd_eqb (a b : Z * votedata) : bool := (fst a =? fst b) && vd_eqb (snd a) (snd b).
Definition utxr3_eqb (a b : Z * Z * utxr) : bool :=
  (fst (fst a) =? fst (fst b)) && (snd (fst a) =? snd (fst b)) && utxr_eqb (snd a) (snd b).
Definition val_eqb (a b : validator) : bool :=
  (v_addr a =? v_addr b) && (v_tokens a =? v_tokens b) && Bool.eqb (v_bonded a) (v_bonded b)
  && Bool.eqb (v_jailed a) (v_jailed b) && (v_rate a =? v_rate b).

Definition idx_subset (a b : list (Z * bytes * Z)) : bool :=
  forallb (fun x : Z * bytes * Z =>
    match idx_get b (fst (fst x)) (snd (fst x)) with Some u => u =? snd x | None => false end) a.

Definition round_matches (r : option round) (i : option (Z * Z * Z * list bytes)) : bool :=
  match r, i with
  | None, None => true
  | Some r, Some (id, pe, ve, src) =>
      (rd_id r =? id) && (rd_prevote_end r =? pe) && (rd_vote_end r =? ve)
      && list_eqb (option_eqb nft_eqb) (map parse_nft_id src) (map Some (rd_sources r))
  | _, _ => false
  end.

Definition nonzero_coins (l : list (bytes * Z)) : list (bytes * Z) := filter (fun c => negb (snd c =? 0)) l.
Definition coins_agree (a b : list (bytes * Z)) : bool :=
  forallb (fun c : bytes * Z => coin_get b (fst c) =? snd c) (nonzero_coins a)
  && forallb (fun c : bytes * Z => coin_get a (fst c) =? snd c) (nonzero_coins b).

Definition credited_delta (before after : list (bytes * Z)) : list (bytes * Z) :=
  map (fun c : bytes * Z => (fst c, snd c - coin_get before (fst c))) after.

Definition model_lookup (s : sstate) (tid : Z) (req : bytes) : option Z :=
  match idx_get (s_idx s) tid req with
  | Some u => match utxr_get (s_utxrs s) tid u with Some _ => Some u | None => None end
  | None => None
  end.

(* per (validator, denomination) and per denomination sums of the model's credit lines *)
Definition line_val (ls : list (Z * bytes * Z * Z)) (a : Z) (d : bytes) : Z :=
  sumZ (map (fun l : Z * bytes * Z * Z =>
     let '(a', d', fin, _) := l in if (a =? a') && bytes_eqb d d' then fin else 0) ls).
Definition line_comm (ls : list (Z * bytes * Z * Z)) (d : bytes) : Z :=
  sumZ (map (fun l : Z * bytes * Z * Z =>
     let '(_, d', _, con) := l in if bytes_eqb d d' then con else 0) ls).
Definition lines_agree (ls : list (Z * bytes * Z * Z)) (vals : list (Z * bytes * Z)) (comm : list (bytes * Z)) : bool * bool :=
  (forallb (fun x : Z * bytes * Z => line_val ls (fst (fst x)) (snd (fst x)) =? snd x) vals
   && forallb (fun l : Z * bytes * Z * Z =>
        let '(a, d, _, _) := l in
        let want := line_val ls a d in
        (want =? 0) || existsb (fun x : Z * bytes * Z => (fst (fst x) =? a) && bytes_eqb (snd (fst x)) d && (snd x =? want)) vals) ls,
   forallb (fun x : bytes * Z => line_comm ls (fst x) =? snd x) comm
   && forallb (fun l : Z * bytes * Z * Z =>
        let '(_, d, _, _) := l in
        let want := line_comm ls d in
        (want =? 0) || existsb (fun x : bytes * Z => bytes_eqb (fst x) d && (snd x =? want)) comm) ls).

(* field codes of a disagreement *)
Definition cmp_snap (prev c : cstate) (i : snap) : list Z :=
  let s := c_s c in let o := c_o c in
  (if c_h c =? sn_h i then [] else [1])
  ++ (if list_eqb tenant_eqb (s_tenants s) (s_tenants (sn_s i)) then [] else [2])
  ++ (if list_eqb utxr3_eqb (s_utxrs s) (s_utxrs (sn_s i)) then [] else [3])
  ++ (if idx_subset (s_idx s) (s_idx (sn_s i)) && idx_subset (s_idx (sn_s i)) (s_idx s) then [] else [4])
  ++ (if forallb (fun b : Z * bytes * Z => bal_get (s_bal s) (fst (fst b)) (snd (fst b)) =? snd b) (s_bal (sn_s i)) then [] else [5])
  ++ (if round_matches (o_round o) (sn_round i) then [] else [6])
  ++ (if list_eqb zb_eqb (o_prevotes o) (sn_prevotes i) then [] else [7])
  ++ (if list_eqb zvd_eqb (o_votes o) (sn_votes i) then [] else [8])
  ++ (if list_eqb zz_eqb (o_deleg o) (sn_deleg i) then [] else [9])
  ++ (if list_eqb zz_eqb (o_miss o) (sn_miss i) then [] else [10])
  ++ (if forallb (fun v => match find_val (o_vals o) (v_addr v) with Some v' => val_eqb v v' | None => false end) (sn_vals i) then [] else [11])
  ++ (if coins_agree (o_pool o) (sn_pool i) then [] else [12])
  ++ (if negb (sn_books i) || coins_agree (credited_delta (o_credited (c_o prev)) (o_credited o)) (sn_owed i) then [] else [13])
  ++ (if forallb (fun l : Z * bytes * option Z =>
                    option_eqb Z.eqb (model_lookup s (fst (fst l)) (snd (fst l))) (snd l)) (sn_lookup i) then [] else [14])
  ++ (let ls := oracle_end_lines (staking_end (c_o prev)) (c_s prev) (c_h prev) in
      let '(a, b) := lines_agree ls (sn_owed_val i) (sn_owed_comm i) in
      (if a || negb (sn_books i) then [] else [17]) ++ (if b || negb (sn_books i) then [] else [18])).

(* runs model and implementation observations side by side; a disagreement is (event index, field) *)
Fixpoint compare (k : Z) (c : cstate) (es : list event) (os : list iobs) : list (Z * Z) :=
  match es, os with
  | [], [] => []
  | e :: es', o :: os' =>
      let '(c1, mo, g) := step c e in
      let here :=
        match mo, o with
        | OBegin, IBegin => []
        | OTx a, ITx b evs =>
            (if tclass_eqb a b then [] else [(k, 20)])
            ++ (if list_eqb iev_eqb (gev_codes g) evs then [] else [(k, 15)])
        | OEnd a _, IEnd b evs (Some sn) =>
            (if tclass_eqb a b then [] else [(k, 21)])
            ++ (if list_eqb iev_eqb (gev_codes g) evs then [] else [(k, 16)])
            ++ map (fun f => (k, f)) (cmp_snap c c1 sn)
        | OEnd a _, IEnd b _ None => if tclass_eqb a b then [] else [(k, 21)]
        | _, _ => [(k, 99)]
        end in
      match here with
      | [] => compare (k + 1) c1 es' os'
      | _ => here   (* stop at the first disagreeing event: later ones are consequences *)
      end
  | _, _ => [(k, 98)]
  end.

Definition mismatches (c : case) : list (Z * Z) := compare 0 (cs_init c) (cs_events c) (cs_obs c).

(* the model's export / import against the implementation's, on the final state of the history *)
Fixpoint final_state (c : cstate) (es : list event) : cstate :=
  match es with
  | [] => c
  | e :: es' => let '(c1, _, _) := step c e in final_state c1 es'
  end.

Definition reimport_fields : list Z := [2; 3; 4; 6; 7; 8; 9; 10; 14].

Definition cmp_reimport (c : case) : list (Z * Z) :=
  match cs_reimport c with
  | None => []
  | Some (cls, sn, _) =>
      let k := Z.of_nat (length (cs_events c)) in
      match reimport (final_state (cs_init c) (cs_events c)), cls, sn with
      | Ok c2, COk, Some sn' =>
          map (fun f => (k, 30 + f)) (filter (fun f => memZ f reimport_fields) (cmp_snap c2 c2 sn'))
      | Ok _, _, _ => [(k, 30)]
      | _, COk, _ => [(k, 30)]
      | _, _, _ => []
      end
  end.

(* the first block of the restarted chain: the model handles the probes in the re-imported state at the next height *)
Fixpoint restart_walk (c2 : cstate) (k : Z) (ps : list (omsg * tclass)) : list (Z * Z) :=
  match ps with
  | [] => []
  | (m, cls) :: ps' =>
      let '(c3, o, _) := step c2 (EvOTx m) in
      (match o with
       | OTx cls' => if tclass_eqb cls cls' then [] else [(k, 45)]
       | _ => [(k, 45)]
       end) ++ restart_walk c3 k ps'
  end.
Definition cmp_restart (c : case) : list (Z * Z) :=
  match cs_reimport c, cs_restart c with
  | Some (COk, _, _), _ :: _ =>
      match reimport (final_state (cs_init c) (cs_events c)) with
      | Ok c2 => restart_walk (mkC (c_h c2 + 1) (c_s c2) (c_o c2) (c_fp c2)) (Z.of_nat (length (cs_events c))) (cs_restart c)
      | _ => []
      end
  | _, _ => []
  end.

Definition mismatches_rt (c : case) : list (Z * Z) :=
  match mismatches c with [] => cmp_reimport c ++ cmp_restart c | l => l end.

Definition all_mismatches (cs : list case) : list (Z * list (Z * Z)) :=
  filter (fun x : Z * list (Z * Z) => match snd x with [] => false | _ => true end)
         (combine (map Z.of_nat (seq 0 (length cs))) (map mismatches_rt cs)).

(* debugging helpers *)
Fixpoint state_after (c : cstate) (es : list event) (k : nat) : cstate :=
  match k, es with
  | O, _ => c
  | S k', e :: es' => let '(c1, _, _) := step c e in state_after c1 es' k'
  | _, [] => c
  end.
Definition snap_at (cs : case) (k : nat) : option snap :=
  match nth_error (cs_obs cs) k with Some (IEnd _ _ s) => s | _ => None end.
