(* Correspondence and property checks for the codec family (C18 commitment openings, C19 token ids,
   C20 reference feeder and block cache). *)
From Settlus Require Import Base.Prelude Base.Hex Settlement.Model Oracle.Model Feeder.Model Exec.FuncCheck.

Definition bytes_list_eqb := list_eqb bytes_eqb.
Definition vd_eqb (a b : votedata) : bool :=
  list_eqb (fun x y : Z * list bytes => (fst x =? fst y) && list_eqb bytes_eqb (snd x) (snd y)) a b.

(* ---------- C18: two openings of (possibly) one commitment ---------- *)
Record ocase := mkOC {
  oc_chains : list bytes;
  oc_salt1 : bytes; oc_vd1 : votedata; oc_salt2 : bytes; oc_vd2 : votedata;
  oc_same_hash : bool;      (* GetAggregateVoteHash gave the same digest for both *)
  oc_valid1 : bool; oc_valid2 : bool;   (* ValidateVoteData *)
  oc_feeder_agrees : bool;  (* GeneratePrevoteHash of the feeder = the chain's digest, for both *)
  oc_both_accepted : option bool  (* through ABCI: one prevote, both votes accepted in turn (when exercised) *)
}.

(*  1 equal digests for different byte strings, or different digests for equal byte strings: the digest is
      not SHA-256 of salt ++ entries          2 ValidateVoteData differs from the model
    3 the feeder's hash differs from the chain's       4 ABCI acceptance differs from (same digest, both valid) *)
Definition open_cmp (c : ocase) : list Z :=
  let same := bytes_eqb (preimage (oc_salt1 c) (oc_vd1 c)) (preimage (oc_salt2 c) (oc_vd2 c)) in
  (if Bool.eqb same (oc_same_hash c) then [] else [1])
  ++ (if Bool.eqb (validate_vote_data (oc_vd1 c) (oc_chains c)) (oc_valid1 c)
         && Bool.eqb (validate_vote_data (oc_vd2 c) (oc_chains c)) (oc_valid2 c) then [] else [2])
  ++ (if oc_feeder_agrees c then [] else [3])
  ++ (match oc_both_accepted c with
      | Some b => if Bool.eqb b (oc_same_hash c && oc_valid1 c && oc_valid2 c) then [] else [4]
      | None => []
      end).
Definition open_mismatches := indexed_failures open_cmp.

(* 18 two DIFFERENT openings with DIFFERENT committed bytes are both accepted for one digest
   19 two different openings of the SAME committed bytes are both accepted (the digest has no delimiters: F19) *)
Definition open_prop (c : ocase) : list Z :=
  let different := negb (bytes_eqb (oc_salt1 c) (oc_salt2 c) && vd_eqb (oc_vd1 c) (oc_vd2 c)) in
  let accepted := match oc_both_accepted c with Some b => b | None => oc_same_hash c && oc_valid1 c && oc_valid2 c end in
  if different && accepted then
    if bytes_eqb (preimage (oc_salt1 c) (oc_vd1 c)) (preimage (oc_salt2 c) (oc_vd2 c)) then [19] else [18]
  else [].
Definition open_check := indexed_failures open_prop.

(* ---------- C19: token ids ---------- *)
Record tcase := mkTC {
  tc_tok1 : bytes; tc_tok2 : bytes;
  tc_valid1 : bool; tc_valid2 : bool;         (* MsgRecord.ValidateBasic accepts the message with this token id *)
  tc_stored1 : Z; tc_stored2 : Z;             (* what Record stores / publishes: NormalizeHexAddress(token id) as a number *)
  tc_value1 : option Z; tc_value2 : option Z  (* the number the token id denotes: big.Int.SetString(id[2:], 16) *)
}.

(* the value a token id denotes: optional sign, hex digits *)
Definition hexnum (s : bytes) : Z := fold_left (fun acc c => acc * 16 + match hexval c with Some v => v | None => 0 end) s 0.
Definition token_value (s : bytes) : option Z :=
  match s with
  | a :: b :: rest =>
      if (a =? c_0) && (b =? c_x) then
        match rest with
        | [] => None
        | c :: ds =>
            if c =? 45 then (match ds with [] => None | _ => if forallb is_hex_char ds then Some (- hexnum ds) else None end)
            else if c =? 43 then (match ds with [] => None | _ => if forallb is_hex_char ds then Some (hexnum ds) else None end)
            else if forallb is_hex_char rest then Some (hexnum rest) else None
        end
      else None
  | _ => None
  end.

Definition zopt_eqb := option_eqb Z.eqb.

(* 1 ValidateBasic differs from valid_token_hex   2 stored identity differs from hex_to_address   3 value differs *)
Definition tok_cmp (c : tcase) : list Z :=
  (if Bool.eqb (valid_token_hex (tc_tok1 c)) (tc_valid1 c) && Bool.eqb (valid_token_hex (tc_tok2 c)) (tc_valid2 c) then [] else [1])
  ++ (if (hex_to_address (tc_tok1 c) =? tc_stored1 c) && (hex_to_address (tc_tok2 c) =? tc_stored2 c) then [] else [2])
  ++ (if zopt_eqb (if tc_valid1 c then token_value (tc_tok1 c) else tc_value1 c) (tc_value1 c)
         && zopt_eqb (if tc_valid2 c then token_value (tc_tok2 c) else tc_value2 c) (tc_value2 c) then [] else [3]).
Definition tok_mismatches := indexed_failures tok_cmp.

Definition canonical_small (v : option Z) : bool := match v with Some x => (0 <=? x) && (x <? two160) | None => false end.
Definition has_sign (s : bytes) : bool := match s with _ :: _ :: c :: _ => (c =? 43) || (c =? 45) | _ => false end.

(* 27 an accepted token id below 2^160 is stored as another number
   28 two accepted token ids below 2^160 with different values are stored identically
   29 two accepted token ids with different values are stored identically and one of them is >= 2^160 or
      carries a sign (the 20-byte address normaliser truncates / ignores it: F20) *)
Definition tok_prop (c : tcase) : list Z :=
  let small1 := canonical_small (tc_value1 c) && negb (has_sign (tc_tok1 c)) in
  let small2 := canonical_small (tc_value2 c) && negb (has_sign (tc_tok2 c)) in
  (if (tc_valid1 c && small1 && negb (zopt_eqb (tc_value1 c) (Some (tc_stored1 c))))
      || (tc_valid2 c && small2 && negb (zopt_eqb (tc_value2 c) (Some (tc_stored2 c)))) then [27] else [])
  ++ (if tc_valid1 c && tc_valid2 c && negb (zopt_eqb (tc_value1 c) (tc_value2 c)) && (tc_stored1 c =? tc_stored2 c)
      then (if small1 && small2 then [28] else [29]) else []).
Definition tok_check := indexed_failures tok_prop.

(* ---------- C20: feeder entries and block cache ---------- *)
Record ecase := mkEC {
  ec_chains : list bytes;
  ec_config_ok : bool;                       (* the settlement parameter validation accepts this supported-chain list *)
  ec_nft : bytes * Z * Z;                    (* the NFT of the pending record: chain id, contract, token *)
  ec_src : bytes; ec_owner : bytes;          (* source string published by the chain, owner answer of the external chain *)
  ec_formatted : bytes;                      (* what the feeder formats *)
  ec_parsed : option (bytes * Z * Z * Z);    (* the chain's parse of it: chain id, contract, token, owner *)
  ec_valid : bool                            (* ValidateVoteData of a vote made of it *)
}.

Definition nft4_eqb (a b : option (bytes * Z * Z * Z)) : bool :=
  match a, b with
  | None, None => true
  | Some (c1, k1, t1, o1), Some (c2, k2, t2, o2) => bytes_eqb c1 c2 && (k1 =? k2) && (t1 =? t2) && (o1 =? o2)
  | _, _ => false
  end.
Definition parsed4 (s : bytes) : option (bytes * Z * Z * Z) :=
  match parse_entry s with Some (n, o) => Some (n_chain n, n_contract n, n_token n, o) | None => None end.

(* 1 the feeder formats something else than src ++ ":" ++ TrimHexZeroes(owner)   2 the chain parses it differently *)
Definition feeder_error : bytes := [60; 101; 114; 114; 111; 114; 62].   (* "<error>": the feeder gave up *)
Definition entry_cmp (c : ecase) : list Z :=
  (* the feeder parses the source itself (ParseNftId) and gives up when that fails *)
  (if bytes_eqb (match parse_nft_id (ec_src c) with
                 | Some _ => format_entry (ec_src c) (ec_owner c)
                 | None => feeder_error
                 end) (ec_formatted c) then [] else [1])
  ++ (if nft4_eqb (parsed4 (ec_formatted c)) (ec_parsed c)
         && Bool.eqb (validate_vote_data [(topic_ownership, [ec_formatted c])] (ec_chains c)) (ec_valid c) then [] else [2]).
Definition entry_mismatches := indexed_failures entry_cmp.

Definition all_hex (s : bytes) : bool := forallb is_hex_char s.
Definition owner_wellformed (s : bytes) : bool :=
  let d := if has0x s then drop2 s else s in all_hex d && negb (lenZ d =? 0).
Definition chain_id_ok (s : bytes) : bool := negb (existsb (fun c => (c =? c_slash) || (c =? c_colon)) s).

(* 40 an entry formatted for a source the chain publishes (supported chain, accepted configuration) and a hex
      owner answer is not accepted by the chain   41 ... or parses to another NFT   42 ... or to another owner address *)
Definition entry_prop (c : ecase) : list Z :=
  let '(ch0, k0, t0) := ec_nft c in
  if ec_config_ok c && owner_wellformed (ec_owner c) && mem_bytes ch0 (ec_chains c) then
    match ec_parsed c with
    | None => [40]
    | Some (ch, k, t, o) =>
        (if ec_valid c then [] else [40])
        ++ (if bytes_eqb ch ch0 && (k =? k0) && (t =? t0) then [] else [41])
        ++ (if o =? hex_to_address (ec_owner c) then [] else [42])
    end
  else [].
Definition entry_check := indexed_failures entry_prop.

Record kcase := mkKC { kc_cap : Z; kc_ops : list cop; kc_answers : list (bytes * Z) }.
Definition ans_eqb (a b : bytes * Z) : bool := bytes_eqb (fst a) (fst b) && (snd a =? snd b).
Definition cache_cmp (c : kcase) : list Z :=
  if list_eqb ans_eqb (cache_run (cache_new (kc_cap c)) (kc_ops c)) (kc_answers c) then [] else [1].
Definition cache_mismatches := indexed_failures cache_cmp.

(* the specification, independent of the tree: answer = the value last put for the smallest timestamp >= query
   among the [cap] largest distinct timestamps put so far *)
Fixpoint spec_run (cap : Z) (all : list (Z * (bytes * Z))) (ops : list cop) : list (bytes * Z) :=
  match ops with
  | [] => []
  | CPut ts h n :: ops' => spec_run cap (zinsert ts (h, n) all) ops'
  | CGet ts :: ops' =>
      let kept := skipn (Z.to_nat (lenZ all - cap)) all in
      (match ceiling kept ts with Some v => v | None => ([], 0) end) :: spec_run cap all ops'
  end.
(* 50 an answer differs from the specification *)
Definition cache_prop (c : kcase) : list Z :=
  if list_eqb ans_eqb (spec_run (kc_cap c) [] (kc_ops c)) (kc_answers c) then [] else [50].
Definition cache_check := indexed_failures cache_prop.
