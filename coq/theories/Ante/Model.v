(* Admission of a transaction: routing between the three ante chains (app/ante/ante.go), the message-kind
   filters (app/ante/reject_msgs.go, evmos RejectMessagesDecorator, evmos AuthzLimiterDecorator with the
   list given in app/ante/handler_options.go), the oracle feeder check (app/ante/fee.go
   SettlusValidatorCheckDecorator) and which leaf messages are executed (x/authz dispatch, worst case:
   every authorisation check of authz succeeds). On the repaired tree. *)
From Settlus Require Import Base.Prelude Base.Hex Base.Dec Settlement.Model Oracle.Model Ante.Fee.

(* message type URLs that matter *)
Inductive url :=
| USettle (k : Z)          (* 0 create tenant, 1 create tenant mc, 2 add admin, 3 remove admin, 4 update period, 5 deposit, 6 record, 7 cancel *)
| UOracle (k : Z)          (* 0 prevote, 1 vote, 2 feeder delegation consent *)
| USend | UCreateValidator | UVesting | UEthereum | UExec | UGrant | UOther.

Definition url_eqb (a b : url) : bool :=
  match a, b with
  | USettle x, USettle y | UOracle x, UOracle y => x =? y
  | USend, USend | UCreateValidator, UCreateValidator | UVesting, UVesting | UEthereum, UEthereum
  | UExec, UExec | UGrant, UGrant | UOther, UOther => true
  | _, _ => false
  end.

Definition smsg_kind (m : smsg) : Z :=
  match m with
  | MCreateTenant _ _ _ => 0 | MCreateTenantMC _ _ _ _ _ => 1 | MAddAdmin _ _ _ => 2 | MRemoveAdmin _ _ _ => 3
  | MUpdatePeriod _ _ _ => 4 | MDeposit _ _ _ _ => 5 | MRecord _ _ _ _ _ _ _ _ => 6 | MCancel _ _ _ => 7
  end.
Definition omsg_kind (m : omsg) : Z :=
  match m with MPrevote _ _ _ _ => 0 | MVote _ _ _ _ _ => 1 | MConsent _ _ => 2 end.

Inductive leaf :=
| LSettle (m : smsg)
| LOracle (m : omsg)
| LSend (from : Z)
| LCreateValidator (delegator : Z)
| LVesting (from : Z)
| LEthereum
| LOther (signer : Z).

Definition url_of (l : leaf) : url :=
  match l with
  | LSettle m => USettle (smsg_kind m) | LOracle m => UOracle (omsg_kind m)
  | LSend _ => USend | LCreateValidator _ => UCreateValidator | LVesting _ => UVesting
  | LEthereum => UEthereum | LOther _ => UOther
  end.

(* a message: a leaf, authz MsgExec wrapping messages, or authz MsgGrant of a generic authorisation *)
Inductive tmsg :=
| TLeaf (l : leaf)
| TExec (grantee : Z) (inner : list tmsg)
| TGrant (granter : Z) (what : url).

Definition is_settlement_url (u : url) : bool := match u with USettle _ => true | _ => false end.
Definition is_oracle_url (u : url) : bool := match u with UOracle _ => true | _ => false end.
Definition top_url (m : tmsg) : url :=
  match m with TLeaf l => url_of l | TExec _ _ => UExec | TGrant _ _ => UGrant end.

(* IsSettlementTx / isOracleTx: non-empty and every TOP-LEVEL message has the module's URL prefix *)
Definition is_settlement_tx (ms : list tmsg) : bool :=
  match ms with [] => false | _ => forallb (fun m => is_settlement_url (top_url m)) ms end.
Definition is_oracle_tx (ms : list tmsg) : bool :=
  match ms with [] => false | _ => forallb (fun m => is_oracle_url (top_url m)) ms end.

Inductive route := RSettlus | RCosmos.
Definition route_of (ms : list tmsg) : route :=
  if is_oracle_tx ms || is_settlement_tx ms then RSettlus else RCosmos.

(* the list handed to the authz limiter (handler_options.go newCosmosAnteHandler), after the repair:
   Ethereum and vesting messages, create-validator, every settlement and every oracle message *)
Definition disabled_list : list url :=
  [UEthereum; UVesting; UCreateValidator;
   USettle 0; USettle 1; USettle 2; USettle 3; USettle 4; USettle 5; USettle 6; USettle 7;
   UOracle 0; UOracle 1; UOracle 2].
(* ... and as it was before the repair *)
Definition disabled_list_old : list url := [UEthereum; UVesting].

Section Limiter.
  Variable disabled : list url.
  Definition is_disabled (u : url) : bool := existsb (url_eqb u) disabled.

  Definition max_nested : Z := 7.

  (* checkDisabledMsgs as coded: [lvl] is the running nesting counter, incremented for every MsgExec met
     in the loop (also for later siblings); returns (no error, counter after this message) *)
  Fixpoint chk (m : tmsg) (inner : bool) (lvl : Z) {struct m} : bool * Z :=
    match m with
    | TLeaf l => (negb (inner && is_disabled (url_of l)), lvl)
    | TGrant _ u => (negb (is_disabled u), lvl)
    | TExec _ ms =>
        let lvl1 := lvl + 1 in
        ((lvl1 <? max_nested) &&
         (fix loop (ms : list tmsg) (l : Z) {struct ms} : bool :=
            match ms with
            | [] => true
            | m' :: ms' => let '(ok, l') := chk m' true l in ok && loop ms' l'
            end) ms lvl1,
         lvl1)
    end.

  Fixpoint chk_list (ms : list tmsg) (inner : bool) (lvl : Z) : bool :=
    match ms with
    | [] => true
    | m :: ms' => let '(ok, l') := chk m inner lvl in ok && chk_list ms' inner l'
    end.

  Definition limiter_ok (ms : list tmsg) : bool := (1 <? max_nested) && chk_list ms false 1.
End Limiter.

(* our RejectMessagesDecorator (top-level only), after the repair: settlement and oracle messages never
   enter the generic chain; create-validator only at height 0 *)
Definition reject_top_ok (oracle_too : bool) (h : Z) (ms : list tmsg) : bool :=
  forallb (fun m => let u := top_url m in
             negb (is_settlement_url u) && negb (oracle_too && is_oracle_url u)
             && negb (url_eqb u UCreateValidator && negb (h =? 0))) ms.
(* evmos RejectMessagesDecorator: no top-level MsgEthereumTx in a Cosmos transaction *)
Definition reject_eth_ok (ms : list tmsg) : bool := forallb (fun m => negb (url_eqb (top_url m) UEthereum)) ms.

(* the validator an oracle message speaks for, and the feeder check of the settlus chain *)
Definition oracle_validator (m : omsg) : Z :=
  match m with MPrevote _ v _ _ => v | MVote _ v _ _ _ => v | MConsent v _ => v end.

Record txctx := mkTx {
  tx_msgs : list tmsg;
  tx_fee_payer : Z;             (* explicit fee payer, or the first signer *)
  tx_signers : list Z;          (* accounts whose signatures were verified; contains the fee payer *)
  tx_fee_ok : bool;             (* a settlement transaction offers the fixed fee in a configured denomination (C16) *)
  tx_grant_ok : bool            (* no fee granter is named, or it is the payer itself, or its allowance for the payer
                                   covers the fee that is charged (x/feegrant UseGrantedFees); always true of an oracle
                                   transaction, which skips the fee decorator *)
}.

Definition settlus_admits (o : ostate) (tx : txctx) : bool :=
  tx_grant_ok tx &&
  if is_oracle_tx (tx_msgs tx) then
    match tx_msgs tx with
    | [TLeaf (LOracle m)] => validate_feeder o (tx_fee_payer tx) (oracle_validator m)
    | _ => false                                   (* "Oracle tx should contain one msg per tx" *)
    end
  else tx_fee_ok tx.

Definition cosmos_admits (disabled : list url) (oracle_too : bool) (h : Z) (tx : txctx) : bool :=
  reject_top_ok oracle_too h (tx_msgs tx) && reject_eth_ok (tx_msgs tx) && limiter_ok disabled (tx_msgs tx).

Definition admits_with (disabled : list url) (oracle_too : bool) (o : ostate) (h : Z) (tx : txctx) : bool :=
  match tx_msgs tx with
  | [] => false
  | _ => match route_of (tx_msgs tx) with
         | RSettlus => settlus_admits o tx
         | RCosmos => cosmos_admits disabled oracle_too h tx
         end
  end.

Definition admits := admits_with disabled_list true.
Definition admits_old := admits_with disabled_list_old false.

(* the leaf messages that are executed when the transaction is admitted (authz: worst case) *)
Fixpoint leaves (m : tmsg) : list leaf :=
  match m with
  | TLeaf l => [l]
  | TGrant _ _ => []
  | TExec _ ms => (fix go (ms : list tmsg) : list leaf := match ms with [] => [] | m' :: ms' => leaves m' ++ go ms' end) ms
  end.
Definition leaves_list (ms : list tmsg) : list leaf := concat (map leaves ms).

(* who signs a message (GetSigners): needed for "signed by the operator" *)
Definition leaf_signer (l : leaf) : option Z :=
  match l with
  | LSettle m => Some (match m with
                       | MCreateTenant s _ _ | MCreateTenantMC s _ _ _ _ | MAddAdmin s _ _ | MRemoveAdmin s _ _
                       | MUpdatePeriod s _ _ | MDeposit s _ _ _ | MRecord s _ _ _ _ _ _ _ | MCancel s _ _ => s
                       end)
  | LOracle (MPrevote f _ _ _) | LOracle (MVote f _ _ _ _) => Some f
  | LOracle (MConsent v _) => Some v
  | LSend a | LCreateValidator a | LVesting a | LOther a => Some a
  | LEthereum => None
  end.
