(* Fixed-fee rules for settlement transactions: app/ante/settlement_fee_checker.go (gas cost and
   required fee), app/ante/fee.go (CalculateFees / DeductFees split with the oracle pool). *)
From Settlus Require Import Base.Prelude Base.Dec Settlement.Model.

Definition basic_gas : Z := 10000.
Definition create_tenant_gas : Z := 1000000000000.

Definition msg_gas (m : smsg) : Z :=
  match m with
  | MCreateTenant _ _ _ | MCreateTenantMC _ _ _ _ _ => basic_gas + create_tenant_gas
  | _ => basic_gas
  end.

(* CalculateGasCost: uint64 accumulator *)
Definition gas_cost (ms : list smsg) : Z := wrap64 (sumZ (map msg_gas ms)).

(* required fee for one configured price: price.Amount.Mul(NewDec(int64(gas))).TruncateInt() *)
Definition required_fee (price gas : Z) : Z := dec_truncate_int (dec_mul price (dec_of_int (to_int64 gas))).

(* first configured denomination whose requirement the offered fee covers *)
Fixpoint pick_fee (prices : list (bytes * Z)) (offered : list (bytes * Z)) (gas : Z) : option (bytes * Z) :=
  match prices with
  | [] => None
  | (d, price) :: rest =>
      let req := required_fee price gas in
      if req <=? coin_get offered d then Some (d, req) else pick_fee rest offered gas
  end.

(* CalculateFees: (to the fee collector, to the oracle reward pool) *)
Definition split_fee (q fee : Z) : Z * Z :=
  (dec_truncate_int (dec_mul (dec_of_int fee) (dec_sub (dec_of_int 1) q)),
   dec_truncate_int (dec_mul (dec_of_int fee) q)).
