(* Executable model of x/oracle on the repaired tree: message handlers (keeper/msg_server.go),
   the ante check that guards them (app/ante/fee.go SettlusValidatorCheckDecorator), and the
   end-blocker (abci.go): round info, claims, threshold, tally, miss counting, rewards,
   ballot clearing and the slash window. *)
From Settlus Require Import Base.Prelude Base.Hex Base.Dec Oracle.Arith Settlement.Model.

Definition power_reduction : Z := 1000000.
Definition topic_block : Z := 0.
Definition topic_ownership : Z := 1.

Record oparams := mkOP {
  op_period : Z; op_threshold : Z; op_slash_fraction : Z; op_window : Z; op_maxmiss : Z;
  op_const : bool   (* sdk.ConstantReward: every validator with positive power has power 1 *) }.

Record validator := mkVal {
  v_addr : Z; v_tokens : Z; v_bonded : bool; v_jailed : bool; v_rate : Z }.

Record round := mkRound { rd_id : Z; rd_prevote_end : Z; rd_vote_end : Z; rd_sources : list nft }.

Definition votedata := list (Z * list bytes).     (* (topic, entries) *)

Record ostate := mkO {
  o_params : oparams;
  o_round : option round;
  o_prevotes : list (Z * bytes);        (* validator -> commitment (the hashed byte string) *)
  o_votes : list (Z * votedata);        (* validator -> revealed vote *)
  o_deleg : list (Z * Z);               (* validator -> feeder *)
  o_miss : list (Z * Z);                (* validator -> misses since the last closing *)
  o_vals : list validator;
  o_pool : list (bytes * Z);            (* oracle reward pool, per denomination *)
  o_credited : list (bytes * Z)         (* ghost: total Dec amount credited to distribution *)
}.

Definition set_round o x := mkO (o_params o) x (o_prevotes o) (o_votes o) (o_deleg o) (o_miss o) (o_vals o) (o_pool o) (o_credited o).
Definition set_prevotes o x := mkO (o_params o) (o_round o) x (o_votes o) (o_deleg o) (o_miss o) (o_vals o) (o_pool o) (o_credited o).
Definition set_votes o x := mkO (o_params o) (o_round o) (o_prevotes o) x (o_deleg o) (o_miss o) (o_vals o) (o_pool o) (o_credited o).
Definition set_deleg o x := mkO (o_params o) (o_round o) (o_prevotes o) (o_votes o) x (o_miss o) (o_vals o) (o_pool o) (o_credited o).
Definition set_miss o x := mkO (o_params o) (o_round o) (o_prevotes o) (o_votes o) (o_deleg o) x (o_vals o) (o_pool o) (o_credited o).
Definition set_vals o x := mkO (o_params o) (o_round o) (o_prevotes o) (o_votes o) (o_deleg o) (o_miss o) x (o_pool o) (o_credited o).
Definition set_pool o x := mkO (o_params o) (o_round o) (o_prevotes o) (o_votes o) (o_deleg o) (o_miss o) (o_vals o) x (o_credited o).
Definition set_credited o x := mkO (o_params o) (o_round o) (o_prevotes o) (o_votes o) (o_deleg o) (o_miss o) (o_vals o) (o_pool o) x.

Inductive omsg :=
| MPrevote (feeder val : Z) (commit : bytes) (round : Z)
| MVote (feeder val : Z) (vd : votedata) (salt : bytes) (round : Z)
| MConsent (val feeder : Z).

Fixpoint find_val (l : list validator) (a : Z) : option validator :=
  match l with
  | [] => None
  | v :: l' => if v_addr v =? a then Some v else find_val l' a
  end.

Definition power_c (const : bool) (v : validator) : Z :=
  let p := v_tokens v / power_reduction in
  if const && (0 <? p) then 1 else p.

(* keeper.ValidateFeeder(feeder, validator) *)
Definition validate_feeder (o : ostate) (feeder val : Z) : bool :=
  match find_val (o_vals o) val with
  | Some v =>
      v_bonded v &&
      ((feeder =? val) ||
       match zlookup val (o_deleg o) with
       | Some f => f =? feeder
       | None => false   (* default delegate is the operator itself: covered by feeder = val *)
       end)
  | None => false
  end.

(* ---------- vote entries (types/vote_data.go, types/nft.go) ---------- *)
Definition parse_nft_id (s : bytes) : option nft :=
  match split_on c_slash s with
  | [a; b; c] => Some (mkNft a (hex_to_address b) (hex_to_address c))
  | _ => None
  end.

(* StringToOwnershipData after the repair of F07: exactly one ':' *)
Definition parse_entry (s : bytes) : option (nft * Z) :=
  match split_on c_colon s with
  | [a; b] => match parse_nft_id a with
              | Some n => Some (n, hex_to_address b)
              | None => None
              end
  | _ => None
  end.

Definition validate_vote_data (vd : votedata) (chains : list bytes) : bool :=
  forallb (fun tv : Z * list bytes =>
    let '(topic, entries) := tv in
    if topic =? topic_block then true
    else if topic =? topic_ownership then
      forallb (fun e => match parse_entry e with
                        | Some (n, _) => mem_bytes (n_chain n) chains
                        | None => false
                        end) entries
    else false) vd.

(* the byte string that is hashed: salt followed by every entry of every topic, in order *)
Definition preimage (salt : bytes) (vd : votedata) : bytes :=
  salt ++ concat (map (fun tv : Z * list bytes => concat (snd tv)) vd).

(* ---------- handlers ---------- *)
Definition ohandle (o : ostate) (chains : list bytes) (h : Z) (m : omsg) : outcome ostate :=
  match m with
  | MPrevote feeder val commit rid =>
      if negb (validate_feeder o feeder val) then Rejected
      else match o_round o with
           | None => Rejected
           | Some r =>
               if negb (rd_id r =? rid) then Rejected
               else if rd_prevote_end r <? h then Rejected
               else Ok (set_prevotes o (zinsert val commit (o_prevotes o)))
           end
  | MVote feeder val vd salt rid =>
      if negb (validate_feeder o feeder val) then Rejected
      else match o_round o with
           | None => Rejected
           | Some r =>
               if negb (rd_id r =? rid) then Rejected
               else if rd_vote_end r <? h then Rejected
               else if negb (validate_vote_data vd chains) then Rejected
               else match zlookup val (o_prevotes o) with
                    | None => Rejected
                    | Some c =>
                        if negb (bytes_eqb c (preimage salt vd)) then Rejected
                        else Ok (set_prevotes (set_votes o (zinsert val vd (o_votes o)))
                                              (zremove val (o_prevotes o)))
                    end
           end
  | MConsent val feeder =>
      (* signed by the operator (GetSigners); the ante check is ValidateFeeder(operator, validator) *)
      match find_val (o_vals o) val with
      | Some v => if v_bonded v then Ok (set_deleg o (zinsert val feeder (o_deleg o))) else Rejected
      | None => Rejected
      end
  end.

(* ---------- end-block ---------- *)
Definition next_round (o : ostate) (s : sstate) (h : Z) : round :=
  let p := op_period (o_params o) in
  mkRound (rstart (h + 1) p) (prevote_end (h + 1) p) (vote_end (h + 1) p)
          (if rstart h p =? 0 then [] else nfts_to_verify s (rstart h p)).

Definition active (v : validator) : bool := v_bonded v && negb (v_jailed v).
Definition power (o : ostate) (v : validator) : Z := power_c (op_const (o_params o)) v.
Definition claims (o : ostate) : list (Z * Z) :=
  map (fun v => (v_addr v, power o v)) (filter active (o_vals o)).
(* after the repair of the total: the summed power of the validators in the claim map *)
Definition total_bonded_power (o : ostate) : Z := sumZ (map snd (claims o)).
Definition threshold_votes (o : ostate) : Z :=
  dec_ceil_int (dec_mul_int (op_threshold (o_params o)) (total_bonded_power o)).

Record ballot := mkBallot { b_voter : Z; b_nft : nft; b_owner : Z }.
Definition ballot_eqb (a b : ballot) : bool :=
  (b_voter a =? b_voter b) && nft_eqb (b_nft a) (b_nft b) && (b_owner a =? b_owner b).
Fixpoint ballot_mem (b : ballot) (l : list ballot) : bool :=
  match l with [] => false | b' :: l' => ballot_eqb b b' || ballot_mem b l' end.

(* groupVotes after the repairs: ownership topic only, identical (voter, nft, owner) counted once *)
Definition ballots_of_vote (voter : Z) (vd : votedata) : list ballot :=
  concat (map (fun tv : Z * list bytes =>
    if fst tv =? topic_ownership then
      concat (map (fun e => match parse_entry e with
                            | Some (n, ow) => [mkBallot voter n ow]
                            | None => []
                            end) (snd tv))
    else []) vd).

Fixpoint dedup_ballots (l : list ballot) (acc : list ballot) : list ballot :=
  match l with
  | [] => acc
  | b :: l' => if ballot_mem b acc then dedup_ballots l' acc else dedup_ballots l' (acc ++ [b])
  end.

Definition all_ballots (o : ostate) : list ballot :=
  dedup_ballots (concat (map (fun vv : Z * votedata => ballots_of_vote (fst vv) (snd vv)) (o_votes o))) [].

Definition weight_of (cl : list (Z * Z)) (a : Z) : Z :=
  match zlookup a cl with Some w => w | None => 0 end.

(* power behind (nft, owner) *)
Definition support (cl : list (Z * Z)) (bs : list ballot) (n : nft) (ow : Z) : Z :=
  sumZ (map (fun b => if nft_eqb (b_nft b) n && (b_owner b =? ow) then weight_of cl (b_voter b) else 0) bs).

Fixpoint nft_dedup (l : list nft) (acc : list nft) : list nft :=
  match l with
  | [] => acc
  | n :: l' => if nft_mem n acc then nft_dedup l' acc else nft_dedup l' (acc ++ [n])
  end.
Fixpoint z_dedup (l : list Z) (acc : list Z) : list Z :=
  match l with
  | [] => acc
  | n :: l' => if memZ n acc then z_dedup l' acc else z_dedup l' (acc ++ [n])
  end.

Definition sources_of (bs : list ballot) : list nft := nft_dedup (map b_nft bs) [].
Definition owners_for (bs : list ballot) (n : nft) : list Z :=
  z_dedup (map b_owner (filter (fun b => nft_eqb (b_nft b) n) bs)) [].

(* pickMostVoted *)
Definition pick (cl : list (Z * Z)) (bs : list ballot) (thr : Z) (n : nft) : option Z :=
  match filter (fun ow => thr <=? support cl bs n ow) (owners_for bs n) with
  | [ow] => Some ow
  | _ => None
  end.

Definition tally_results (cl : list (Z * Z)) (bs : list ballot) (thr : Z) : list (nft * Z) :=
  concat (map (fun n => match pick cl bs thr n with Some ow => [(n, ow)] | None => [] end) (sources_of bs)).

(* validators of the claim map that revealed an entry differing from the accepted value *)
Definition missers (cl : list (Z * Z)) (bs : list ballot) (res : list (nft * Z)) : list Z :=
  z_dedup (map b_voter (filter (fun b =>
      match zlookup (b_voter b) cl with
      | Some _ => match fill_get res (b_nft b) with
                  | Some ow => negb (ow =? b_owner b)
                  | None => true
                  end
      | None => false
      end) bs)) [].

Definition bump_miss (m : list (Z * Z)) (a : Z) : list (Z * Z) :=
  zinsert a (wrap64 (match zlookup a m with Some c => c | None => 0 end + 1)) m.

(* RewardBallotWinners after the repair of F15 *)
Definition reward_of (pool_amount wsum w : Z) : Z :=
  dec_truncate_int (dec_mul (dec_of_int pool_amount) (dec_quo_int (dec_of_int w) wsum)).

Definition winners (cl : list (Z * Z)) (miss : list Z) : list (Z * Z) :=
  filter (fun c => negb (memZ (fst c) miss)) cl.

Definition reward_denom (ws : list (Z * Z)) (wsum : Z) (acc : list (bytes * Z) * list (bytes * Z)) (c : bytes * Z)
  : list (bytes * Z) * list (bytes * Z) :=
  let '(pool, cred) := acc in
  let '(d, amt) := c in
  let paid := sumZ (map (fun w => reward_of amt wsum (snd w)) ws) in
  (coin_add pool d (- paid), coin_add cred d (dec_of_int paid)).

Definition reward (o : ostate) (cl : list (Z * Z)) (miss : list Z) : ostate :=
  let ws := winners cl miss in
  let wsum := sumZ (map snd ws) in
  if wsum =? 0 then o
  else
    let '(pool, cred) := fold_left (reward_denom ws wsum) (o_pool o) (o_pool o, o_credited o) in
    set_credited (set_pool o pool) cred.

(* who is credited what (Dec amounts): per rewarded validator and denomination, the validator's own
   outstanding reward and its pro-bono contribution to the community pool.
   rewardCoins = trunc(pool * (w / wsum)); contribution = rewardCoins.MulDecTruncate(rate) = rewardCoins * rate
   exactly; finalReward = rewardCoins - contribution.  A validator whose rewardCoins are all zero is skipped. *)
Definition rate_of (o : ostate) (a : Z) : Z :=
  match find_val (o_vals o) a with Some v => v_rate v | None => 0 end.

Definition reward_lines (o : ostate) (cl : list (Z * Z)) (miss : list Z) : list (Z * bytes * Z * Z) :=
  let ws := winners cl miss in
  let wsum := sumZ (map snd ws) in
  if wsum =? 0 then []
  else concat (map (fun w : Z * Z =>
         concat (map (fun c : bytes * Z =>
           let rew := reward_of (snd c) wsum (snd w) in
           if rew =? 0 then []
           else [(fst w, fst c, dec_of_int rew - dec_mul_trunc (dec_of_int rew) (rate_of o (fst w)),
                  dec_mul_trunc (dec_of_int rew) (rate_of o (fst w)))]) (o_pool o))) ws).

(* SlashValidatorsAndResetMissCount *)
Definition slash_amount (o : ostate) (v : validator) : Z :=
  Z.min (v_tokens v)
        (dec_truncate_int (dec_mul (dec_of_int (power o v * power_reduction)) (op_slash_fraction (o_params o)))).

Definition slash_one (o : ostate) (m : list (Z * Z)) (v : validator) : validator :=
  match zlookup (v_addr v) m with
  | Some c =>
      if (op_maxmiss (o_params o) <? c) && active v
      then mkVal (v_addr v) (v_tokens v - slash_amount o v) (v_bonded v) true (v_rate v)
      else v
  | None => v
  end.

Definition close_window (o : ostate) : ostate :=
  set_miss (set_vals o (map (slash_one o (o_miss o)) (o_vals o))) [].

(* x/staking end-block (runs before the oracle's): bonded status follows jailing and power *)
Definition staking_end (o : ostate) : ostate :=
  set_vals o (map (fun v => mkVal (v_addr v) (v_tokens v) (negb (v_jailed v) && (0 <? power o v)) (v_jailed v) (v_rate v))
                  (o_vals o)).

(* oracle EndBlocker at height h. Returns the new oracle state and what it asks settlement to fill. *)
Definition oracle_end_block (o : ostate) (s : sstate) (h : Z) : ostate * option (list (nft * Z) * Z) :=
  let p := op_period (o_params o) in
  let o1 := set_round o (Some (next_round o s h)) in
  if negb (is_tally h p) then (o1, None)
  else
    let cl := claims o1 in
    let thr := threshold_votes o1 in
    let bs := all_ballots o1 in
    let res := tally_results cl bs thr in
    let ms := missers cl bs res in
    let o2 := set_miss o1 (fold_left bump_miss ms (o_miss o1)) in
    let o3 := reward o2 cl ms in
    let o4 := set_votes (set_prevotes o3 []) [] in
    let o5 := if window_closing h p (op_window (o_params o)) then close_window o4 else o4 in
    (o5, if rstart h p =? 0 then None else Some (res, rstart h p)).

(* the credit lines of the end-blocker at height h (empty outside a tally block) *)
Definition oracle_end_lines (o : ostate) (s : sstate) (h : Z) : list (Z * bytes * Z * Z) :=
  let p := op_period (o_params o) in
  if negb (is_tally h p) then []
  else
    let o1 := set_round o (Some (next_round o s h)) in
    let cl := claims o1 in
    let bs := all_ballots o1 in
    let res := tally_results cl bs (threshold_votes o1) in
    let ms := missers cl bs res in
    reward_lines o1 cl ms.

Inductive oenv :=
| EnvJail (v : Z)
| EnvUnjail (v : Z)
| EnvPoolFund (denom : bytes) (amount : Z)    (* coins sent to the oracle module account: they join the reward pool *)
| EnvSetTokens (v : Z) (tokens : Z).          (* x/staking: (un)delegation changes the validator's tokens; with no tokens it
                                                 leaves the bonded set at the next staking end-block and is later removed *)

Definition apply_oenv (o : ostate) (e : oenv) : ostate :=
  match e with
  | EnvJail a => set_vals o (map (fun v => if v_addr v =? a then mkVal (v_addr v) (v_tokens v) (v_bonded v) true (v_rate v) else v) (o_vals o))
  | EnvUnjail a => set_vals o (map (fun v => if v_addr v =? a then mkVal (v_addr v) (v_tokens v) (v_bonded v) false (v_rate v) else v) (o_vals o))
  | EnvPoolFund d a => set_pool o (coin_add (o_pool o) d a)
  | EnvSetTokens a t => set_vals o (map (fun v => if v_addr v =? a then mkVal (v_addr v) t (v_bonded v) (v_jailed v) (v_rate v) else v) (o_vals o))
  end.
