(* The vote-entry parser as CODED (x/oracle/types/vote_data.go StringToOwnershipData, types/nft.go
   ParseNftId): strings.Split followed by a length check and Go index expressions.  An index out of
   range is an explicit GPanic outcome, so "the parser cannot panic" is a theorem and not an artefact
   of pattern matching. *)
From Settlus Require Import Base.Prelude Base.Hex Settlement.Model Oracle.Model.

Inductive gres (A : Type) := GOk (a : A) | GErr | GPanic.
Arguments GOk {A} a. Arguments GErr {A}. Arguments GPanic {A}.

(* Go: l[i] *)
Definition go_index {A} (l : list A) (i : nat) : gres A :=
  match nth_error l i with Some x => GOk x | None => GPanic end.

Definition gbind {A B} (r : gres A) (f : A -> gres B) : gres B :=
  match r with GOk a => f a | GErr => GErr | GPanic => GPanic end.

(* ParseNftId: data := strings.Split(nftId, "/"); if len(data) != 3 { return error }; data[0], data[1], data[2] *)
Definition parse_nft_id_go (s : bytes) : gres nft :=
  let data := split_on c_slash s in
  if negb (Nat.eqb (length data) 3) then GErr
  else gbind (go_index data 0) (fun a =>
       gbind (go_index data 1) (fun b =>
       gbind (go_index data 2) (fun c => GOk (mkNft a (hex_to_address b) (hex_to_address c))))).

(* StringToOwnershipData after the repair of F07: data := strings.Split(s, ":"); if len(data) != 2 { error };
   nft, err := ParseNftId(data[0]); ...; owner := Normalize(data[1]) *)
Definition parse_entry_go (s : bytes) : gres (nft * Z) :=
  let data := split_on c_colon s in
  if negb (Nat.eqb (length data) 2) then GErr
  else gbind (go_index data 0) (fun a =>
       match parse_nft_id_go a with
       | GPanic => GPanic
       | GErr => GErr        (* Nft{} has empty hex fields: isValidHex fails *)
       | GOk n => gbind (go_index data 1) (fun b => GOk (n, hex_to_address b))
       end).

(* the same parser BEFORE the repair: data[1] is indexed without a length check *)
Definition parse_entry_go_old (s : bytes) : gres (nft * Z) :=
  let data := split_on c_colon s in
  gbind (go_index data 0) (fun a =>
  match parse_nft_id_go a with
  | GPanic => GPanic
  | GErr => GErr
  | GOk n => gbind (go_index data 1) (fun b => GOk (n, hex_to_address b))
  end).

Lemma parse_nft_id_go_total s : parse_nft_id_go s <> GPanic.
Proof.
  unfold parse_nft_id_go. destruct (split_on c_slash s) as [|a [|b [|c [|d l]]]]; simpl; discriminate.
Qed.

Lemma parse_nft_id_go_spec s :
  parse_nft_id_go s = match parse_nft_id s with Some n => GOk n | None => GErr end.
Proof.
  unfold parse_nft_id_go, parse_nft_id. destruct (split_on c_slash s) as [|a [|b [|c [|d l]]]]; reflexivity.
Qed.

Theorem parse_entry_go_total s : parse_entry_go s <> GPanic.
Proof.
  unfold parse_entry_go. destruct (split_on c_colon s) as [|a [|b [|c l]]]; simpl; try discriminate.
  pose proof (parse_nft_id_go_total a). destruct (parse_nft_id_go a); try discriminate. congruence.
Qed.

Theorem parse_entry_go_spec s :
  parse_entry_go s = match parse_entry s with Some x => GOk x | None => GErr end.
Proof.
  unfold parse_entry_go, parse_entry. destruct (split_on c_colon s) as [|a [|b [|c l]]]; simpl; try reflexivity.
  rewrite parse_nft_id_go_spec. destruct (parse_nft_id a); reflexivity.
Qed.

(* the defect that was repaired: an entry with a well-formed NFT part and no ':' panicked *)
Example parse_entry_go_old_panics : parse_entry_go_old [49; 47; 48; 120; 49; 47; 48; 120; 50] = GPanic.
Proof. vm_compute. reflexivity. Qed.
