(* Round arithmetic of x/oracle/types/params.go and the slash-window gate of x/oracle/abci.go,
   with the machine arithmetic written out (uint64 / int64). *)
From Settlus Require Import Base.Prelude.

(* CalculateRoundStartHeight(blockHeight int64, votePeriod uint64) uint64 *)
Definition round_start_u (h p : Z) : option Z :=
  let uh := to_uint64 h in
  let m := wrap64 (p * 2) in
  if m =? 0 then None (* integer divide by zero: panic *)
  else Some (wrap64 (uh - uh mod m)).

(* CalculateVotePeriod(blockHeight int64, votePeriod uint64) (int64, int64) *)
Definition vote_period_i (h p : Z) : option (Z * Z) :=
  let ip := to_int64 p in
  let m := to_int64 (ip * 2) in
  if m =? 0 then None
  else
    let r := Z.rem h m in
    Some (to_int64 (h - r + ip - 1), to_int64 (h - r + to_int64 (ip * 2) - 1)).

(* the range of vote periods Params.Validate accepts (after the repair of F10) *)
Definition max_vote_period : Z := 4611686018427387903. (* MaxInt64 / 2 *)
Definition valid_period (p : Z) : Prop := 1 <= p <= max_vote_period.
(* heights whose round end still fits in int64 (the chain would need 2^63 blocks to leave this range) *)
Definition valid_height (p h : Z) : Prop := 0 <= h /\ h + 2 * p < two63.

(* mathematical specification *)
Definition rstart (h p : Z) : Z := h - h mod (2 * p).
Definition prevote_end (h p : Z) : Z := rstart h p + p - 1.
Definition vote_end (h p : Z) : Z := rstart h p + 2 * p - 1.

Definition is_tally (h p : Z) : bool := h =? vote_end h p.

(* slash-window gate after the repair of F16:
   IsSlashWindowClosing(height, votePeriod, slashWindow) evaluated inside the tally gate *)
Definition window_closing (h p w : Z) : bool :=
  if w =? 0 then false
  else (w <=? h) && (h mod w <? 2 * p).

(* the same gate with the uint64 arithmetic of the code written out (votePeriod*2 may wrap) *)
Definition window_closing_u (h p w : Z) : bool :=
  if (w =? 0) || (h <? 0) then false
  else (w <=? h) && (h mod w <? wrap64 (p * 2)).

(* the gate as it was before the repair: height % slashWindow == 0 inside the tally gate *)
Definition window_closing_old (h w : Z) : bool :=
  if w =? 0 then false else h mod w =? 0.

Definition closes (h p w : Z) : bool := is_tally h p && window_closing h p w.
Definition closes_old (h p w : Z) : bool := is_tally h p && window_closing_old h w.

(* Params.Validate, the part that concerns (vote period, slash window, max miss) *)
Definition valid_params (p w maxmiss : Z) : bool :=
  (1 <=? p) && (p <=? max_vote_period) && (1 <=? w) && (w <? two64) && (p <=? w) && (w mod p =? 0)
  && (1 <=? maxmiss) && (maxmiss <? w).
