From Settlus Require Import Base.Prelude Oracle.Arith.
From Coq Require Import Psatz.

Lemma rstart_spec h p : 1 <= p -> 0 <= h ->
  rstart h p <= h < rstart h p + 2 * p /\ (rstart h p) mod (2 * p) = 0.
Proof.
  intros Hp Hh. unfold rstart.
  pose proof (Z.mod_pos_bound h (2 * p) ltac:(lia)).
  split; [lia|].
  pose proof (Z.div_mod h (2 * p) ltac:(lia)).
  replace (h - h mod (2 * p)) with ((h / (2 * p)) * (2 * p)) by lia.
  apply Z.mod_mul. lia.
Qed.

Lemma round_start_u_spec h p : valid_period p -> 0 <= h < two63 ->
  round_start_u h p = Some (rstart h p).
Proof.
  unfold valid_period, max_vote_period. intros Hp Hh. unfold round_start_u, to_uint64.
  assert (H2p : wrap64 (p * 2) = 2 * p).
  { rewrite wrap64_small; unfold two64; lia. }
  rewrite H2p.
  assert (Hh' : h mod two64 = h) by (apply Z.mod_small; unfold two64, two63 in *; lia).
  rewrite Hh'.
  destruct (2 * p =? 0) eqn:E; [lia|].
  f_equal. unfold rstart.
  pose proof (Z.mod_pos_bound h (2 * p) ltac:(lia)).
  pose proof (Z.mod_le h (2 * p) ltac:(lia) ltac:(lia)).
  apply wrap64_small. unfold two64, two63 in *. lia.
Qed.

Lemma vote_period_i_spec h p : valid_period p -> valid_height p h ->
  vote_period_i h p = Some (prevote_end h p, vote_end h p).
Proof.
  unfold valid_period, valid_height, max_vote_period, two63. intros Hp [Hh0 Hh].
  unfold vote_period_i.
  assert (Hip : to_int64 p = p) by (apply to_int64_small; unfold two63; lia).
  rewrite Hip.
  assert (H2 : to_int64 (p * 2) = 2 * p) by (rewrite to_int64_small; unfold two63; lia).
  rewrite H2.
  destruct (2 * p =? 0) eqn:E; [lia|].
  assert (Hrem : Z.rem h (2 * p) = h mod (2 * p)) by (apply Z.rem_mod_nonneg; lia).
  rewrite Hrem.
  pose proof (Z.mod_pos_bound h (2 * p) ltac:(lia)).
  pose proof (Z.mod_le h (2 * p) ltac:(lia) ltac:(lia)).
  unfold prevote_end, vote_end, rstart.
  rewrite !to_int64_small by (unfold two63; lia).
  reflexivity || (f_equal; f_equal; lia).
Qed.

(* the two computations of the round agree *)
Lemma round_id_agree h p : valid_period p -> valid_height p h ->
  exists s pe ve, round_start_u h p = Some s /\ vote_period_i h p = Some (pe, ve)
                  /\ pe = s + p - 1 /\ ve = s + 2 * p - 1.
Proof.
  intros Hp Hh. exists (rstart h p), (prevote_end h p), (vote_end h p).
  split; [apply round_start_u_spec; auto; unfold valid_height, valid_period, two63, max_vote_period in *; lia|].
  split; [apply vote_period_i_spec; auto|]. unfold prevote_end, vote_end. lia.
Qed.

(* exactly one tally height in every round: its last block *)
Lemma is_tally_iff h p : 1 <= p -> 0 <= h ->
  is_tally h p = true <-> h mod (2 * p) = 2 * p - 1.
Proof.
  intros Hp Hh. unfold is_tally, vote_end, rstart. rewrite Z.eqb_eq. lia.
Qed.

Lemma tally_once_per_round s p : 1 <= p -> 0 <= s -> s mod (2 * p) = 0 ->
  forall h, s <= h < s + 2 * p -> (is_tally h p = true <-> h = s + 2 * p - 1).
Proof.
  intros Hp Hs Hm h Hh. rewrite is_tally_iff by lia.
  assert (Hs' : s = (2 * p) * (s / (2 * p))).
  { pose proof (Z.div_mod s (2 * p) ltac:(lia)). lia. }
  assert (Hmod : h mod (2 * p) = h - s).
  { symmetry. apply (Z.mod_unique_pos h (2 * p) (s / (2 * p)) (h - s)); lia. }
  rewrite Hmod. lia.
Qed.

Lemma rstart_same_round s p h : 1 <= p -> 0 <= s -> s mod (2 * p) = 0 ->
  s <= h < s + 2 * p -> rstart h p = s.
Proof.
  intros Hp Hs Hm Hh. unfold rstart.
  assert (Hs' : s = (2 * p) * (s / (2 * p))).
  { pose proof (Z.div_mod s (2 * p) ltac:(lia)). lia. }
  assert (Hmod : h mod (2 * p) = h - s).
  { symmetry. apply (Z.mod_unique_pos h (2 * p) (s / (2 * p)) (h - s)); lia. }
  lia.
Qed.

(* ---- slash window ---- *)
Lemma window_closing_u_spec h p w : 0 <= h -> 0 <= p < two63 ->
  window_closing_u h p w = window_closing h p w.
Proof.
  intros Hh Hp. unfold window_closing_u, window_closing.
  rewrite wrap64_small by (unfold two64, two63 in *; lia).
  destruct (w =? 0); simpl; [reflexivity|].
  destruct (h <? 0) eqn:E; [lia|]. replace (p * 2) with (2 * p) by lia. reflexivity.
Qed.


Lemma window_closing_iff h p w : 1 <= p -> 1 <= w -> 0 <= h ->
  window_closing h p w = true <-> exists k, 1 <= k /\ h - 2 * p < k * w <= h.
Proof.
  intros Hp Hw Hh. unfold window_closing.
  destruct (w =? 0) eqn:E0; [lia|].
  rewrite andb_true_iff, Z.leb_le, Z.ltb_lt.
  pose proof (Z.mod_pos_bound h w ltac:(lia)) as Hb.
  pose proof (Z.div_mod h w ltac:(lia)) as Hd.
  split.
  - intros [H1 H2]. exists (h / w). split.
    + assert (0 < h / w) by (apply Z.div_str_pos; lia). lia.
    + nia.
  - intros (k & Hk & Hlo & Hhi). split; [nia|].
    (* k*w <= h < (h/w+1)*w, so k <= h/w; and k*w > h-2p *)
    assert (Hkle : k <= h / w).
    { apply Z.div_le_lower_bound; lia. }
    nia.
Qed.

Theorem closes_iff h p w : 1 <= p -> 1 <= w -> 0 <= h ->
  closes h p w = true <->
  is_tally h p = true /\ exists k, 1 <= k /\ h - 2 * p < k * w <= h.
Proof.
  intros. unfold closes. rewrite andb_true_iff, window_closing_iff by assumption. tauto.
Qed.

(* every window boundary k*w (k >= 1) is closed at the first tally at or after it *)
Definition first_tally_at_or_after (b p : Z) : Z := vote_end b p.

Lemma first_tally_spec b p : 1 <= p -> 0 <= b ->
  let t := first_tally_at_or_after b p in
  b <= t /\ is_tally t p = true /\ (forall t', b <= t' < t -> is_tally t' p = false).
Proof.
  intros Hp Hb t. subst t. unfold first_tally_at_or_after.
  pose proof (rstart_spec b p Hp Hb) as [Hr Hm].
  assert (Hve : vote_end b p = rstart b p + 2 * p - 1) by reflexivity.
  assert (Hs0 : 0 <= rstart b p).
  { unfold rstart. pose proof (Z.mod_le b (2 * p) ltac:(lia) ltac:(lia)). lia. }
  split; [lia|]. split.
  - apply (proj2 (tally_once_per_round (rstart b p) p Hp Hs0 Hm (vote_end b p) ltac:(lia))). lia.
  - intros t' Ht'. destruct (is_tally t' p) eqn:E; [|reflexivity].
    apply (proj1 (tally_once_per_round (rstart b p) p Hp Hs0 Hm t' ltac:(lia))) in E. lia.
Qed.

Theorem every_window_closed k p w : 1 <= p -> 1 <= w -> 1 <= k ->
  let t := first_tally_at_or_after (k * w) p in
  closes t p w = true.
Proof.
  intros Hp Hw Hk t.
  pose proof (first_tally_spec (k * w) p Hp ltac:(nia)) as (Hle & Htal & _).
  fold t in Hle, Htal.
  assert (Ht0 : 0 <= t) by nia.
  apply (proj2 (closes_iff t p w Hp Hw Ht0)).
  split; [exact Htal|]. exists k. split; [lia|]. split; [|lia].
  (* t - 2p < k*w : t is in the same round as k*w *)
  subst t. unfold first_tally_at_or_after, vote_end.
  pose proof (rstart_spec (k * w) p Hp ltac:(nia)). lia.
Qed.

(* nothing is closed at a tally that has no boundary since the previous tally, nor outside tallies *)
Theorem no_close_elsewhere h p w : 1 <= p -> 1 <= w -> 0 <= h ->
  (is_tally h p = false \/ ~ (exists k, 1 <= k /\ h - 2 * p < k * w <= h)) ->
  closes h p w = false.
Proof.
  intros Hp Hw Hh Hor. destruct (closes h p w) eqn:E; [|reflexivity].
  apply closes_iff in E as [H1 H2]; try lia. destruct Hor as [Ho|Ho]; [congruence|contradiction].
Qed.

(* the defect that was repaired (F16): with the old gate no window ever closes when p > 1 *)
Theorem old_gate_never_closes h p w : 1 < p -> 1 <= w -> w mod p = 0 -> 0 <= h ->
  closes_old h p w = false.
Proof.
  intros Hp Hw Hdiv Hh. unfold closes_old, window_closing_old.
  destruct (is_tally h p) eqn:Et; [|reflexivity]. simpl.
  destruct (w =? 0) eqn:E0; [reflexivity|].
  apply Z.eqb_neq. intro Hm.
  apply is_tally_iff in Et; try lia.
  (* h = 2p*q + 2p-1  and  h = w*q' and w = p*c  =>  p | 2p-1+... contradiction *)
  pose proof (Z.div_mod h (2 * p) ltac:(lia)) as H1.
  pose proof (Z.div_mod h w ltac:(lia)) as H2.
  pose proof (Z.div_mod w p ltac:(lia)) as H3.
  rewrite Et in H1. rewrite Hm in H2. rewrite Hdiv in H3.
  set (a := h / (2 * p)) in *. set (b := h / w) in *. set (c := w / p) in *.
  assert (Hp1 : p * (c * b - 2 * a - 2) = -1) by nia.
  assert (Hdv : (p | 1)).
  { exists (- (c * b - 2 * a - 2)). lia. }
  apply Z.divide_1_r_nonneg in Hdv; lia.
Qed.
