(* Property statements restated on the TRANSLATED SOURCE (Translated.v, regenerated from /repo on every run):
   corollaries of the tie theorems and of the property theorems of the model. *)
From Settlus Require Import Base.Prelude Base.Hex Base.Dec Base.GoSem Settlement.Model Oracle.Arith Oracle.ArithProofs Ante.Fee.
From Settlus Require Import Props.C02.
From Coq Require Import Psatz.
Require Import Translated TieSettle.

(* C02: the end-block loop reaches the payout of a record only when, in Z, creation height + period <= height *)
(* TIE: Settle_not_mature *)
Theorem source_no_payout_before_maturity created period h :
  0 <= created < two64 -> 1 <= period < two64 -> 0 <= h < two63 ->
  (Settle_not_mature created period h = false <-> created + period <= h).
Proof.
  intros Hc Hp Hh.
  pose (u := mkUtxr [] [] [] 0 (mkNft [] 0 0) created).
  destruct (Settle_not_mature_tie u period h Hh) as [E _]. cbn [u_created u] in E. rewrite E.
  rewrite Bool.negb_false_iff. apply (C02_maturity_test u period h); assumption.
Qed.

