(* Obligations tying the translated fee computations (app/ante) to the model of Ante/Fee.v. *)
From Settlus Require Import Base.Prelude Base.Hex Base.Dec Base.GoSem Settlement.Model Ante.Fee.
From Coq Require Import Psatz.
Require Import Translated.

Definition is_create (m : smsg) : bool := match m with MCreateTenant _ _ _ => true | _ => false end.
Definition is_create_mc (m : smsg) : bool := match m with MCreateTenantMC _ _ _ _ _ => true | _ => false end.

(* one iteration of the loop of CalculateGasCost *)
(* TIE: Gas_basic Gas_create_tenant Gas_is_create_tenant *)
Definition gas_step (g : Z) (m : smsg) : Z :=
  let g1 := Gas_basic g in
  if Gas_is_create_tenant (is_create m) (is_create_mc m) then Gas_create_tenant g1 else g1.

(* TIE: Gas_basic Gas_create_tenant Gas_is_create_tenant *)
Lemma gas_step_spec g m : gas_step g m = wrap64 (g + msg_gas m).
Proof.
  unfold gas_step, Gas_basic, Gas_create_tenant, Gas_is_create_tenant, msg_gas, basic_gas, create_tenant_gas.
  destruct m; cbn [is_create is_create_mc orb]; try reflexivity.
  all: rewrite wrap64_add_l; f_equal; lia.
Qed.

(* TIE: Gas_basic Gas_create_tenant Gas_is_create_tenant *)
Lemma gas_fold ms g : fold_left gas_step ms (wrap64 g) = wrap64 (g + sumZ (map msg_gas ms)).
Proof.
  revert g. induction ms as [|m ms IH]; intros g; cbn [fold_left map sumZ].
  - f_equal. lia.
  - rewrite gas_step_spec, wrap64_add_l, IH. f_equal. lia.
Qed.

(* TIE: Gas_basic Gas_create_tenant Gas_is_create_tenant *)
Theorem CalculateGasCost_tie ms : fold_left gas_step ms 0 = gas_cost ms.
Proof. unfold gas_cost. change 0 with (wrap64 0) at 1. rewrite gas_fold. reflexivity. Qed.

(* TIE: Fee_required *)
Theorem Fee_required_tie price gas : Fee_required price gas = required_fee price gas.
Proof. reflexivity. Qed.

(* TIE: Fee_covered *)
Theorem Fee_covered_tie offered req : Fee_covered offered req = (req <=? offered).
Proof. apply geb_leb. Qed.

(* TIE: Fee_collector_share Fee_oracle_share *)
Theorem CalculateFees_tie q fee : split_fee q fee = (Fee_collector_share fee q, Fee_oracle_share fee q).
Proof. reflexivity. Qed.
