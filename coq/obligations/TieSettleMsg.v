(* Obligations tying the ordered early-return guards of the settlement message server
   (x/settlement/keeper/msg_server.go, translated) to the acceptance conditions of the model's [handle]. *)
From Settlus Require Import Base.Prelude Base.Hex Base.Dec Base.GoSem Settlement.Model Proofs.SettlementEnd.
From Coq Require Import Psatz.
Require Import Translated.

Definition is_ok {A} (o : outcome A) : bool := match o with Ok _ => true | _ => false end.
Definition is_some {A} (o : option A) : bool := match o with Some _ => true | None => false end.

(* finite case analysis on every scrutinee: robust against reordered or regrouped guards in the source *)
Ltac cases :=
  repeat (match goal with
          | |- context [if negb ?c then _ else _] => destruct c eqn:?
          | |- context [if ?a || ?b then _ else _] => destruct a eqn:?; destruct b eqn:?
          | |- context [match ?x with _ => _ end] =>
              lazymatch x with
              | context [match _ with _ => _ end] => fail
              | _ => destruct x eqn:?
              end
          end; cbn [negb andb orb is_ok is_some] in *);
  try reflexivity; try discriminate; try congruence; try lia.

(* TIE: Record_accepted *)
Theorem Record_tie s h sender tid req denom amount chain contract tokhex t :
  find_tenant (s_tenants s) tid = Some t ->
  let m := MRecord sender tid req denom amount chain contract tokhex in
  is_ok (handle s h m) =
  Record_accepted (negb (validate_basic m)) (is_admin s tid sender) (t_denom t) denom (t_period t)
    (negb (is_ok (get_recipients s chain contract tokhex)))
    (is_some (idx_get (s_idx s) tid req)).
Proof.
  intros Hf m. unfold Record_accepted, handle, create_utxr. subst m. cbn [u_req]. rewrite Hf. cases.
Qed.

(* without the tenant the admin check already fails *)
(* TIE:  *)
Theorem Record_no_tenant s h sender tid req denom amount chain contract tokhex :
  find_tenant (s_tenants s) tid = None ->
  is_ok (handle s h (MRecord sender tid req denom amount chain contract tokhex)) = false.
Proof.
  intros Hf. unfold handle, is_admin. rewrite Hf. destruct (validate_basic _); reflexivity.
Qed.

(* TIE: Cancel_accepted *)
Theorem Cancel_tie s h sender tid req :
  is_ok (handle s h (MCancel sender tid req)) =
  Cancel_accepted false (is_some (find_tenant (s_tenants s) tid)) (is_admin s tid sender)
    (negb (is_some (idx_get (s_idx s) tid req))).
Proof.
  unfold Cancel_accepted, handle. cbn [validate_basic]. cases.
Qed.

(* TIE: AddAdmin_guards *)
Theorem AddAdmin_tie s h sender tid admin :
  is_ok (handle s h (MAddAdmin sender tid admin)) =
  AddAdmin_guards false (is_admin s tid sender) (negb (is_some (find_tenant (s_tenants s) tid)))
  && match find_tenant (s_tenants s) tid with Some t => negb (memZ admin (t_admins t)) | None => false end.
Proof.
  unfold AddAdmin_guards, handle. cbn [validate_basic]. cases.
Qed.

(* TIE: RemoveAdmin_guards RemoveAdmin_last *)
Theorem RemoveAdmin_tie s h sender tid admin :
  is_ok (handle s h (MRemoveAdmin sender tid admin)) =
  RemoveAdmin_guards false (is_admin s tid sender) (negb (is_some (find_tenant (s_tenants s) tid)))
  && match find_tenant (s_tenants s) tid with
     | Some t => memZ admin (t_admins t) && negb (RemoveAdmin_last (lenZ (t_admins t)))
     | None => false
     end.
Proof.
  unfold RemoveAdmin_guards, RemoveAdmin_last, handle. cbn [validate_basic]. cases.
Qed.

(* TIE: UpdatePeriod_accepted *)
Theorem UpdatePeriod_tie s h sender tid period :
  is_ok (handle s h (MUpdatePeriod sender tid period)) =
  UpdatePeriod_accepted (negb (valid_period_u64 period)) (is_admin s tid sender)
    (negb (is_some (find_tenant (s_tenants s) tid))).
Proof.
  unfold UpdatePeriod_accepted, handle. cbn [validate_basic]. cases.
Qed.

(* the depositor's account exists and the bank send succeeds whenever the spendable balance covers the amount
   (x/bank: trusted); the remaining guards are the model's *)
(* TIE: Deposit_accepted *)
Theorem Deposit_tie s h sender tid denom amount :
  is_ok (handle s h (MDeposit sender tid denom amount)) =
  match find_tenant (s_tenants s) tid with
  | Some t => Deposit_accepted (negb (valid_coin denom amount)) false (negb (t_method t =? 0)) false
                (bal_get (s_bal s) sender denom) amount false
  | None => Deposit_accepted (negb (valid_coin denom amount)) true false false 0 amount false
  end.
Proof.
  unfold Deposit_accepted, handle. cbn [validate_basic]. cases.
Qed.

(* where the recipients of a new record come from (keeper.GetRecipients): a supported chain other than this one leaves
   them to the oracle; any other foreign chain is refused; this chain asks the NFT contract (the owner table of the
   model stands for FindInternalOwner: the EVM is trusted, see DESIGN section 9) *)
(* TIE: GetRecipients_by_oracle GetRecipients_refused *)
Theorem GetRecipients_tie s chain contract tok :
  get_recipients s chain contract tok =
  if GetRecipients_by_oracle (mem_bytes chain (s_supported s)) (s_chain s) chain then Ok []
  else if GetRecipients_refused (s_chain s) chain then Rejected
  else match owner_get (s_owners s) (hex_to_address contract) (hex_to_hash tok) with
       | Some o => if o =? 0 then Rejected else Ok [mkRecip o 1]
       | None => Rejected
       end.
Proof.
  unfold get_recipients, GetRecipients_by_oracle, GetRecipients_refused.
  destruct (mem_bytes chain (s_supported s)); destruct (bytes_eqb (s_chain s) chain); reflexivity.
Qed.

(* the single recipient a record gets - from the NFT contract on this chain, or from the oracle's consensus - has
   weight 1: the safety invariant of C06 (amount * weight stays below 2^256) and the payout split rest on it *)
(* TIE: GetRecipients_weight SetRecipients_weight *)
Theorem Recipient_weight_tie :
  (forall s chain contract tok rs r, get_recipients s chain contract tok = Ok rs -> In r rs -> r_weight r = GetRecipients_weight) /\
  (forall u o, map r_weight (u_recips (with_owner u o)) = [SetRecipients_weight]).
Proof.
  split.
  - intros s chain contract tok rs r H Hin. unfold get_recipients in H.
    destruct (mem_bytes chain (s_supported s) && negb (bytes_eqb (s_chain s) chain)); [inversion H; subst; destruct Hin|].
    destruct (negb (bytes_eqb (s_chain s) chain)); [discriminate|].
    destruct (owner_get _ _ _) as [o|]; [|discriminate]. destruct (o =? 0); [discriminate|].
    inversion H; subst. destruct Hin as [<-|[]]. reflexivity.
  - intros u o. reflexivity.
Qed.
