(* Property statements restated on the TRANSLATED SOURCE (Translated.v, regenerated from /repo on every run):
   corollaries of the tie theorems and of the property theorems of the model. *)
From Settlus Require Import Base.Prelude Base.Hex Base.Dec Base.GoSem Settlement.Model Oracle.Arith Oracle.ArithProofs Ante.Fee.
From Settlus Require Import Props.C14.
From Coq Require Import Psatz.
Require Import Translated TieOracleEnd.

(* C14: per rewarded validator, own share + pro-bono contribution = the integer reward that is moved *)
(* TIE: Reward_contribution Reward_final *)
Theorem source_reward_lines rew rate :
  Reward_final rew rate + Reward_contribution rew rate = dec_of_int rew.
Proof. destruct (reward_lines_tie rew rate) as (E1 & E2 & _). rewrite E1, E2. lia. Qed.

