(* Obligations tying the wiring of the ante handler (decorator chains, the authz limiter's list, routing and
   the top-level message filters), read from the current source, to the admission model of Ante/Model.v. *)
From Coq Require Import String.
From Settlus Require Import Base.Prelude Base.Hex Base.Dec Base.GoSem Settlement.Model Oracle.Model Ante.Fee Ante.Model.
Require Import Translated.
Open Scope string_scope.

Definition url_of_name (s : string) : url :=
  if s =? "evmtypes.MsgEthereumTx" then UEthereum
  else if s =? "sdkvesting.MsgCreateVestingAccount" then UVesting
  else if s =? "stakingtypes.MsgCreateValidator" then UCreateValidator
  else if s =? "settlementtypes.MsgCreateTenant" then USettle 0
  else if s =? "settlementtypes.MsgCreateTenantWithMintableContract" then USettle 1
  else if s =? "settlementtypes.MsgAddTenantAdmin" then USettle 2
  else if s =? "settlementtypes.MsgRemoveTenantAdmin" then USettle 3
  else if s =? "settlementtypes.MsgUpdateTenantPayoutPeriod" then USettle 4
  else if s =? "settlementtypes.MsgDepositToTreasury" then USettle 5
  else if s =? "settlementtypes.MsgRecord" then USettle 6
  else if s =? "settlementtypes.MsgCancel" then USettle 7
  else if s =? "oracletypes.MsgPrevote" then UOracle 0
  else if s =? "oracletypes.MsgVote" then UOracle 1
  else if s =? "oracletypes.MsgFeederDelegationConsent" then UOracle 2
  else UOther.

Definition subset (a b : list url) : bool := forallb (fun u => existsb (url_eqb u) b) a.

Lemma forallb_ext' {A} (f g : A -> bool) l : (forall x, f x = g x) -> forallb f l = forallb g l.
Proof. intros H. induction l as [|x l IH]; cbn; [reflexivity|]. rewrite H, IH. reflexivity. Qed.

Definition has (l : list string) (x : string) : bool := existsb (String.eqb x) l.
Fixpoint index_of (l : list string) (x : string) : nat :=
  match l with [] => 0 | y :: l' => if String.eqb x y then 0 else S (index_of l' x) end.

(* TIE: Ante_limiter_list *)
Theorem limiter_list_tie :
  subset (map url_of_name Ante_limiter_list) disabled_list && subset disabled_list (map url_of_name Ante_limiter_list) = true.
Proof. vm_compute. reflexivity. Qed.

(* the generic chain: our top-level filter, the Ethereum filter and the authz limiter come first (before any state is
   touched), signatures are verified, fees deducted *)
(* TIE: Ante_cosmos_chain *)
Theorem cosmos_chain_tie :
  firstn 3 Ante_cosmos_chain = ["RejectMessagesDecorator{}"; "cosmosante.RejectMessagesDecorator{}"; "cosmosante.NewAuthzLimiterDecorator"]
  /\ has Ante_cosmos_chain "ante.NewSigVerificationDecorator" = true
  /\ has Ante_cosmos_chain "cosmosante.NewDeductFeeDecorator" = true
  /\ has Ante_cosmos_chain "ante.NewValidateBasicDecorator" = true.
Proof. vm_compute. repeat split. Qed.

(* the settlus chain: fixed-fee deduction and the feeder check, both before the signature check can be relied on by the
   messages; signatures are verified *)
(* TIE: Ante_settlus_chain *)
Theorem settlus_chain_tie :
  has Ante_settlus_chain "cosmosante.RejectMessagesDecorator{}" = true
  /\ has Ante_settlus_chain "ante.NewValidateBasicDecorator" = true
  /\ has Ante_settlus_chain "NewDeductFeeDecorator" = true
  /\ has Ante_settlus_chain "NewSettlusValidatorCheckDecorator" = true
  /\ has Ante_settlus_chain "ante.NewSigVerificationDecorator" = true
  /\ has Ante_settlus_chain "ante.NewIncrementSequenceDecorator" = true.
Proof. vm_compute. repeat split. Qed.

(* routing *)
(* TIE: Ante_routes_settlus Ante_settlement_tx_empty Ante_settlement_tx_other Ante_oracle_tx_empty Ante_oracle_tx_other *)
Theorem routing_tie ms :
  route_of ms = (if Ante_routes_settlus (is_oracle_tx ms) (is_settlement_tx ms) then RSettlus else RCosmos)
  /\ is_settlement_tx ms = negb (Ante_settlement_tx_empty (lenZ ms))
                           && forallb (fun m => negb (Ante_settlement_tx_other (is_settlement_url (top_url m)))) ms
  /\ is_oracle_tx ms = negb (Ante_oracle_tx_empty (lenZ ms))
                       && forallb (fun m => negb (Ante_oracle_tx_other (is_oracle_url (top_url m)))) ms.
Proof.
  unfold route_of, Ante_routes_settlus, is_settlement_tx, is_oracle_tx, Ante_settlement_tx_empty, Ante_settlement_tx_other,
    Ante_oracle_tx_empty, Ante_oracle_tx_other, lenZ.
  destruct ms as [|m ms]; [repeat split|].
  cbn [length]. replace (Z.of_nat (S (length ms)) =? 0)%Z with false by lia. cbn [negb andb].
  repeat split; apply forallb_ext'; intros; rewrite Bool.negb_involutive; reflexivity.
Qed.

(* our top-level filter of the generic chain *)
(* TIE: Reject_settlement Reject_oracle Reject_create_validator *)
Theorem reject_tie h ms :
  reject_top_ok true h ms =
  forallb (fun m => let u := top_url m in
             negb (Reject_settlement (is_settlement_url u)) && negb (Reject_oracle (is_oracle_url u))
             && negb (Reject_create_validator (url_eqb u UCreateValidator) h)) ms.
Proof.
  unfold reject_top_ok, Reject_settlement, Reject_oracle, Reject_create_validator. apply forallb_ext'. intros m. reflexivity.
Qed.

(* the feeder check of the settlus chain: skipped for settlement transactions, one message only, refused unless
   ValidateFeeder answers (true, _) or (_, nil) *)
(* TIE: FeederCheck_skipped FeederCheck_one_message FeederCheck_refused *)
Theorem feeder_check_tie :
  (forall b, FeederCheck_skipped b = b) /\ (forall n, FeederCheck_one_message n = (1 <? n)%Z) /\
  (forall e ok, FeederCheck_refused e ok = e && negb ok).
Proof. repeat split. intros. apply gtb_ltb. Qed.
