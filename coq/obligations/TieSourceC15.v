(* Property statements restated on the TRANSLATED SOURCE (Translated.v, regenerated from /repo on every run):
   corollaries of the tie theorems and of the property theorems of the model. *)
From Settlus Require Import Base.Prelude Base.Hex Base.Dec Base.GoSem Settlement.Model Oracle.Arith Oracle.ArithProofs Ante.Fee.
From Settlus Require Import Props.C15.
From Coq Require Import Psatz.
Require Import Translated TieOracleArith.

(* C15: at a tally height the source closes the slash window iff a window boundary lies since the previous tally *)
(* TIE: IsSlashWindowClosing EndBlocker_window_closing CalculateVotePeriod EndBlocker_vote_end EndBlocker_not_tally *)
Theorem source_window_close h p w : valid_period p -> valid_height p h -> 1 <= w ->
  (EndBlocker_not_tally h (EndBlocker_vote_end h p) = false /\ EndBlocker_window_closing h p w = true
   <-> is_tally h p = true /\ exists k, 1 <= k /\ h - 2 * p < k * w <= h).
Proof.
  intros Hp Hh Hw.
  assert (Hh' : 0 <= h < two63) by (unfold valid_height, valid_period, two63 in *; lia).
  destruct (EndBlocker_gate_tie h p Hp Hh) as [_ E1].
  destruct (EndBlocker_window_tie h p w Hp Hh' ltac:(lia)) as [E2 _].
  rewrite E1, E2, Bool.negb_false_iff.
  rewrite <- (C15_close_iff h p w) by (unfold valid_period in *; lia).
  unfold closes. rewrite Bool.andb_true_iff. reflexivity.
Qed.

