(* Property statements restated on the TRANSLATED SOURCE (Translated.v, regenerated from /repo on every run):
   corollaries of the tie theorems and of the property theorems of the model. *)
From Settlus Require Import Base.Prelude Base.Hex Base.Dec Base.GoSem Settlement.Model Oracle.Arith Oracle.ArithProofs Ante.Fee.
From Coq Require Import Psatz.
Require Import Translated TieSettle.

(* C01: a share never exceeds the amount, and is non-negative *)
(* TIE: Payout_equal_split Payout_share_equal Payout_share_weighted *)
Theorem source_share_bounds amount n w weight :
  0 <= amount -> 0 < n -> 0 <= weight <= w ->
  let s := if Payout_equal_split w then Payout_share_equal amount n else Payout_share_weighted amount weight w in
  0 <= s <= amount.
Proof.
  intros Ha Hn Hw. cbv zeta.
  assert (H0w : 0 <= w) by lia.
  assert (H0r : 0 <= r_weight (mkRecip 0 weight)) by (cbn [r_weight]; lia).
  destruct (Payout_share_tie amount n w (mkRecip 0 weight) Ha Hn H0w H0r) as [E _].
  cbn [r_weight] in E. rewrite <- E. unfold share. cbn [r_weight].
  destruct (w =? 0) eqn:E0.
  - split; [apply Z.div_pos; lia|]. apply Z.div_le_upper_bound; [lia|].
    assert (amount * 1 <= amount * n) by (apply Z.mul_le_mono_nonneg_l; lia). lia.
  - assert (0 < w) by lia.
    assert (0 <= amount * weight) by (apply Z.mul_nonneg_nonneg; lia).
    split; [apply Z.div_pos; lia|]. apply Z.div_le_upper_bound; [lia|].
    assert (amount * weight <= amount * w) by (apply Z.mul_le_mono_nonneg_l; lia). lia.
Qed.
