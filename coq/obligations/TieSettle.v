(* Obligations tying the translated decision fragments of x/settlement/keeper/settle.go and utxr.go
   (maturity test, recipient filter, weight sum, shares, the oracle's selection of records) to the model. *)
From Settlus Require Import Base.Prelude Base.Hex Base.Dec Base.GoSem Settlement.Model.
From Coq Require Import Psatz.
Require Import Translated.

(* settleUTXRs: the loop stops at the first record for which this is true *)
(* TIE: Settle_not_mature *)
Theorem Settle_not_mature_tie u period h : 0 <= h < two63 ->
  Settle_not_mature (u_created u) period h = negb (mature u period h) /\
  Settle_not_mature_panics (u_created u) period h = false.
Proof.
  intros Hh. unfold Settle_not_mature, Settle_not_mature_panics, mature. cbv zeta.
  rewrite (to_uint64_small h) by (unfold two64, two63 in *; lia).
  generalize (wrap64 (u_created u + period)) as pb. intros pb. split; arith_cases.
Qed.

(* tryPayout: who counts as a recipient *)
(* TIE: Payout_counts_recipient *)
Theorem Payout_counts_recipient_tie l :
  valid_recips l = filter (fun r => Payout_counts_recipient (r_addr r =? 0)) l.
Proof. reflexivity. Qed.

(* tryPayout: the weight sum; uint64 accumulator over uint32 weights cannot wrap for lists shorter than 2^32 *)
(* TIE: Payout_total_weight *)
Lemma weight_fold l acc : (forall r, In r l -> 0 <= r_weight r) -> 0 <= acc -> acc + total_weight l < two64 ->
  fold_left (fun a r => Payout_total_weight a (r_weight r)) l acc = acc + total_weight l.
Proof.
  revert acc. induction l as [|r l IH]; intros acc Hw Ha Hlt; cbn [fold_left].
  - unfold total_weight. cbn. lia.
  - unfold total_weight in *. cbn [map sumZ] in *.
    assert (Hr : 0 <= r_weight r) by (apply Hw; left; reflexivity).
    assert (Hs : 0 <= sumZ (map r_weight l)).
    { apply sumZ_nonneg. intros x Hx. apply in_map_iff in Hx. destruct Hx as [r' [<- Hin]]. apply Hw. right. assumption. }
    unfold Payout_total_weight at 2. rewrite wrap64_small by lia.
    rewrite IH; [lia| |lia|lia]. intros r' Hin. apply Hw. right. assumption.
Qed.

(* TIE: Payout_total_weight *)
Theorem Payout_total_weight_tie l : (forall r, In r l -> 0 <= r_weight r) -> total_weight l < two64 ->
  fold_left (fun a r => Payout_total_weight a (r_weight r)) l 0 = total_weight l.
Proof. intros Hw Hlt. rewrite weight_fold; [lia|assumption|lia|lia]. Qed.

(* tryPayout: "no valid recipient" *)
(* TIE: Payout_nobody *)
Theorem Payout_nobody_tie (l : list recipient) :
  Payout_nobody (lenZ l) = match l with [] => true | _ => false end.
Proof.
  unfold Payout_nobody, lenZ. destruct l; cbn [length]; arith_cases.
Qed.

(* tryPayout: the share of one recipient *)
(* TIE: Payout_equal_split Payout_share_equal Payout_share_weighted *)
Theorem Payout_share_tie amount n w r : 0 <= amount -> 0 < n -> 0 <= w -> 0 <= r_weight r ->
  share amount n w r =
    (if Payout_equal_split w then Payout_share_equal amount n else Payout_share_weighted amount (r_weight r) w) /\
  (if Payout_equal_split w then Payout_share_equal_panics amount n else Payout_share_weighted_panics amount (r_weight r) w) = false.
Proof.
  intros Ha Hn Hw Hr. unfold share, Payout_equal_split, Payout_share_equal, Payout_share_weighted,
    Payout_share_equal_panics, Payout_share_weighted_panics.
  destruct (w =? 0) eqn:E.
  - split; [|lia]. symmetry. apply Z.quot_div_nonneg; lia.
  - split; [|lia]. symmetry. apply Z.quot_div_nonneg; nia.
Qed.

(* the same as ONE unit (robust against the two formulas being moved into a helper function) *)
(* TIE: Payout_share *)
Theorem Payout_share_full_tie amount n w r : 0 <= amount -> 0 < n -> 0 <= w -> 0 <= r_weight r ->
  share amount n w r = Payout_share amount n (r_weight r) w /\ Payout_share_panics amount n (r_weight r) w = false.
Proof.
  intros Ha Hn Hw Hr. unfold share, Payout_share, Payout_share_panics.
  destruct (w =? 0) eqn:E.
  - split; [|lia]. symmetry. apply Z.quot_div_nonneg; lia.
  - split; [|lia]. symmetry. apply Z.quot_div_nonneg; nia.
Qed.

(* the oracle's view of the records: GetAllUniqueNftToVerify and SetRecipients select with the same test,
   and with the cut-off "round start - 1" it is the model's "created strictly before the round start" *)
(* TIE: Verify_selects SetRecipients_selects *)
Theorem selects_tie (recips : list recipient) created before :
  Verify_selects (lenZ recips) (before - 1) created = match recips with [] => created <? before | _ => false end /\
  SetRecipients_selects (lenZ recips) (before - 1) created = match recips with [] => created <? before | _ => false end.
Proof.
  unfold Verify_selects, SetRecipients_selects, lenZ.
  destruct recips; cbn [length].
  - change (Z.of_nat 0) with 0. split; arith_cases.
  - assert (Z.of_nat (S (length recips)) <> 0) by lia. generalize dependent (Z.of_nat (S (length recips))). intros n Hn.
    split; arith_cases.
Qed.

(* Record stores the current height as the creation height *)
(* TIE: Record_created_at *)
Theorem Record_created_at_tie h : 0 <= h < two63 -> Record_created_at h = h.
Proof. intros. unfold Record_created_at. apply to_uint64_small. unfold two64, two63 in *. lia. Qed.
