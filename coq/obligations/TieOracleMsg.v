(* Obligations tying the translated guards of the oracle message server and of ValidateFeeder to the model. *)
From Settlus Require Import Base.Prelude Base.Hex Base.Dec Base.GoSem Settlement.Model Oracle.Arith Oracle.Model.
From Coq Require Import Psatz.
Require Import Translated.

Definition is_ok {A} (o : outcome A) : bool := match o with Ok _ => true | _ => false end.

(* finite case analysis on every scrutinee: robust against reordered or regrouped guards in the source *)
Ltac cases :=
  rewrite ?gtb_ltb, ?geb_leb;
  repeat (match goal with
          | |- context [if negb ?c then _ else _] => destruct c eqn:?
          | |- context [if ?a || ?b then _ else _] => destruct a eqn:?; destruct b eqn:?
          | |- context [match ?x with _ => _ end] =>
              lazymatch x with
              | context [match _ with _ => _ end] => fail
              | _ => destruct x eqn:?
              end
          end; cbn [negb andb orb is_ok] in *);
  try reflexivity; try discriminate; try congruence; try lia.

(* ValidateFeeder: validator known and bonded, and the sender is the operator or the stored delegate
   (GetFeederDelegation answers the operator's own account when nothing is stored) *)
(* TIE: ValidateFeeder_guards ValidateFeeder_needs_delegation ValidateFeeder_delegation_mismatch *)
Theorem ValidateFeeder_tie o feeder val :
  validate_feeder o feeder val =
  ValidateFeeder_guards false
     (match find_val (o_vals o) val with Some _ => true | None => false end)
     (match find_val (o_vals o) val with Some v => v_bonded v | None => false end) false
  && (negb (ValidateFeeder_needs_delegation (feeder =? val))
      || negb (ValidateFeeder_delegation_mismatch
                 (match zlookup val (o_deleg o) with Some f => f =? feeder | None => val =? feeder end))).
Proof.
  unfold validate_feeder, ValidateFeeder_guards, ValidateFeeder_needs_delegation, ValidateFeeder_delegation_mismatch.
  destruct (find_val (o_vals o) val) as [v|]; cbn [negb orb andb]; [|reflexivity].
  destruct (v_bonded v); cbn [negb orb andb]; [|reflexivity].
  rewrite !Bool.negb_involutive.
  destruct (zlookup val (o_deleg o)); [reflexivity|].
  rewrite (Z.eqb_sym val feeder). destruct (feeder =? val); reflexivity.
Qed.

(* Prevote: the handler's own guards (the feeder check is the ante handler's) *)
(* TIE: Prevote_accepted *)
Theorem Prevote_tie o chains h feeder val commit rid :
  is_ok (ohandle o chains h (MPrevote feeder val commit rid)) =
  validate_feeder o feeder val &&
  match o_round o with
  | Some r => Prevote_accepted false (rd_id r) rid h (rd_prevote_end r) false
  | None => Prevote_accepted true 0 rid h 0 false
  end.
Proof.
  unfold ohandle, Prevote_accepted. cases.
Qed.

(* Vote: commitments are compared as the committed byte strings (SHA-256 is taken to be collision free) *)
(* TIE: Vote_accepted *)
Theorem Vote_tie o chains h feeder val vd salt rid :
  is_ok (ohandle o chains h (MVote feeder val vd salt rid)) =
  validate_feeder o feeder val &&
  match o_round o with
  | Some r =>
      match zlookup val (o_prevotes o) with
      | Some c => Vote_accepted false (rd_id r) rid h (rd_vote_end r) (validate_vote_data vd chains) false false false c (preimage salt vd)
      | None => Vote_accepted false (rd_id r) rid h (rd_vote_end r) (validate_vote_data vd chains) false true false [] []
      end
  | None => Vote_accepted true 0 rid h 0 true false true false [] []
  end.
Proof.
  unfold ohandle, Vote_accepted. cases.
Qed.

(* TIE: Consent_accepted *)
Theorem Consent_tie o chains h val feeder :
  is_ok (ohandle o chains h (MConsent val feeder)) =
  Consent_accepted (match find_val (o_vals o) val with Some _ => true | None => false end)
                   (match find_val (o_vals o) val with Some v => v_bonded v | None => false end) false.
Proof.
  unfold ohandle, Consent_accepted. cases.
Qed.
