(* Obligations tying the byte-level store key builders of the current source (x/settlement/types/keys.go,
   x/oracle/types/keys.go, translated) to Base/Keys.v, and the injectivity / disjointness theorems restated on them. *)
From Settlus Require Import Base.Prelude Base.Hex Base.Dec Base.GoSem Base.Keys.
From Coq Require Import Psatz.
Require Import Translated.

(* TIE: UTXRStoreByTenantKey UTXRStoreKey UTXRStoreByRequestIdKey TenantStoreKey LastUtxrIdStoreKey *)
Theorem settlement_keys_tie t u r :
  UTXRStoreKey t u = utxr_key t u /\ UTXRStoreByRequestIdKey t r = reqid_key t r /\
  TenantStoreKey t = tenant_key t /\ LastUtxrIdStoreKey t = lastid_key t.
Proof.
  unfold UTXRStoreKey, UTXRStoreByTenantKey, UTXRStoreByRequestIdKey, TenantStoreKey, LastUtxrIdStoreKey,
    utxr_key, reqid_key, tenant_key, lastid_key. cbv zeta.
  repeat split; cbn [app]; rewrite <- ?app_assoc; reflexivity.
Qed.

(* C12 on the source: for ARBITRARY request-id bytes (any length, any content) two index keys are equal only if tenant
   and request id are; a record key determines tenant and record id *)
(* TIE: UTXRStoreByTenantKey UTXRStoreKey UTXRStoreByRequestIdKey TenantStoreKey LastUtxrIdStoreKey *)
Theorem source_keys_injective t r t' r' u u' :
  0 <= t < two64 -> 0 <= t' < two64 -> 0 <= u < two64 -> 0 <= u' < two64 ->
  (UTXRStoreByRequestIdKey t r = UTXRStoreByRequestIdKey t' r' -> t = t' /\ r = r') /\
  (UTXRStoreKey t u = UTXRStoreKey t' u' -> t = t' /\ u = u').
Proof.
  intros Ht Ht' Hu Hu'. split; intros H.
  - destruct (settlement_keys_tie t 0 r) as (_ & E1 & _). destruct (settlement_keys_tie t' 0 r') as (_ & E2 & _).
    rewrite E1, E2 in H. apply reqid_key_inj; assumption.
  - destruct (settlement_keys_tie t u []) as (E1 & _). destruct (settlement_keys_tie t' u' []) as (E2 & _).
    rewrite E1, E2 in H. apply utxr_key_inj; assumption.
Qed.

(* oracle keys: one prefix byte, then the address string; distinct prefixes, injective in the address *)
(* TIE: FeederDelegationKey MissCountKey AggregatePrevoteKey AggregateVoteKey *)
Theorem oracle_keys_tie v w :
  FeederDelegationKey v = 1 :: v /\ MissCountKey v = 2 :: v /\ AggregatePrevoteKey v = 3 :: v /\ AggregateVoteKey v = 4 :: v /\
  (AggregatePrevoteKey v = AggregatePrevoteKey w -> v = w) /\ (AggregateVoteKey v = AggregateVoteKey w -> v = w) /\
  AggregatePrevoteKey v <> AggregateVoteKey w /\ MissCountKey v <> FeederDelegationKey w.
Proof.
  unfold FeederDelegationKey, MissCountKey, AggregatePrevoteKey, AggregateVoteKey. cbn [app].
  repeat split; try (intros H; inversion H; reflexivity); intro H; discriminate H.
Qed.
