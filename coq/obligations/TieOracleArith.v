(* Obligations that tie the translated source (Translated.v, regenerated from /repo on every run)
   to the hand-written model: round arithmetic, slash-window gate, parameter validation. *)
From Settlus Require Import Base.Prelude Base.Dec Base.GoSem Oracle.Arith Oracle.ArithProofs.
From Coq Require Import Psatz.
Require Import Translated.

(* the translated function IS the as-coded model function, for all inputs *)
(* TIE: CalculateRoundStartHeight *)
Theorem CalculateRoundStartHeight_tie h p :
  round_start_u h p =
  if CalculateRoundStartHeight_panics h p then None else Some (CalculateRoundStartHeight h p).
Proof. reflexivity. Qed.

(* TIE: CalculateRoundStartHeight CalculateRoundId *)
Theorem CalculateRoundId_tie h p :
  CalculateRoundId h p = CalculateRoundStartHeight h p /\ CalculateRoundId_panics h p = CalculateRoundStartHeight_panics h p.
Proof. split; reflexivity. Qed.

(* the code wraps after every int64 operation, the model once at the end *)
(* TIE: CalculateVotePeriod *)
Theorem CalculateVotePeriod_tie h p :
  vote_period_i h p =
  if CalculateVotePeriod_panics h p then None else Some (CalculateVotePeriod h p).
Proof.
  unfold vote_period_i, CalculateVotePeriod_panics, CalculateVotePeriod.
  cbv zeta.
  destruct (to_int64 (to_int64 p * 2) =? 0) eqn:E; cbn [orb]; [reflexivity|].
  generalize (Z.rem h (to_int64 (to_int64 p * 2))) as r. intros r.
  generalize (to_int64 (to_int64 p * 2)) as m2. generalize (to_int64 p) as ip. intros ip m2.
  f_equal. f_equal; int64_eq.
Qed.

(* hence, for accepted vote periods, the source computes the mathematical round *)
(* TIE: CalculateRoundStartHeight *)
Corollary source_round_start h p : valid_period p -> 0 <= h < two63 ->
  CalculateRoundStartHeight_panics h p = false /\ CalculateRoundStartHeight h p = rstart h p.
Proof.
  intros Hp Hh. pose proof (round_start_u_spec h p Hp Hh) as H.
  rewrite CalculateRoundStartHeight_tie in H.
  destruct (CalculateRoundStartHeight_panics h p); [discriminate|]. split; [reflexivity|congruence].
Qed.

(* TIE: CalculateVotePeriod *)
Corollary source_vote_period h p : valid_period p -> valid_height p h ->
  CalculateVotePeriod_panics h p = false /\ CalculateVotePeriod h p = (prevote_end h p, vote_end h p).
Proof.
  intros Hp Hh. pose proof (vote_period_i_spec h p Hp Hh) as H.
  rewrite CalculateVotePeriod_tie in H.
  destruct (CalculateVotePeriod_panics h p); [discriminate|]. split; [reflexivity|congruence].
Qed.

(* block heights are int64 values *)
(* TIE: IsSlashWindowClosing *)
Theorem IsSlashWindowClosing_tie h p w : h < two63 ->
  IsSlashWindowClosing h p w = window_closing_u h p w /\ IsSlashWindowClosing_panics h p w = false.
Proof.
  intros Hh.
  assert (Hu : 0 <= h -> to_uint64 h = h) by (intros; apply to_uint64_small; unfold two64, two63 in *; lia).
  unfold IsSlashWindowClosing, IsSlashWindowClosing_panics, window_closing_u. cbv zeta.
  destruct (Z.ltb_spec h 0) as [Hneg|Hpos].
  - rewrite Bool.orb_true_r. split; arith_cases.
  - rewrite (Hu Hpos). generalize (wrap64 (p * 2)) as m2. intros m2.
    destruct (Z.eqb_spec w 0) as [->|Hw]; [split; arith_cases|].
    generalize (Z.mod_pos_bound h w) (Z.mod_neg_bound h w). generalize (h mod w) as r. intros r B1 B2.
    split; arith_cases.
Qed.

(* the tally gate and the gate of the slash window inside the end-blocker *)
(* TIE: CalculateVotePeriod EndBlocker_vote_end EndBlocker_not_tally *)
Theorem EndBlocker_gate_tie h p : valid_period p -> valid_height p h ->
  EndBlocker_vote_end_panics h p = false /\
  EndBlocker_not_tally h (EndBlocker_vote_end h p) = negb (is_tally h p).
Proof.
  intros Hp Hh. destruct (source_vote_period h p Hp Hh) as [H1 H2].
  unfold EndBlocker_vote_end_panics, EndBlocker_not_tally, EndBlocker_vote_end, is_tally.
  rewrite H1, H2. split; reflexivity.
Qed.

(* TIE: IsSlashWindowClosing EndBlocker_window_closing *)
Theorem EndBlocker_window_tie h p w : valid_period p -> 0 <= h < two63 -> 0 < w ->
  EndBlocker_window_closing h p w = window_closing h p w /\ EndBlocker_window_closing_panics h p w = false.
Proof.
  intros Hp Hh Hw. unfold EndBlocker_window_closing, EndBlocker_window_closing_panics.
  destruct (IsSlashWindowClosing_tie h p w ltac:(lia)) as [H1 H2]. rewrite H1, H2. split; [|reflexivity].
  unfold window_closing_u, window_closing.
  assert (E : wrap64 (p * 2) = 2 * p).
  { unfold valid_period, max_vote_period in Hp. rewrite wrap64_small; unfold two64; lia. }
  rewrite E.
  destruct (w =? 0) eqn:E1; [lia|]. destruct (h <? 0) eqn:E2; [lia|]. reflexivity.
Qed.

(* Params.Validate accepts exactly the parameter sets of the model (plus the two Dec ranges) *)
(* TIE: Params_Validate *)
Theorem Params_Validate_tie p thr frac w mm : 0 <= p < two64 -> 0 <= w < two64 -> 0 <= mm < two64 ->
  Params_Validate p thr frac w mm =
    valid_params p w mm && (500000000000000000 <=? thr) && (thr <=? prec) && (0 <=? frac) && (frac <=? prec).
Proof.
  intros Hp Hw Hm. unfold Params_Validate, valid_params, max_vote_period, dec_of_int, prec.
  autounfold with translated.   (* constants the source may have moved into helper functions *)
  rewrite ?gtb_ltb, ?geb_leb.
  (* every path through the guards of the source, each closed by linear arithmetic over the comparisons *)
  repeat match goal with
         | |- context [if ?c then _ else _] => destruct c eqn:?
         end;
  unfold two64 in *; Z.div_mod_to_equations; lia.
Qed.

(* TIE: Params_Validate *)
Theorem Params_Validate_never_panics p thr frac w mm : Params_Validate_panics p thr frac w mm = false.
Proof.
  unfold Params_Validate_panics. destruct (p =? 0) eqn:E; cbn [negb andb]; [reflexivity|].
  rewrite !Bool.andb_false_r. reflexivity.
Qed.

(* the round the end-blocker publishes for the next height *)
(* TIE: CalculateVotePeriod CalculateRoundStartHeight CalculateRoundId NextRound_prevote_end NextRound_vote_end NextRound_id NextRound_height *)
Theorem NextRound_tie h p : valid_period p -> valid_height p (h + 1) -> 0 <= h ->
  NextRound_prevote_end_panics h p = false /\
  NextRound_prevote_end h p = prevote_end (h + 1) p /\ NextRound_vote_end h p = vote_end (h + 1) p /\
  CalculateRoundId (NextRound_id h) p = rstart (h + 1) p.
Proof.
  intros Hp Hh H0.
  assert (Hs : to_int64 (h + 1) = h + 1).
  { apply to_int64_small. unfold valid_height, valid_period, two63 in *. lia. }
  destruct (source_vote_period (h + 1) p Hp Hh) as [H1 H2].
  unfold NextRound_prevote_end_panics, NextRound_prevote_end, NextRound_vote_end, NextRound_id. cbv zeta.
  rewrite Hs, H1, H2. cbn [fst snd]. repeat split.
  unfold CalculateRoundId. apply source_round_start; [assumption|]. unfold valid_height, valid_period, two63 in *. lia.
Qed.

(* the creation cut-off handed to settlement: none in the first round, round start - 1 afterwards *)
(* TIE: CalculateRoundStartHeight Sources_has_cutoff Sources_cutoff Fill_no_cutoff Fill_cutoff *)
Theorem cutoff_tie h p : valid_period p -> 0 <= h < two63 ->
  Sources_has_cutoff_panics h p = false /\ Fill_no_cutoff_panics h p = false /\
  Sources_has_cutoff h p = negb (rstart h p =? 0) /\ Fill_no_cutoff h p = (rstart h p =? 0) /\
  (rstart h p <> 0 -> Sources_cutoff h p = rstart h p - 1 /\ Fill_cutoff h p = rstart h p - 1).
Proof.
  intros Hp Hh. destruct (source_round_start h p Hp Hh) as [H1 H2].
  unfold Sources_has_cutoff_panics, Fill_no_cutoff_panics, Sources_has_cutoff, Fill_no_cutoff, Sources_cutoff, Fill_cutoff.
  cbv zeta. rewrite H1, H2.
  assert (Hr : 0 <= rstart h p <= h).
  { unfold rstart, valid_period in *.
    pose proof (Z.mod_pos_bound h (2 * p) ltac:(lia)). pose proof (Z.mod_le h (2 * p) ltac:(lia) ltac:(lia)). lia. }
  repeat split.
  - rewrite gtb_ltb. destruct (rstart h p =? 0) eqn:E; cbn [negb]; lia.
  - intros. apply wrap64_small. unfold two64, two63 in *. lia.
  - intros. apply wrap64_small. unfold two64, two63 in *. lia.
Qed.
