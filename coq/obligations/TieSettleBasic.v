(* Obligations tying the stateless validation of the settlement messages (x/settlement/types/msg.go ValidateBasic,
   translated guard by guard) to [validate_basic] of the model.  The atoms of a translated function are the library
   predicates the Go code calls (sdk.ValidateDenom, Coin.Validate, common.IsHexAddress, big.Int.SetString ...); each
   theorem instantiates them with the model's predicate of the same name and states that the conjunction of guards the
   source applies is exactly the model's acceptance condition: a guard that is dropped, added, negated or has its
   constant changed breaks the theorem. *)
From Settlus Require Import Base.Prelude Base.Hex Base.Dec Base.GoSem Settlement.Model.
From Coq Require Import Psatz.
Require Import Translated.

(* what the atoms of the token-id check stand for *)
Definition tok_prefixed (s : bytes) : bool :=
  match s with a :: b :: _ => (a =? c_0) && (b =? c_x) | _ => false end.
(* big.Int.SetString(s[2:], 16): an optional sign, then at least one hexadecimal digit, nothing else *)
Definition tok_parses (s : bytes) : bool :=
  match s with
  | _ :: _ :: c :: ds =>
      if (c =? 43) || (c =? 45) then (match ds with [] => false | _ => forallb is_hex_char ds end)
      else forallb is_hex_char (c :: ds)
  | _ => false
  end.
Definition is_nil {A} (l : list A) : bool := match l with [] => true | _ => false end.

(* the sender of a model message is an account: its bech32 spelling always parses *)
(* TIE: RecordBasic_accepts *)
Theorem RecordBasic_tie sender tid req denom amount chain contract tok :
  validate_basic (MRecord sender tid req denom amount chain contract tok) =
  RecordBasic_accepts false (negb (valid_denom denom && (0 <=? amount) && (amount <? two256))) (amount =? 0)
    (is_hex_address contract) (hex_to_address contract =? 0)
    (is_nil tok) (lenZ tok) (tok_prefixed tok) (tok_parses tok).
Proof.
  unfold RecordBasic_accepts, validate_basic, valid_coin.
  destruct (valid_denom denom); cbn [andb negb]; [|reflexivity].
  destruct (Z.ltb_spec 0 amount), (Z.leb_spec 0 amount), (Z.eqb_spec amount 0); try lia; cbn [andb negb];
    try (destruct (amount <? two256); reflexivity).
  destruct (amount <? two256); cbn [andb negb]; [|reflexivity].
  destruct (is_hex_address contract); cbn [andb negb]; [|reflexivity].
  destruct (hex_to_address contract =? 0); cbn [andb negb]; [reflexivity|].
  (* the token id: every shape of the string, whatever length bound the source writes *)
  unfold valid_token_hex, is_nil, tok_prefixed, tok_parses, lenZ.
  destruct tok as [|a [|b [|c ds]]]; cbn [length orb negb andb];
    repeat match goal with
           | |- context [Z.of_nat ?n <? ?k] => destruct (Z.ltb_spec (Z.of_nat n) k)
           end; cbn [orb negb andb]; try reflexivity; try lia;
    try (destruct ((a =? c_0) && (b =? c_x)); cbn [orb negb andb]; try reflexivity);
    try (destruct ((c =? 43) || (c =? 45)); [destruct ds; [reflexivity|]|]);
    match goal with |- ?x = (if negb ?y then false else true) => destruct y eqn:E; cbn [negb]; try reflexivity; try (rewrite E; reflexivity) end.
Qed.

(* TIE: CreateTenantBasic_accepts *)
Theorem CreateTenantBasic_tie sender denom period : 0 <= period < two64 ->
  validate_basic (MCreateTenant sender denom period) =
  CreateTenantBasic_accepts false (is_nil denom) (negb (valid_denom denom)) period.
Proof.
  intros Hp. unfold CreateTenantBasic_accepts, validate_basic, valid_period_u64, is_nil.
  destruct denom as [|c rest]; [reflexivity|].
  destruct (valid_denom (c :: rest)); cbn [negb andb]; [|reflexivity].
  destruct (Z.eqb_spec period 0), (Z.leb_spec 1 period), (Z.ltb_spec period two64); try lia; reflexivity.
Qed.

(* TIE: CreateTenantMCBasic_accepts *)
Theorem CreateTenantMCBasic_tie sender denom period contract foreign : 0 <= period < two64 ->
  validate_basic (MCreateTenantMC sender denom period contract foreign) =
  CreateTenantMCBasic_accepts false (is_nil denom) (negb (valid_denom denom)) period
    (negb (is_nil contract)) (is_hex_address contract).
Proof.
  intros Hp. unfold CreateTenantMCBasic_accepts, validate_basic, valid_period_u64, is_nil.
  assert (Hc : bytes_eqb contract [] = match contract with [] => true | _ => false end) by (destruct contract; reflexivity).
  rewrite Hc.
  destruct denom as [|c rest]; [reflexivity|].
  destruct (valid_denom (c :: rest)); cbn [negb andb]; [|reflexivity].
  destruct (Z.eqb_spec period 0), (Z.leb_spec 1 period), (Z.ltb_spec period two64); try lia; cbn [andb];
    destruct contract; cbn [negb andb orb]; try reflexivity; destruct (is_hex_address _); reflexivity.
Qed.

(* TIE: UpdatePeriodBasic_accepts *)
Theorem UpdatePeriodBasic_tie sender tid period : 0 <= period < two64 ->
  validate_basic (MUpdatePeriod sender tid period) = UpdatePeriodBasic_accepts false period.
Proof.
  intros Hp. unfold UpdatePeriodBasic_accepts, validate_basic, valid_period_u64.
  destruct (Z.eqb_spec period 0), (Z.leb_spec 1 period), (Z.ltb_spec period two64); try lia; reflexivity.
Qed.

(* TIE: DepositBasic_accepts *)
Theorem DepositBasic_tie sender tid denom amount :
  validate_basic (MDeposit sender tid denom amount) =
  DepositBasic_accepts false (negb (valid_denom denom && (0 <=? amount) && (amount <? two256))) (amount =? 0).
Proof.
  unfold DepositBasic_accepts, validate_basic, valid_coin.
  destruct (valid_denom denom); cbn [andb negb]; [|reflexivity].
  destruct (Z.ltb_spec 0 amount), (Z.leb_spec 0 amount), (Z.eqb_spec amount 0); try lia; cbn [andb negb];
    destruct (amount <? two256); reflexivity.
Qed.

(* the admin named by a model message is an account as well: non-empty, parses, has bytes *)
(* TIE: AddAdminBasic_accepts RemoveAdminBasic_accepts CancelBasic_accepts *)
Theorem AdminBasic_tie sender tid admin req :
  validate_basic (MAddAdmin sender tid admin) = AddAdminBasic_accepts false false false false /\
  validate_basic (MRemoveAdmin sender tid admin) = RemoveAdminBasic_accepts false false false false /\
  validate_basic (MCancel sender tid req) = CancelBasic_accepts false.
Proof. repeat split. Qed.

(* each guard matters: the translated validation refuses as soon as one library predicate fails *)
(* TIE: RecordBasic_accepts CreateTenantMCBasic_accepts *)
Theorem Basic_guards_refuse :
  (forall a b c d e f g h, RecordBasic_accepts true a b c d e f g h = false) /\
  (forall a b c d e f, RecordBasic_accepts false false true a b c d e f = false) /\
  (forall dn bd p hc ih, CreateTenantMCBasic_accepts true dn bd p hc ih = false) /\
  (forall p, CreateTenantMCBasic_accepts false false false p true false = false).
Proof.
  repeat split; intros; unfold RecordBasic_accepts, CreateTenantMCBasic_accepts; try reflexivity.
  destruct (p =? 0); reflexivity.
Qed.
