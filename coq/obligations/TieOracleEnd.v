(* Obligations tying the translated fragments of the oracle end-blocker (claims, threshold, tally decisions,
   miss and slash conditions) and of RewardBallotWinners to the model. *)
From Settlus Require Import Base.Prelude Base.Hex Base.Dec Base.GoSem Settlement.Model Oracle.Arith Oracle.Model.
From Coq Require Import Psatz.
Require Import Translated.

(* TIE: EndBlocker_claims Slash_active_only *)
Theorem claims_tie v : active v = EndBlocker_claims (v_bonded v) (v_jailed v) /\ active v = Slash_active_only (v_bonded v) (v_jailed v).
Proof. split; reflexivity. Qed.

(* TIE: EndBlocker_threshold *)
Theorem threshold_tie o :
  threshold_votes o = EndBlocker_threshold (op_threshold (o_params o)) (total_bonded_power o).
Proof. unfold threshold_votes, EndBlocker_threshold. cbv zeta. rewrite truncate_ceil. reflexivity. Qed.

(* the int64 accumulator of the claim loop is the sum of the weights (no wrap below 2^63) *)
(* TIE:  *)
Lemma sum_fold_int64 (step : Z -> Z -> Z) (l : list Z) acc :
  (forall a w, step a w = to_int64 (a + w)) ->
  (forall x, In x l -> 0 <= x) -> 0 <= acc -> acc + sumZ l < two63 ->
  fold_left step l acc = acc + sumZ l.
Proof.
  intros Hstep. revert acc. induction l as [|x l IH]; intros acc Hw Ha Hlt; cbn [fold_left sumZ] in *; [lia|].
  assert (0 <= x) by (apply Hw; left; reflexivity).
  assert (0 <= sumZ l) by (apply sumZ_nonneg; intros; apply Hw; right; assumption).
  rewrite Hstep, to_int64_small by lia. rewrite IH; [lia| |lia|lia]. intros; apply Hw; right; assumption.
Qed.

(* TIE: EndBlocker_total_power Reward_weight_sum *)
Theorem total_power_tie l : (forall x, In x l -> 0 <= x) -> sumZ l < two63 ->
  fold_left EndBlocker_total_power l 0 = sumZ l /\ fold_left Reward_weight_sum l 0 = sumZ l.
Proof.
  intros Hw Hlt. split; rewrite sum_fold_int64; try lia; try assumption; reflexivity.
Qed.

(* pickMostVoted: owners whose support reaches the threshold; accepted iff exactly one *)
(* TIE: Tally_reaches_threshold Tally_ambiguous *)
Theorem pick_tie cl bs thr n :
  pick cl bs thr n =
  let above := filter (fun ow => Tally_reaches_threshold (support cl bs n ow) thr) (owners_for bs n) in
  if Tally_ambiguous (lenZ above) then None else hd_error above.
Proof.
  unfold pick, Tally_reaches_threshold, Tally_ambiguous. cbv zeta.
  replace (filter (fun ow => support cl bs n ow >=? thr) (owners_for bs n))
    with (filter (fun ow => thr <=? support cl bs n ow) (owners_for bs n)).
  2:{ apply filter_ext. intros. symmetry. apply geb_leb. }
  destruct (filter _ _) as [|a [|b l]]; unfold lenZ; cbn [length hd_error]; try reflexivity.
  replace (Z.of_nat (S (S (length l))) >? 1) with true by lia. reflexivity.
Qed.

(* groupVotes: a ballot repeats an earlier one iff same data (NFT and owner) and same voter *)
(* TIE: Tally_repeated *)
Theorem repeated_tie a b :
  ballot_eqb a b = Tally_repeated (nft_eqb (b_nft a) (b_nft b) && (b_owner a =? b_owner b)) (b_voter a =? b_voter b).
Proof.
  unfold ballot_eqb, Tally_repeated.
  destruct (b_voter a =? b_voter b), (nft_eqb (b_nft a) (b_nft b)), (b_owner a =? b_owner b); reflexivity.
Qed.

(* a miss is charged when the revealed value differs from the accepted one; nobody is marked abstaining *)
(* TIE: Tally_miss Tally_abstain_skipped *)
Theorem miss_tie d a : Tally_miss d = d /\ Tally_abstain_skipped a = a.
Proof. split; reflexivity. Qed.

(* slash exactly the active validators whose counter exceeds the maximum *)
(* TIE: Slash_over_limit Slash_active_only *)
Theorem slash_tie o m v c : zlookup (v_addr v) m = Some c ->
  slash_one o m v =
  if Slash_over_limit c (op_maxmiss (o_params o)) && Slash_active_only (v_bonded v) (v_jailed v)
  then mkVal (v_addr v) (v_tokens v - slash_amount o v) (v_bonded v) true (v_rate v) else v.
Proof.
  intros H. unfold slash_one, Slash_over_limit. rewrite H, gtb_ltb. reflexivity.
Qed.

(* RewardBallotWinners *)
(* TIE: Reward_counts Reward_skips *)
Theorem reward_counts_tie miss : Reward_counts miss false = negb miss /\ Reward_skips miss false = miss.
Proof. unfold Reward_counts, Reward_skips. destruct miss; split; reflexivity. Qed.

(* TIE: Reward_share Reward_no_winner *)
Theorem reward_share_tie amt wsum w :
  reward_of amt wsum w = Reward_share (dec_of_int amt) w wsum /\ Reward_no_winner wsum = (wsum =? 0).
Proof. split; reflexivity. Qed.

(* TIE: Reward_contribution Reward_final Reward_moved *)
Theorem reward_lines_tie rew rate :
  Reward_contribution rew rate = dec_mul_trunc (dec_of_int rew) rate /\
  Reward_final rew rate = dec_of_int rew - dec_mul_trunc (dec_of_int rew) rate /\
  (forall moved, Reward_moved moved rew = moved + rew).
Proof. repeat split. Qed.

(* structure of the end-blocker that the model takes for granted: at a tally the ballots are cleared and the slash
   window gate is evaluated on EVERY path (the only statement before them that can skip them is the return of the tally
   gate - a `continue` of an earlier loop skips nothing and is not counted; neither call sits inside a conditional), and at a closing every miss counter is deleted (no exit
   precedes the deletion inside the iteration callback, which is not nested in a conditional) *)
(* TIE: EndBlocker_clears_unconditional EndBlocker_close_unconditional *)
Theorem end_blocker_structure_tie :
  EndBlocker_clears_unconditional = 1000 /\ EndBlocker_close_unconditional = 1000.
Proof. split; reflexivity. Qed.

(* TIE: Slash_reset_unconditional Clear_prevotes_unconditional Clear_votes_unconditional *)
Theorem resets_unconditional_tie :
  Slash_reset_unconditional = 0 /\ Clear_prevotes_unconditional = 0 /\ Clear_votes_unconditional = 0.
Proof. repeat split. Qed.
