(* Obligations tying the store writes of the small keeper functions (which keys are set / deleted, in order), the
   id allocation and the admin test, read from the current source, to the state updates of the model.
   The model updates the record list and the request-id index TOGETHER wherever a record appears or disappears
   (create_utxr, MCancel, settle_loop: set_utxrs + set_idx); the index / record bijection of C12 and the
   "cancel after payout fails" clause of C02 rest on the code doing the same. *)
From Coq Require Import String.
From Settlus Require Import Base.Prelude Base.Hex Base.Dec Base.GoSem Settlement.Model Oracle.Model.
From Coq Require Import Psatz.
Require Import Translated.
Open Scope string_scope.

(* writes to different keys commute: the lists are compared as multisets (methods of the same keeper are followed) *)
Definition count (x : string) (l : list string) : nat := List.length (filter (String.eqb x) l).
Definition same_writes (a b : list string) : bool :=
  forallb (fun x => Nat.eqb (count x a) (count x b)) (a ++ b).

(* TIE: Store_CreateUTXR Store_GenerateUtxrId *)
Theorem create_writes_record_and_index :
  same_writes Store_CreateUTXR ["Set:LastUtxrIdStoreKey"; "Set:UTXRStoreKey"; "Set:UTXRStoreByRequestIdKey"] = true
  /\ same_writes Store_GenerateUtxrId ["Set:LastUtxrIdStoreKey"] = true.
Proof. split; vm_compute; reflexivity. Qed.

(* every deletion of a record also deletes its request-id entry (F01 was the missing second delete) *)
(* TIE: Store_deleteUTXR Store_DeleteUTXRByRequestId *)
Theorem delete_removes_record_and_index :
  same_writes Store_deleteUTXR ["Delete:UTXRStoreKey"; "Delete:UTXRStoreByRequestIdKey"] = true /\
  same_writes Store_DeleteUTXRByRequestId ["Delete:UTXRStoreKey"; "Delete:UTXRStoreByRequestIdKey"] = true.
Proof. split; vm_compute; reflexivity. Qed.

(* TIE: Store_ImportUTXR *)
Theorem import_writes_record_index_and_counter :
  same_writes Store_ImportUTXR ["Set:UTXRStoreKey"; "Set:UTXRStoreByRequestIdKey"; "Set:LastUtxrIdStoreKey"] = true.
Proof. vm_compute; reflexivity. Qed.

(* the oracle fill rewrites a record in place: one Set (under the key it is iterating at, however that key is spelled
   in the source), no Delete; a tenant is written under its own key *)
(* TIE: Store_SetRecipients Store_SetTenant *)
Theorem fill_and_tenant_writes :
  List.length Store_SetRecipients = 1%nat /\ existsb (String.prefix "Delete:") Store_SetRecipients = false /\
  Store_SetTenant = ["Set:TenantStoreKey"].
Proof. repeat split. Qed.

(* oracle keeper: one key per setter, the matching key per deleter *)
(* TIE: Store_SetFeederDelegation Store_SetMissCount Store_DeleteMissCount Store_SetAggregatePrevote Store_DeleteAggregatePrevote Store_SetAggregateVote Store_DeleteAggregateVote Store_SetCurrentRoundInfo *)
Theorem oracle_store_writes :
  Store_SetFeederDelegation = ["Set:FeederDelegationKey"] /\
  Store_SetMissCount = ["Set:MissCountKey"] /\ Store_DeleteMissCount = ["Delete:MissCountKey"] /\
  Store_SetAggregatePrevote = ["Set:AggregatePrevoteKey"] /\ Store_DeleteAggregatePrevote = ["Delete:AggregatePrevoteKey"] /\
  Store_SetAggregateVote = ["Set:AggregateVoteKey"] /\ Store_DeleteAggregateVote = ["Delete:AggregateVoteKey"] /\
  Store_SetCurrentRoundInfo = ["Set:types.RoundKeyPrefix"].
Proof. repeat split. Qed.

(* id allocation: first id 0, then last + 1 in uint64; tenant ids: largest + 1 *)
(* TIE: NextUtxrId NextUtxrId_first NextTenantId *)
Theorem id_allocation_tie s tid :
  next_uid s tid = (if NextUtxrId_first (match zlookup tid (s_last s) with Some _ => true | None => false end)
                    then NextUtxrId (match zlookup tid (s_last s) with Some u => u | None => 0 end) else 0)
  /\ (forall l, NextTenantId (largest_tenant_id l) = wrap64 (largest_tenant_id l + 1)).
Proof.
  unfold next_uid, NextUtxrId_first, NextUtxrId. split; [|reflexivity].
  destruct (zlookup tid (s_last s)); reflexivity.
Qed.

(* duplicate request ids are refused; an account acts for a tenant iff it matches one of the admins *)
(* TIE: CreateUTXR_duplicate Admin_no_tenant Admin_match *)
Theorem duplicate_and_admin_tie s tid u sender :
  (match create_utxr s tid u with Rejected => true | _ => false end
   = CreateUTXR_duplicate (match idx_get (s_idx s) tid (u_req u) with Some _ => true | None => false end))
  /\ is_admin s tid sender =
     match find_tenant (s_tenants s) tid with
     | Some t => negb (Admin_no_tenant false) && existsb (fun a => Admin_match (sender =? a)%Z) (t_admins t)
     | None => negb (Admin_no_tenant true)
     end.
Proof.
  unfold create_utxr, CreateUTXR_duplicate, is_admin, Admin_no_tenant, Admin_match. split.
  - destruct (idx_get (s_idx s) tid (u_req u)); reflexivity.
  - destruct (find_tenant (s_tenants s) tid) as [t|]; [|reflexivity]. cbn [negb andb].
    induction (t_admins t) as [|a l IH]; cbn [memZ existsb]; [reflexivity|]. rewrite IH. reflexivity.
Qed.
