(* Property statements restated on the TRANSLATED SOURCE (Translated.v, regenerated from /repo on every run):
   corollaries of the tie theorems and of the property theorems of the model. *)
From Settlus Require Import Base.Prelude Base.Hex Base.Dec Base.GoSem Settlement.Model Oracle.Arith Oracle.ArithProofs Ante.Fee.
From Settlus Require Import Props.C16.
From Coq Require Import Psatz.
Require Import Translated TieFee.

(* C16: what the source computes for collector and oracle pool loses at most one unit of the fee *)
(* TIE: Fee_collector_share Fee_oracle_share *)
Theorem source_fee_split q fee : 0 <= q <= prec -> 0 <= fee ->
  0 <= Fee_collector_share fee q /\ 0 <= Fee_oracle_share fee q /\
  fee - 1 <= Fee_collector_share fee q + Fee_oracle_share fee q <= fee.
Proof.
  intros Hq Hf. pose proof (C16_split q fee Hq Hf) as H. rewrite CalculateFees_tie in H.
  destruct H as (_ & _ & H1 & H2 & H3). repeat split; lia.
Qed.

