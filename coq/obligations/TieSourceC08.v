(* Property statements restated on the TRANSLATED SOURCE (Translated.v, regenerated from /repo on every run):
   corollaries of the tie theorems and of the property theorems of the model. *)
From Settlus Require Import Base.Prelude Base.Hex Base.Dec Base.GoSem Settlement.Model Oracle.Arith Oracle.ArithProofs Ante.Fee.
From Coq Require Import Psatz.
Require Import Translated TieOracleArith.

(* C08: the tally gate of the end-blocker opens exactly at the last block of a round, once per round *)
(* TIE: CalculateVotePeriod EndBlocker_vote_end EndBlocker_not_tally *)
Theorem source_tally_gate h p : valid_period p -> valid_height p h ->
  (EndBlocker_not_tally h (EndBlocker_vote_end h p) = false <-> h mod (2 * p) = 2 * p - 1).
Proof.
  intros Hp Hh. destruct (EndBlocker_gate_tie h p Hp Hh) as [_ E]. rewrite E, Bool.negb_false_iff.
  apply is_tally_iff; unfold valid_period, valid_height in *; lia.
Qed.

