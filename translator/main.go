// go2coq: a translator from a small, explicitly delimited subset of Go to Gallina.
//
// It reads the CURRENT source of settlus/chain (go/parser only, no type checker, no dependency on the
// repository's packages, so it also runs on a tree the harness no longer builds against) and prints
// Coq definitions for
//   - whole pure functions (integer / boolean arithmetic with the machine semantics written out), and
//   - decision fragments of larger functions: the condition of a chosen `if`, the right-hand side of a
//     chosen assignment, or the ordered list of early-return guards of a handler; everything the fragment
//     reads that is not computed inside it is declared as an *atom* (an opaque, typed input).
//
// The translation is fail-closed: an expression, statement or shape outside the subset makes the target
// fail (a line `(* TRANSLATION-FAILED name: reason *)` and no definition), which breaks the proof
// obligation that mentions it.  Semantics:
//
//	uint64  + - *   -> wrap64 (...)        / -> Z.div   % -> Z.modulo   (operands are in range)
//	uint32  + - *   -> wrap32 (...)
//	int64/int + - * -> to_int64 (...)      / -> Z.quot  % -> Z.rem
//	sdk.Int  Mul Add Sub -> Z arithmetic, Quo -> Z.quot (the 256-bit cap is not part of the fragment)
//	sdk.Dec  -> Z scaled by 10^18 with the functions of Base/Dec.v
//	a division or remainder whose divisor is not a non-zero literal contributes to <name>_panics,
//	a boolean that is true iff an evaluated divisor is zero (short-circuit evaluation respected).
package main

import (
	"bytes"
	"flag"
	"fmt"
	"go/ast"
	"go/parser"
	"go/printer"
	"go/token"
	"os"
	"path/filepath"
	"regexp"
	"sort"
	"strings"
)

type Atom struct{ Go, Coq, Typ string }

type Target struct {
	Name   string // Coq identifier
	File   string // repo-relative file
	Func   string // "Name" or "Recv.Name"
	Kind   string // func | cond | value | guards
	Pick   string // cond: substring of the printed condition; value: printed left-hand side
	Nth    int    // which match (0 = first)
	Stop   string // guards: stop before the first top-level statement whose text contains this
	Atoms  []Atom
	Locals []string // local variables whose dominating definitions are inlined
}

type tctx struct {
	fset   *token.FileSet
	t      *Target
	env    map[string]string // local variable -> type
	consts map[string]ast.Expr
	vars   map[string]ast.Expr // package-level variables with an initialiser (key prefixes)
	funcs  map[string]*Target  // translated whole functions by Go name
	ftypes map[string][]string
	used   map[string]bool
	files  []*ast.File // the package of the target: pure helper functions called from a fragment are translated too
	aux    *[]string   // definitions of such helpers, printed before the target
	depth  int
}

func goType(t string) string {
	switch t {
	case "math.Int", "sdk.Int", "sdkmath.Int":
		return "Int"
	case "sdk.Dec", "math.LegacyDec", "sdkmath.LegacyDec":
		return "Dec"
	case "sdk.Coins":
		return "Coins"
	case "sdk.DecCoins":
		return "DecCoins"
	case "[]byte":
		return "bytes"
	}
	return t
}

func okParam(ty string) bool {
	return isInt(ty) || ty == "bool" || ty == "Int" || ty == "Dec" || ty == "string" || ty == "bytes"
}

// translate a pure helper function of the same package on the fly (extract-function refactors keep the tie)
func (c *tctx) helper(name string) bool {
	if _, ok := c.funcs[name]; ok {
		return true
	}
	if c.depth > 4 {
		return false
	}
	fd := findFunc(c.files, name)
	if fd == nil || fd.Recv != nil || fd.Type.Results == nil {
		return false
	}
	ok := false
	func() {
		defer func() {
			if r := recover(); r != nil {
				if _, isF := r.(failure); !isF {
					panic(r)
				}
			}
		}()
		t := &Target{Name: "Aux_" + name, Kind: "func"}
		h := &tctx{fset: c.fset, t: t, env: map[string]string{}, consts: c.consts, vars: c.vars, funcs: c.funcs, ftypes: c.ftypes,
			used: map[string]bool{}, files: c.files, aux: c.aux, depth: c.depth + 1}
		var params, sig []string
		for _, fl := range fd.Type.Params.List {
			ty := goType(norm(c.fset, fl.Type))
			for _, nm := range fl.Names {
				if !okParam(ty) {
					fail("parameter type %s", ty)
				}
				h.env[nm.Name] = ty
				params = append(params, fmt.Sprintf("(v_%s : %s)", nm.Name, coqType(ty)))
				sig = append(sig, ty)
			}
		}
		var results []string
		for _, fl := range fd.Type.Results.List {
			n := len(fl.Names)
			if n == 0 {
				n = 1
			}
			for j := 0; j < n; j++ {
				results = append(results, goType(norm(c.fset, fl.Type)))
			}
		}
		if len(results) != 1 || results[0] == "error" {
			fail("helper result")
		}
		value, panics := h.block(fd.Body.List, results)
		*c.aux = append(*c.aux, fmt.Sprintf("(* helper %s, translated because a fragment calls it *)\nDefinition %s %s : %s :=\n  %s.\nDefinition %s_panics %s : bool :=\n  %s.\n#[global] Hint Unfold %s %s_panics : translated.\n\n",
			name, t.Name, strings.Join(params, " "), coqType(results[0]), value, t.Name, strings.Join(params, " "), panics, t.Name, t.Name))
		c.funcs[name] = t
		c.ftypes[name] = append(sig, results[0])
		ok = true
	}()
	return ok
}

func norm(fset *token.FileSet, n ast.Node) string {
	var b bytes.Buffer
	printer.Fprint(&b, fset, n)
	return strings.Join(strings.Fields(b.String()), " ")
}

type failure struct{ msg string }

func fail(f string, a ...interface{}) { panic(failure{fmt.Sprintf(f, a...)}) }

func coqType(t string) string {
	switch t {
	case "names":
		return "list string"
	case "bool":
		return "bool"
	case "string", "bytes":
		return "bytes"
	}
	return "Z"
}

func isInt(t string) bool {
	switch t {
	case "int64", "uint64", "uint32", "int", "untyped", "int32":
		return true
	}
	return false
}

func por(a, b string) string {
	if a == "false" {
		return b
	}
	if b == "false" {
		return a
	}
	return "(" + a + " || " + b + ")"
}

func wrapOf(t string, e string) string {
	switch t {
	case "uint64":
		return "(wrap64 (" + e + "))"
	case "uint32":
		return "(wrap32 (" + e + "))"
	case "int64", "int":
		return "(to_int64 (" + e + "))"
	case "int32":
		fail("int32 arithmetic is outside the subset")
	}
	return "(" + e + ")" // untyped constants, Int
}

func compat(have, want string) bool {
	if (have == "string" || have == "bytes") && (want == "string" || want == "bytes") {
		return true
	}
	return unify(have, want) == want
}

func unify(a, b string) string {
	if (a == "string" || a == "bytes") && (b == "string" || b == "bytes") {
		return "bytes"
	}
	if a == "untyped" {
		return b
	}
	if b == "untyped" {
		return a
	}
	if a != b {
		fail("operands of different types %s / %s", a, b)
	}
	return a
}

var pow10 = []string{"1", "10", "100", "1000", "10000", "100000", "1000000", "10000000", "100000000", "1000000000", "10000000000",
	"100000000000", "1000000000000", "10000000000000", "100000000000000", "1000000000000000", "10000000000000000",
	"100000000000000000", "1000000000000000000"}

// expression -> (coq term, type, panics)
func (c *tctx) expr(e ast.Expr) (string, string, string) {
	key := norm(c.fset, e)
	for _, a := range c.t.Atoms {
		if a.Go == key {
			c.used[a.Coq] = true
			return a.Coq, a.Typ, "false"
		}
	}
	switch x := e.(type) {
	case *ast.ParenExpr:
		return c.expr(x.X)
	case *ast.BasicLit:
		if x.Kind == token.INT {
			v := strings.ReplaceAll(x.Value, "_", "")
			if strings.HasPrefix(v, "0x") || strings.HasPrefix(v, "0X") || (len(v) > 1 && v[0] == '0') {
				fail("non-decimal literal %s", v)
			}
			return v, "untyped", "false"
		}
		fail("literal %s", x.Value)
	case *ast.Ident:
		switch x.Name {
		case "true", "false":
			return x.Name, "bool", "false"
		}
		if t, ok := c.env[x.Name]; ok {
			return "v_" + x.Name, t, "false"
		}
		if ce, ok := c.consts[x.Name]; ok {
			return c.expr(ce)
		}
		if ve, ok := c.vars[x.Name]; ok {
			return c.expr(ve)
		}
		fail("free identifier %s (declare it as an atom)", x.Name)
	case *ast.SelectorExpr:
		switch key {
		case "math.MaxInt64":
			return "9223372036854775807", "untyped", "false"
		case "math.MaxUint64":
			return "18446744073709551615", "untyped", "false"
		case "math.MaxUint32":
			return "4294967295", "untyped", "false"
		}
		if id, ok := x.X.(*ast.Ident); ok && (id.Name == "types" || id.Name == "oracletypes") {
			if ce, ok := c.consts[x.Sel.Name]; ok {
				return c.expr(ce)
			}
		}
		fail("selector %s (declare it as an atom)", key)
	case *ast.UnaryExpr:
		v, t, p := c.expr(x.X)
		switch x.Op {
		case token.NOT:
			if t != "bool" {
				fail("! on %s", t)
			}
			return "(negb " + v + ")", "bool", p
		case token.SUB:
			if t == "int64" || t == "int" {
				return wrapOf(t, "- "+v), t, p
			}
			if t == "untyped" {
				return "(- " + v + ")", t, p
			}
		}
		fail("unary %s on %s", x.Op, t)
	case *ast.BinaryExpr:
		return c.binary(x)
	case *ast.CallExpr:
		return c.call(x)
	case *ast.CompositeLit:
		if norm(c.fset, x.Type) == "[]byte" {
			var bs []string
			for _, el := range x.Elts {
				lit, ok := el.(*ast.BasicLit)
				if !ok || lit.Kind != token.INT {
					fail("byte literal %s", norm(c.fset, el))
				}
				var v int64
				if _, err := fmt.Sscanf(lit.Value, "%v", &v); err != nil {
					fail("byte literal %s", lit.Value)
				}
				bs = append(bs, fmt.Sprint(v))
			}
			return "[" + strings.Join(bs, "; ") + "]", "bytes", "false"
		}
	}
	fail("expression %s", key)
	return "", "", ""
}

func (c *tctx) binary(x *ast.BinaryExpr) (string, string, string) {
	a, ta, pa := c.expr(x.X)
	b, tb, pb := c.expr(x.Y)
	switch x.Op {
	case token.LAND:
		if ta != "bool" || tb != "bool" {
			fail("&& on %s/%s", ta, tb)
		}
		p := pa
		if pb != "false" {
			p = por(pa, "("+a+" && "+pb+")")
		}
		return "(" + a + " && " + b + ")", "bool", p
	case token.LOR:
		if ta != "bool" || tb != "bool" {
			fail("|| on %s/%s", ta, tb)
		}
		p := pa
		if pb != "false" {
			p = por(pa, "(negb "+a+" && "+pb+")")
		}
		return "(" + a + " || " + b + ")", "bool", p
	}
	p := por(pa, pb)
	if ta == "string" && tb == "string" {
		switch x.Op {
		case token.EQL:
			return "(bytes_eqb " + a + " " + b + ")", "bool", p
		case token.NEQ:
			return "(negb (bytes_eqb " + a + " " + b + "))", "bool", p
		}
		fail("string operator %s", x.Op)
	}
	if ta == "bool" && tb == "bool" {
		switch x.Op {
		case token.EQL:
			return "(Bool.eqb " + a + " " + b + ")", "bool", p
		case token.NEQ:
			return "(negb (Bool.eqb " + a + " " + b + "))", "bool", p
		}
	}
	if !isInt(ta) || !isInt(tb) {
		fail("operator %s on %s/%s (Int and Dec values use methods)", x.Op, ta, tb)
	}
	t := unify(ta, tb)
	switch x.Op {
	case token.ADD:
		return wrapOf(t, a+" + "+b), t, p
	case token.SUB:
		return wrapOf(t, a+" - "+b), t, p
	case token.MUL:
		return wrapOf(t, a+" * "+b), t, p
	case token.QUO, token.REM:
		_, lit := x.Y.(*ast.BasicLit)
		if !(lit && b != "0") {
			p = por(p, "("+b+" =? 0)")
		}
		signed := t == "int64" || t == "int"
		if x.Op == token.QUO {
			if signed {
				return wrapOf(t, "Z.quot "+a+" "+b), t, p // MinInt64 / -1 wraps
			}
			return "(" + a + " / " + b + ")", t, p
		}
		if signed {
			return "(Z.rem " + a + " " + b + ")", t, p
		}
		return "(" + a + " mod " + b + ")", t, p
	case token.EQL:
		return "(" + a + " =? " + b + ")", "bool", p
	case token.NEQ:
		return "(negb (" + a + " =? " + b + "))", "bool", p
	case token.LSS:
		return "(" + a + " <? " + b + ")", "bool", p
	case token.LEQ:
		return "(" + a + " <=? " + b + ")", "bool", p
	case token.GTR:
		return "(" + a + " >? " + b + ")", "bool", p
	case token.GEQ:
		return "(" + a + " >=? " + b + ")", "bool", p
	}
	fail("operator %s", x.Op)
	return "", "", ""
}

func (c *tctx) conv(to string, arg ast.Expr) (string, string, string) {
	v, t, p := c.expr(arg)
	if !isInt(t) {
		fail("conversion %s(%s)", to, t)
	}
	if t == "untyped" {
		return v, to, p
	}
	switch to {
	case "uint64":
		switch t {
		case "uint64", "uint32":
			return v, to, p
		default:
			return "(to_uint64 " + v + ")", to, p
		}
	case "int64", "int":
		switch t {
		case "int64", "int", "uint32", "int32":
			return v, to, p
		default:
			return "(to_int64 " + v + ")", to, p
		}
	case "uint32":
		if t == "uint32" {
			return v, to, p
		}
		return "(wrap32 " + v + ")", to, p
	}
	fail("conversion to %s", to)
	return "", "", ""
}

func (c *tctx) args(x *ast.CallExpr, n int) ([]string, []string, string) {
	if len(x.Args) != n {
		fail("%s: expected %d arguments", norm(c.fset, x.Fun), n)
	}
	var vs, ts []string
	p := "false"
	for _, a := range x.Args {
		v, t, pa := c.expr(a)
		vs, ts, p = append(vs, v), append(ts, t), por(p, pa)
	}
	return vs, ts, p
}

func (c *tctx) call(x *ast.CallExpr) (string, string, string) {
	fn := norm(c.fset, x.Fun)
	switch fn {
	case "append":
		if len(x.Args) != 2 || x.Ellipsis == token.NoPos {
			fail("append outside the subset (only append(a, b...))")
		}
		a, ta, pa := c.expr(x.Args[0])
		b, tb, pb := c.expr(x.Args[1])
		unify(ta, "bytes")
		unify(tb, "bytes")
		return "(" + a + " ++ " + b + ")", "bytes", por(pa, pb)
	case "[]byte", "string":
		if len(x.Args) != 1 {
			fail("conversion arity")
		}
		v, t, p := c.expr(x.Args[0])
		unify(t, "bytes")
		return v, "bytes", p
	case "sdk.Uint64ToBigEndian":
		vs, ts, p := c.args(x, 1)
		if unify(ts[0], "uint64") != "uint64" {
			fail("Uint64ToBigEndian of %s", ts[0])
		}
		return "(be64 " + vs[0] + ")", "bytes", p
	case "uint64", "int64", "uint32", "int", "(uint64)", "(int64)":
		if len(x.Args) != 1 {
			fail("conversion arity")
		}
		return c.conv(strings.Trim(fn, "()"), x.Args[0])
	case "sdk.NewInt", "math.NewInt", "sdk.NewIntFromUint64", "math.NewIntFromUint64":
		vs, ts, p := c.args(x, 1)
		if !isInt(ts[0]) {
			fail("%s of %s", fn, ts[0])
		}
		return vs[0], "Int", p
	case "sdk.ZeroInt", "math.ZeroInt":
		c.args(x, 0)
		return "0", "Int", "false"
	case "sdk.OneInt", "math.OneInt":
		c.args(x, 0)
		return "1", "Int", "false"
	case "sdk.NewDec", "math.LegacyNewDec":
		vs, ts, p := c.args(x, 1)
		if !isInt(ts[0]) {
			fail("%s of %s", fn, ts[0])
		}
		return "(dec_of_int " + vs[0] + ")", "Dec", p
	case "sdk.NewDecFromInt", "math.LegacyNewDecFromInt":
		vs, ts, p := c.args(x, 1)
		if ts[0] != "Int" {
			fail("%s of %s", fn, ts[0])
		}
		return "(dec_of_int " + vs[0] + ")", "Dec", p
	case "sdk.OneDec", "math.LegacyOneDec":
		c.args(x, 0)
		return "(dec_of_int 1)", "Dec", "false"
	case "sdk.ZeroDec", "math.LegacyZeroDec":
		c.args(x, 0)
		return "0", "Dec", "false"
	case "sdk.NewDecCoinsFromCoins":
		vs, ts, p := c.args(x, 1)
		if ts[0] != "Coins" {
			fail("%s of %s", fn, ts[0])
		}
		return "(dec_of_int " + vs[0] + ")", "DecCoins", p
	case "sdk.NewDecCoinFromDec":
		if len(x.Args) != 2 {
			fail("NewDecCoinFromDec arity")
		}
		v, t, p := c.expr(x.Args[1]) // the denomination is carried along unchanged
		if t != "Dec" {
			fail("%s of %s", fn, t)
		}
		return v, "DecCoins", p
	case "sdk.NewDecWithPrec", "math.LegacyNewDecWithPrec":
		if len(x.Args) != 2 {
			fail("NewDecWithPrec arity")
		}
		v, t, p := c.expr(x.Args[0])
		lit, ok := x.Args[1].(*ast.BasicLit)
		if !ok || !isInt(t) {
			fail("NewDecWithPrec needs a literal precision")
		}
		n := 0
		fmt.Sscanf(lit.Value, "%d", &n)
		if n < 0 || n > 18 {
			fail("precision %d", n)
		}
		return "(" + v + " * " + pow10[18-n] + ")", "Dec", p
	}
	// calls of other translated functions
	short := fn
	if i := strings.LastIndex(fn, "."); i >= 0 {
		short = fn[i+1:]
	}
	if id, isId := x.Fun.(*ast.Ident); isId {
		c.helper(id.Name)
	}
	if ft, ok := c.funcs[short]; ok && ft.Name != c.t.Name {
		sig := c.ftypes[short]
		vs, ts, p := c.args(x, len(sig)-1)
		for i := range ts {
			if !compat(ts[i], sig[i]) {
				fail("argument %d of %s", i, short)
			}
		}
		call := "(" + ft.Name + " " + strings.Join(vs, " ") + ")"
		return call, sig[len(sig)-1], por(p, "("+ft.Name+"_panics "+strings.Join(vs, " ")+")")
	}
	// methods
	if sel, ok := x.Fun.(*ast.SelectorExpr); ok {
		r, tr, pr := c.expr(sel.X)
		m := sel.Sel.Name
		un := func(res string, f string) (string, string, string) {
			c.args(x, 0)
			return "(" + f + " " + r + ")", res, pr
		}
		bin := func(want, res, format string) (string, string, string) {
			vs, ts, p := c.args(x, 1)
			if ts[0] != want && !(want == "int64" && isInt(ts[0])) {
				fail("%s.%s(%s)", tr, m, ts[0])
			}
			return fmt.Sprintf(format, r, vs[0]), res, por(pr, p)
		}
		switch tr {
		case "Int":
			switch m {
			case "Mul":
				return bin("Int", "Int", "(%s * %s)")
			case "Add":
				return bin("Int", "Int", "(%s + %s)")
			case "Sub":
				return bin("Int", "Int", "(%s - %s)")
			case "Quo":
				v, t, p := bin("Int", "Int", "(Z.quot %s %s)")
				vs, _, _ := c.args(x, 1)
				return v, t, por(p, "("+vs[0]+" =? 0)")
			case "GT":
				return bin("Int", "bool", "(%s >? %s)")
			case "GTE":
				return bin("Int", "bool", "(%s >=? %s)")
			case "LT":
				return bin("Int", "bool", "(%s <? %s)")
			case "LTE":
				return bin("Int", "bool", "(%s <=? %s)")
			case "Equal":
				return bin("Int", "bool", "(%s =? %s)")
			case "IsZero":
				return un("bool", "Z.eqb 0")
			case "IsNegative":
				return un("bool", "Z.gtb 0")
			case "IsPositive":
				return un("bool", "Z.ltb 0")
			}
		case "DecCoins":
			switch m {
			case "MulDec":
				return bin("Dec", "DecCoins", "(dec_mul %s %s)")
			case "MulDecTruncate":
				return bin("Dec", "DecCoins", "(dec_mul_trunc %s %s)")
			case "Sub":
				return bin("DecCoins", "DecCoins", "(dec_sub %s %s)")
			case "Add":
				return bin("DecCoins", "DecCoins", "(%s + %s)")
			case "IsZero":
				return un("bool", "Z.eqb 0")
			}
		case "Coins":
			switch m {
			case "Add":
				return bin("Coins", "Coins", "(%s + %s)")
			case "IsZero":
				return un("bool", "Z.eqb 0")
			}
		case "Dec":
			switch m {
			case "Mul":
				return bin("Dec", "Dec", "(dec_mul %s %s)")
			case "MulTruncate":
				return bin("Dec", "Dec", "(dec_mul_trunc %s %s)")
			case "MulInt64":
				return bin("int64", "Dec", "(dec_mul_int %s %s)")
			case "MulInt":
				return bin("Int", "Dec", "(dec_mul_int %s %s)")
			case "Quo", "QuoTruncate", "QuoRoundUp":
				f := map[string]string{"Quo": "dec_quo", "QuoTruncate": "dec_quo_trunc", "QuoRoundUp": "dec_quo_roundup"}[m]
				v, t, p := bin("Dec", "Dec", "("+f+" %s %s)")
				vs, _, _ := c.args(x, 1)
				return v, t, por(p, "("+vs[0]+" =? 0)")
			case "MulRoundUp":
				return bin("Dec", "Dec", "(dec_mul_roundup %s %s)")
			case "QuoInt":
				v, t, p := bin("Int", "Dec", "(dec_quo_int %s %s)")
				vs, _, _ := c.args(x, 1)
				return v, t, por(p, "("+vs[0]+" =? 0)")
			case "QuoInt64":
				v, t, p := bin("int64", "Dec", "(dec_quo_int %s %s)")
				vs, _, _ := c.args(x, 1)
				return v, t, por(p, "("+vs[0]+" =? 0)")
			case "Add":
				return bin("Dec", "Dec", "(%s + %s)")
			case "Sub":
				return bin("Dec", "Dec", "(dec_sub %s %s)")
			case "GT":
				return bin("Dec", "bool", "(%s >? %s)")
			case "GTE":
				return bin("Dec", "bool", "(%s >=? %s)")
			case "LT":
				return bin("Dec", "bool", "(%s <? %s)")
			case "LTE":
				return bin("Dec", "bool", "(%s <=? %s)")
			case "Equal":
				return bin("Dec", "bool", "(%s =? %s)")
			case "IsZero":
				return un("bool", "Z.eqb 0")
			case "IsNegative":
				return un("bool", "Z.gtb 0")
			case "IsPositive":
				return un("bool", "Z.ltb 0")
			case "Ceil":
				return un("Dec", "dec_ceil")
			case "TruncateInt":
				return un("Int", "dec_truncate_int")
			case "RoundInt":
				return un("Int", "dec_round_int")
			case "TruncateDec":
				return un("Dec", "dec_truncate_dec")
			}
		}
		fail("method %s on %s", m, tr)
	}
	fail("call %s", fn)
	return "", "", ""
}

// ---------- statements ----------

func ignorable(fset *token.FileSet, s ast.Stmt) bool {
	t := norm(fset, s)
	for _, p := range []string{"logger.", "k.Logger(", "telemetry.", "defer "} {
		if strings.HasPrefix(t, p) {
			return true
		}
	}
	return false
}

// binds a local; returns the `let` prefix and the panic contribution
func (c *tctx) assign(s ast.Stmt) (string, string, bool) {
	switch x := s.(type) {
	case *ast.AssignStmt:
		if len(x.Lhs) != 1 || len(x.Rhs) != 1 {
			return "", "", false
		}
		id, ok := x.Lhs[0].(*ast.Ident)
		if !ok {
			return "", "", false
		}
		var v, t, p string
		switch x.Tok {
		case token.DEFINE, token.ASSIGN:
			v, t, p = c.expr(x.Rhs[0])
			if old, ok := c.env[id.Name]; ok && x.Tok == token.ASSIGN {
				if t == "untyped" {
					t = old
				} else if old != t {
					fail("assignment of %s to %s %s", t, old, id.Name)
				}
			}
			if t == "untyped" {
				t = "int"
			}
		case token.ADD_ASSIGN, token.SUB_ASSIGN, token.MUL_ASSIGN:
			op := map[token.Token]token.Token{token.ADD_ASSIGN: token.ADD, token.SUB_ASSIGN: token.SUB, token.MUL_ASSIGN: token.MUL}[x.Tok]
			v, t, p = c.binary(&ast.BinaryExpr{X: id, Op: op, Y: x.Rhs[0]})
		default:
			return "", "", false
		}
		c.env[id.Name] = t
		return "let v_" + id.Name + " := " + v + " in ", p, true
	case *ast.DeclStmt:
		gd, ok := x.Decl.(*ast.GenDecl)
		if !ok || gd.Tok != token.VAR || len(gd.Specs) != 1 {
			return "", "", false
		}
		vs := gd.Specs[0].(*ast.ValueSpec)
		if len(vs.Names) != 1 || len(vs.Values) != 1 || vs.Type == nil {
			return "", "", false
		}
		v, t, p := c.expr(vs.Values[0])
		dt := norm(c.fset, vs.Type)
		if t == "untyped" {
			t = dt
		}
		if t != dt {
			fail("var %s %s = %s", vs.Names[0].Name, dt, t)
		}
		c.env[vs.Names[0].Name] = t
		return "let v_" + vs.Names[0].Name + " := " + v + " in ", p, true
	}
	return "", "", false
}

func terminates(b *ast.BlockStmt) bool {
	if len(b.List) == 0 {
		return false
	}
	_, ok := b.List[len(b.List)-1].(*ast.ReturnStmt)
	return ok
}

// whole function body: value and panics, as nested lets / ifs
func (c *tctx) block(stmts []ast.Stmt, results []string) (string, string) {
	if len(stmts) == 0 {
		fail("function falls off its end")
	}
	s := stmts[0]
	rest := stmts[1:]
	if ignorable(c.fset, s) {
		return c.block(rest, results)
	}
	if let, p, ok := c.assign(s); ok {
		v, pr := c.block(rest, results)
		pp := pr
		if pr != "false" {
			pp = "(" + let + pr + ")"
		}
		return "(" + let + v + ")", por(p, pp)
	}
	switch x := s.(type) {
	case *ast.ReturnStmt:
		if len(x.Results) != len(results) {
			fail("return arity")
		}
		var vs []string
		p := "false"
		for i, r := range x.Results {
			if results[i] == "error" {
				if norm(c.fset, r) == "nil" {
					vs = append(vs, "true")
				} else {
					vs = append(vs, "false")
				}
				continue
			}
			v, t, pr := c.expr(r)
			if !compat(t, results[i]) {
				fail("return type %s for %s", t, results[i])
			}
			vs, p = append(vs, v), por(p, pr)
		}
		if len(vs) == 1 {
			return vs[0], p
		}
		return "(" + strings.Join(vs, ", ") + ")", p
	case *ast.IfStmt:
		if x.Init != nil {
			fail("if with an init statement in a whole-function target")
		}
		cv, ct, cp := c.expr(x.Cond)
		if ct != "bool" {
			fail("condition of type %s", ct)
		}
		saved := map[string]string{}
		for k, v := range c.env {
			saved[k] = v
		}
		tv, tp := c.block(append(append([]ast.Stmt{}, x.Body.List...), nonTerminatingTail(x.Body, rest)...), results)
		c.env = saved
		var ev, ep string
		switch el := x.Else.(type) {
		case nil:
			ev, ep = c.block(rest, results)
		case *ast.BlockStmt:
			ev, ep = c.block(append(append([]ast.Stmt{}, el.List...), nonTerminatingTail(el, rest)...), results)
		default:
			fail("else-if chains are outside the subset")
		}
		p := cp
		if tp != "false" || ep != "false" {
			p = por(cp, "(if "+cv+" then "+tp+" else "+ep+")")
		}
		return "(if " + cv + " then " + tv + " else " + ev + ")", p
	}
	fail("statement %s", norm(c.fset, s))
	return "", ""
}

func nonTerminatingTail(b *ast.BlockStmt, rest []ast.Stmt) []ast.Stmt {
	if terminates(b) {
		return nil
	}
	return rest
}

// ---------- fragment search ----------

type found struct {
	path []ast.Stmt // dominating statements (those that precede the pick in enclosing blocks)
	cond ast.Expr
	rhs  ast.Expr
}

// walks the body in source order; dom accumulates the statements that precede the current one in the
// enclosing blocks (their definitions dominate it)
func (c *tctx) search(stmts []ast.Stmt, dom []ast.Stmt, visit func(s ast.Stmt, dom []ast.Stmt) bool) bool {
	for _, s := range stmts {
		if visit(s, dom) {
			return true
		}
		var inner [][]ast.Stmt
		var init ast.Stmt
		switch x := s.(type) {
		case *ast.IfStmt:
			init = x.Init
			inner = append(inner, x.Body.List)
			if eb, ok := x.Else.(*ast.BlockStmt); ok {
				inner = append(inner, eb.List)
			} else if ei, ok := x.Else.(*ast.IfStmt); ok {
				inner = append(inner, []ast.Stmt{ei})
			}
		case *ast.ForStmt:
			inner = append(inner, x.Body.List)
		case *ast.RangeStmt:
			inner = append(inner, x.Body.List)
		case *ast.BlockStmt:
			inner = append(inner, x.List)
		case *ast.SwitchStmt:
			for _, cc := range x.Body.List {
				inner = append(inner, cc.(*ast.CaseClause).Body)
			}
		case *ast.ExprStmt: // closures passed to iterators: k.IterateMissCount(ctx, func(...) { ... })
			if call, ok := x.X.(*ast.CallExpr); ok {
				for _, a := range call.Args {
					if fl, ok := a.(*ast.FuncLit); ok {
						inner = append(inner, fl.Body.List)
					}
				}
			}
		case *ast.ReturnStmt: // a function that returns a closure (newSettlementFeeChecker)
			for _, r := range x.Results {
				if fl, ok := r.(*ast.FuncLit); ok {
					inner = append(inner, fl.Body.List)
				}
			}
		}
		d2 := dom
		if init != nil {
			d2 = append(append([]ast.Stmt{}, dom...), init)
		}
		for _, in := range inner {
			if c.search(in, d2, visit) {
				return true
			}
		}
		dom = append(append([]ast.Stmt{}, dom...), s)
	}
	return false
}

func (c *tctx) lets(dom []ast.Stmt) (string, string) {
	want := map[string]bool{}
	for _, l := range c.t.Locals {
		want[l] = true
	}
	prefix, p := "", "false"
	defined := map[string]bool{}
	for _, s := range dom {
		name := ""
		switch x := s.(type) {
		case *ast.AssignStmt:
			if len(x.Lhs) == 1 {
				if id, ok := x.Lhs[0].(*ast.Ident); ok {
					name = id.Name
				}
			}
		case *ast.DeclStmt:
			if gd, ok := x.Decl.(*ast.GenDecl); ok && gd.Tok == token.VAR && len(gd.Specs) == 1 {
				if vs := gd.Specs[0].(*ast.ValueSpec); len(vs.Names) == 1 {
					name = vs.Names[0].Name
				}
			}
		}
		if name == "" || !want[name] {
			continue
		}
		let, pl, ok := c.assign(s)
		if !ok {
			fail("definition of local %s is outside the subset: %s", name, norm(c.fset, s))
		}
		if pl != "false" {
			p = por(p, "("+prefix+pl+")")
		}
		prefix += let
		defined[name] = true
	}
	for l := range want {
		if !defined[l] {
			fail("local %s has no dominating definition", l)
		}
	}
	return prefix, p
}

func lastResultNonNil(fset *token.FileSet, b *ast.BlockStmt) bool {
	if len(b.List) == 0 {
		return false
	}
	r, ok := b.List[len(b.List)-1].(*ast.ReturnStmt)
	if !ok || len(r.Results) == 0 {
		return false
	}
	return norm(fset, r.Results[len(r.Results)-1]) != "nil"
}

// the value assigned by statement x to its idx-th left-hand side
func (c *tctx) assignedValue(x *ast.AssignStmt, idx int) (string, string, string) {
	switch x.Tok {
	case token.ADD_ASSIGN, token.SUB_ASSIGN, token.MUL_ASSIGN:
		op := map[token.Token]token.Token{token.ADD_ASSIGN: token.ADD, token.SUB_ASSIGN: token.SUB, token.MUL_ASSIGN: token.MUL}[x.Tok]
		return c.binary(&ast.BinaryExpr{X: x.Lhs[0], Op: op, Y: x.Rhs[0]})
	}
	if len(x.Lhs) == 1 {
		return c.expr(x.Rhs[0])
	}
	if len(x.Rhs) != 1 {
		fail("parallel assignment")
	}
	call, ok := x.Rhs[0].(*ast.CallExpr)
	if !ok {
		fail("multi-value right-hand side %s", norm(c.fset, x.Rhs[0]))
	}
	if sel, ok := call.Fun.(*ast.SelectorExpr); ok && sel.Sel.Name == "TruncateDecimal" && len(call.Args) == 0 && len(x.Lhs) == 2 {
		r, tr, p := c.expr(sel.X)
		if tr != "DecCoins" {
			fail("TruncateDecimal on %s", tr)
		}
		if idx == 0 {
			return "(dec_truncate_int " + r + ")", "Coins", p
		}
		return "(dec_frac " + r + ")", "DecCoins", p
	}
	fn := norm(c.fset, call.Fun)
	if i := strings.LastIndex(fn, "."); i >= 0 {
		fn = fn[i+1:]
	}
	if ft, ok := c.funcs[fn]; ok {
		sig := c.ftypes[fn]
		res := strings.Split(sig[len(sig)-1], ",")
		if len(res) != len(x.Lhs) || len(res) != 2 {
			fail("result arity of %s", fn)
		}
		vs, ts, p := c.args(call, len(sig)-1)
		for i := range ts {
			if !compat(ts[i], sig[i]) {
				fail("argument %d of %s", i, fn)
			}
		}
		proj := "fst"
		if idx == 1 {
			proj = "snd"
		}
		return "(" + proj + " (" + ft.Name + " " + strings.Join(vs, " ") + "))", res[idx], por(p, "("+ft.Name+"_panics "+strings.Join(vs, " ")+")")
	}
	fail("multi-value call %s", fn)
	return "", "", ""
}

func (c *tctx) fragment(body *ast.BlockStmt) (string, string, string) {
	t := c.t
	switch t.Kind {
	case "cond", "value", "arg", "field":
		n := 0
		var res *found
		var resAssign *ast.AssignStmt
		resIdx := 0
		c.search(body.List, nil, func(s ast.Stmt, dom []ast.Stmt) bool {
			if t.Kind == "field" {
				// Pick = "pkg.Type.Field": the value given to that field in the (Nth) composite literal of that type
				dot := strings.LastIndex(t.Pick, ".")
				typ, fld := t.Pick[:dot], t.Pick[dot+1:]
				hit := false
				ast.Inspect(s, func(nd ast.Node) bool {
					if hit {
						return false
					}
					switch y := nd.(type) {
					case *ast.BlockStmt, *ast.FuncLit:
						if nd != ast.Node(s) {
							return false
						}
					case *ast.CompositeLit:
						var lits []*ast.CompositeLit
						if y.Type != nil && norm(c.fset, y.Type) == typ {
							lits = append(lits, y)
						} else if y.Type != nil && (norm(c.fset, y.Type) == "[]*"+typ || norm(c.fset, y.Type) == "[]"+typ) {
							// []*T{{...}}: the element literals carry no type of their own
							for _, el := range y.Elts {
								if in, ok := el.(*ast.CompositeLit); ok && in.Type == nil {
									lits = append(lits, in)
								}
							}
						}
						for _, y := range lits {
							for _, el := range y.Elts {
								if kv, ok := el.(*ast.KeyValueExpr); ok && norm(c.fset, kv.Key) == fld {
									if n == t.Nth && !hit {
										res = &found{path: dom, rhs: kv.Value}
										hit = true
									}
									n++
								}
							}
						}
						if hit {
							return false
						}
					}
					return true
				})
				return hit
			}
			if t.Kind == "arg" {
				hit := false
				ast.Inspect(s, func(nd ast.Node) bool {
					if hit {
						return false
					}
					switch y := nd.(type) {
					case *ast.BlockStmt, *ast.FuncLit:
						_ = y
						if nd != ast.Node(s) {
							return false // nested statements are visited on their own
						}
					case *ast.CallExpr:
						if norm(c.fset, y.Fun) == t.Pick && t.Nth < len(y.Args) {
							res = &found{path: dom, rhs: y.Args[t.Nth]}
							hit = true
							return false
						}
					}
					return true
				})
				return hit
			}
			switch x := s.(type) {
			case *ast.IfStmt:
				if t.Kind == "cond" && strings.Contains(norm(c.fset, x.Cond), t.Pick) {
					if n == t.Nth {
						d := dom
						if x.Init != nil {
							d = append(append([]ast.Stmt{}, dom...), x.Init)
						}
						res = &found{path: d, cond: x.Cond}
						return true
					}
					n++
				}
			case *ast.IncDecStmt:
				if t.Kind == "value" && norm(c.fset, x.X) == t.Pick {
					if n == t.Nth {
						op := token.ADD
						if x.Tok == token.DEC {
							op = token.SUB
						}
						res = &found{path: dom, rhs: &ast.BinaryExpr{X: x.X, Op: op, Y: &ast.BasicLit{Kind: token.INT, Value: "1"}}}
						return true
					}
					n++
				}
			case *ast.AssignStmt:
				if t.Kind == "value" {
					for i, l := range x.Lhs {
						if norm(c.fset, l) == t.Pick {
							if n == t.Nth {
								res = &found{path: dom}
								resAssign, resIdx = x, i
								return true
							}
							n++
						}
					}
				}
			}
			return false
		})
		if res == nil {
			fail("no %s matching %q (#%d) in %s", t.Kind, t.Pick, t.Nth, t.Func)
		}
		prefix, p := c.lets(res.path)
		var v, ty, pe string
		if resAssign != nil {
			v, ty, pe = c.assignedValue(resAssign, resIdx)
		} else if res.cond != nil {
			v, ty, pe = c.expr(res.cond)
		} else {
			v, ty, pe = c.expr(res.rhs)
		}
		if pe != "false" {
			p = por(p, "("+prefix+pe+")")
		}
		return "(" + prefix + v + ")", ty, p
	case "merge":
		var res *found
		var ifs *ast.IfStmt
		n := 0
		single := func(b *ast.BlockStmt) ast.Expr {
			if b == nil || len(b.List) != 1 {
				return nil
			}
			as, ok := b.List[0].(*ast.AssignStmt)
			if !ok || len(as.Lhs) != 1 || len(as.Rhs) != 1 || as.Tok != token.ASSIGN || norm(c.fset, as.Lhs[0]) != t.Pick {
				return nil
			}
			return as.Rhs[0]
		}
		c.search(body.List, nil, func(s ast.Stmt, dom []ast.Stmt) bool {
			switch x := s.(type) {
			case *ast.IfStmt:
				eb, _ := x.Else.(*ast.BlockStmt)
				if single(x.Body) != nil && single(eb) != nil {
					if n == t.Nth {
						res, ifs = &found{path: dom}, x
						return true
					}
					n++
				}
			case *ast.AssignStmt:
				if len(x.Lhs) == 1 && len(x.Rhs) == 1 && x.Tok == token.ASSIGN && norm(c.fset, x.Lhs[0]) == t.Pick {
					if _, isCall := x.Rhs[0].(*ast.CallExpr); isCall && n == t.Nth {
						// only top-level (not inside the if/else handled above): dominated position check by search order
						res = &found{path: dom, rhs: x.Rhs[0]}
						return true
					}
				}
			}
			return false
		})
		if res == nil {
			// the value may be given in a composite literal instead: `Amount: <call>`
			field := t.Pick
			if i := strings.LastIndex(field, "."); i >= 0 {
				field = field[i+1:]
			}
			c.search(body.List, nil, func(s ast.Stmt, dom []ast.Stmt) bool {
				hit := false
				ast.Inspect(s, func(nd ast.Node) bool {
					if hit {
						return false
					}
					switch y := nd.(type) {
					case *ast.BlockStmt:
						if nd != ast.Node(s) {
							return false
						}
					case *ast.KeyValueExpr:
						if norm(c.fset, y.Key) == field {
							if call, isCall := y.Value.(*ast.CallExpr); isCall && len(call.Args) > 0 {
								res = &found{path: dom, rhs: y.Value}
								hit = true
								return false
							}
						}
					}
					return true
				})
				return hit
			})
		}
		if res == nil {
			fail("no assignment of %s (plain or in both branches of an if) in %s", t.Pick, t.Func)
		}
		prefix, p := c.lets(res.path)
		if ifs == nil {
			v, ty, pe := c.expr(res.rhs)
			if pe != "false" {
				p = por(p, "("+prefix+pe+")")
			}
			return "(" + prefix + v + ")", ty, p
		}
		cv, ct, cp := c.expr(ifs.Cond)
		if ct != "bool" {
			fail("condition of type %s", ct)
		}
		av, at, ap := c.expr(single(ifs.Body))
		bv, bt, bp := c.expr(single(ifs.Else.(*ast.BlockStmt)))
		ty := unify(at, bt)
		pp := cp
		if ap != "false" || bp != "false" {
			pp = por(cp, "(if "+cv+" then "+ap+" else "+bp+")")
		}
		if pp != "false" {
			p = por(p, "("+prefix+pp+")")
		}
		return "(" + prefix + "if " + cv + " then " + av + " else " + bv + ")", ty, p
	case "exits_before":
		// how many return / break / continue / goto statements precede (in source order, inside the innermost function
		// literal or the function body) the first call whose function text starts with t.Pick: 0 means the call is
		// reached on every path that does not panic
		count, seen := -1, false
		var scanFn func(b *ast.BlockStmt) bool
		scanFn = func(b *ast.BlockStmt) bool {
			// pass 1: the call and the loops / conditionals that enclose it inside this function body
			var callNode *ast.CallExpr
			var callLoops []ast.Node
			depth := 0
			var stack []ast.Node
			inner := false
			ast.Inspect(b, func(nd ast.Node) bool {
				if nd == nil {
					stack = stack[:len(stack)-1]
					return true
				}
				if callNode != nil || inner {
					return false
				}
				switch y := nd.(type) {
				case *ast.FuncLit:
					if scanFn(y.Body) {
						inner = true
					}
					return false
				case *ast.CallExpr:
					if strings.HasPrefix(norm(c.fset, y.Fun), t.Pick) {
						callNode = y
						for _, p := range stack {
							switch p.(type) {
							case *ast.ForStmt, *ast.RangeStmt:
								callLoops = append(callLoops, p)
								depth++
							case *ast.IfStmt, *ast.SwitchStmt, *ast.TypeSwitchStmt, *ast.SelectStmt:
								depth++
							}
						}
						if is, ok := stack[len(stack)-1].(*ast.IfStmt); ok && is.Cond == ast.Expr(y) {
							depth-- // the call IS the condition of that if: it is evaluated unconditionally
						}
						return false
					}
				}
				stack = append(stack, nd)
				return true
			})
			if inner {
				return true
			}
			if callNode == nil {
				return false
			}
			// pass 2: statements before the call that can skip it: returns of this function, and break / continue / goto
			// whose innermost loop also encloses the call (a `continue` of an earlier, unrelated loop skips nothing)
			exits := 0
			stack = nil
			ast.Inspect(b, func(nd ast.Node) bool {
				if nd == nil {
					stack = stack[:len(stack)-1]
					return true
				}
				if nd.Pos() >= callNode.Pos() {
					return false
				}
				switch nd.(type) {
				case *ast.FuncLit:
					return false
				case *ast.ReturnStmt:
					exits++
				case *ast.BranchStmt:
					var loop ast.Node
					for i := len(stack) - 1; i >= 0 && loop == nil; i-- {
						switch stack[i].(type) {
						case *ast.ForStmt, *ast.RangeStmt:
							loop = stack[i]
						}
					}
					for _, l := range callLoops {
						if l == loop {
							exits++
						}
					}
				}
				stack = append(stack, nd)
				return true
			})
			count = exits*1000 + depth
			return true
		}
		seen = scanFn(body)
		if !seen {
			fail("no call of %s in %s", t.Pick, t.Func)
		}
		return fmt.Sprint(count), "int", "false"
	case "effects":
		// the store writes of the function, in source order: "Set:<key builder>" / "Delete:<key builder>"
		var effs []string
		var collect func(b *ast.BlockStmt, depth int)
		collect = func(b *ast.BlockStmt, depth int) {
			ast.Inspect(b, func(nd ast.Node) bool {
				call, ok := nd.(*ast.CallExpr)
				if !ok {
					return true
				}
				sel, ok := call.Fun.(*ast.SelectorExpr)
				if ok && depth < 4 {
					// a method declared in this package, called on a plain identifier (the keeper, a helper value): its
					// writes are this function's writes
					switch sel.Sel.Name {
					case "Set", "Delete", "Get", "Has", "Iterator", "Key", "Value":
					default:
						if id, isId := sel.X.(*ast.Ident); isId {
							// no type information: a method name that several types of the package declare is resolved by the
							// receiver's name (k.F() inside a method of (k Keeper)); what stays ambiguous is not guessed
							var cands, named []*ast.FuncDecl
							for _, f := range c.files {
								for _, d := range f.Decls {
									if fd, isF := d.(*ast.FuncDecl); isF && fd.Recv != nil && fd.Body != nil && fd.Name.Name == sel.Sel.Name {
										cands = append(cands, fd)
										if len(fd.Recv.List) == 1 && len(fd.Recv.List[0].Names) == 1 && fd.Recv.List[0].Names[0].Name == id.Name {
											named = append(named, fd)
										}
									}
								}
							}
							switch {
							case len(cands) == 1:
								collect(cands[0].Body, depth+1)
							case len(named) == 1:
								collect(named[0].Body, depth+1)
							case len(cands) > 1:
								fail("%s.%s in %s: several methods of that name in the package, the callee cannot be told without types", id.Name, sel.Sel.Name, t.Func)
							}
						}
					}
				}
				if id, isId := call.Fun.(*ast.Ident); isId && depth < 4 {
					// a plain function of this package (a helper that is handed the store)
					for _, f := range c.files {
						for _, d := range f.Decls {
							if fd, isF := d.(*ast.FuncDecl); isF && fd.Recv == nil && fd.Body != nil && fd.Name.Name == id.Name {
								collect(fd.Body, depth+1)
							}
						}
					}
				}
				if !ok || (sel.Sel.Name != "Set" && sel.Sel.Name != "Delete") || len(call.Args) == 0 {
					return true
				}
				recv := norm(c.fset, sel.X)
				if !strings.HasSuffix(strings.ToLower(recv), "store") {
					return true
				}
				key := norm(c.fset, call.Args[0])
				arg := call.Args[0]
				if id, isId := arg.(*ast.Ident); isId {
					// a key built once and kept in a local: `key := types.UTXRStoreKey(...)`
					ast.Inspect(b, func(n2 ast.Node) bool {
						if as, ok := n2.(*ast.AssignStmt); ok && len(as.Lhs) == len(as.Rhs) && as.Pos() < call.Pos() {
							for i := range as.Lhs {
								if l, ok := as.Lhs[i].(*ast.Ident); ok && l.Name == id.Name {
									if _, isCall := as.Rhs[i].(*ast.CallExpr); isCall {
										arg = as.Rhs[i]
									}
								}
							}
						}
						return true
					})
				}
				if kc, ok := arg.(*ast.CallExpr); ok {
					key = norm(c.fset, kc.Fun)
					if i := strings.LastIndex(key, "."); i >= 0 {
						key = key[i+1:]
					}
				}
				effs = append(effs, sel.Sel.Name+":"+key)
				return true
			})
		}
		collect(body, 0)
		var q []string
		for _, n := range effs {
			q = append(q, "\""+strings.ReplaceAll(n, "\"", "'")+"\"%string")
		}
		return "[" + strings.Join(q, "; ") + "]", "names", "false"
	case "names":
		// the arguments of the first call of t.Pick, as a list of names (decorator chains, message-type lists)
		var names []string
		foundCall := false
		ast.Inspect(body, func(nd ast.Node) bool {
			if foundCall {
				return false
			}
			call, ok := nd.(*ast.CallExpr)
			if !ok || norm(c.fset, call.Fun) != t.Pick {
				return true
			}
			foundCall = true
			args := call.Args
			if call.Ellipsis.IsValid() && len(args) > 0 {
				// f(list...): the list is the slice literal a helper of this package returns, or a local holds
				spread := args[len(args)-1]
				var lit *ast.CompositeLit
				switch y := spread.(type) {
				case *ast.CallExpr:
					if id, ok := y.Fun.(*ast.Ident); ok {
						for _, f := range c.files {
							for _, d := range f.Decls {
								fd, isF := d.(*ast.FuncDecl)
								if !isF || fd.Recv != nil || fd.Body == nil || fd.Name.Name != id.Name || len(fd.Body.List) != 1 {
									continue
								}
								if rs, ok := fd.Body.List[0].(*ast.ReturnStmt); ok && len(rs.Results) == 1 {
									lit, _ = rs.Results[0].(*ast.CompositeLit)
								}
							}
						}
					}
				case *ast.Ident:
					ast.Inspect(body, func(n2 ast.Node) bool {
						if as, ok := n2.(*ast.AssignStmt); ok && len(as.Lhs) == 1 && len(as.Rhs) == 1 && as.Pos() < call.Pos() {
							if l, ok := as.Lhs[0].(*ast.Ident); ok && l.Name == y.Name {
								lit, _ = as.Rhs[0].(*ast.CompositeLit)
							}
						}
						return true
					})
				}
				if lit == nil {
					fail("the spread argument of %s in %s is not a slice literal the translator can read", t.Pick, t.Func)
				}
				args = append(append([]ast.Expr{}, args[:len(args)-1]...), lit.Elts...)
			}
			for _, a := range args {
				switch y := a.(type) {
				case *ast.CallExpr:
					fn := norm(c.fset, y.Fun)
					if fn == "sdk.MsgTypeURL" && len(y.Args) == 1 {
						txt := norm(c.fset, y.Args[0])
						txt = strings.TrimSuffix(strings.TrimPrefix(txt, "&"), "{}")
						names = append(names, txt)
					} else {
						names = append(names, fn)
					}
				case *ast.CompositeLit:
					names = append(names, norm(c.fset, y.Type)+"{}")
				default:
					names = append(names, norm(c.fset, a))
				}
			}
			return false
		})
		if !foundCall {
			fail("no call of %s in %s", t.Pick, t.Func)
		}
		var q []string
		for _, n := range names {
			q = append(q, "\""+strings.ReplaceAll(n, "\"", "'")+"\"%string")
		}
		return "[" + strings.Join(q, "; ") + "]", "names", "false"
	case "guards":
		// accepted := none of the early-return guards (top-level ifs that return a non-nil last result) fires.
		// `err != nil` after `..., err := CALL` is the atom "fails:CALL" (matched by prefix of the call text).
		lastErrCall := ""
		noteErr := func(s ast.Stmt) {
			as, ok := s.(*ast.AssignStmt)
			if !ok || len(as.Rhs) != 1 {
				return
			}
			for _, l := range as.Lhs {
				if norm(c.fset, l) == "err" {
					lastErrCall = norm(c.fset, as.Rhs[0])
				}
			}
		}
		guardCond := func(ifs *ast.IfStmt) (string, string, string) {
			if norm(c.fset, ifs.Cond) == "err != nil" {
				for _, a := range t.Atoms {
					if strings.HasPrefix(a.Go, "fails:") && strings.HasPrefix(lastErrCall, strings.TrimPrefix(a.Go, "fails:")) {
						c.used[a.Coq] = true
						return a.Coq, "bool", "false"
					}
				}
				fail("error guard after %q has no atom", lastErrCall)
			}
			return c.expr(ifs.Cond)
		}
		var build func(stmts []ast.Stmt) (string, string)
		build = func(stmts []ast.Stmt) (string, string) {
			if len(stmts) == 0 {
				return "true", "false"
			}
			s := stmts[0]
			if t.Stop != "" && strings.Contains(norm(c.fset, s), t.Stop) {
				return "true", "false"
			}
			noteErr(s)
			if ifs, ok := s.(*ast.IfStmt); ok {
				if ifs.Init != nil {
					noteErr(ifs.Init)
				}
				if lastResultNonNil(c.fset, ifs.Body) && ifs.Else == nil {
					cv, ct, cp := guardCond(ifs)
					if ct != "bool" {
						fail("guard of type %s", ct)
					}
					rv, rp := build(stmts[1:])
					p := cp
					if rp != "false" {
						p = por(cp, "(negb "+cv+" && "+rp+")")
					}
					return "(if " + cv + " then false else " + rv + ")", p
				}
				if terminates(ifs.Body) {
					fail("top-level return that is not an error guard: %s", norm(c.fset, ifs.Cond))
				}
			}
			if rs, ok := s.(*ast.ReturnStmt); ok {
				if len(rs.Results) > 0 && norm(c.fset, rs.Results[len(rs.Results)-1]) != "nil" {
					fail("the function returns a possibly non-nil error before the stop marker: %s", norm(c.fset, rs))
				}
				return "true", "false"
			}
			for _, l := range t.Locals {
				if as, ok := s.(*ast.AssignStmt); ok && len(as.Lhs) == 1 && norm(c.fset, as.Lhs[0]) == l {
					let, pl, ok := c.assign(s)
					if !ok {
						fail("local %s outside the subset", l)
					}
					rv, rp := build(stmts[1:])
					if rp != "false" {
						rp = "(" + let + rp + ")"
					}
					return "(" + let + rv + ")", por(pl, rp)
				}
			}
			return build(stmts[1:])
		}
		v, p := build(body.List)
		return v, "bool", p
	}
	fail("kind %s", t.Kind)
	return "", "", ""
}

// ---------- driver ----------

func findFunc(files []*ast.File, name string) *ast.FuncDecl {
	recv := ""
	if i := strings.Index(name, "."); i >= 0 {
		recv, name = name[:i], name[i+1:]
	}
	for _, f := range files {
		for _, d := range f.Decls {
			fd, ok := d.(*ast.FuncDecl)
			if !ok || fd.Name.Name != name || fd.Body == nil {
				continue
			}
			r := ""
			if fd.Recv != nil && len(fd.Recv.List) == 1 {
				rt := fd.Recv.List[0].Type
				if st, ok := rt.(*ast.StarExpr); ok {
					rt = st.X
				}
				switch g := rt.(type) { // generic receivers: VoteProcessor[Source, Data]
				case *ast.IndexListExpr:
					rt = g.X
				case *ast.IndexExpr:
					rt = g.X
				}
				if id, ok := rt.(*ast.Ident); ok {
					r = id.Name
				}
			}
			if r == recv {
				return fd
			}
		}
	}
	return nil
}

func main() {
	repo := flag.String("repo", "/repo", "repository root")
	out := flag.String("out", "Translated.v", "output .v file")
	flag.Parse()
	fset := token.NewFileSet()
	pkgs := map[string][]*ast.File{}
	consts := map[string]map[string]ast.Expr{}
	pvars := map[string]map[string]ast.Expr{}
	load := func(dir string) []*ast.File {
		if fs, ok := pkgs[dir]; ok {
			return fs
		}
		ents, _ := os.ReadDir(filepath.Join(*repo, dir))
		var fs []*ast.File
		cs := map[string]ast.Expr{}
		vs2 := map[string]ast.Expr{}
		for _, e := range ents {
			n := e.Name()
			if !strings.HasSuffix(n, ".go") || strings.HasSuffix(n, "_test.go") || strings.Contains(n, ".pb.") {
				continue
			}
			f, err := parser.ParseFile(fset, filepath.Join(*repo, dir, n), nil, 0)
			if err != nil {
				continue
			}
			fs = append(fs, f)
			for _, d := range f.Decls {
				gd, ok := d.(*ast.GenDecl)
				if ok && gd.Tok == token.VAR {
					for _, sp := range gd.Specs {
						vs := sp.(*ast.ValueSpec)
						for i, nm := range vs.Names {
							if i < len(vs.Values) {
								vs2[nm.Name] = vs.Values[i]
							}
						}
					}
				}
				if !ok || gd.Tok != token.CONST {
					continue
				}
				for _, sp := range gd.Specs {
					vs := sp.(*ast.ValueSpec)
					for i, nm := range vs.Names {
						if i < len(vs.Values) {
							var e ast.Expr = vs.Values[i]
							if vs.Type != nil { // typed constant: uint64 = 10000
								e = &ast.CallExpr{Fun: vs.Type, Args: []ast.Expr{vs.Values[i]}}
							}
							cs[nm.Name] = e
						}
					}
				}
			}
		}
		pkgs[dir], consts[dir], pvars[dir] = fs, cs, vs2
		return fs
	}
	funcs := map[string]*Target{}
	ftypes := map[string][]string{}
	var sb strings.Builder
	sb.WriteString("(* GENERATED by /verif/translator (go2coq) from the current source of settlus/chain. Do not edit. *)\n")
	sb.WriteString("From Coq Require Import String.\nFrom Settlus Require Import Base.Prelude Base.Dec.\nFrom Settlus Require Import Base.GoSem Base.Hex Base.Keys.\nOpen Scope Z_scope.\nOpen Scope bool_scope.\n(* helpers a fragment calls are unfolded by [autounfold with translated] *)\nCreate HintDb translated.\n\n")
	okN, failN := 0, 0
	var names []string
	for i := range targets {
		t := &targets[i]
		dir := filepath.Dir(t.File)
		files := load(dir)
		// constants of the oracle types package are visible from the keeper as types.X
		cs := map[string]ast.Expr{}
		for k, v := range consts[dir] {
			cs[k] = v
		}
		if strings.HasPrefix(dir, "x/oracle") {
			load("x/oracle/types")
			for k, v := range consts["x/oracle/types"] {
				if _, ok := cs[k]; !ok {
					cs[k] = v
				}
			}
		}
		func() {
			defer func() {
				if r := recover(); r != nil {
					if f, ok := r.(failure); ok {
						failN++
						fmt.Fprintf(&sb, "(* TRANSLATION-FAILED %s: %s *)\n\n", t.Name, strings.ReplaceAll(f.msg, "*)", "* )"))
						fmt.Printf("FAILED %s: %s\n", t.Name, f.msg)
						return
					}
					panic(r)
				}
			}()
			var only []*ast.File
			for _, f := range files {
				if filepath.Base(fset.Position(f.Pos()).Filename) == filepath.Base(t.File) {
					only = append(only, f)
				}
			}
			fd := findFunc(only, t.Func)
			if fd == nil {
				fail("function %s not found in %s", t.Func, t.File)
			}
			var aux []string
			c := &tctx{fset: fset, t: t, env: map[string]string{}, consts: cs, vars: pvars[dir], funcs: funcs, ftypes: ftypes, used: map[string]bool{}, files: files, aux: &aux}
			var params []string
			var value, typ, panics string
			if t.Kind == "func" {
				var sig []string
				for _, fl := range fd.Type.Params.List {
					ty := goType(norm(fset, fl.Type))
					for _, nm := range fl.Names {
						if !okParam(ty) {
							fail("parameter %s of type %s", nm.Name, ty)
						}
						c.env[nm.Name] = ty
						params = append(params, fmt.Sprintf("(v_%s : %s)", nm.Name, coqType(ty)))
						sig = append(sig, ty)
					}
				}
				var results []string
				if fd.Type.Results != nil {
					for _, fl := range fd.Type.Results.List {
						n := len(fl.Names)
						if n == 0 {
							n = 1
						}
						for j := 0; j < n; j++ {
							results = append(results, goType(norm(fset, fl.Type)))
						}
					}
				}
				for _, a := range t.Atoms {
					params = append(params, fmt.Sprintf("(%s : %s)", a.Coq, coqType(a.Typ)))
				}
				value, panics = c.block(fd.Body.List, results)
				var cts []string
				for _, r := range results {
					if r == "error" {
						cts = append(cts, "bool")
					} else {
						cts = append(cts, coqType(r))
					}
				}
				typ = strings.Join(cts, " * ")
				if len(t.Atoms) == 0 {
					r := strings.Join(results, ",")
					if r == "error" {
						r = "bool"
					}
					funcs[fd.Name.Name] = t
					ftypes[fd.Name.Name] = append(sig, r)
				}
			} else {
				for _, a := range t.Atoms {
					params = append(params, fmt.Sprintf("(%s : %s)", a.Coq, coqType(a.Typ)))
				}
				var ty string
				// a sub-expression hoisted into a new local variable: inline its dominating definition and try again
				for attempt := 0; ; attempt++ {
					retry := ""
					func() {
						defer func() {
							if r := recover(); r != nil {
								f, ok := r.(failure)
								if !ok || attempt >= 6 {
									panic(r)
								}
								m := regexp.MustCompile(`^free identifier (\w+) `).FindStringSubmatch(f.msg)
								if m == nil {
									panic(r)
								}
								for _, l := range t.Locals {
									if l == m[1] {
										panic(r)
									}
								}
								retry = m[1]
							}
						}()
						c.env = map[string]string{}
						value, ty, panics = c.fragment(fd.Body)
					}()
					if retry == "" {
						break
					}
					t.Locals = append(t.Locals, retry)
				}
				typ = coqType(ty)
				// an atom the fragment no longer reads stays a parameter: if its disappearance changes the meaning, the tie
				// theorem fails (a broken obligation, not a lost one)
			}
			for _, a := range aux {
				sb.WriteString(a)
			}
			fmt.Fprintf(&sb, "(* %s : %s, %s %s *)\n", t.File, t.Func, t.Kind, t.Pick)
			fmt.Fprintf(&sb, "Definition %s %s : %s :=\n  %s.\n", t.Name, strings.Join(params, " "), typ, value)
			fmt.Fprintf(&sb, "Definition %s_panics %s : bool :=\n  %s.\n\n", t.Name, strings.Join(params, " "), panics)
			okN++
			names = append(names, t.Name)
		}()
	}
	sort.Strings(names)
	if err := os.WriteFile(*out, []byte(sb.String()), 0o644); err != nil {
		fmt.Println(err)
		os.Exit(2)
	}
	fmt.Printf("TRANSLATED ok=%d failed=%d targets=%d\n", okN, failN, len(targets))
}
